#!/venv/bin/python
"""Run catii's pinned suite inside a scratch worktree and compare with the stable-pass list of the baseline.
usage: tools/suite_in_worktree.py <worktree>   -> prints missing stable passes"""
import json
import os
import subprocess
import sys
import tempfile
import xml.etree.ElementTree as ET

wt = os.path.abspath(sys.argv[1])
base = json.load(open("/root/.vp/BASELINE.json"))
stable = set(base["stable_pass"])
with tempfile.TemporaryDirectory() as td:
    x = os.path.join(td, "j.xml")
    env = dict(os.environ, PYTHONPATH=os.path.join(wt, "src"))
    r = subprocess.run("/venv/bin/python -m pytest -ra -q -p no:cacheprovider --timeout=900 --continue-on-collection-errors --junitxml=%s" % x,
                       shell=True, cwd=wt, env=env, capture_output=True, text=True)
    loc = subprocess.run("/venv/bin/python -c 'import catii; print(catii.__file__)'", shell=True, cwd=wt, env=env, capture_output=True, text=True).stdout.strip()
    passed = set()
    for tc in ET.parse(x).getroot().iter("testcase"):
        if not any(c.tag in ("failure", "error", "skipped") for c in tc):
            passed.add("%s::%s" % (tc.get("classname"), tc.get("name")))
missing = sorted(stable - passed)
print(json.dumps({"worktree": wt, "catii": loc, "passed": len(passed), "stable": len(stable), "stable_missing": missing[:10]}))
sys.exit(1 if missing else 0)
