#!/venv/bin/python
"""Translator for index comparison: `iindex.__eq__` / `iindex.__ne__` in src/catii/iindexes.py -> lean/CatiiModel/Gen/EqGen.lean

`__eq__` is one boolean expression inside `try: ... except AttributeError: return False` (a non-index has no `.shape`);
`__ne__` must be `return not self.__eq__(other)` (before the repair of finding F15 there was no `__ne__` at all and `!=`
fell through to dict's).  Translated subset:

    self.X == other.X (X in shape, common)             (self.X == other.X)
    len(self) == len(other)                             (self.entries.length == other.entries.length)
    a and b and ...                                     a && b && ...
    all(E for coords, rowids in self.items())           self.entries.all fun (coords, rowids) => E
    len(numpy.setxor1d(a, b)) == 0                      (setxor1d a b).length == 0
    other.get(coords, [])                               (dget other.entries coords).getD []
"""
import ast


class Unsupported(Exception):
    pass


def expr(e, env):
    if isinstance(e, ast.BoolOp) and isinstance(e.op, ast.And):
        return "(" + " && ".join(expr(v, env) for v in e.values) + ")"
    if isinstance(e, ast.Compare) and len(e.ops) == 1 and isinstance(e.ops[0], ast.Eq):
        return "(%s == %s)" % (expr(e.left, env), expr(e.comparators[0], env))
    if isinstance(e, ast.Constant) and isinstance(e.value, int) and not isinstance(e.value, bool):
        return str(e.value)
    if isinstance(e, ast.List) and not e.elts:
        return "[]"
    if isinstance(e, ast.Name) and e.id in env:
        return env[e.id]
    if isinstance(e, ast.Attribute) and isinstance(e.value, ast.Name) and e.value.id in ("self", "other") \
            and e.attr in ("shape", "common"):
        return "%s.%s" % (e.value.id, e.attr)
    if isinstance(e, ast.Call) and isinstance(e.func, ast.Name) and e.func.id == "len" and len(e.args) == 1:
        a = e.args[0]
        if isinstance(a, ast.Name) and a.id in ("self", "other"):
            return "%s.entries.length" % a.id
        return "%s.length" % expr(a, env)
    if isinstance(e, ast.Call) and isinstance(e.func, ast.Attribute) and e.func.attr == "setxor1d" and len(e.args) == 2:
        return "(setxor1d %s %s)" % (expr(e.args[0], env), expr(e.args[1], env))
    if isinstance(e, ast.Call) and isinstance(e.func, ast.Attribute) and e.func.attr == "get" \
            and isinstance(e.func.value, ast.Name) and e.func.value.id in ("self", "other") and len(e.args) == 2:
        return "((dget %s.entries %s).getD %s)" % (e.func.value.id, expr(e.args[0], env), expr(e.args[1], env))
    if isinstance(e, ast.Call) and isinstance(e.func, ast.Name) and e.func.id == "all" and len(e.args) == 1 \
            and isinstance(e.args[0], ast.GeneratorExp) and len(e.args[0].generators) == 1:
        g = e.args[0].generators[0]
        it = g.iter
        if g.ifs or not (isinstance(it, ast.Call) and isinstance(it.func, ast.Attribute) and it.func.attr == "items"
                         and isinstance(it.func.value, ast.Name) and it.func.value.id in ("self", "other") and not it.args):
            raise Unsupported("generator " + ast.dump(g)[:160])
        if not (isinstance(g.target, ast.Tuple) and len(g.target.elts) == 2 and all(isinstance(x, ast.Name) for x in g.target.elts)):
            raise Unsupported("generator target")
        k, v = g.target.elts[0].id, g.target.elts[1].id
        env2 = dict(env)
        env2[k], env2[v] = k, v
        return "(%s.entries.all fun (%s, %s) => %s)" % (it.func.value.id, k, v, expr(e.args[0].elt, env2))
    raise Unsupported("expression " + ast.dump(e)[:200])


def generate(iidx_src):
    tree = ast.parse(iidx_src)
    cls = next(n for n in tree.body if isinstance(n, ast.ClassDef) and n.name == "iindex")
    fns = {n.name: n for n in cls.body if isinstance(n, ast.FunctionDef)}
    if "__eq__" not in fns:
        raise Unsupported("iindex defines no __eq__")
    eq = fns["__eq__"]
    body = [s for s in eq.body if not (isinstance(s, ast.Expr) and isinstance(s.value, ast.Constant))]
    if not (len(body) == 1 and isinstance(body[0], ast.Try) and len(body[0].body) == 1 and isinstance(body[0].body[0], ast.Return)
            and len(body[0].handlers) == 1 and isinstance(body[0].handlers[0].type, ast.Name)
            and body[0].handlers[0].type.id == "AttributeError" and len(body[0].handlers[0].body) == 1
            and isinstance(body[0].handlers[0].body[0], ast.Return)
            and isinstance(body[0].handlers[0].body[0].value, ast.Constant) and body[0].handlers[0].body[0].value.value is False
            and not body[0].orelse and not body[0].finalbody):
        raise Unsupported("__eq__ is not `try: return <expr> except AttributeError: return False`")
    e = expr(body[0].body[0].value, {})
    if "__ne__" not in fns:
        ne = None
    else:
        nb = [s for s in fns["__ne__"].body if not (isinstance(s, ast.Expr) and isinstance(s.value, ast.Constant))]
        ok = (len(nb) == 1 and isinstance(nb[0], ast.Return) and isinstance(nb[0].value, ast.UnaryOp)
              and isinstance(nb[0].value.op, ast.Not) and isinstance(nb[0].value.operand, ast.Call)
              and isinstance(nb[0].value.operand.func, ast.Attribute) and nb[0].value.operand.func.attr == "__eq__"
              and isinstance(nb[0].value.operand.func.value, ast.Name) and nb[0].value.operand.func.value.id == "self"
              and len(nb[0].value.operand.args) == 1 and isinstance(nb[0].value.operand.args[0], ast.Name)
              and nb[0].value.operand.args[0].id == "other")
        if not ok:
            raise Unsupported("__ne__ is not `return not self.__eq__(other)`")
        ne = "!(indexEq self other)"
    out = ("import CatiiModel.IIndex\n"
           "-- GENERATED by tools/translate_eq.py from iindex.__eq__ / __ne__ in src/catii/iindexes.py; do not edit.\n"
           "namespace Catii.EqGen\nopen Catii.IIdx\n\n"
           "/-- `iindex.__eq__(self, other)` for an `other` that is an index (any other object: AttributeError -> False) -/\n"
           "def indexEq (self other : IIndex) : Bool :=\n  %s\n\n" % e)
    if ne is None:
        out += "-- the class defines no __ne__: `!=` falls through to dict.__ne__ (finding F15)\n"
    else:
        out += "/-- `iindex.__ne__(self, other)` -/\ndef indexNe (self other : IIndex) : Bool := %s\n" % ne
    return out + "\nend Catii.EqGen\n"


if __name__ == "__main__":
    import sys
    print(generate(open(sys.argv[1] if len(sys.argv) > 1 else "/repo/src/catii/iindexes.py").read()))
