#!/venv/bin/python
"""Build catii.set_operations from /repo's *current* .pyx into /verif/.cache/ext/<sha>/<variant>/.

Variants:
  plain   - the unmodified .pyx (what every property's harness imports as catii.set_operations)
  checked - a mechanical twin: `@cython.boundscheck(False)` -> `(True)` (wraparound stays False),
            so every source-level index expression raises IndexError when out of range (C09)
  asan    - the unmodified .pyx compiled with -fsanitize=address (C09 thorough tier)

Scratch work happens in a fresh mkdtemp directory outside /repo and /verif which is
removed afterwards; only the resulting .so is kept.
"""
import hashlib
import os
import shutil
import subprocess
import sys
import tempfile

REPO = os.environ.get("CATII_REPO", "/repo")
HERE = os.path.dirname(os.path.abspath(__file__))
CACHE = os.path.join(HERE, "..", ".cache", "ext")
PYX = os.path.join(REPO, "src", "catii", "set_operations.pyx")
PY = "/venv/bin/python"

SETUP = """
import numpy, sys
from setuptools import Extension, setup
from Cython.Build import cythonize
extra = %r
ext = Extension(name="set_operations", sources=["set_operations.pyx"],
                include_dirs=[numpy.get_include()], extra_compile_args=extra, extra_link_args=%r,
                define_macros=[("NPY_NO_DEPRECATED_API", "NPY_1_7_API_VERSION")])
setup(name="x", ext_modules=cythonize([ext], language_level=3, quiet=True), script_args=["build_ext", "--inplace", "-q"])
"""


def pyx_sha():
    return hashlib.sha256(open(PYX, "rb").read()).hexdigest()[:20]


def build(variant="plain", verbose=False):
    """Return the path of the built .so for `variant` (building it if needed)."""
    sha = pyx_sha()
    outdir = os.path.abspath(os.path.join(CACHE, sha, variant))
    if os.path.isdir(outdir):
        sos = [f for f in os.listdir(outdir) if f.endswith(".so")]
        if sos:
            return os.path.join(outdir, sos[0])
    src = open(PYX, encoding="utf-8").read()
    cflags, lflags = ["-O1", "-w"], []
    if variant == "checked":
        src = src.replace("@cython.boundscheck(False)", "@cython.boundscheck(True)")
    elif variant == "asan":
        cflags = ["-O1", "-g", "-w", "-fsanitize=address", "-fno-omit-frame-pointer"]
        lflags = ["-fsanitize=address"]
    tmp = tempfile.mkdtemp(prefix="catii-ext-")
    try:
        with open(os.path.join(tmp, "set_operations.pyx"), "w", encoding="utf-8") as f:
            f.write(src)
        with open(os.path.join(tmp, "setup.py"), "w") as f:
            f.write(SETUP % (cflags, lflags))
        p = subprocess.run([PY, "setup.py"], cwd=tmp, capture_output=True, text=True)
        sos = [f for f in os.listdir(tmp) if f.endswith(".so")]
        if p.returncode != 0 or not sos:
            sys.stderr.write(p.stdout[-3000:] + p.stderr[-3000:])
            raise RuntimeError("building set_operations (%s) failed" % variant)
        os.makedirs(outdir, exist_ok=True)
        dst = os.path.join(outdir, sos[0])
        shutil.copy2(os.path.join(tmp, sos[0]), dst + ".tmp")
        os.replace(dst + ".tmp", dst)
        return dst
    finally:
        shutil.rmtree(tmp, ignore_errors=True)


if __name__ == "__main__":
    for v in (sys.argv[1:] or ["plain", "checked"]):
        print(v, build(v))
