#!/venv/bin/python
"""Translator for the re-encoding half of `iindex.shift_common` (src/catii/iindexes.py) -> lean/CatiiModel/Gen/ShiftGen.lean

After the `new_common is None` block (the `choose_common` piece, tools/translate_common.py) the method re-expresses the index:

    if new_common != self.common:                                               GUARD
        if len(self.shape) > 1:
            mask = numpy.ones(self.shape, dtype=bool)                           every cell starts "holds the common value"
            for coords, rowids in self.items():
                mask[rowids, coords[K]] = False                                 cells listed by an entry are cleared
            for col, m in enumerate(mask.T):                                    column by column, in order
                common_rowids = m.nonzero()[0].astype(self.rowid_dtype)
                if len(common_rowids):                                          NONEMPTY
                    self[KEY2] = common_rowids                                  the old common value becomes an entry
        else:
            common_rowids = self.common_rowids()                                (the `common_rowids` piece)
            if len(common_rowids):
                self[KEY1] = common_rowids
        for coords in list(self.keys()):                                        a snapshot of the keys
            if DROP(coords):
                del self[coords]                                                the new common value's entries go
        self.common = new_common

It is compiled to `Gen.shiftToGen self new_common : IIndex`: the mask of a column as a filter over `range rows` on the entries
AS THEY WERE (the mask is complete before the first insertion), dict assignment as `dset`, the deletions as a fold of `ddel`
over the key snapshot.  GUARD, K, KEY1, KEY2, NONEMPTY and DROP are compiled from the expressions found; everything else
must have the shape above.
"""
import ast


class Unsupported(Exception):
    pass


def nodoc(stmts):
    return [s for s in stmts if not (isinstance(s, ast.Expr) and isinstance(s.value, ast.Constant))]


def coords_at(e):
    """coords[K] -> K"""
    if isinstance(e, ast.Subscript) and isinstance(e.value, ast.Name) and e.value.id == "coords" and isinstance(e.slice, ast.Constant) \
            and isinstance(e.slice.value, int) and e.slice.value >= 0:
        return e.slice.value
    return None


def scalar(e, names):
    """an Int-valued expression over `self.common`, `new_common`, `col`, `coords[K]`"""
    s = ast.unparse(e)
    if s == "self.common":
        return "self.common"
    if isinstance(e, ast.Name) and e.id in names:
        return names[e.id]
    k = coords_at(e)
    if k is not None:
        return "(coords.getD %d 0)" % k
    if isinstance(e, ast.Constant) and isinstance(e.value, int) and not isinstance(e.value, bool):
        return "(%d : Int)" % e.value
    raise Unsupported("scalar expression " + s)


def compare(e, names):
    if isinstance(e, ast.Compare) and len(e.ops) == 1 and isinstance(e.ops[0], (ast.Eq, ast.NotEq)):
        op = "==" if isinstance(e.ops[0], ast.Eq) else "!="
        return "(%s %s %s)" % (scalar(e.left, names), op, scalar(e.comparators[0], names))
    if isinstance(e, ast.UnaryOp) and isinstance(e.op, ast.Not):
        return "(!%s)" % compare(e.operand, names)
    raise Unsupported("comparison " + ast.unparse(e))


def nonempty(e, var):
    s = ast.unparse(e)
    if s in ("len(%s)" % var, "len(%s) > 0" % var, "len(%s) != 0" % var, "len(%s) >= 1" % var, "%s.size" % var, "%s.size > 0" % var):
        return "%s.length != 0" % var
    raise Unsupported("non-emptiness test " + s)


def key(e, names):
    if isinstance(e, ast.Tuple):
        return "[" + ", ".join(scalar(x, names) for x in e.elts) + "]"
    raise Unsupported("entry key " + ast.unparse(e))


def insert(stmts, names):
    """[common_rowids = ...; if len(common_rowids): self[KEY] = common_rowids] (the first already checked) -> (guard, key)"""
    if not (len(stmts) == 1 and isinstance(stmts[0], ast.If) and not stmts[0].orelse and len(stmts[0].body) == 1):
        raise Unsupported("insertion of the old common value: " + "; ".join(ast.unparse(s) for s in stmts)[:160])
    a = stmts[0].body[0]
    if not (isinstance(a, ast.Assign) and len(a.targets) == 1 and isinstance(a.targets[0], ast.Subscript)
            and ast.unparse(a.targets[0].value) == "self" and ast.unparse(a.value) == "common_rowids"):
        raise Unsupported("insertion statement " + ast.unparse(a))
    return nonempty(stmts[0].test, "common_rowids"), key(a.targets[0].slice, names)


def generate(iidx_src):
    tree = ast.parse(iidx_src)
    cls = next(n for n in tree.body if isinstance(n, ast.ClassDef) and n.name == "iindex")
    fn = next(n for n in cls.body if isinstance(n, ast.FunctionDef) and n.name == "shift_common")
    if [a.arg for a in fn.args.args] != ["self", "new_common"]:
        raise Unsupported("shift_common signature")
    body = nodoc(fn.body)
    if not (len(body) == 2 and isinstance(body[0], ast.If) and ast.unparse(body[0].test) == "new_common is None"
            and isinstance(body[1], ast.If) and not body[1].orelse):
        raise Unsupported("shift_common is no longer [choose if None; re-encode if different]")
    re = body[1]
    names = {"new_common": "new_common"}
    guard = compare(re.test, names)
    rb = nodoc(re.body)
    if not (len(rb) == 3 and isinstance(rb[0], ast.If) and ast.unparse(rb[0].test) == "len(self.shape) > 1"
            and isinstance(rb[1], ast.For) and ast.unparse(rb[2]) == "self.common = new_common"):
        raise Unsupported("re-encoding block is no longer [materialise the old common; delete the new one; self.common = new_common]")
    # ---- several axes: the mask program
    many = nodoc(rb[0].body)
    if not (len(many) == 3 and ast.unparse(many[0]) == "mask = numpy.ones(self.shape, dtype=bool)"
            and isinstance(many[1], ast.For) and ast.unparse(many[1].iter) == "self.items()"
            and ast.unparse(many[1].target) in ("(coords, rowids)", "coords, rowids") and not many[1].orelse
            and isinstance(many[2], ast.For) and ast.unparse(many[2].iter) == "enumerate(mask.T)"
            and ast.unparse(many[2].target) in ("(col, m)", "col, m") and not many[2].orelse):
        raise Unsupported("the mask program of the several-axes branch changed")
    clr = nodoc(many[1].body)
    if not (len(clr) == 1 and isinstance(clr[0], ast.Assign) and ast.unparse(clr[0].value) == "False"
            and isinstance(clr[0].targets[0], ast.Subscript) and ast.unparse(clr[0].targets[0].value) == "mask"
            and isinstance(clr[0].targets[0].slice, ast.Tuple) and len(clr[0].targets[0].slice.elts) == 2
            and ast.unparse(clr[0].targets[0].slice.elts[0]) == "rowids"):
        raise Unsupported("mask clearing statement " + "; ".join(ast.unparse(s) for s in clr)[:120])
    K = coords_at(clr[0].targets[0].slice.elts[1])
    if K is None:
        raise Unsupported("mask column " + ast.unparse(clr[0].targets[0].slice.elts[1]))
    percol = nodoc(many[2].body)
    if not (len(percol) == 2 and ast.unparse(percol[0]) == "common_rowids = m.nonzero()[0].astype(self.rowid_dtype)"):
        raise Unsupported("per-column statement " + ast.unparse(percol[0])[:120])
    g2, key2 = insert(percol[1:], dict(names, col="(col : Int)"))
    # ---- one axis
    one = nodoc(rb[0].orelse)
    if not (len(one) == 2 and ast.unparse(one[0]) == "common_rowids = self.common_rowids()"):
        raise Unsupported("one-axis branch " + "; ".join(ast.unparse(s) for s in one)[:120])
    g1, key1 = insert(one[1:], names)
    # ---- deletions over a snapshot of the keys
    d = rb[1]
    if not (ast.unparse(d.iter) in ("list(self.keys())", "list(self)", "tuple(self.keys())", "tuple(self)") and ast.unparse(d.target) == "coords"
            and not d.orelse):
        raise Unsupported("deletion loop must run over a snapshot of the keys: for %s in %s" % (ast.unparse(d.target), ast.unparse(d.iter)))
    db = nodoc(d.body)
    if not (len(db) == 1 and isinstance(db[0], ast.If) and not db[0].orelse and len(db[0].body) == 1
            and ast.unparse(db[0].body[0]) == "del self[coords]"):
        raise Unsupported("deletion loop body " + "; ".join(ast.unparse(s) for s in db)[:120])
    drop = compare(db[0].test, names)
    return ("import CatiiModel.IIndex\nimport CatiiModel.Gen.MaskGen\n"
            "-- GENERATED by tools/translate_shift.py from the re-encoding block of iindex.shift_common; do not edit.\n"
            "namespace Catii.Gen\nopen Catii.IIdx\n\n"
            "/-- `shift_common(new_common)` with an explicit value: the old common value becomes entries (column by column), the\n"
            "entries of the new one are deleted -/\n"
            "def shiftToGen (self : IIndex) (new_common : Int) : IIndex :=\n"
            "  if %s then\n"
            "    let es1 :=\n"
            "      if self.shape.length > 1 then\n"
            "        (List.range (self.shape.getD 1 0)).foldl (fun es (col : Nat) =>\n"
            "          let common_rowids := (List.range self.nrows).filter fun r =>\n"
            "            !(self.entries.any fun (coords, rowids) => ((coords.getD %d 0) == (col : Int)) && rowids.contains r)\n"
            "          if %s then dset es %s common_rowids else es) self.entries\n"
            "      else\n"
            "        let common_rowids := commonRowidsGen self none\n"
            "        if %s then dset self.entries %s common_rowids else self.entries\n"
            "    let es2 := (es1.map (·.1)).foldl (fun es coords => if %s then ddel es coords else es) es1\n"
            "    { entries := es2, common := new_common, shape := self.shape }\n"
            "  else self\n\nend Catii.Gen\n" % (guard, K, g2, key2, g1, key1, drop))


if __name__ == "__main__":
    print(generate(open("/repo/src/catii/iindexes.py").read()))
