#!/venv/bin/python
"""Translator for the compiled kernels: src/catii/set_operations.pyx  ->  lean/CatiiModel/Gen/KernelsGen.lean

The two-array kernels (`set_intersect_merge_np`, `set_union_merge_np`, `set_difference_merge_np`) are written in a small
imperative subset of Cython: integer locals, typed memoryviews that are read (`a[i]`) and written (`v[i] = e`), `if / elif /
else`, `while 1:` with `break`, `while a < b:`, early `return`.  This module parses the CURRENT source (Cython declarations
are first reduced to plain Python, then `ast`), and emits one Lean definition per loop plus one per kernel:

  * every source-level `a[i]` becomes the CHECKED read `rd a i`, every `v[i] = e` the CHECKED write `wrAt v i e`
    (`Catii.Kern.Err.oobRead / oobWrite` instead of touching memory outside the buffer) - nothing is recognised as an idiom,
    the result buffer keeps its allocated size and `result_len` stays an ordinary integer;
  * a loop becomes a recursive function over the variables it assigns; `break` returns them, the end of the body (or
    `continue`) re-enters the loop; Lean must accept the termination measure the translator proposes
    (sum of `len - ptr` over the loop's exit tests) - if it does not, the build fails and the tie is reported broken;
  * Python's short-circuit `or` / `and` is kept when a later operand reads memory;
  * `numpy.empty(n)` is a buffer of n words of UNSPECIFIED content (`numpyEmpty n junk`, `junk` a parameter of the kernel).

C `int` / `uint32` arithmetic is modelled in N; every subtraction is the CHECKED `csub` (an integer that would go below
zero is an error of the model, as a negative index is an out-of-bounds access with wraparound off); lengths >= 2**31 are
outside the property.  Anything outside the subset raises Unsupported (exit status 3 of translate.py:
a broken tie, never by itself a violation).
"""
import ast
import re

KERNELS = ["set_intersect_merge_np", "set_union_merge_np", "set_difference_merge_np", "set_union_merge_many"]


class Unsupported(Exception):
    pass


# ---------------------------------------------------------------------------------------------------------------------
# Cython -> Python surface syntax
# ---------------------------------------------------------------------------------------------------------------------
CDEF = re.compile(r"^(\s*)cdef\s+(?:const\s+)?(unsigned\s+)?([A-Za-z_][\w\.]*(?:\[[:,\s]*\])?)\s+(.*)$")
SIG = re.compile(r"(?:const\s+)?(?:uint32|long|int)\[:\]\s+(\w+)")


def split_top(s):
    out, depth, cur = [], 0, ""
    for ch in s:
        if ch in "([{":
            depth += 1
        elif ch in ")]}":
            depth -= 1
        if ch == "," and depth == 0:
            out.append(cur)
            cur = ""
        else:
            cur += ch
    out.append(cur)
    return [x.strip() for x in out]


def to_python(src):
    """Reduce the Cython declarations to Python; returns (python source, {function: {var: ctype}})."""
    lines, types, fn = [], {}, None
    for line in src.split("\n"):
        code = line.split("#", 1)[0] if not line.lstrip().startswith(("'", '"')) else line
        st = code.strip()
        if st.startswith(("cimport ", "ctypedef ")):
            lines.append("")
            continue
        m = re.match(r"^def\s+(\w+)\((.*)\):\s*$", code)
        if m:
            fn = m.group(1)
            types[fn] = {}
            args = m.group(2)
            for a in SIG.finditer(args):
                types[fn][a.group(1)] = "view"
            args = SIG.sub(lambda a: a.group(1), args)
            for a in re.finditer(r"\blist\s+(\w+)", args):
                types[fn][a.group(1)] = "list"
            args = re.sub(r"\blist\s+(\w+)", r"\1", args)
            lines.append("def %s(%s):" % (fn, args))
            continue
        m = CDEF.match(code)
        if m:
            ind, _u, ctype, rest = m.groups()
            assigns = []
            for d in split_top(rest):
                name = d.split("=", 1)[0].strip()
                if not re.match(r"^\w+$", name):
                    raise Unsupported("cdef declarator %r" % d)
                if fn is not None:
                    types[fn][name] = "view" if ctype.endswith("]") else ctype
                if "=" in d:
                    assigns.append(d)
            lines.append(ind + ("; ".join(assigns) if assigns else "pass"))
            continue
        lines.append(line)
    return "\n".join(lines), types


# ---------------------------------------------------------------------------------------------------------------------
# compiler
# ---------------------------------------------------------------------------------------------------------------------
CMP = {ast.Lt: "<", ast.LtE: "≤", ast.Gt: ">", ast.GtE: "≥", ast.Eq: "=", ast.NotEq: "≠"}


def names_in(node_or_list):
    nodes = node_or_list if isinstance(node_or_list, list) else [node_or_list]
    out = set()
    for n in nodes:
        for x in ast.walk(n):
            if isinstance(x, ast.Name):
                out.add(x.id)
    return out


def assigned_in(stmts):
    out = set()
    for s in stmts:
        for x in ast.walk(s):
            if isinstance(x, (ast.Assign, ast.AugAssign)):
                tg = x.targets if isinstance(x, ast.Assign) else [x.target]
                for t in tg:
                    if isinstance(t, ast.Name):
                        out.add(t.id)
                    elif isinstance(t, ast.Subscript) and isinstance(t.value, ast.Name):
                        out.add(t.value.id)
                    else:
                        raise Unsupported("assignment target " + ast.dump(t))
    return out


def has_read(e):
    """needs a monadic step: a memory read, or a subtraction (checked: C ints may go negative, the model's naturals may not)"""
    return any(isinstance(x, ast.Subscript) or (isinstance(x, ast.BinOp) and isinstance(x.op, ast.Sub)) for x in ast.walk(e))


class Kernel:
    """Compiles one kernel function. env: source name -> Lean expression (immutable dicts are passed down)."""

    def __init__(self, fn, ctypes):
        self.fn = fn
        self.name = fn.name
        self.ctypes = ctypes
        self.alias = {}        # memoryview name -> the buffer variable it views
        self.arrays = set(a.arg for a in fn.args.args)
        self.loops = []        # generated loop definitions (text), in source order
        self.fresh = 0
        self.order = []        # variables in order of first definition
        self.lists = set()     # Python lists of arrays
        self.finished = []     # loop definitions in order of completion (inner loops first)
        self.needs_fuel = False
        # C integers that are assigned a negative literal somewhere (a `-1` sentinel): modelled in Z
        self.int_vars = set()
        for n in ast.walk(fn):
            if isinstance(n, ast.Assign) and len(n.targets) == 1 and isinstance(n.targets[0], ast.Name) \
                    and isinstance(n.value, ast.UnaryOp) and isinstance(n.value.op, ast.USub):
                self.int_vars.add(n.targets[0].id)
        self.arrays = set(a.arg for a in fn.args.args if ctypes.get(a.arg) != "list")
        self.lists = set(a.arg for a in fn.args.args if ctypes.get(a.arg) == "list")

    # -- helpers --------------------------------------------------------------------------------------------------
    def canon(self, n):
        while n in self.alias:
            n = self.alias[n]
        return n

    def new(self, base):
        self.fresh += 1
        return "%s_%d" % (base, self.fresh)

    def define(self, env, name, val):
        env = dict(env)
        env[name] = val
        if name not in self.order:
            self.order.append(name)
        return env

    def pure_expr(self, e, env):
        """expression without memory reads"""
        if isinstance(e, ast.Constant) and isinstance(e.value, int) and not isinstance(e.value, bool):
            if e.value < 0:
                raise Unsupported("negative literal in a kernel modelled over N")
            return str(e.value)
        if isinstance(e, ast.UnaryOp) and isinstance(e.op, ast.USub) and isinstance(e.operand, ast.Constant) \
                and isinstance(e.operand.value, int):
            return "(-%d : Int)" % e.operand.value
        if isinstance(e, ast.Name):
            n = self.canon(e.id)
            if n not in env:
                raise Unsupported("%s: %s is read before it is assigned" % (self.name, e.id))
            return env[n]
        if isinstance(e, ast.BinOp) and isinstance(e.op, ast.Add):
            return "(%s + %s)" % (self.pure_expr(e.left, env), self.pure_expr(e.right, env))
        if isinstance(e, ast.Compare) and len(e.ops) == 1 and type(e.ops[0]) in CMP:
            return "(%s %s %s)" % (self.pure_expr(e.left, env), CMP[type(e.ops[0])], self.pure_expr(e.comparators[0], env))
        if isinstance(e, ast.BoolOp):
            return "(" + (" ∧ " if isinstance(e.op, ast.And) else " ∨ ").join(self.pure_expr(v, env) for v in e.values) + ")"
        if isinstance(e, ast.Call) and isinstance(e.func, ast.Name) and e.func.id == "min" and len(e.args) == 2:
            return "(min %s %s)" % (self.pure_expr(e.args[0], env), self.pure_expr(e.args[1], env))
        if (isinstance(e, ast.Subscript) and isinstance(e.value, ast.Attribute) and e.value.attr == "shape"
                and isinstance(e.value.value, ast.Name) and isinstance(e.slice, ast.Constant) and e.slice.value == 0):
            return "%s.size" % self.pure_expr(e.value.value, env)
        if isinstance(e, ast.Call) and isinstance(e.func, ast.Name) and e.func.id == "len" and len(e.args) == 1:
            if isinstance(e.args[0], ast.Name) and self.canon(e.args[0].id) in self.lists:
                return "%s.length" % self.pure_expr(e.args[0], env)
            return "%s.size" % self.pure_expr(e.args[0], env)
        raise Unsupported("%s: expression %s" % (self.name, ast.dump(e)))

    def is_shape(self, e):
        return (isinstance(e, ast.Subscript) and isinstance(e.value, ast.Attribute) and e.value.attr == "shape")

    def with_reads(self, e, env, k):
        """evaluate e (reads hoisted left to right into checked binds), then k(lean expression)"""
        if not has_read(e) or self.is_shape(e):
            return k(self.pure_expr(e, env))
        if isinstance(e, ast.Subscript) and isinstance(e.value, ast.Name) and not isinstance(e.slice, ast.Slice):
            arr = self.canon(e.value.id)
            if arr not in self.arrays:
                raise Unsupported("%s: subscript of non-array %s" % (self.name, arr))

            def after_index(ix):
                v = self.new("t")
                return "(rd %s %s >>= fun %s =>\n%s)" % (env[arr], ix, v, k(v))
            return self.with_reads(e.slice, env, after_index)
        if isinstance(e, ast.BinOp) and isinstance(e.op, ast.Add):
            return self.with_reads(e.left, env, lambda a: self.with_reads(e.right, env, lambda b: k("(%s + %s)" % (a, b))))
        if isinstance(e, ast.BinOp) and isinstance(e.op, ast.Sub):
            def sub(a, b):
                v = self.new("t")
                return "(csub %s %s >>= fun %s =>\n%s)" % (a, b, v, k(v))
            return self.with_reads(e.left, env, lambda a: self.with_reads(e.right, env, lambda b: sub(a, b)))
        if isinstance(e, ast.Compare) and len(e.ops) == 1 and type(e.ops[0]) in CMP:
            op = CMP[type(e.ops[0])]
            return self.with_reads(e.left, env, lambda a: self.with_reads(e.comparators[0], env,
                                                                            lambda b: k("(%s %s %s)" % (a, op, b))))
        raise Unsupported("%s: memory read inside %s" % (self.name, ast.dump(e)))

    def cond(self, e, env, kt, kf):
        """branch on e with Python's evaluation order; kt / kf produce the code of the two continuations"""
        if isinstance(e, ast.Constant) and e.value in (1, True):
            return kt()
        if isinstance(e, ast.BoolOp) and any(has_read(v) and not self.is_shape(v) for v in e.values[1:]):
            first, rest = e.values[0], e.values[1:]
            rest_e = rest[0] if len(rest) == 1 else ast.BoolOp(op=e.op, values=rest)
            if isinstance(e.op, ast.Or):
                return self.cond(first, env, kt, lambda: self.cond(rest_e, env, kt, kf))
            return self.cond(first, env, lambda: self.cond(rest_e, env, kt, kf), kf)
        return self.with_reads(e, env, lambda c: "(if %s then\n%s\nelse\n%s)" % (c, kt(), kf()))

    # -- statements -------------------------------------------------------------------------------------------------
    def block(self, stmts, env, loop):
        """stmts: the statements still to run (the rest of the function / loop body is already appended).
        loop: None at function level, else (loop name, params, outs)."""
        if not stmts:
            if loop is None:
                raise Unsupported("%s: control reaches the end of the function without a return" % self.name)
            return self.reenter(env, loop)
        s, rest = stmts[0], stmts[1:]
        if isinstance(s, ast.Pass) or (isinstance(s, ast.Expr) and isinstance(s.value, ast.Constant)):
            return self.block(rest, env, loop)
        if isinstance(s, ast.With) and len(s.items) == 1 and isinstance(s.items[0].context_expr, ast.Name) \
                and s.items[0].context_expr.id == "nogil":
            return self.block(s.body + rest, env, loop)
        if isinstance(s, ast.Break):
            if loop is None:
                raise Unsupported("break outside a loop")
            return self.leave(env, loop)
        if isinstance(s, ast.Continue):
            if loop is None:
                raise Unsupported("continue outside a loop")
            return self.reenter(env, loop)
        if isinstance(s, ast.Return):
            if loop is not None:
                raise Unsupported("%s: return inside a loop" % self.name)
            return self.ret(s.value, env)
        if isinstance(s, ast.If):
            return self.cond(s.test, env, lambda: self.block(s.body + rest, env, loop),
                             lambda: self.block(s.orelse + rest, env, loop))
        if isinstance(s, ast.AugAssign) and isinstance(s.target, ast.Name) and isinstance(s.op, (ast.Add, ast.Sub)):
            e = ast.BinOp(left=ast.Name(id=s.target.id, ctx=ast.Load()), op=s.op, right=s.value)
            return self.with_reads(e, env, lambda v: self.block(rest, self.define(env, self.canon(s.target.id), v), loop))
        if isinstance(s, ast.Assign) and len(s.targets) == 1:
            t, v = s.targets[0], s.value
            if isinstance(t, ast.Name):
                return self.assign(t.id, v, rest, env, loop)
            if isinstance(t, ast.Subscript) and isinstance(t.value, ast.Name):
                arr = self.canon(t.value.id)
                if arr not in self.arrays:
                    raise Unsupported("%s: write through %s" % (self.name, t.value.id))
                if isinstance(t.slice, ast.Slice):
                    # result[:n] = other_array
                    if t.slice.lower is not None or t.slice.step is not None or not isinstance(v, ast.Name):
                        raise Unsupported("%s: slice assignment %s" % (self.name, ast.dump(s)))
                    n = self.pure_expr(t.slice.upper, env)
                    nv = self.new(arr)
                    return "(sliceAssign %s %s %s >>= fun %s =>\n%s)" % (
                        env[arr], n, self.pure_expr(v, env), nv, self.block(rest, self.define(env, arr, nv), loop))

                def after(ix, val):
                    nv = self.new(arr)
                    return "(wrAt %s %s %s >>= fun %s =>\n%s)" % (env[arr], ix, val, nv,
                                                                  self.block(rest, self.define(env, arr, nv), loop))
                # Cython evaluates the right-hand side, then the index
                return self.with_reads(v, env, lambda val: self.with_reads(t.slice, env, lambda ix: after(ix, val)))
        if isinstance(s, ast.For) and isinstance(s.target, ast.Name) and isinstance(s.iter, ast.Call) \
                and isinstance(s.iter.func, ast.Name) and s.iter.func.id == "range" and len(s.iter.args) == 1 and not s.orelse:
            # for v in range(n): BODY   ==   v = 0; while v < n: BODY; v += 1   (a `continue` steps v first)
            v = s.target.id
            step = ast.AugAssign(target=ast.Name(id=v, ctx=ast.Store()), op=ast.Add(), value=ast.Constant(value=1))

            class Cont(ast.NodeTransformer):
                def visit_Continue(self, node):
                    return [step, node]

                def visit_For(self, node):      # a nested loop owns its own continues
                    return node

                def visit_While(self, node):
                    return node
            body = [Cont().visit(x) for x in s.body]
            flat = []
            for x in body:
                flat.extend(x if isinstance(x, list) else [x])
            w = ast.While(test=ast.Compare(left=ast.Name(id=v, ctx=ast.Load()), ops=[ast.Lt()], comparators=[s.iter.args[0]]),
                          body=flat + [step], orelse=[])
            init = ast.Assign(targets=[ast.Name(id=v, ctx=ast.Store())], value=ast.Constant(value=0))
            for node in (w, init):
                ast.fix_missing_locations(node)
                node.lineno = s.lineno
            w.lineno = s.lineno
            return self.block([init, w] + rest, env, loop)
        if isinstance(s, ast.While):
            if s.orelse:
                raise Unsupported("while/else")
            return self.loop(s, rest, env, loop)
        raise Unsupported("%s: statement %s" % (self.name, ast.dump(s)[:200]))

    def assign(self, name, v, rest, env, loop):
        # numpy.empty(n, dtype=numpy.uint32): a fresh buffer of unspecified content
        if isinstance(v, ast.Call) and isinstance(v.func, ast.Attribute) and v.func.attr == "empty" \
                and isinstance(v.func.value, ast.Name) and v.func.value.id == "numpy":
            self.check_uint32(v)
            n = self.pure_expr(v.args[0], env)
            self.arrays.add(name)
            return self.block(rest, self.define(env, name, "(numpyEmpty %s junk)" % n), loop)
        # typed memoryview of an existing buffer: an alias
        if isinstance(v, ast.Name) and self.canon(v.id) in self.arrays and self.ctypes.get(name) == "view":
            self.alias[name] = self.canon(v.id)
            return self.block(rest, env, loop)
        if isinstance(v, ast.Name) and self.canon(v.id) in self.arrays:
            raise Unsupported("%s: array %s bound to a second name %s" % (self.name, v.id, name))
        u = ast.unparse(v)
        # the NumPy prelude of the k-way kernel, statement by statement
        m = re.match(r"^\[(\w+) for \1 in (\w+) if len\(\1\)\]$", u)
        if m and self.canon(m.group(2)) in self.lists:
            self.lists.add(name)
            return self.block(rest, self.define(env, name, "(%s.filter fun a => a.size ≠ 0)" % env[self.canon(m.group(2))]), loop)
        m = re.match(r"^numpy\.concatenate\((\w+)\)$", u)
        if m and self.canon(m.group(1)) in self.lists:
            self.arrays.add(name)
            return self.block(rest, self.define(env, name, "(concatAll %s)" % env[self.canon(m.group(1))]), loop)
        m = re.match(r"^numpy\.array\(\[(\w+)\.shape\[0\] for \1 in (\w+)\], dtype=int\)$", u)
        if m and self.canon(m.group(2)) in self.lists:
            self.arrays.add(name)
            return self.block(rest, self.define(env, name, "(%s.map fun a => a.size).toArray" % env[self.canon(m.group(2))]), loop)
        m = re.match(r"^numpy\.cumsum\((\w+)\)$", u)
        if m and self.canon(m.group(1)) in self.arrays:
            self.arrays.add(name)
            return self.block(rest, self.define(env, name, "(cumsumArr %s)" % env[self.canon(m.group(1))]), loop)
        m = re.match(r"^(\w+) - (\w+)$", u)
        if m and self.canon(m.group(1)) in self.arrays and self.canon(m.group(2)) in self.arrays:
            self.arrays.add(name)
            return self.block(rest, self.define(env, name, "(zipSub %s %s)" % (env[self.canon(m.group(1))], env[self.canon(m.group(2))])), loop)
        if name in self.int_vars:
            # a C integer with a -1 sentinel lives in Z: a natural assigned to it is cast
            if isinstance(v, ast.UnaryOp) or (isinstance(v, ast.Name) and self.canon(v.id) in self.int_vars):
                return self.block(rest, self.define(env, name, self.pure_expr(v, env)), loop)
            return self.with_reads(v, env, lambda val: self.block(rest, self.define(env, name, "(Int.ofNat %s)" % val), loop))
        return self.with_reads(v, env, lambda val: self.block(rest, self.define(env, name, val), loop))

    def check_uint32(self, call):
        for kw in call.keywords:
            if kw.arg == "dtype" and isinstance(kw.value, ast.Attribute) and kw.value.attr == "uint32":
                return
        raise Unsupported("%s: buffer allocated without dtype=numpy.uint32" % self.name)

    def ret(self, v, env):
        if isinstance(v, ast.Call) and isinstance(v.func, ast.Attribute) and isinstance(v.func.value, ast.Name) \
                and v.func.value.id == "numpy":
            f = v.func.attr
            if f == "empty":
                self.check_uint32(v)
                return "(pure (numpyEmpty %s junk))" % self.pure_expr(v.args[0], env)
            if f == "asarray" and len(v.args) == 1 and isinstance(v.args[0], ast.Name):
                return "(pure %s)" % self.pure_expr(v.args[0], env)
            if f == "concatenate" and len(v.args) == 1 and isinstance(v.args[0], ast.Tuple) and len(v.args[0].elts) == 2:
                a, b = v.args[0].elts
                return "(pure (%s ++ %s))" % (self.pure_expr(a, env), self.pure_expr(b, env))
        if isinstance(v, ast.Subscript) and isinstance(v.value, ast.Name) and isinstance(v.slice, ast.Slice) \
                and v.slice.lower is None and v.slice.step is None and v.slice.upper is not None:
            arr = self.canon(v.value.id)
            return "(pure (%s.extract 0 %s))" % (env[arr], self.pure_expr(v.slice.upper, env))
        raise Unsupported("%s: return value %s" % (self.name, ast.dump(v)[:200]))

    # -- loops ------------------------------------------------------------------------------------------------------
    def tuple_of(self, xs):
        return xs[0] if len(xs) == 1 else "(" + ", ".join(xs) + ")"

    def proj(self, r, i, n):
        if n == 1:
            return r
        return "%s%s%s" % (r, ".2" * i, ".1" if i < n - 1 else "")

    def reenter(self, env, loop):
        lname, params, _outs = loop
        return "(%s %s)" % (lname, " ".join(env[p] for p in params))

    def leave(self, env, loop):
        _l, _p, outs = loop
        return "(pure %s)" % self.tuple_of([env[o] for o in outs])

    def measure(self, s):
        """sum of (limit - pointer) over the loop's own test and its `if p >= n: break` exits"""
        terms = []

        def add(p, n):
            t = "(%s - %s)" % (n, p)
            if t not in terms:
                terms.append(t)
        if isinstance(s.test, ast.Compare) and isinstance(s.test.ops[0], ast.Lt):
            add(self.canon(s.test.left.id), self.canon(s.test.comparators[0].id))
        for x in ast.walk(s):
            if isinstance(x, ast.If) and len(x.body) == 1 and isinstance(x.body[0], ast.Break) \
                    and isinstance(x.test, ast.Compare) and isinstance(x.test.ops[0], ast.GtE) \
                    and isinstance(x.test.left, ast.Name) and isinstance(x.test.comparators[0], ast.Name):
                add(self.canon(x.test.left.id), self.canon(x.test.comparators[0].id))
        if not terms:
            raise Unsupported("%s: no termination measure for the loop at line %d" % (self.name, s.lineno))
        return " + ".join(terms)

    def ty(self, v):
        return "Array Nat" if v in self.arrays else "Int" if v in self.int_vars else "Nat"

    def loop(self, s, rest, env, outer):
        assigned = set(self.canon(n) for n in assigned_in(s.body))
        used = set(self.canon(n) for n in names_in([s.test] + s.body))
        # variables that have no value before the loop are locals of one iteration (assigned before they are read, or the
        # translation fails with "read before it is assigned")
        params = [v for v in self.order if v in env and (v in used or v in assigned)]
        live = set(self.canon(n) for n in names_in(rest))
        if outer is not None:
            live |= set(outer[1])
        outs = [v for v in params if v in assigned and v in live]
        if not outs:
            raise Unsupported("%s: loop at line %d has no effect that is used afterwards" % (self.name, s.lineno))
        lname = "%s.loop%d" % (self.name, len(self.loops) + 1)
        self.loops.append(None)
        slot = len(self.loops) - 1
        try:
            measure = self.measure(s)
        except Unsupported:
            if not (isinstance(s.test, ast.Constant) and s.test.value in (1, True)):
                raise
            measure = None           # `while 1:` without a visible bound: the loop gets FUEL, running out of it is an error
            self.needs_fuel = True
        me = (lname + (" fuel" if measure is None else ""), params, outs)
        inner_env = {p: p for p in params}
        body = self.cond(s.test, inner_env, lambda: self.block(list(s.body), inner_env, me), lambda: self.leave(inner_env, me))
        sig = " ".join("(%s : %s)" % (p, self.ty(p)) for p in params)
        rty = " × ".join(self.ty(o) for o in outs)
        if measure is None:
            self.loops[slot] = ("/-- the loop at line %d of `%s` (no bound visible in the source: `fuel` rounds at most); returns (%s) -/\n"
                                "def %s (fuel : Nat) %s : M (%s) :=\nmatch fuel with\n| 0 => throw (.value \"%s: out of fuel\")\n| fuel + 1 =>\n%s\n" % (
                                    s.lineno, self.name, ", ".join(outs), lname, sig, rty, self.name, body))
            call = "%s fuel" % lname
            self.finished.append(self.loops[slot])
        else:
            self.loops[slot] = ("/-- the loop at line %d of `%s`; returns (%s) -/\ndef %s %s : M (%s) :=\n%s\ntermination_by %s\n"
                                "decreasing_by all_goals (simp_wf; omega)\n" % (
                                    s.lineno, self.name, ", ".join(outs), lname, sig, rty, body, measure))
            call = lname
            self.finished.append(self.loops[slot])
        r = self.new("r")
        env2 = dict(env)
        for i, o in enumerate(outs):
            env2[o] = self.proj(r, i, len(outs))
        return "(%s %s >>= fun %s =>\n%s)" % (call, " ".join(env[p] for p in params), r, self.block(rest, env2, outer))

    def run(self):
        env = {}
        for a in self.fn.args.args:
            if self.ctypes.get(a.arg) not in ("view", "list"):
                raise Unsupported("%s: argument %s is neither a typed memoryview nor a list" % (self.name, a.arg))
            env = self.define(env, a.arg, a.arg)
        body = self.block(list(self.fn.body), env, None)
        args = " ".join("(%s : %s)" % (a.arg, "List (Array Nat)" if self.ctypes.get(a.arg) == "list" else "Array Nat")
                        for a in self.fn.args.args)
        main = ("/-- `%s(%s)` of set_operations.pyx, every memory access checked -/\ndef %s (junk : Nat → Nat) %s%s : "
                "M (Array Nat) :=\n%s\n" % (self.name, ", ".join(a.arg for a in self.fn.args.args), self.name,
                                             "(fuel : Nat) " if self.needs_fuel else "", args, body))
        return "\n".join(self.finished) + "\n" + main


def indent(text):
    """cosmetic: indent by parenthesis depth"""
    out, depth = [], 0
    for line in text.split("\n"):
        st = line.strip()
        if st.startswith(("def ", "/--", "termination_by", "decreasing_by", "namespace", "end ", "import", "open ", "--")) or not st:
            out.append(st)
            depth = 0 if st.startswith(("def ", "termination_by", "decreasing_by")) or not st else depth
            if st.startswith("def "):
                depth = 1
            continue
        lead = 0
        for ch in st:
            if ch == ")":
                lead += 1
            else:
                break
        out.append("  " * max(depth - lead, 0) + st)
        depth += st.count("(") - st.count(")")
    return "\n".join(out)


def decorators_ok(fn):
    """the property is about kernels compiled with bounds checks off; record what the source says"""
    flags = {}
    for d in fn.decorator_list:
        if isinstance(d, ast.Call) and isinstance(d.func, ast.Attribute) and d.args and isinstance(d.args[0], ast.Constant):
            flags[d.func.attr] = d.args[0].value
    return flags


def generate(pyx_src):
    py, types = to_python(pyx_src)
    tree = ast.parse(py)
    fns = {n.name: n for n in tree.body if isinstance(n, ast.FunctionDef)}
    parts, flags = [], {}
    for k in KERNELS:
        if k not in fns:
            raise Unsupported("kernel %s not found in set_operations.pyx" % k)
        parts.append(Kernel(fns[k], types.get(k, {})).run())
        flags[k] = decorators_ok(fns[k])
    head = ("import CatiiModel.Kernels\n"
            "-- GENERATED by tools/translate_pyx.py from src/catii/set_operations.pyx; do not edit.\n"
            "-- Every source-level a[i] is a checked read (rd), every v[i] = e a checked write (wrAt); loops are recursive\n"
            "-- functions over the variables they assign.  Decorators seen: %s\n"
            "namespace Catii.KernGen\nopen Catii.Kern\n\n" % (
                "; ".join("%s %s" % (k, ",".join("%s=%s" % kv for kv in sorted(v.items()))) for k, v in flags.items())))
    return head + indent("\n".join(parts)) + "\nend Catii.KernGen\n"


if __name__ == "__main__":
    import sys
    print(generate(open(sys.argv[1] if len(sys.argv) > 1 else "/repo/src/catii/set_operations.pyx").read()))
