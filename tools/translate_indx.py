#!/venv/bin/python
"""Translator for the INDX writer: `IndxIO.save` in src/catii/indxio.py -> lean/CatiiModel/Gen/IndxSaveGen.lean

The writer is a straight-line program over the file object.  The translator turns the CURRENT body into
  * `saveProgram : List WOp`   - every write, in source order, with the struct format's width and the field it carries,
  * `bufferSizeGen`            - the payload-size formula the writer computes before writing,
and checks the definitions the fields depend on (how the coordinate word size is chosen, which dtype the coordinate matrix is
cast to, that the row-id loop runs over the same key list as the coordinate matrix and the lengths).  Recognised forms:

    f.write(IndxIO.INDEXED_MAGIC | IndxIO.VERSION)               .const <bytes>
    f.write(struct.pack("<Q|<L|<H|<B", FIELD))                   .pack <8|4|2|1> FIELD
    f.write(struct.pack(IndxIO.format(index_word_size), FIELD))  .packFmt FIELD      (width = Gen.formatWidth wi)
    index.tofile(f)                                              .matrix             (index cast to fit_dtype(max(max(index), common)))
    lengths.tofile(f)                                            .lengths            (dtype = the row-id dtype argument)
    for i in list_index: ... entries[i].tofile(f)                .rowids

    FIELD: buffer_size | 0 if index.ndim == 1 else index.shape[1] | len(index) | index_word_size | common | dtype.itemsize

Anything else (another write, another order of evaluation, a word size taken from something else) raises Unsupported.
"""
import ast


class Unsupported(Exception):
    pass


FMT = {"<Q": 8, "<L": 4, "<H": 2, "<B": 1}


def dump(e):
    return ast.dump(e)


def parse_expr(src):
    return ast.parse(src, mode="eval").body


def same(e, src):
    return dump(e) == dump(parse_expr(src))


def field(e, defs):
    if isinstance(e, ast.Name) and e.id == "buffer_size":
        return ".bufferSize"
    if same(e, "0 if index.ndim == 1 else index.shape[1]"):
        return ".arity"
    if same(e, "len(index)"):
        return ".count"
    if isinstance(e, ast.Name) and e.id == "index_word_size":
        return ".indexWordSize"
    if isinstance(e, ast.Name) and e.id == "common":
        return ".common"
    if same(e, "dtype.itemsize"):
        return ".rowidWordSize"
    raise Unsupported("written field " + ast.unparse(e))


SIZE_TERMS = [
    ("1", "1"), ("4", "4"), ("1", "1"), ("index_word_size", "wi"), ("index.nbytes", "n * arity * wi"), ("1", "1"),
    ("len(lengths) * dtype.itemsize", "n * wr"), ("int(lengths.sum(dtype=numpy.uint64)) * dtype.itemsize", "sumLen * wr"),
]
KNOWN_TERMS = {dump(parse_expr(s)): l for s, l in SIZE_TERMS}


def size_formula(e):
    """a left-nested sum of known terms -> the Lean formula with the same association"""
    if isinstance(e, ast.BinOp) and isinstance(e.op, ast.Add):
        return "%s + %s" % (size_formula(e.left), term(e.right))
    return term(e)


def term(e):
    d = dump(e)
    if d in KNOWN_TERMS:
        return KNOWN_TERMS[d]
    raise Unsupported("payload-size term " + ast.unparse(e))


def generate(indx_src):
    tree = ast.parse(indx_src)
    cls = next(n for n in tree.body if isinstance(n, ast.ClassDef) and n.name == "IndxIO")
    save = next(n for n in cls.body if isinstance(n, ast.FunctionDef) and n.name == "save")
    if [a.arg for a in save.args.args] != ["f", "entries", "common", "dtype"]:
        raise Unsupported("IndxIO.save signature changed")
    consts = {}
    for n in cls.body:
        if isinstance(n, ast.Assign) and isinstance(n.targets[0], ast.Name) and isinstance(n.value, ast.Constant) \
                and isinstance(n.value.value, bytes):
            consts[n.targets[0].id] = list(n.value.value)
    defs = {}
    ops = []
    size = None
    for s in save.body:
        if isinstance(s, ast.Expr) and isinstance(s.value, ast.Constant):
            continue
        if isinstance(s, ast.Assign) and len(s.targets) == 1 and isinstance(s.targets[0], ast.Name):
            defs[s.targets[0].id] = s.value
            if s.targets[0].id == "buffer_size":
                if ops:
                    raise Unsupported("the payload size is computed after the first write")
                size = size_formula(s.value)
            continue
        if isinstance(s, ast.If):
            t = ast.unparse(s.test)
            if t == "len(entries) > 2 ** 32" and len(s.body) == 1 and isinstance(s.body[0], ast.Raise):
                continue
            if t == "index.dtype != index_dtype" and len(s.body) == 1 and same_stmt(s.body[0], "index = index.astype(index_dtype, copy=False)") \
                    and not s.orelse:
                if ops:
                    raise Unsupported("the coordinate matrix is cast after the first write")
                defs["__cast__"] = True
                continue
            if t == "f.tell() != 16 + buffer_size" and len(s.body) == 1 and isinstance(s.body[0], ast.Raise):
                defs["__tell__"] = True
                continue
            raise Unsupported("conditional " + t)
        if isinstance(s, ast.Expr) and isinstance(s.value, ast.Call):
            c = s.value
            f = c.func
            if isinstance(f, ast.Attribute) and isinstance(f.value, ast.Name) and f.value.id == "f" and f.attr == "write" and len(c.args) == 1:
                a = c.args[0]
                if isinstance(a, ast.Attribute) and isinstance(a.value, ast.Name) and a.value.id == "IndxIO" and a.attr in consts:
                    ops.append(".const [%s]" % ", ".join(str(b) for b in consts[a.attr]))
                    continue
                if isinstance(a, ast.Call) and ast.unparse(a.func) == "struct.pack" and len(a.args) == 2:
                    fmt = a.args[0]
                    if isinstance(fmt, ast.Constant) and fmt.value in FMT:
                        ops.append(".pack %d %s" % (FMT[fmt.value], field(a.args[1], defs)))
                        continue
                    if isinstance(fmt, ast.Name) and fmt.id in defs and same(defs[fmt.id], "IndxIO.format(index_word_size)"):
                        ops.append(".packFmt %s" % field(a.args[1], defs))
                        continue
                raise Unsupported("write of " + ast.unparse(a))
            if isinstance(f, ast.Attribute) and f.attr == "tofile" and len(c.args) == 1 and isinstance(c.args[0], ast.Name) \
                    and c.args[0].id == "f" and isinstance(f.value, ast.Name):
                if f.value.id == "index":
                    ops.append(".matrix")
                    continue
                if f.value.id == "lengths":
                    ops.append(".lengths")
                    continue
            raise Unsupported("call " + ast.unparse(c))
        if isinstance(s, ast.For):
            if not (isinstance(s.target, ast.Name) and isinstance(s.iter, ast.Name) and s.iter.id == "list_index" and not s.orelse):
                raise Unsupported("loop " + ast.unparse(s.iter))
            i = s.target.id
            body = list(s.body)
            if not (len(body) == 3 and same_stmt(body[0], "arr = entries[%s]" % i) and isinstance(body[1], ast.If)
                    and ast.unparse(body[1].test) == "arr.dtype != dtype" and len(body[1].body) == 1 and isinstance(body[1].body[0], ast.Raise)
                    and same_stmt(body[2], "arr.tofile(f)")):
                raise Unsupported("body of the row-id loop")
            ops.append(".rowids")
            continue
        raise Unsupported("statement " + ast.unparse(s)[:120])
    need = {
        "list_index": "list(entries.keys())",
        "index": "numpy.array(list_index)",
        "lengths": "numpy.array([len(entries[coords]) for coords in list_index], dtype=dtype)",
        "index_dtype": "fit_dtype(max(numpy.max(index), common) if len(index) != 0 else common)",
        "index_word_size": "index_dtype.itemsize",
    }
    for k, v in need.items():
        if k not in defs or not same(defs[k], v):
            raise Unsupported("%s is no longer `%s`" % (k, v))
    if not defs.get("__cast__"):
        raise Unsupported("the coordinate matrix is not cast to index_dtype")
    if not defs.get("__tell__"):
        raise Unsupported("the final f.tell() check is gone")
    if size is None:
        raise Unsupported("no buffer_size")
    return ("import CatiiModel.Indx\n"
            "-- GENERATED by tools/translate_indx.py from IndxIO.save in src/catii/indxio.py; do not edit.\n"
            "namespace Catii.Gen\nopen Catii.Indx\n\n"
            "/-- every write of `IndxIO.save`, in source order -/\n"
            "def saveProgram : List WOp := [\n  %s]\n\n"
            "/-- `buffer_size` as the writer computes it before writing (n entries of `arity` coordinates, coordinate words of `wi`\n"
            "bytes, row-id words of `wr` bytes, `sumLen` row ids in total; exact Python integers) -/\n"
            "def bufferSizeGen (n arity wi wr sumLen : Nat) : Nat := %s\n\nend Catii.Gen\n" % (",\n  ".join(ops), size))


# ---------------------------------------------------------------------------------------------------------------------
# the reader
# ---------------------------------------------------------------------------------------------------------------------
def generate_load(indx_src):
    """`IndxIO.load` -> `loadProgram : List ROp`: the fixed header, the mapping step, then every read from the mapped buffer
    in source order with the width it reads and the amount `offset` advances by (both taken from the source)."""
    tree = ast.parse(indx_src)
    cls = next(n for n in tree.body if isinstance(n, ast.ClassDef) and n.name == "IndxIO")
    load = next(n for n in cls.body if isinstance(n, ast.FunctionDef) and n.name == "load")
    if [a.arg for a in load.args.args] != ["f"]:
        raise Unsupported("IndxIO.load signature changed")
    body = [s for s in load.body if not (isinstance(s, ast.Expr) and isinstance(s.value, ast.Constant))]
    ops = []
    i = 0

    def nxt():
        nonlocal i
        if i >= len(body):
            raise Unsupported("IndxIO.load ends early")
        s = body[i]
        i += 1
        return s

    def expect(src, what=None):
        s = nxt()
        if not same_stmt(s, src):
            raise Unsupported("%s: expected `%s`, found `%s`" % (what or "IndxIO.load", src, ast.unparse(s)[:160]))

    def raises(s, test_src, exc="RuntimeError"):
        return (isinstance(s, ast.If) and ast.unparse(s.test) == test_src and len(s.body) == 1 and isinstance(s.body[0], ast.Raise)
                and not s.orelse and isinstance(s.body[0].exc, ast.Call) and ast.unparse(s.body[0].exc.func) == exc)

    def unpack_from(name, fmt):
        expect("%s = struct.unpack_from(%s, buf, offset=offset)[0]" % (name, fmt))

    s = nxt()
    if not raises(s, "f.read(4) != IndxIO.INDEXED_MAGIC"):
        raise Unsupported("magic test: " + ast.unparse(s)[:120])
    ops.append(".expectMagic")
    expect("version = f.read(4)")
    s = nxt()
    if not raises(s, "version != IndxIO.VERSION"):
        raise Unsupported("version test: " + ast.unparse(s)[:120])
    ops.append(".expectVersion")
    expect("buffer_size = struct.unpack('<Q', f.read(8))[0]")
    ops.append(".headerSize")
    expect("offset = 16")
    expect("buffer_length = offset + buffer_size")
    expect("buf = mmap.mmap(f.fileno(), buffer_length, flags=mmap.MAP_SHARED, prot=mmap.PROT_READ)")
    ops.append(".map")
    expect("entries = {}")
    unpack_from("index_dimensions", "'<B'")
    expect("offset += 1")
    ops.append(".unpack 1 .dims")
    unpack_from("index_length", "'<L'")
    expect("offset += 4")
    ops.append(".unpack 4 .count")
    unpack_from("index_word_size", "'<B'")
    expect("ind_format_string = IndxIO.format(index_word_size)")
    expect("offset += 1")
    ops.append(".unpack 1 .wi")
    unpack_from("common", "ind_format_string")
    expect("offset += index_word_size")
    ops.append(".unpackFmtCommon")
    expect("index = numpy.ndarray(shape=(index_length, index_dimensions), buffer=buf, dtype=IndxIO.dtype(index_word_size), offset=offset)")
    expect("offset += index.nbytes")
    expect("all_coords = [tuple(row) for row in index.tolist()]")
    ops.append(".matrix")
    s = nxt()      # the Python-2 `long` -> `int` conversion: a no-op on Python 3, any other statement here is not
    if not (isinstance(s, ast.If) and ast.unparse(s.test) == "all_coords and any((type(c) is not int for c in all_coords[0]))"
            and len(s.body) == 1 and same_stmt(s.body[0], "all_coords = [tuple([int(c) for c in row]) for row in all_coords]") and not s.orelse):
        raise Unsupported("after the coordinate matrix: " + ast.unparse(s)[:160])
    unpack_from("word_size", "'<B'")
    expect("rowid_dtype = IndxIO.dtype(word_size)")
    expect("offset += 1")
    ops.append(".unpack 1 .wr")
    expect("lengths = numpy.ndarray(shape=(len(all_coords),), buffer=buf, dtype=rowid_dtype, offset=offset)")
    expect("offset += len(lengths) * word_size")
    ops.append(".lengths")
    expect("rowid_lists = numpy.ndarray(shape=int((buffer_length - offset) / rowid_dtype.itemsize), buffer=buf, dtype=rowid_dtype, offset=offset)")
    ops.append(".rest")
    expect("ptr = 0")
    s = nxt()
    ok = (isinstance(s, ast.For) and ast.unparse(s.target) == "(length, coords)" and ast.unparse(s.iter) == "zip(lengths.tolist(), all_coords)"
          and not s.orelse and len(s.body) == 4 and same_stmt(s.body[0], "rowids = rowid_lists[ptr:ptr + length]")
          and same_stmt(s.body[1], "ptr += length") and isinstance(s.body[2], ast.If)
          and ast.unparse(s.body[2].test) == "rowids.dtype != numpy.uint32" and len(s.body[2].body) == 1
          and same_stmt(s.body[2].body[0], "rowids = rowids.astype(numpy.uint32)") and not s.body[2].orelse
          and same_stmt(s.body[3], "entries[coords] = rowids"))
    if not ok:
        raise Unsupported("the slicing loop: " + ast.unparse(s)[:200])
    ops.append(".slice")
    expect("return (entries, common, rowid_dtype)")
    if i != len(body):
        raise Unsupported("statements after the return")
    return ("import CatiiModel.Indx\n"
            "-- GENERATED by tools/translate_indx.py from IndxIO.load in src/catii/indxio.py; do not edit.\n"
            "namespace Catii.Gen\nopen Catii.Indx\n\n"
            "/-- every read of `IndxIO.load`, in source order -/\n"
            "def loadProgram : List ROp := [\n  %s]\n\nend Catii.Gen\n" % ",\n  ".join(ops))


def same_stmt(s, src):
    return ast.dump(s) == ast.dump(ast.parse(src).body[0])


if __name__ == "__main__":
    import sys
    print(generate_load(open(sys.argv[1] if len(sys.argv) > 1 else "/repo/src/catii/indxio.py").read()))
    print(generate(open(sys.argv[1] if len(sys.argv) > 1 else "/repo/src/catii/indxio.py").read()))
