#!/bin/sh
# usage: tools/seed_sweep.sh "<seeds>" [ids...]  — quick checks for several seeds (ids in parallel per seed); prints non-OK runs
seeds="$1"; shift
ids="${*:-C01 C02 C03 C04 C05 C06 C07 C08 C09 C10 C11 C12 C13 C14 C15 C16 C17 C18 C19 C20}"
cd /verif
mkdir -p .cache/sweep
for s in $seeds; do
  echo $ids | tr ' ' '\n' | VERIF_SEED=$s VERIF_EVIDENCE_DIR=/verif/.cache/sweep xargs -P 8 -I{} sh -c './check {} > .cache/sweep/{}.$VERIF_SEED.log 2>&1; echo "{} seed=$VERIF_SEED rc=$? $(tail -1 .cache/sweep/{}.$VERIF_SEED.log)"' | grep -v "rc=0"
done
echo sweep-done
