#!/bin/sh
# usage: tools/process_round.sh <round letter> <ids...> : run each stored OUT dir through try_seeded with its own check and log
rnd=$1; shift
for id in "$@"; do
  d=/tmp/mut/${id}${rnd}/OUT
  echo "=== ${id}${rnd}"
  /verif/tools/try_seeded.py $d $id 2>&1 | tail -6
done
