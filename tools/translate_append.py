#!/venv/bin/python
"""Translator for `iindex.append` (src/catii/iindexes.py), everything before the final `self.shift_common()`
-> lean/CatiiModel/Gen/AppendGen.lean

    old_numrows = self.shape[0]; new_numrows = old_numrows + other.shape[0]
    shift = self.rowid_dtype.type(old_numrows); dtype = self.ROWID_DTYPE
    if len(self.shape) > 1:
        for coords, new_rowids in other.items(): BODY                      other's entries, offset, merged into self
        if other.common != self.common:
            for col in range(self.shape[1]): BODY                          the rows holding other's common value, per column
    else:
        for coords, new_rowids in other.items(): BODY
        if other.common != self.common: BODY
    self.shape = (new_numrows,) + self.shape[1:]
    self.shift_common()

The loop bodies are COMPILED statement by statement into a function of the entry list `es`:
`x = <rows>.astype(dtype) + shift` (rows = `new_rowids`, `other.common_rowids(col)`, `other.common_rowids()`), `x = self.get(KEY)`,
`self[KEY] = x` / `numpy.append(x, y)`, `if` / `elif` / `else` on `a != b`, `x is None`, `len(x) == 0`, `continue`, `pass`.
"""
import ast


class Unsupported(Exception):
    pass


def nodoc(stmts):
    return [s for s in stmts if not (isinstance(s, ast.Expr) and isinstance(s.value, ast.Constant))]


class Body:
    def __init__(self, col):
        self.col = col          # name of the column variable, if any
        self.rows = {"new_rowids"} if col is None else set()
        self.opts = set()       # names bound to self.get(...)

    def scalar(self, e):
        s = ast.unparse(e)
        if s in ("self.common", "other.common"):
            return s
        if isinstance(e, ast.Subscript) and ast.unparse(e.value) == "coords" and isinstance(e.slice, ast.Constant) \
                and isinstance(e.slice.value, int) and e.slice.value >= 0:
            return "(coords.getD %d 0)" % e.slice.value
        if isinstance(e, ast.Name) and e.id == self.col:
            return "(%s : Int)" % e.id
        raise Unsupported("scalar " + s)

    def key(self, e):
        if isinstance(e, ast.Name) and e.id == "coords":
            return "coords"
        if isinstance(e, ast.Tuple):
            return "[" + ", ".join(self.scalar(x) for x in e.elts) + "]"
        raise Unsupported("key " + ast.unparse(e))

    def rowsexpr(self, e):
        """an expression denoting a row-id array"""
        if isinstance(e, ast.Name) and e.id in self.rows:
            return e.id
        if isinstance(e, ast.Name) and e.id in self.opts:
            return "(%s.getD [])" % e.id
        if isinstance(e, ast.BinOp) and isinstance(e.op, ast.Add) and ast.unparse(e.right) == "shift" \
                and isinstance(e.left, ast.Call) and isinstance(e.left.func, ast.Attribute) and e.left.func.attr == "astype" \
                and [ast.unparse(a) for a in e.left.args] == ["dtype"]:
            src = e.left.func.value
            if isinstance(src, ast.Name) and src.id in self.rows:
                return "(shiftRows old_numrows %s)" % src.id
            if isinstance(src, ast.Call) and ast.unparse(src.func) == "other.common_rowids" and not src.keywords:
                if len(src.args) == 0:
                    return "(shiftRows old_numrows (commonRowidsGen other none))"
                if len(src.args) == 1:
                    return "(shiftRows old_numrows (commonRowidsGen other (some %s)))" % self.scalar(src.args[0])
        if isinstance(e, ast.Call) and ast.unparse(e.func) == "numpy.append" and len(e.args) == 2 and not e.keywords:
            return "(%s ++ %s)" % (self.rowsexpr(e.args[0]), self.rowsexpr(e.args[1]))
        raise Unsupported("row-id expression " + ast.unparse(e))

    def test(self, e):
        if isinstance(e, ast.Compare) and len(e.ops) == 1:
            op, l, r = e.ops[0], e.left, e.comparators[0]
            if isinstance(op, (ast.Is, ast.IsNot)) and isinstance(l, ast.Name) and l.id in self.opts and ast.unparse(r) == "None":
                return "%s.isNone" % l.id if isinstance(op, ast.Is) else "%s.isSome" % l.id
            if isinstance(l, ast.Call) and ast.unparse(l.func) == "len" and len(l.args) == 1 and isinstance(r, ast.Constant) and r.value == 0 \
                    and isinstance(op, (ast.Eq, ast.NotEq)):
                return "(%s.length %s 0)" % (self.rowsexpr(l.args[0]), "==" if isinstance(op, ast.Eq) else "!=")
            if isinstance(op, (ast.Eq, ast.NotEq)):
                return "(%s %s %s)" % (self.scalar(l), "==" if isinstance(op, ast.Eq) else "!=", self.scalar(r))
        raise Unsupported("test " + ast.unparse(e))

    def block(self, stmts, ind):
        """statements -> a Lean term of type List (Key x Rows) (the entries afterwards); falling off the end yields `es`"""
        pad = "  " * ind
        if not stmts:
            return pad + "es"
        s, rest = stmts[0], stmts[1:]
        if isinstance(s, (ast.Continue, ast.Pass)):
            if isinstance(s, ast.Continue):
                return pad + "es"
            return self.block(rest, ind)
        if isinstance(s, ast.Assign) and len(s.targets) == 1:
            t = s.targets[0]
            if isinstance(t, ast.Name):
                if isinstance(s.value, ast.Call) and ast.unparse(s.value.func) == "self.get" and len(s.value.args) == 1 and not s.value.keywords:
                    self.opts.add(t.id)
                    return pad + "let %s := dget es %s\n" % (t.id, self.key(s.value.args[0])) + self.block(rest, ind)
                v = self.rowsexpr(s.value)
                self.rows.add(t.id)
                return pad + "let %s := %s\n" % (t.id, v) + self.block(rest, ind)
            if isinstance(t, ast.Subscript) and ast.unparse(t.value) == "self":
                return pad + "let es := dset es %s %s\n" % (self.key(t.slice), self.rowsexpr(s.value)) + self.block(rest, ind)
        if isinstance(s, ast.If):
            return (pad + "if %s then\n" % self.test(s.test) + self.block(nodoc(s.body) + rest, ind + 1) + "\n" + pad + "else\n"
                    + self.block(nodoc(s.orelse) + rest, ind + 1))
        raise Unsupported("statement " + ast.unparse(s)[:100])


def entries_loop(f):
    if not (isinstance(f, ast.For) and not f.orelse and ast.unparse(f.iter) == "other.items()"
            and ast.unparse(f.target) in ("(coords, new_rowids)", "coords, new_rowids")):
        raise Unsupported("loop over other's entries: " + ast.unparse(f)[:100])
    return Body(None).block(nodoc(f.body), 4)


def generate(iidx_src):
    tree = ast.parse(iidx_src)
    cls = next(n for n in tree.body if isinstance(n, ast.ClassDef) and n.name == "iindex")
    fn = next(n for n in cls.body if isinstance(n, ast.FunctionDef) and n.name == "append")
    body = nodoc(fn.body)
    if isinstance(body[0], ast.If) and "isinstance(other, iindex)" in ast.unparse(body[0].test):
        body = body[1:]            # the type test of the argument
    pre = [ast.unparse(s) for s in body[:4]]
    if pre != ["old_numrows = self.shape[0]", "new_numrows = old_numrows + other.shape[0]",
               "shift = self.rowid_dtype.type(old_numrows)", "dtype = self.ROWID_DTYPE"]:
        raise Unsupported("append prelude changed: " + "; ".join(pre))
    if not (len(body) == 7 and isinstance(body[4], ast.If) and ast.unparse(body[4].test) == "len(self.shape) > 1"
            and ast.unparse(body[5]) == "self.shape = (new_numrows,) + self.shape[1:]" and ast.unparse(body[6]) == "self.shift_common()"):
        raise Unsupported("append is no longer [prelude; merge per axis count; new shape; shift_common()]")

    def branch(stmts, two):
        stmts = nodoc(stmts)
        if not (len(stmts) == 2 and isinstance(stmts[1], ast.If) and not stmts[1].orelse):
            raise Unsupported("merge branch is no longer [entries loop; if commons differ: ...]")
        b1 = entries_loop(stmts[0])
        guard = Body(None).test(stmts[1].test)
        inner = nodoc(stmts[1].body)
        if two:
            if not (len(inner) == 1 and isinstance(inner[0], ast.For) and not inner[0].orelse
                    and ast.unparse(inner[0].iter) == "range(self.shape[1])" and isinstance(inner[0].target, ast.Name)):
                raise Unsupported("per-column loop " + "; ".join(ast.unparse(s) for s in inner)[:100])
            col = inner[0].target.id
            b2 = ("        (List.range (self.shape.getD 1 0)).foldl (fun es (%s : Nat) =>\n" % col
                  + Body(col).block(nodoc(inner[0].body), 5) + ") es")
        else:
            b2 = Body("__none__").block(inner, 4)
        return ("      let es := other.entries.foldl (fun es (coords, new_rowids) =>\n" + b1 + ") es\n"
                "      if %s then\n%s\n      else es" % (guard, b2))
    two = branch(body[4].body, True)
    one = branch(body[4].orelse, False)
    return ("import CatiiModel.IIndex\nimport CatiiModel.Gen.MaskGen\n"
            "-- GENERATED by tools/translate_append.py from iindex.append (everything before the final shift_common()); do not edit.\n"
            "namespace Catii.Gen\nopen Catii.IIdx\n\n"
            "/-- the receiver of `append(other)` just before the final `shift_common()` -/\n"
            "def appendPreGen (self other : IIndex) : IIndex :=\n"
            "  let old_numrows := self.nrows\n"
            "  let new_numrows := old_numrows + other.nrows\n"
            "  let es := self.entries\n"
            "  let es :=\n"
            "    if self.shape.length > 1 then\n" + two + "\n"
            "    else\n" + one + "\n"
            "  { entries := es, common := self.common, shape := new_numrows :: self.shape.drop 1 }\n\nend Catii.Gen\n")


if __name__ == "__main__":
    print(generate(open("/repo/src/catii/iindexes.py").read()))
