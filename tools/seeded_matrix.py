#!/venv/bin/python
"""Run every seeded change under /verif/seeded against the check of its own property (and optionally all checks) and
print a catch table. /repo is restored after each. usage: tools/seeded_matrix.py [--all] [names...]"""
import json
import os
import subprocess
import sys

ALL = "--all" in sys.argv
names = [a for a in sys.argv[1:] if not a.startswith("--")] or sorted(os.listdir("/verif/seeded"))
IDS = ["C%02d" % i for i in range(1, 21)]


def sh(cmd):
    return subprocess.run(cmd, shell=True, capture_output=True, text=True)


def so_swap(patch):
    if "set_operations.pyx" in open(patch).read():
        so = sh("/venv/bin/python /verif/tools/buildext.py plain").stdout.split()[-1]
        sh("cp %s /repo/src/catii/set_operations.cpython-312-x86_64-linux-gnu.so" % so)


rows = []
for n in names:
    d = os.path.join("/verif/seeded", n)
    meta = json.load(open(os.path.join(d, "meta.json")))
    patch = os.path.join(d, "patch.diff")
    assert sh("git -C /repo status --porcelain").stdout.strip() == "", "/repo not clean"
    assert sh("git -C /repo apply %s" % patch).returncode == 0, n
    try:
        so_swap(patch)
        res = {}
        for c in (IDS if ALL else [meta["property"]]):
            r = sh("cd /verif && VERIF_EVIDENCE_DIR=/verif/.cache/sweep timeout 1800 ./check %s" % c)
            v = [l for l in r.stdout.splitlines() if l.startswith("VIOLATION")]
            res[c] = "caught" + (" (no-failing-input-found)" if v and v[0].endswith("no-failing-input-found") else "") if r.returncode == 1 and v else "rc=%d" % r.returncode
    finally:
        sh("git -C /repo checkout -- .")
        so_swap(patch)
    rows.append((n, meta["property"], res))
    print(n, meta["property"], json.dumps(res), flush=True)
json.dump(rows, open("/verif/.cache/seeded_matrix.json", "w"), indent=1)
