#!/venv/bin/python
"""Translator for the intersection walk: `ccube._walk` in src/catii/ccubes.py -> lean/CatiiModel/Gen/WalkGen.lean

`_walk(self, dims, base_coords, base_rowids, funcs)` is a recursive procedure whose only effect that the properties
speak about is the sequence of calls `func(coords, rowids)` it makes (C14: "walk presents exactly ...").  The translator
turns the CURRENT body into a Lean function returning that sequence:

    statement                                         Lean (a list of emitted (coords, rowids) pairs)
    ------------------------------------------------  ------------------------------------------------------------
    a block of statements                              concatenation, in order
    if len(dims) > 1: / elif dims: / if len(x):        if ... then ... else ...
    if base_rowids is None: A else: B                  match base_rowids with | none => A | some b => B
    for coords, rowids in dims[0].items(): BODY        (items dims).flatMap fun (coords, rowids) => BODY
    for func in funcs: func(c, r)                      [(c, r)]
    self._walk(d, c, r, funcs)                         the recursive call (Lean checks termination on len(dims))
    x = set_intersect_merge_np(a, b)                   let x := Kern.inter a b   (C08: the kernel IS this merge)
    remaining_dims = dims[1:]                          let remaining_dims := dims.drop 1
    base_coords + coords / base_coords + (-1,)         base_coords ++ coords / base_coords ++ [none]
    self.intersection_data_points += ...               skipped (a diagnostic counter; named as outside the property)

Anything else (an early `return`, another attribute of `self`, a different loop) raises Unsupported: a broken tie.
"""
import ast


class Unsupported(Exception):
    pass


DIAGNOSTIC = {"intersection_data_points"}


class Walk:
    def __init__(self, fn):
        self.fn = fn
        a = [x.arg for x in fn.args.args]
        if a != ["self", "dims", "base_coords", "base_rowids", "funcs"]:
            raise Unsupported("_walk signature changed: %s" % a)
        self.fresh = 0

    def new(self, base):
        self.fresh += 1
        return "%s_%d" % (base, self.fresh)

    # types: 'dims', 'co', 'rows', 'orows'
    def expr(self, e, env):
        """-> (lean, type)"""
        if isinstance(e, ast.Name):
            if e.id not in env:
                raise Unsupported("free name %s" % e.id)
            return env[e.id]
        if isinstance(e, ast.BinOp) and isinstance(e.op, ast.Add):
            l, lt = self.expr(e.left, env)
            if lt != "co":
                raise Unsupported("+ on %s" % lt)
            if isinstance(e.right, ast.Tuple) and len(e.right.elts) == 1:
                x = e.right.elts[0]
                if isinstance(x, ast.UnaryOp) and isinstance(x.op, ast.USub) and isinstance(x.operand, ast.Constant) \
                        and x.operand.value == 1:
                    return "(%s ++ [none])" % l, "co"
                raise Unsupported("coordinate literal " + ast.dump(x))
            r, rt = self.expr(e.right, env)
            if rt != "co":
                raise Unsupported("+ on %s" % rt)
            return "(%s ++ %s)" % (l, r), "co"
        if isinstance(e, ast.Subscript) and isinstance(e.value, ast.Name) and isinstance(e.slice, ast.Slice):
            v, t = self.expr(e.value, env)
            s = e.slice
            if t == "dims" and s.upper is None and s.step is None and isinstance(s.lower, ast.Constant) and s.lower.value == 1:
                return "(%s.drop 1)" % v, "dims"
            raise Unsupported("slice " + ast.dump(e))
        if isinstance(e, ast.Call) and isinstance(e.func, ast.Name) and e.func.id == "set_intersect_merge_np" and len(e.args) == 2:
            a, at = self.expr(e.args[0], env)
            b, bt = self.expr(e.args[1], env)
            if at != "rows" or bt != "rows":
                raise Unsupported("set_intersect_merge_np on %s, %s (an operand may be None here)" % (at, bt))
            return "(Kern.inter %s %s)" % (a, b), "rows"
        raise Unsupported("expression " + ast.dump(e)[:160])

    def test(self, e, env):
        """-> ('prop', lean) | ('isnone', name)"""
        if isinstance(e, ast.Compare) and len(e.ops) == 1 and isinstance(e.ops[0], ast.Is) \
                and isinstance(e.comparators[0], ast.Constant) and e.comparators[0].value is None and isinstance(e.left, ast.Name):
            v, t = self.expr(e.left, env)
            if t != "orows":
                raise Unsupported("`is None` test of %s" % t)
            return ("isnone", e.left.id)
        if isinstance(e, ast.Compare) and len(e.ops) == 1 and isinstance(e.ops[0], ast.Gt) and self.is_len(e.left) \
                and isinstance(e.comparators[0], ast.Constant) and isinstance(e.comparators[0].value, int):
            v, t = self.expr(e.left.args[0], env)
            return ("prop", "%s.length > %d" % (v, e.comparators[0].value))
        if self.is_len(e):
            v, t = self.expr(e.args[0], env)
            if t not in ("rows", "dims"):
                raise Unsupported("len() of %s" % t)
            return ("prop", "%s ≠ []" % v)
        if isinstance(e, ast.Name):
            v, t = self.expr(e, env)
            if t != "dims":
                raise Unsupported("truth value of %s" % t)
            return ("prop", "%s ≠ []" % v)
        raise Unsupported("test " + ast.dump(e)[:160])

    @staticmethod
    def is_len(e):
        return isinstance(e, ast.Call) and isinstance(e.func, ast.Name) and e.func.id == "len" and len(e.args) == 1

    def block(self, stmts, env):
        """-> lean expression : List (Co × Rows)"""
        if not stmts:
            return "[]"
        s, rest = stmts[0], stmts[1:]

        def then(x):
            r = self.block(rest, env)
            return x if r == "[]" else "(%s ++\n%s)" % (x, r)
        if isinstance(s, ast.Expr) and isinstance(s.value, ast.Constant):
            return self.block(rest, env)
        if isinstance(s, ast.AugAssign) and isinstance(s.target, ast.Attribute) and isinstance(s.target.value, ast.Name) \
                and s.target.value.id == "self" and s.target.attr in DIAGNOSTIC:
            return self.block(rest, env)
        if isinstance(s, ast.Assign) and len(s.targets) == 1 and isinstance(s.targets[0], ast.Name):
            v, t = self.expr(s.value, env)
            n = self.new(s.targets[0].id)
            env2 = dict(env)
            env2[s.targets[0].id] = (n, t)
            return "(let %s := %s;\n%s)" % (n, v, self.block(rest, env2))
        if isinstance(s, ast.If):
            kind, c = self.test(s.test, env)
            if kind == "isnone":
                b = self.new(c)
                env_some = dict(env)
                env_some[c] = (b, "rows")
                x = "(match %s with\n| none => %s\n| some %s => %s)" % (env[c][0], self.block(s.body, env), b, self.block(s.orelse, env_some))
            else:
                x = "(if %s then\n%s\nelse\n%s)" % (c, self.block(s.body, env), self.block(s.orelse, env))
            return then(x)
        if isinstance(s, ast.For) and not s.orelse:
            # for func in funcs: func(c, r)
            if isinstance(s.target, ast.Name) and isinstance(s.iter, ast.Name) and s.iter.id == "funcs":
                if len(s.body) == 1 and isinstance(s.body[0], ast.Expr) and isinstance(s.body[0].value, ast.Call) \
                        and isinstance(s.body[0].value.func, ast.Name) and s.body[0].value.func.id == s.target.id \
                        and len(s.body[0].value.args) == 2 and not s.body[0].value.keywords:
                    c, ct = self.expr(s.body[0].value.args[0], env)
                    r, rt = self.expr(s.body[0].value.args[1], env)
                    if ct != "co" or rt != "rows":
                        raise Unsupported("callback called with (%s, %s)" % (ct, rt))
                    return then("[(%s, %s)]" % (c, r))
                raise Unsupported("loop over funcs does more than call each once")
            # for coords, rowids in dims[0].items():
            it = s.iter
            if isinstance(s.target, ast.Tuple) and len(s.target.elts) == 2 and all(isinstance(x, ast.Name) for x in s.target.elts) \
                    and isinstance(it, ast.Call) and isinstance(it.func, ast.Attribute) and it.func.attr == "items" and not it.args \
                    and isinstance(it.func.value, ast.Subscript) and isinstance(it.func.value.slice, ast.Constant) \
                    and it.func.value.slice.value == 0 and isinstance(it.func.value.value, ast.Name):
                d, dt = self.expr(it.func.value.value, env)
                if dt != "dims":
                    raise Unsupported("items() of %s" % dt)
                cn, rn = self.new(s.target.elts[0].id), self.new(s.target.elts[1].id)
                env2 = dict(env)
                env2[s.target.elts[0].id] = (cn, "co")
                env2[s.target.elts[1].id] = (rn, "rows")
                return then("((items %s).flatMap fun (%s, %s) =>\n%s)" % (d, cn, rn, self.block(s.body, env2)))
            raise Unsupported("for loop " + ast.dump(s.iter)[:120])
        if isinstance(s, ast.Expr) and isinstance(s.value, ast.Call):
            c = s.value
            if isinstance(c.func, ast.Attribute) and isinstance(c.func.value, ast.Name) and c.func.value.id == "self" \
                    and c.func.attr == "_walk" and len(c.args) == 4 and not c.keywords:
                if not (isinstance(c.args[3], ast.Name) and c.args[3].id == "funcs"):
                    raise Unsupported("recursive call changes funcs")
                d, dt = self.expr(c.args[0], env)
                co, ct = self.expr(c.args[1], env)
                r, rt = self.expr(c.args[2], env)
                if dt != "dims" or ct != "co" or rt not in ("rows", "orows"):
                    raise Unsupported("recursive call with (%s, %s, %s)" % (dt, ct, rt))
                return then("(_walk %s %s %s)" % (d, co, r if rt == "orows" else "(some %s)" % r))
        raise Unsupported("statement " + ast.dump(s)[:200])

    def run(self):
        env = {"dims": ("dims", "dims"), "base_coords": ("base_coords", "co"), "base_rowids": ("base_rowids", "orows")}
        return self.block(list(self.fn.body), env)


def indent(text):
    out, depth = [], 1
    for line in text.split("\n"):
        st = line.strip()
        lead = 0
        for ch in st:
            if ch == ")":
                lead += 1
            else:
                break
        out.append("  " * max(depth - lead, 0) + st)
        depth += st.count("(") - st.count(")")
    return "\n".join(out)


def generate(ccubes_src):
    tree = ast.parse(ccubes_src)
    cls = next(n for n in tree.body if isinstance(n, ast.ClassDef) and n.name == "ccube")
    fn = next(n for n in cls.body if isinstance(n, ast.FunctionDef) and n.name == "_walk")
    walk = next(n for n in cls.body if isinstance(n, ast.FunctionDef) and n.name == "walk")
    # `walk` must start the recursion as `self._walk(self.dims, (), None, func_or_funcs)`
    last = walk.body[-1]
    ok = (isinstance(last, ast.Expr) and isinstance(last.value, ast.Call) and isinstance(last.value.func, ast.Attribute)
          and last.value.func.attr == "_walk" and len(last.value.args) == 4
          and isinstance(last.value.args[0], ast.Attribute) and last.value.args[0].attr == "dims"
          and isinstance(last.value.args[1], ast.Tuple) and not last.value.args[1].elts
          and isinstance(last.value.args[2], ast.Constant) and last.value.args[2].value is None)
    if not ok:
        raise Unsupported("ccube.walk no longer ends with self._walk(self.dims, (), None, funcs)")
    body = Walk(fn).run()
    return ("import CatiiModel.Cube\n"
            "-- GENERATED by tools/translate_walk.py from ccube._walk / ccube.walk in src/catii/ccubes.py; do not edit.\n"
            "-- The value is the sequence of callback invocations func(coords, rowids), in order.\n"
            "namespace Catii.WalkGen\nopen Catii.Cube\n\n"
            "/-- `dims[0].items()` of a one-axis dimension: ((category,), row ids) per entry -/\n"
            "def items (dims : List Dim) : List (Co × Rows) :=\n"
            "  match dims with\n  | d :: _ => d.entries.map fun e => ([some e.1], e.2)\n  | [] => []\n\n"
            "/-- `ccube._walk(dims, base_coords, base_rowids, funcs)` at line %d -/\n"
            "def _walk (dims : List Dim) (base_coords : Co) (base_rowids : Option Rows) : List (Co × Rows) :=\n%s\n"
            "termination_by dims.length\n"
            "decreasing_by all_goals (simp_wf; (try simp only [List.length_drop]); omega)\n\n"
            "/-- `ccube.walk(funcs)`: `self._walk(self.dims, (), None, funcs)` -/\n"
            "def walk (dims : List Dim) : List (Co × Rows) := _walk dims [] none\n\n"
            "end Catii.WalkGen\n" % (fn.lineno, indent(body)))


if __name__ == "__main__":
    import sys
    print(generate(open(sys.argv[1] if len(sys.argv) > 1 else "/repo/src/catii/ccubes.py").read()))
