#!/venv/bin/python
"""Regenerate MANIFEST.json from the table below (keeps it valid and current)."""
import json
import os

HERE = os.path.dirname(os.path.abspath(__file__))
props = [json.loads(l) for l in open(os.path.join(HERE, "..", "properties.jsonl"))]

# id -> (level text, level_note, technique, design_ref)
CLAIMED = {
    "C19": (
        "Lean 4 theorems (containment, signedness, narrowest; one- and two-argument forms) about the definition "
        "regenerated from fit_dtype's source on every run; a threshold change breaks the proof, and the failing-input "
        "search then evaluates the property on the real function over the whole boundary grid.",
        "Trusted: Lean kernel (axioms propext/Classical.choice/Quot.sound only), tools/translate.py (cross-checked on "
        "~75k grid points against the real function each run), the meaning of NumPy integer dtype names.",
        "Lean 4 proof (grind) on a translator-regenerated definition + exhaustive boundary-grid correspondence",
        "DESIGN.md §5 C19"),
    "C08": (
        "Lean 4 theorems: each two-pointer kernel model (index loop with cached heads, no-overlap shortcuts, tail copies) "
        "refines a structural list merge (loop_refines), which meets the set specification on strictly increasing lists "
        "(membership iff + strictly increasing), incl. the None conventions of the wrappers and the k-way union for any "
        "number of arrays. Correspondence: impl (kernels rebuilt from the current .pyx) vs model on all pairs of subsets "
        "of a universe containing 0 and 2^32-1 and on random overlap patterns; oracle = Python set algebra on the real code.",
        "All four kernels (the k-way union included) are REGENERATED from set_operations.pyx on every run (tools/translate_pyx.py: checked reads "
        "and writes into the allocated buffer, loops as recursive functions whose termination Lean checks) and proved equal to "
        "the hand-written models for all operands (KernGenBridge.lean), so generated_*_exact are theorems about what the source "
        "says now. Trusted: Lean kernel; the translator (Cython subset -> Lean; C ints in N with checked subtraction, a -1 sentinel in Z, fuel for `while 1`); "
        "uint32 range and C int pointer width are outside the model.",
        "Lean 4 proof (translator-regenerated kernels = hand models; loop refinement by fun_induction + set algebra on sorted lists) + exhaustive small-scope correspondence of real, hand-written and regenerated kernels",
        "DESIGN.md §5 C08"),
    "C09": (
        "Lean 4 theorems for ALL arrays (no sortedness): every checked read/write of the kernel models succeeds and the "
        "written prefix fits the allocation (min(len,len), len+len, len(left)). The model's Err is tied to the code by a "
        "bounds-checked twin built mechanically from the current .pyx (IndexError <-> Err on every enumerated input) and, in "
        "the thorough tier, by an AddressSanitizer build of the unmodified .pyx.",
        "generated_kernels_in_bounds: the same for the kernels REGENERATED from the current .pyx (every source-level a[i] a "
        "checked read, every v[i] = e a checked write into a buffer of exactly the allocated size with unspecified initial "
        "content, every integer subtraction checked against going below zero). Trusted: Lean kernel; tools/translate_pyx.py; "
        "Cython/gcc lowering of index expressions; the twin differs only in boundscheck(True). "
        "Not covered: arrays of >= 2^31 elements (C int pointers).",
        "Lean 4 proof (checked accesses of translator-regenerated kernels; loop refinement) + bounds-checked twin / ASan correspondence",
        "DESIGN.md §5 C09"),
    "C10": (
        "Lean 4 theorem: for every input the writer accepts, load(save(e, c)) = (e, c, uint32) — derived from C11a (writer "
        "produces the documented layout with the width chosen by the regenerated fit_dtype) and C11b (reader inverts any "
        "documented layout). Correspondence at the semantic level (round-trip result of impl vs model); oracle = the "
        "round trip on the real code incl. Python types, rebuilt iindex == and validate().",
        "Trusted: Lean kernel; byte model of files (List of bytes), NumPy tofile/ndarray(buffer) little-endian I/O, mmap; "
        "Python-level types are checked by the harness only.",
        "Lean 4 proof (codec inversion by sequential-parser lemmas) + round-trip correspondence",
        "DESIGN.md §5 C10"),
    "C11": (
        "Lean 4 theorems in both directions about a declarative Layout relation transcribed from the format docstring: "
        "(a) the writer model emits exactly that layout with the narrowest word size and a size field equal to the payload "
        "length for unbounded totals; (b) any layout with legal word sizes (1/2/4/8 for both) loads to its data. Tie: impl "
        "bytes == Lean bytes == an independent Python encoder; impl loader on independently encoded bytes of every legal "
        "width; size field at 2^30/2^32 row ids via duck-typed arrays.",
        "IndxIO.save and IndxIO.load are REGENERATED as write / read programs (tools/translate_indx.py: every write with its struct "
        "width and field, the size formula; every read with its width and offset advance) and proved to be the model's save bytes "
        "and the model's load on every byte string: generated_writer_produces_layout, generated_reader_accepts_layout, "
        "generated_save_load_identity, generated_reader_rejects_every_prefix. Trusted: Lean kernel; the translators (width "
        "tables/magic, fit_dtype, the two programs); the docstring is the spec.",
        "Lean 4 proof (Layout relation, both directions, on translator-regenerated writer/reader programs) + byte-level correspondence against two independent codecs",
        "DESIGN.md §5 C11"),
    "C12": (
        "Lean 4 theorem: for every file the writer can produce and every cut point k < len, load(prefix k) fails, with the "
        "error class named (magic / version / short size word / mapping longer than file). Tie: the real loader is run on "
        "EVERY strict prefix of every generated file and its error class compared with the model's.",
        "Trusted: Lean kernel; assumption 'mmap of more bytes than the file holds raises' (validated on every prefix); a torn "
        "file is a prefix of the intended bytes.",
        "Lean 4 proof (case analysis on the cut point) + exhaustive-over-cut-points correspondence",
        "DESIGN.md §5 C12"),
    "C14": (
        "Lean 4 theorems about the model of ccube._walk (its four branches, running row set, margin marker): an item is "
        "delivered iff its coordinates have the right arity, are not entirely marginal, at least one row matches, and its "
        "row ids are exactly the strictly increasing list of matching rows (soundness + completeness by induction over the "
        "dims list, using C08's intersection theorem); no two deliveries share coordinates; the common category is never "
        "presented. Tie: ccube(dims).interactions() vs the model as multisets on exhaustive small cubes and random ones; "
        "oracle = the specification multiset built from the dense columns.",
        "ccube._walk is REGENERATED from ccubes.py on every run (tools/translate_walk.py: the sequence of callback invocations) "
        "and proved equal to the model for all dimensions, prefixes and running row sets (WalkGenBridge.lean): generated_walk_*. "
        "Trusted: Lean kernel; the translator (the diagnostic counter is skipped; set_intersect_merge_np is the list merge, tied "
        "to the kernel by C08); dict order is outside the property (multiset).",
        "Lean 4 proof (translator-regenerated walk = model; structural induction over dimensions) + exhaustive small-scope correspondence on interactions()",
        "DESIGN.md §5 C14"),
    "C02": (
        "Lean 4 theorem: for well-formed, row-aligned one-axis dimensions (any number incl. zero, any commons, explicit or "
        "inferred extents above every listed category) the whole output of the count-cube model — visited cells and the "
        "common cells reconstructed by marginal differencing — equals the brute-force table, and a cell is missing iff its "
        "count is zero. Chain: walk soundness/completeness (C14) => initial invariant of the filled region => "
        "inclusion-exclusion invariant of each marginal pass (proved for any additive commutative group) => output. "
        "Tie: interactions, region after fill, region after differencing and count() of the real code vs the model on "
        "exhaustive small cubes and random ones; multi-axis dims and extents at 255/256, 65535/65536 by the brute-force "
        "oracle on the real code.",
        "Trusted: Lean kernel (+ Mathlib's Finset sums); hand-written cube model tied by correspondence at four observation "
        "points; NumPy slicing/sum semantics of the differencing statement are modelled pointwise; float64 exactness of "
        "counts < 2^53; multi-axis dims are covered by the oracle and by C13's stacking model.",
        "Lean 4 proof (invariant by induction over axes, inclusion-exclusion over an AddCommGroup) + intermediate-state correspondence + the marginal pass regenerated from the source (translator) and proved to be the modelled pass",
        "DESIGN.md §5 C02"),
    "C01": (
        "Lean 4 theorem about the from_array model (counting, caller/library-chosen common incl. absent ones, many-to-one "
        "mappings, and BOTH construction strategies — per-value where and per-row scan): every cell of the resulting index "
        "holds the mapped input value (dense abstraction), hence the two strategies are indistinguishable; and the full round "
        "trip through to_array (numpy.full + one fancy-index assignment per entry, with and without a mapping on the way back, "
        "any accepted dtype; with the default dtype it cannot overflow). The 'not mapping' branch of to_array is REGENERATED "
        "from the source on every run and proved equal to the modelled method for every index and dtype, so the round-trip "
        "theorem is restated on the current to_array. Tie: from_array results of the real code vs the model (entries, common, "
        "shape) on exhaustive small arrays x the option grid and on arrays shaped to force the scan strategy; oracle = "
        "round trip on the real code via explicit dtype, default dtype and a value mapping.",
        "Trusted: Lean kernel; hand-written from_array/to_array model tied by correspondence; NumPy bincount/unique/where "
        "are inlined as list functions; the strategy switch is modelled in exact arithmetic (float division in the code). "
        "One recorded finding (int64 max) in known_findings.json.",
        "Lean 4 proof (fold invariants over both construction strategies, scatter lemma) + to_array regenerated from the source (translator) with a bridge theorem + option-grid correspondence",
        "DESIGN.md §5 C01"),
    "C06": (
        "Lean 4 refinement theorems to the dense array, one per operation: copy, shift_common (any or the library-chosen "
        "value), append, filtered, update, reindexed, sliced, collapsed, column_stack, the entry-wise set updates (through the "
        "verified kernels of C08), the forced queries, construction from arrays - and their lift to arbitrary finite "
        "histories, also when sliced / collapsed / column_stack change the higher shape along the way (history_any_shape), "
        "each under the operation's own precondition and for the one / two axes the code supports (three axes for sliced). "
        "Every operation is also modelled statement by statement and tied to the real code after EVERY step of generated "
        "histories (1..12 operations, all single operations on every small index, forced reads in between), with the NumPy "
        "reference semantics evaluated on the real code as the oracle, operands byte-compared (and still well-formed) and "
        "requested copies checked for shared storage. common_rowids, the forced queries get / items, the re-encoding block of shift_common, append and filtered (up "
        "to their final shift_common) are REGENERATED from the source on every run and proved equal to the modelled operations.",
        "Trusted: Lean kernel; the hand-written iindex model is tied to the code by correspondence for the operations that are not regenerated; NumPy primitives as list functions.",
        "Lean 4 proof (refinement per operation + induction over histories, partial) + per-step history correspondence + common_rowids, the re-encoding block of shift_common and append regenerated from the source (translator) and proved to be the modelled query / operations",
        "DESIGN.md §5 C06"),
    "C07": (
        "Lean 4: the well-formedness predicate WF as a proposition, its decidable twin wf (evaluated by the harness on every "
        "real result) proved sound, and a preservation theorem for EVERY operation of the property (construction by both "
        "strategies, copy, shift_common, append, filtered, update, reindexed, sliced, column_stack, collapsed, the entry-wise "
        "set updates), each under the operation's own precondition. validate(True), the re-encoding block of shift_common "
        "append and filtered are REGENERATED from the source and proved to be the modelled predicate / operations. The real code is "
        "checked after every step of every history (validate(True) + range/arity/non-emptiness/dtype conditions + "
        "abscissae/sparsity; operands the caller still holds included) and compared with the model.",
        "Trusted: Lean kernel; correspondence for the operations that are not regenerated; the axis restrictions of the model (one / two axes) are those of the code.",
        "Lean 4 proof (invariant preservation, partial) + per-step validation on real code and model + validate(True), shift_common's re-encoding and append regenerated from the source (translator) and proved to be the model's",
        "DESIGN.md §5 C07"),
    "C15": (
        "Lean 4 theorems: __eq__ model holds iff shape, common and dense content coincide (for well-formed indexes), is "
        "reflexive/symmetric/transitive, a different common makes indexes unequal; the value shift_common() picks maximises "
        "the code's counter (partial: that the counter equals the true cell counts is checked by the oracle). Tie: == / != on "
        "families of indexes reached by different histories vs the model; oracle on the real code: count(common) == max "
        "after every library-chosen normalisation, != is the negation of == and never raises.",
        "iindex.__eq__ / __ne__ are REGENERATED from the source on every run (tools/translate_eq.py) and proved equal to the model "
        "and its negation: generated_eq_iff_same_content, generated_ne_is_negation (a class without __ne__, or one that is not "
        "`not __eq__`, does not translate). The counter is exact (Counting.lean), so the chosen value is a most frequent one. "
        "Trusted: Lean kernel (+ Batteries list permutations); the translator; correspondence for the histories producing the indexes.",
        "Lean 4 proof (canonicity of the translator-regenerated equality via the dense abstraction; exact counter, argmax) + cross-history correspondence",
        "DESIGN.md §5 C15"),
    "C03": (
        "Lean 4 theorem (exact arithmetic over Q): for every aggregate (count, valid_count, sum, mean), weight form, fact "
        "form and missing policy, the index-cube model (walk + fill + marginal differencing of each region), the "
        "array-cube model (bincount over strided coordinates; mixed-radix injectivity proved) and the direct per-cell "
        "computation coincide on every output cell; every region is shown to be a per-cell sum for any additive commutative "
        "group. Partial w.r.t. float64: rounding is outside the model; the 1e-8 near-zero rule of the index cube appears "
        "as an explicit hypothesis. Tie: real ccube and xcube vs the model, exactly, on the dyadic stream; oracle = direct "
        "Fraction group-by on the real code's outputs (exact on dyadic inputs, 1e-9 x total on general doubles).",
        "Trusted: Lean kernel + Mathlib Finset sums/Rat order; the aggregate model is one fact column at a time; NumPy "
        "bincount/nansum/boolean masks are modelled as list sums; IEEE-754 only through the exact stream.",
        "Lean 4 proof (measure cubes = per-cell sums; mixed radix) + exact-stream correspondence of both cube types + strided coordinates regenerated from xcube._set_strides (translator) with a no-wrap theorem",
        "DESIGN.md §5 C03"),
    "C04": (
        "Lean 4 theorems: the missing-cell rule of the reference computation in terms of the rows of the cell (no valid "
        "row / some missing row unless ignored / mean with zero valid weight; unweighted count: no row), which by C03 is "
        "the rule of both cube types; the three report formats render the same missing set and identical values elsewhere; "
        "the computed cell does not depend on the format (the documented valid_count shortcut excluded). Tie/oracle: every "
        "aggregate x both cube types x five formats on the real code, rule checked per cell from the rows, formats "
        "cross-compared, model rendering compared.",
        "Trusted: as C03. What a missing cell holds (sentinel possibly truncated by an integer region) is not part of the "
        "property and is not compared.",
        "Lean 4 proof (decision logic over counters) + cross-format correspondence + missing-cell decisions of all reduce methods regenerated from the source (translator) and proved to be the model's",
        "DESIGN.md §5 C04"),
    "C05": (
        "Lean 4 theorems: every aggregate of the index cube is a function of the dense content of its dimensions only "
        "(from C03), and shift_common(v) leaves the dense column of a cube dimension unchanged (from C06) for any v>=0 — "
        "hence replacing a dimension by any re-encoding changes no cell, missing cells included. Tie/oracle: for every "
        "dimension and every v in 0..extent (+ one outside) the real cube outputs of all aggregates are compared with the "
        "unshifted cube, also after re-normalising; model count cube of the shifted dims compared.",
        "Trusted: as C03/C06; both cubes use the same explicit extents covering both commons.",
        "Lean 4 proof (corollary of the refinement theorems) + re-encoding sweep on the real code + the marginal pass regenerated from the source writes each dimension's own common slice + shift_common's re-encoding regenerated from the source and proved unobservable in every aggregate",
        "DESIGN.md §5 C05"),
    "C16": (
        "Lean 4 theorem: tasks whose steps change only their own footprint and depend only on it, with pairwise disjoint "
        "footprints, leave the same store under ANY schedule that preserves each task's own step order (every interleaving "
        "and the serial loop); the views of distinct sub-cubes are disjoint cell sets. Partial: that the real tasks are "
        "disciplined is established by the harness, not by proof: region views checked pairwise with numpy.shares_memory, "
        "all/seeded task permutations, a deterministic seeded scheduler interleaving workers at source-line granularity, "
        "real ThreadPools of size 1..16 under a 1e-6 s switch interval, a pool that reaches the end state of a LOST UPDATE of the unlocked diagnostic counters, outputs compared bit-for-bit with the serial run.",
        "Trusted: Lean kernel; the GIL, NumPy's internal locking and the allocator are outside the model; the seeded "
        "scheduler interleaves at source-line (not single-bytecode) granularity of catii code.",
        "Lean 4 proof (frame + locality => commutation, induction over schedules, partial) + deterministic seeded scheduling + driver facts regenerated from ccube.calculate / xcube.calculate (translator) discharging the model's assumptions about task footprints (stores only to diagnostics, no read of a diagnostic outside its own bookkeeping)",
        "DESIGN.md §5 C16"),
    "C20": (
        "Lean 4 theorems about the driver fold with a raising callback: serial evaluation stops at the first raising "
        "consultation, propagates that exception and consulted the callback exactly k+1 times; without a raise exactly once "
        "per sub-cube with the uninterrupted result; pooled (map semantics): raises iff some consultation raised, one of the "
        "raised exceptions, all sub-cubes consulted; a following evaluation is a fresh one. Partial: pool/thread lifetime is "
        "observed, not proved: every cancellation index (serial), subsets of invocations (permuting pool, seeded line-level "
        "scheduler, real ThreadPool under a hard timeout), exception identity, call counts, bit-for-bit re-use.",
        "Trusted: Lean kernel; CPython ThreadPool semantics; interrupts are Exception subclasses (a BaseException case is "
        "checked too).",
        "Lean 4 proof (fold with raising callback) + fault enumeration at every cancellation point + driver facts regenerated from the source (callback first and once per task, pool.map re-raise) discharging the model's assumptions",
        "DESIGN.md §5 C20"),
    "C13": (
        "Lean 4 theorems about the slices1d model: every yielded pair is labelled with its higher coordinates in axis order "
        "and is the well-formed one-axis index whose dense column is the column of the original at those coordinates, and "
        "every combination is yielded (induction over the axes, via the bucket lemma); the stacked cube model stores, under "
        "each concatenated label, the aggregate over exactly those slices, and every choice of slices has its block. "
        "Tie/oracle: result shapes and every block of every aggregate on both cube types are compared on the real code with "
        "the same aggregate over the 1-D slices; slices1d of the real code vs the model.",
        "Trusted: as C03/C06; NumPy indexing of region[flattened_slice] is modelled as label association.",
        "Lean 4 proof (slices1d by induction over axes; product membership) + block-wise comparison on the real code + slices1d regenerated from the source (translator) and proved to be the modelled slice iteration",
        "DESIGN.md §5 C13"),
    "C17": (
        "Lean 4: a may-alias analysis over alias/fresh/write programs is proved sound w.r.t. a heap semantics (a program that "
        "passes never changes a caller-owned buffer), and the programs are REGENERATED from the Python source of every "
        "aggregate-function constructor (all control-flow paths, as_separate_validity inlined) on every run and all pass by "
        "kernel evaluation — removing a defensive copy breaks the proof. Hidden state: definitional in the cube model; for "
        "the real code the harness byte-compares every argument before/after construction and calculate, checks results for "
        "shared memory, compares calculate(list)[i] with calculate([f])[0] over all permutations, repeated calls and re-used "
        "function objects, and snapshots receivers/arguments of the non-mutating index methods. Partial: fill/reduce methods "
        "and index methods are not translated; global interpreter state is outside the model.",
        "Trusted: Lean kernel; tools/translate.py's classification of NumPy expressions into alias / fresh (views vs copies).",
        "Lean 4 proof (sound alias analysis on translator-regenerated constructor programs) + byte-level purity harness + regions-fresh-per-call fact regenerated from the drivers",
        "DESIGN.md §5 C17"),
    "C18": (
        "Lean 4 theorems: for ANY per-bin functional the array cube applies it to exactly the rows of the cell and the bins "
        "partition the rows (mixed-radix injectivity of the strided coordinates); the stddev missing rule; scale invariance "
        "of the weighted-quantile model. Partial: NumPy's quantile/cov/corrcoef/std, square roots and rounding are "
        "parameters; variance and weighted-quantile models are tied by correspondence on the rows of each cell; the "
        "statistics are recomputed per cell with NumPy on the real code's outputs (oracle), formats cross-compared.",
        "Trusted: Lean kernel + Mathlib order lemmas on Q; NumPy's per-bin statistics; float tolerance 1e-9.",
        "Lean 4 proof (bin partition, decision logic, scale invariance; partial) + per-cell recomputation on the real code + stddev missing rule regenerated from xfunc_stddev.reduce (translator)",
        "DESIGN.md §5 C18"),
}
PENDING = {}

checks, na = [], []
for p in props:
    i = p["id"]
    if i in CLAIMED:
        text, note, tech, ref = CLAIMED[i]
        checks.append({
            "property_id": i,
            "quick_cmd": "./check %s --tier quick" % i,
            "thorough_cmd": "./check %s --tier thorough" % i,
            "evidence_file": "evidence/%s.json" % i,
            "replay_cmd_template": "./check %s --replay {path}" % i,
            "engine": "lean-proof+correspondence",
            "level_claimed": {"category": "proof", "text": text, "design_ref": ref},
            "level_note": note,
            "technique": tech,
        })
    else:
        na.append({"property_id": i, "reason": PENDING.get(
            i, "not claimed yet: model/theorems for this property are still being built (see DESIGN.md §9 build order); "
               "the technique applies and the property will move to `checks` when its check exists")})

manifest = {
    "version": 1,
    "setup_cmd": "/venv/bin/python tools/translate.py && /venv/bin/python tools/buildext.py plain checked && cd lean && lake build CatiiModel CatiiProofs CatiiProps",
    "hooks": {
        "guard": "CATII_VERIF",
        "enable": "no source hooks: every observation point is public API; instrumented kernel builds are made from scratch copies of the current .pyx (tools/buildext.py)",
        "baseline_off_cmd": "cd /repo && /venv/bin/python -m pytest -ra -q -p no:cacheprovider --timeout=900 --continue-on-collection-errors",
        "source_commits": [],
        "add_only": True,
    },
    "engines": [{
        "name": "lean-proof+correspondence",
        "path": "check",
        "serves_properties": [c["property_id"] for c in checks],
        "kind_free_text": "Lean 4 theorems about executable models (lean/), tied to /repo by a translator (Gen/*.lean) and by a "
                          "differential correspondence harness (harness/) driving the real code and the Lean model with the same inputs",
    }],
    "checks": checks,
    "not_applicable": na,
    "notes": "See DESIGN.md. Exit 0 held / 1 VIOLATION / 2 infrastructure. known_findings.json lists recorded and fixed defects.",
}
with open(os.path.join(HERE, "..", "MANIFEST.json"), "w") as f:
    json.dump(manifest, f, indent=1)
    f.write("\n")
print("claimed:", [c["property_id"] for c in checks])
