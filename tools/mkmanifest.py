#!/venv/bin/python
"""Regenerate MANIFEST.json from the table below (keeps it valid and current)."""
import json
import os

HERE = os.path.dirname(os.path.abspath(__file__))
props = [json.loads(l) for l in open(os.path.join(HERE, "..", "properties.jsonl"))]

# id -> (level text, level_note, technique, design_ref)
CLAIMED = {
    "C19": (
        "Lean 4 theorems (containment, signedness, narrowest; one- and two-argument forms) about the definition "
        "regenerated from fit_dtype's source on every run; a threshold change breaks the proof, and the failing-input "
        "search then evaluates the property on the real function over the whole boundary grid.",
        "Trusted: Lean kernel (axioms propext/Classical.choice/Quot.sound only), tools/translate.py (cross-checked on "
        "~75k grid points against the real function each run), the meaning of NumPy integer dtype names.",
        "Lean 4 proof (grind) on a translator-regenerated definition + exhaustive boundary-grid correspondence",
        "DESIGN.md §5 C19"),
}
PENDING = {}

checks, na = [], []
for p in props:
    i = p["id"]
    if i in CLAIMED:
        text, note, tech, ref = CLAIMED[i]
        checks.append({
            "property_id": i,
            "quick_cmd": "./check %s --tier quick" % i,
            "thorough_cmd": "./check %s --tier thorough" % i,
            "evidence_file": "evidence/%s.json" % i,
            "replay_cmd_template": "./check %s --replay {path}" % i,
            "engine": "lean-proof+correspondence",
            "level_claimed": {"category": "proof", "text": text, "design_ref": ref},
            "level_note": note,
            "technique": tech,
        })
    else:
        na.append({"property_id": i, "reason": PENDING.get(
            i, "not claimed yet: model/theorems for this property are still being built (see DESIGN.md §9 build order); "
               "the technique applies and the property will move to `checks` when its check exists")})

manifest = {
    "version": 1,
    "setup_cmd": "/venv/bin/python tools/translate.py && /venv/bin/python tools/buildext.py plain checked && cd lean && lake build CatiiModel CatiiProofs CatiiProps",
    "hooks": {
        "guard": "CATII_VERIF",
        "enable": "no source hooks: every observation point is public API; instrumented kernel builds are made from scratch copies of the current .pyx (tools/buildext.py)",
        "baseline_off_cmd": "cd /repo && /venv/bin/python -m pytest -ra -q -p no:cacheprovider --timeout=900 --continue-on-collection-errors",
        "source_commits": [],
        "add_only": True,
    },
    "engines": [{
        "name": "lean-proof+correspondence",
        "path": "check",
        "serves_properties": [c["property_id"] for c in checks],
        "kind_free_text": "Lean 4 theorems about executable models (lean/), tied to /repo by a translator (Gen/*.lean) and by a "
                          "differential correspondence harness (harness/) driving the real code and the Lean model with the same inputs",
    }],
    "checks": checks,
    "not_applicable": na,
    "notes": "See DESIGN.md. Exit 0 held / 1 VIOLATION / 2 infrastructure. known_findings.json lists recorded and fixed defects.",
}
with open(os.path.join(HERE, "..", "MANIFEST.json"), "w") as f:
    json.dump(manifest, f, indent=1)
    f.write("\n")
print("claimed:", [c["property_id"] for c in checks])
