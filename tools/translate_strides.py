#!/venv/bin/python
"""Translator for the array cube's strided coordinates: `xcube._set_strides` and `xcube.strided_dims` in src/catii/xcubes.py
-> lean/CatiiModel/Gen/StridesGen.lean

    multipliers = numpy.cumprod(list(reversed(self.interacting_shape)))      list expressions over the extents:
    self.multipliers = numpy.append(numpy.flip(multipliers)[1:], [1])        cumprod / reversed / flip / [1:] / append / [-1] / len
    maxmult = multipliers[-1] if len(multipliers) else 1
    for mintype in [numpy.uint8, numpy.uint16, numpy.uint32]:                a ladder `if maxmult <= 2^bits - 1` in the order of
        maxint = numpy.iinfo(mintype).max                                    the list, `none` (TypeError) after the last
        if maxmult <= maxint: break
    else: raise TypeError(...)
    strided_dims:  sd = dim.astype(self.mintype); if m != 1: sd = sd * m     cast FIRST (wraps modulo 2^bits), then the product
                                                                             (widened by NumPy: the multiplier is an int64 scalar)
"""
import ast


class Unsupported(Exception):
    pass


BITS = {"uint8": 8, "uint16": 16, "uint32": 32, "uint64": 64}


def lst(e, env):
    """list-valued expression over the extents"""
    if isinstance(e, ast.Name) and e.id in env:
        return env[e.id]
    if isinstance(e, ast.Attribute) and isinstance(e.value, ast.Name) and e.value.id == "self" and e.attr == "interacting_shape":
        return "shape"
    if isinstance(e, ast.List) and all(isinstance(x, ast.Constant) and isinstance(x.value, int) for x in e.elts):
        return "[%s]" % ", ".join(str(x.value) for x in e.elts)
    if isinstance(e, ast.Call):
        f = ast.unparse(e.func)
        if f == "numpy.cumprod" and len(e.args) == 1:
            return "(cumprod %s)" % lst(e.args[0], env)
        if f == "list" and len(e.args) == 1:
            return lst(e.args[0], env)
        if f in ("reversed", "numpy.flip") and len(e.args) == 1:
            return "(%s).reverse" % lst(e.args[0], env)
        if f == "numpy.append" and len(e.args) == 2:
            return "(%s ++ %s)" % (lst(e.args[0], env), lst(e.args[1], env))
    if isinstance(e, ast.Subscript) and isinstance(e.slice, ast.Slice) and e.slice.upper is None and e.slice.step is None \
            and isinstance(e.slice.lower, ast.Constant) and isinstance(e.slice.lower.value, int) and e.slice.lower.value >= 0:
        return "((%s).drop %d)" % (lst(e.value, env), e.slice.lower.value)
    raise Unsupported("list expression " + ast.unparse(e))


def num(e, env):
    if isinstance(e, ast.Constant) and isinstance(e.value, int):
        return str(e.value)
    if isinstance(e, ast.Subscript) and isinstance(e.slice, ast.UnaryOp) and isinstance(e.slice.op, ast.USub) \
            and isinstance(e.slice.operand, ast.Constant) and e.slice.operand.value == 1:
        return "((%s).getLastD 0)" % lst(e.value, env)
    if isinstance(e, ast.IfExp) and isinstance(e.test, ast.Call) and ast.unparse(e.test.func) == "len" and len(e.test.args) == 1:
        return "(if (%s).length ≠ 0 then %s else %s)" % (lst(e.test.args[0], env), num(e.body, env), num(e.orelse, env))
    raise Unsupported("number " + ast.unparse(e))


def same_stmt(s, src):
    return ast.dump(s) == ast.dump(ast.parse(src).body[0])


def generate(xcubes_src):
    tree = ast.parse(xcubes_src)
    cls = next(n for n in tree.body if isinstance(n, ast.ClassDef) and n.name == "xcube")
    fns = {n.name: n for n in cls.body if isinstance(n, ast.FunctionDef)}
    body = [s for s in fns["_set_strides"].body if not (isinstance(s, ast.Expr) and isinstance(s.value, ast.Constant))]
    env, out = {}, {}
    loop = None
    for s in body:
        if isinstance(s, ast.Assign) and len(s.targets) == 1:
            t = s.targets[0]
            if isinstance(t, ast.Name) and t.id == "maxmult":
                out["maxmult"] = num(s.value, env)
                continue
            if isinstance(t, ast.Name):
                env[t.id] = lst(s.value, env)
                continue
            if isinstance(t, ast.Attribute) and isinstance(t.value, ast.Name) and t.value.id == "self":
                if t.attr == "multipliers":
                    out["multipliers"] = lst(s.value, env)
                    continue
                if t.attr == "mintype" and isinstance(s.value, ast.Name) and loop is not None and s.value.id == loop:
                    out["mintype_stored"] = True
                    continue
        if isinstance(s, ast.For) and isinstance(s.target, ast.Name) and isinstance(s.iter, ast.List):
            names = []
            for x in s.iter.elts:
                u = ast.unparse(x)
                if not (u.startswith("numpy.") and u[6:] in BITS):
                    raise Unsupported("candidate dtype " + u)
                names.append(u[6:])
            v = s.target.id
            if not (len(s.body) == 2 and same_stmt(s.body[0], "maxint = numpy.iinfo(%s).max" % v) and isinstance(s.body[1], ast.If)
                    and ast.unparse(s.body[1].test) == "maxmult <= maxint" and len(s.body[1].body) == 1
                    and isinstance(s.body[1].body[0], ast.Break) and not s.body[1].orelse
                    and len(s.orelse) == 1 and isinstance(s.orelse[0], ast.Raise)):
                raise Unsupported("the dtype ladder: " + ast.unparse(s)[:200])
            out["ladder"] = names
            loop = v
            continue
        raise Unsupported("statement " + ast.unparse(s)[:160])
    for k in ("multipliers", "maxmult", "ladder", "mintype_stored"):
        if k not in out:
            raise Unsupported("_set_strides no longer sets " + k)
    sd = [s for s in fns["strided_dims"].body if not (isinstance(s, ast.Expr) and isinstance(s.value, ast.Constant))]
    ok = (len(sd) == 3 and same_stmt(sd[0], "sds = []") and isinstance(sd[1], ast.For)
          and ast.unparse(sd[1].target) == "(m, dim)" and ast.unparse(sd[1].iter) == "zip(self.multipliers, self.dims)"
          and len(sd[1].body) == 3 and same_stmt(sd[1].body[0], "sd = dim.astype(self.mintype)")
          and isinstance(sd[1].body[1], ast.If) and ast.unparse(sd[1].body[1].test) == "m != 1"
          and len(sd[1].body[1].body) == 1 and same_stmt(sd[1].body[1].body[0], "sd = sd * m") and not sd[1].body[1].orelse
          and same_stmt(sd[1].body[2], "sds.append(sd)") and same_stmt(sd[2], "return sds"))
    if not ok:
        raise Unsupported("strided_dims is no longer `astype(mintype)` then `* m` per dimension")
    ladder = " else ".join("if maxmult shape ≤ %d then some %d" % (2 ** BITS[n] - 1, BITS[n]) for n in out["ladder"]) + " else none"
    return ("-- GENERATED by tools/translate_strides.py from xcube._set_strides / strided_dims in src/catii/xcubes.py; do not edit.\n"
            "namespace Catii.StridesGen\n\n"
            "/-- `numpy.cumprod` -/\n"
            "def cumprodFrom (acc : Nat) : List Nat → List Nat\n  | [] => []\n  | x :: xs => (acc * x) :: cumprodFrom (acc * x) xs\n"
            "def cumprod (l : List Nat) : List Nat := cumprodFrom 1 l\n\n"
            "/-- `self.multipliers` for the extents `shape` -/\n"
            "def multipliers (shape : List Nat) : List Nat := %s\n\n"
            "/-- `maxmult` -/\ndef maxmult (shape : List Nat) : Nat := %s\n\n"
            "/-- bits of `self.mintype` (none: TypeError, too many cells) -/\n"
            "def mintypeBits (shape : List Nat) : Option Nat := %s\n\n"
            "/-- one element of a strided dimension: `dim.astype(mintype)` (wraps modulo 2^bits), then `* m` when `m != 1`\n"
            "(the multiplier is a NumPy int64 scalar, so NumPy widens the product) -/\n"
            "def stridedValue (bits m v : Nat) : Nat := if m ≠ 1 then (v %% 2 ^ bits) * m else v %% 2 ^ bits\n\n"
            "end Catii.StridesGen\n" % (out["multipliers"], out["maxmult"], ladder))


if __name__ == "__main__":
    import sys
    print(generate(open(sys.argv[1] if len(sys.argv) > 1 else "/repo/src/catii/xcubes.py").read()))
