#!/bin/sh
# Runs setup and every thorough check against a SNAPSHOT of /repo's HEAD (so that patches tried in /repo meanwhile do not
# disturb it). usage (from a vp run): vp run --with-repo --timeout 5h -- sh tools/thorough_all.sh
export CATII_REPO="${VP_RUN_REPO:-/repo}"
export VERIF_EVIDENCE_DIR="$PWD/.cache/thorough_evidence"
mkdir -p "$VERIF_EVIDENCE_DIR"
/venv/bin/python tools/translate.py && /venv/bin/python tools/buildext.py plain checked && (cd lean && lake build CatiiModel CatiiProofs CatiiProps) || exit 2
# THOROUGH_IDS="01 03 05" restricts the run to those checks
for i in ${THOROUGH_IDS:-01 02 03 04 05 06 07 08 09 10 11 12 13 14 15 16 17 18 19 20}; do
  /usr/bin/time -f "C$i %es rc=%x" ./check C$i --tier thorough 2>&1 | grep -v "^KNOWN" | tail -4
done
