#!/venv/bin/python
"""Parallel version of seeded_matrix.py: W workers, each with its OWN copy of /verif (lean build output and caches included)
and its OWN worktree of /repo (CATII_REPO), so that regenerated Gen/*.lean files and applied patches do not collide.
usage: tools/seeded_matrix_par.py [W] [names...]   -> .cache/seeded_matrix.json and a catch table on stdout"""
import json
import os
import subprocess
import sys
import threading

args = sys.argv[1:]
W = int(args[0]) if args and args[0].isdigit() else 6
names = [a for a in args if not a.isdigit()] or sorted(os.listdir("/verif/seeded"))
lock = threading.Lock()
rows = []


def sh(cmd, **kw):
    return subprocess.run(cmd, shell=True, capture_output=True, text=True, **kw)


def worker(i, todo):
    vw, rw = "/tmp/vw%d" % i, "/tmp/rw%d" % i
    sh("rm -rf %s; git -C /repo worktree remove --force %s; git -C /repo worktree prune" % (vw, rw))
    assert sh("git -C /repo worktree add --detach %s HEAD" % rw).returncode == 0
    sh("rsync -a --exclude replays --exclude '.git' /verif/ %s/" % vw)
    env = dict(os.environ, CATII_REPO=rw, VERIF_EVIDENCE_DIR=vw + "/.cache/sweep")
    for n in todo:
        d = os.path.join("/verif/seeded", n)
        prop = json.load(open(os.path.join(d, "meta.json")))["property"]
        a = sh("git -C %s apply %s" % (rw, os.path.join(d, "patch.diff")))
        if a.returncode != 0:
            res = "patch does not apply"
        else:
            r = sh("cd %s && timeout 2400 ./check %s" % (vw, prop), env=env)
            v = [l for l in r.stdout.splitlines() if l.startswith("VIOLATION")]
            res = ("caught" + (" (no-failing-input-found)" if v and v[0].endswith("no-failing-input-found") else "")) \
                if r.returncode == 1 and v else "rc=%d" % r.returncode
        sh("git -C %s checkout -- ." % rw)
        with lock:
            rows.append((n, prop, res))
            print(n, prop, res, flush=True)
    sh("git -C /repo worktree remove --force %s; rm -rf %s" % (rw, vw))


threads = [threading.Thread(target=worker, args=(i, names[i::W])) for i in range(W)]
for t in threads:
    t.start()
for t in threads:
    t.join()
rows.sort()
os.makedirs("/verif/.cache", exist_ok=True)
json.dump(rows, open("/verif/.cache/seeded_matrix.json", "w"), indent=1)
bad = [r for r in rows if not r[2].startswith("caught")]
print("TOTAL %d caught %d (of which without a failing input: %d) not caught: %s" % (
    len(rows), len(rows) - len(bad), sum(1 for r in rows if "no-failing" in r[2]), bad))
