#!/venv/bin/python
"""Translator for the `not mapping` branch of `iindex.to_array` (src/catii/iindexes.py) -> lean/CatiiModel/Gen/ToArrayGen.lean

    if not mapping:
        if dtype is None:
            distinct_values = [coords[K] for coords in self] + [self.common]          the values the array will hold
            vtype = type(distinct_values[0])
            if vtype is int:
                dtype = fit_dtype(MAXEXPR, MINEXPR)                                     (str / object branches: not modelled)
            ...
        output = numpy.full(self.shape, FILL, dtype=dtype)
        if len(self.shape) > 1:
            for coords, rowids in self.items():
                output[rowids, coords[C]] = coords[V]
        else:
            for coords, rowids in self.items():
                output[rowids] = coords[V]
    ...
    return output

compiled to `Gen.toArrayPlainGen self dtype : M Arr` over the model's NumPy primitives (`npFull`, `npAssignRows`: fancy-index
assignment with NumPy's range checks and value conversion).  K, MAXEXPR, MINEXPR, FILL, C and V are compiled from the
expressions found (`max(xs)`, `min(xs)`, `min(a, b)`, `max(a, b)`, integer literals, `self.common`, `coords[k]`).
"""
import ast


class Unsupported(Exception):
    pass


def nodoc(stmts):
    return [s for s in stmts if not (isinstance(s, ast.Expr) and isinstance(s.value, ast.Constant))]


def coords_at(e):
    if isinstance(e, ast.Subscript) and isinstance(e.value, ast.Name) and e.value.id == "coords" and isinstance(e.slice, ast.Constant) \
            and isinstance(e.slice.value, int) and e.slice.value >= 0:
        return "(coords.getD %d 0)" % e.slice.value
    return None


def scalar(e, lists=()):
    """an Int-valued expression"""
    s = ast.unparse(e)
    if s == "self.common":
        return "self.common"
    c = coords_at(e)
    if c:
        return c
    if isinstance(e, ast.Constant) and isinstance(e.value, int) and not isinstance(e.value, bool):
        return "(%d : Int)" % e.value
    if isinstance(e, ast.Call) and isinstance(e.func, ast.Name) and e.func.id in ("max", "min") and not e.keywords:
        py = "pyMax" if e.func.id == "max" else "pyMin"
        if len(e.args) == 1 and isinstance(e.args[0], ast.Name) and e.args[0].id in lists:
            return "(%s %s)" % (py, e.args[0].id)
        if len(e.args) == 2:
            return "(%s %s %s)" % (e.func.id, scalar(e.args[0], lists), scalar(e.args[1], lists))
    raise Unsupported("integer expression " + s)


def generate(iidx_src):
    tree = ast.parse(iidx_src)
    cls = next(n for n in tree.body if isinstance(n, ast.ClassDef) and n.name == "iindex")
    fn = next(n for n in cls.body if isinstance(n, ast.FunctionDef) and n.name == "to_array")
    if [a.arg for a in fn.args.args] != ["self", "mapping", "dtype"]:
        raise Unsupported("to_array signature")
    body = nodoc(fn.body)
    if not (len(body) == 2 and isinstance(body[0], ast.If) and ast.unparse(body[0].test) == "not mapping"
            and ast.unparse(body[1]) == "return output"):
        raise Unsupported("to_array is no longer [if not mapping: ... else: ...; return output]")
    plain = nodoc(body[0].body)
    if not (len(plain) == 3 and isinstance(plain[0], ast.If) and ast.unparse(plain[0].test) == "dtype is None" and not plain[0].orelse
            and isinstance(plain[1], ast.Assign) and isinstance(plain[2], ast.If)
            and ast.unparse(plain[2].test) == "len(self.shape) > 1"):
        raise Unsupported("the `not mapping` branch is no longer [default dtype; numpy.full; scatter per axis count]")
    # ---- default dtype
    dd = nodoc(plain[0].body)
    if not (len(dd) == 3 and isinstance(dd[0], ast.Assign) and ast.unparse(dd[0].targets[0]) == "distinct_values"
            and ast.unparse(dd[1]) == "vtype = type(distinct_values[0])" and isinstance(dd[2], ast.If)
            and ast.unparse(dd[2].test) == "vtype is int"):
        raise Unsupported("default dtype block changed")
    dv = dd[0].value
    if not (isinstance(dv, ast.BinOp) and isinstance(dv.op, ast.Add) and isinstance(dv.left, ast.ListComp)
            and len(dv.left.generators) == 1 and ast.unparse(dv.left.generators[0].iter) == "self"
            and ast.unparse(dv.left.generators[0].target) == "coords" and not dv.left.generators[0].ifs
            and isinstance(dv.right, ast.List)):
        raise Unsupported("distinct_values = " + ast.unparse(dv))
    elt = scalar(dv.left.elt)
    tail = "[" + ", ".join(scalar(x) for x in dv.right.elts) + "]"
    ib = nodoc(dd[2].body)
    if not (len(ib) == 1 and isinstance(ib[0], ast.Assign) and ast.unparse(ib[0].targets[0]) == "dtype"
            and isinstance(ib[0].value, ast.Call) and ast.unparse(ib[0].value.func) == "fit_dtype" and len(ib[0].value.args) == 2
            and not ib[0].value.keywords):
        raise Unsupported("integer default dtype " + "; ".join(ast.unparse(s) for s in ib)[:120])
    mx = scalar(ib[0].value.args[0], ("distinct_values",))
    mn = scalar(ib[0].value.args[1], ("distinct_values",))
    # ---- numpy.full
    fl = plain[1]
    if not (ast.unparse(fl.targets[0]) == "output" and isinstance(fl.value, ast.Call) and ast.unparse(fl.value.func) == "numpy.full"
            and len(fl.value.args) == 2 and ast.unparse(fl.value.args[0]) == "self.shape"
            and [(k.arg, ast.unparse(k.value)) for k in fl.value.keywords] == [("dtype", "dtype")]):
        raise Unsupported("allocation " + ast.unparse(fl))
    fill = scalar(fl.value.args[1])

    # ---- the two scatter loops
    def loop(stmts, two):
        if not (len(stmts) == 1 and isinstance(stmts[0], ast.For) and not stmts[0].orelse
                and ast.unparse(stmts[0].iter) == "self.items()" and ast.unparse(stmts[0].target) in ("(coords, rowids)", "coords, rowids")):
            raise Unsupported("scatter loop " + "; ".join(ast.unparse(s) for s in stmts)[:120])
        b = nodoc(stmts[0].body)
        if not (len(b) == 1 and isinstance(b[0], ast.Assign) and isinstance(b[0].targets[0], ast.Subscript)
                and ast.unparse(b[0].targets[0].value) == "output"):
            raise Unsupported("scatter statement " + "; ".join(ast.unparse(s) for s in b)[:120])
        sl = b[0].targets[0].slice
        val = scalar(b[0].value)
        if two:
            if not (isinstance(sl, ast.Tuple) and len(sl.elts) == 2 and ast.unparse(sl.elts[0]) == "rowids"):
                raise Unsupported("two-axis fancy index " + ast.unparse(sl))
            return "(some %s)" % scalar(sl.elts[1]), val
        if ast.unparse(sl) != "rowids":
            raise Unsupported("one-axis fancy index " + ast.unparse(sl))
        return "none", val
    c2, v2 = loop(nodoc(plain[2].body), True)
    c1, v1 = loop(nodoc(plain[2].orelse), False)
    return ("import CatiiModel.IIndex\n"
            "-- GENERATED by tools/translate_toarray.py from the `not mapping` branch of iindex.to_array; do not edit.\n"
            "namespace Catii.Gen\nopen Catii.IIdx\n\n"
            "/-- `to_array(dtype=dtype)` without a mapping (`dtype = none`: the default chosen from the values) -/\n"
            "def toArrayPlainGen (self : IIndex) (dtype : Option DT) : M Arr := do\n"
            "  let dtype := match dtype with\n"
            "    | some d => d\n"
            "    | none =>\n"
            "      let distinct_values := (self.entries.map fun (coords, _) => %s) ++ %s\n"
            "      fitDtype %s %s\n"
            "  let output ← npFull self.shape %s dtype\n"
            "  let output ← if self.shape.length > 1 then\n"
            "      self.entries.foldlM (fun output (coords, rowids) => npAssignRows self.shape dtype output rowids %s %s) output\n"
            "    else\n"
            "      self.entries.foldlM (fun output (coords, rowids) => npAssignRows self.shape dtype output rowids %s %s) output\n"
            "  pure { shape := self.shape, data := output.toList }\n\nend Catii.Gen\n" % (elt, tail, mx, mn, fill, c2, v2, c1, v1))


if __name__ == "__main__":
    print(generate(open("/repo/src/catii/iindexes.py").read()))
