#!/venv/bin/python
"""Create one scratch worktree of /repo per property under /tmp/mut/<id><round>/ with PROPERTY.json and PROMPT.txt.
usage: tools/mk_mut_worktrees.py <round letter> <ids...>
The prompt lists (one line each) the ideas of the changes already stored for that property, so that new ones differ."""
import json
import os
import subprocess
import sys

rnd = sys.argv[1]
ids = sys.argv[2:]
props = {json.loads(l)["id"]: json.loads(l) for l in open("/verif/properties.jsonl")}
tmpl = open("/verif/tools/mutation_prompt.tmpl").read()
os.makedirs("/tmp/mut", exist_ok=True)
for pid in ids:
    wt = "/tmp/mut/%s%s" % (pid, rnd)
    subprocess.run("git -C /repo worktree add --detach %s HEAD" % wt, shell=True, check=True, capture_output=True)
    subprocess.run("cp /repo/src/catii/*.so %s/src/catii/" % wt, shell=True)
    os.makedirs(wt + "/OUT", exist_ok=True)
    json.dump(props[pid], open(wt + "/PROPERTY.json", "w"), indent=1)
    earlier = []
    for n in sorted(os.listdir("/verif/seeded")):
        if n.startswith(pid):
            s = json.load(open("/verif/seeded/%s/meta.json" % n)).get("summary") or ""
            earlier.append("- " + s[:220].replace("\n", " "))
    hint = "free choice of file and mechanism among the anchors; ideas ALREADY USED by others, do something different in mechanism and in what it needs to manifest:\n" + "\n".join(earlier) + "\n"
    p = tmpl.replace("@WT@", wt).replace("@ID@", pid).replace("@HINT@", hint)
    open(wt + "/PROMPT.txt", "w").write(p)
    print(wt)
