#!/venv/bin/python
"""Translator: regenerates lean/CatiiModel/Gen/*.lean from /repo's *current* source.

Translated subset (DESIGN §3.3): integer literals and powers, + - *, unary minus,
comparisons, `and`/`or`, `if/elif/else`, a single conditional re-assignment of an
integer argument, assignment of `numpy.<inttype>` to `dtype`, `return numpy.dtype(dtype)`;
for the INDX tables: `if/elif` ladders on `size == <int>` returning a struct format
string or `numpy.dtype(numpy.uintNN)`; module/class byte-string constants.

If the source leaves this subset the translator exits 3 (a *broken tie*, handled by
./check as "proof obligation broken", never by itself a violation).
Files are only rewritten when their content changes, so `lake build` stays a no-op
on an unchanged tree.
"""
import ast
import os
import sys

REPO = os.environ.get("CATII_REPO", "/repo")
HERE = os.path.dirname(os.path.abspath(__file__))
GEN = os.path.join(HERE, "..", "lean", "CatiiModel", "Gen")

DT = {"int8": "i8", "int16": "i16", "int32": "i32", "int64": "i64",
      "uint8": "u8", "uint16": "u16", "uint32": "u32", "uint64": "u64"}
CMP = {ast.Lt: "<", ast.LtE: "≤", ast.Gt: ">", ast.GtE: "≥", ast.Eq: "=", ast.NotEq: "≠"}
BIN = {ast.Add: "+", ast.Sub: "-", ast.Mult: "*", ast.Pow: "^"}


class Unsupported(Exception):
    pass


def ex(e, env):
    if isinstance(e, ast.Constant) and isinstance(e.value, int) and not isinstance(e.value, bool):
        return str(e.value)
    if isinstance(e, ast.Name):
        if e.id not in env:
            raise Unsupported("free name %s" % e.id)
        return env[e.id]
    if isinstance(e, ast.UnaryOp) and isinstance(e.op, ast.USub):
        return "(-%s)" % ex(e.operand, env)
    if isinstance(e, ast.BinOp) and type(e.op) in BIN:
        if isinstance(e.op, ast.Pow):
            # exponent must be a natural literal
            if not (isinstance(e.right, ast.Constant) and isinstance(e.right.value, int) and e.right.value >= 0):
                raise Unsupported(ast.dump(e))
        return "(%s %s %s)" % (ex(e.left, env), BIN[type(e.op)], ex(e.right, env))
    if isinstance(e, ast.Compare) and len(e.ops) == 1 and type(e.ops[0]) in CMP:
        return "(%s %s %s)" % (ex(e.left, env), CMP[type(e.ops[0])], ex(e.comparators[0], env))
    if isinstance(e, ast.BoolOp):
        j = " ∧ " if isinstance(e.op, ast.And) else " ∨ "
        return "(" + j.join(ex(v, env) for v in e.values) + ")"
    raise Unsupported(ast.dump(e))


def dtype_of(e):
    if (isinstance(e, ast.Attribute) and isinstance(e.value, ast.Name)
            and e.value.id == "numpy" and e.attr in DT):
        return "DT." + DT[e.attr]
    raise Unsupported(ast.dump(e))


class FitDtype:
    def __init__(self):
        self.counter = 0

    def block(self, stmts, env, ind):
        pad = "  " * ind
        if not stmts:
            raise Unsupported("fallthrough without return")
        s, rest = stmts[0], stmts[1:]
        if isinstance(s, ast.Expr) and isinstance(s.value, ast.Constant):
            return self.block(rest, env, ind)  # docstring
        if isinstance(s, ast.Return):
            c = s.value
            if (isinstance(c, ast.Call) and len(c.args) == 1 and isinstance(c.args[0], ast.Name)
                    and c.args[0].id == "dtype" and "__dtype__" in env):
                return env["__dtype__"]
            if isinstance(c, ast.Call) and len(c.args) == 1:
                return dtype_of(c.args[0])
            raise Unsupported(ast.dump(s))
        if isinstance(s, ast.Assign) and len(s.targets) == 1 and isinstance(s.targets[0], ast.Name):
            t = s.targets[0].id
            if t == "dtype":
                env2 = dict(env)
                env2["__dtype__"] = dtype_of(s.value)
                return self.block(rest, env2, ind)
            self.counter += 1
            new = "%s%d" % (t, self.counter)
            env2 = dict(env)
            env2[t] = new
            return "let %s : Int := %s\n%s%s" % (new, ex(s.value, env), pad, self.block(rest, env2, ind))
        if isinstance(s, ast.If):
            assigned = [a.targets[0].id for a in s.body
                        if isinstance(a, ast.Assign) and isinstance(a.targets[0], ast.Name)
                        and a.targets[0].id != "dtype"]
            if assigned and not s.orelse and len(s.body) == 1:
                t = assigned[0]
                self.counter += 1
                new = "%s%d" % (t, self.counter)
                env2 = dict(env)
                env2[t] = new
                return ("let %s : Int := if %s then %s else %s\n%s" % (
                    new, ex(s.test, env), ex(s.body[0].value, env), env[t], pad)
                    + self.block(rest, env2, ind))
            th = self.block(s.body + rest, env, ind + 1)
            el = self.block(s.orelse + rest, env, ind + 1)
            return "if %s then\n%s  %s\n%selse\n%s  %s" % (ex(s.test, env), pad, th, pad, pad, el)
        raise Unsupported(ast.dump(s))

    def run(self, src):
        fn = next(n for n in ast.parse(src).body
                  if isinstance(n, ast.FunctionDef) and n.name == "fit_dtype")
        args = [a.arg for a in fn.args.args]
        if args != ["maxval", "minval"]:
            raise Unsupported("fit_dtype signature %r" % args)
        d = fn.args.defaults
        if not (len(d) == 1 and isinstance(d[0], ast.Constant) and d[0].value == 0):
            raise Unsupported("fit_dtype default for minval is not 0")
        env = {a: a for a in args}
        body = self.block(fn.body, env, 1)
        return ("import CatiiModel.Dtypes\n"
                "-- GENERATED by tools/translate.py from src/catii/iindexes.py (fit_dtype); do not edit\n"
                "namespace Catii\n\n"
                "def fitDtype (maxval minval : Int) : DT :=\n  %s\n\n"
                "/-- `fit_dtype(maxval)` with the default `minval=0` -/\n"
                "def fitDtype1 (maxval : Int) : DT := fitDtype maxval 0\n\n"
                "end Catii\n" % body)


def class_consts(tree, cls, names):
    out = {}
    for n in tree.body:
        if isinstance(n, ast.ClassDef) and n.name == cls:
            for s in n.body:
                if (isinstance(s, ast.Assign) and isinstance(s.targets[0], ast.Name)
                        and s.targets[0].id in names and isinstance(s.value, ast.Constant)):
                    out[s.targets[0].id] = s.value.value
    return out


def size_ladder(fn, kind):
    """if size == 8: return X elif size == 4 ... return default  -> list of (size, value), default"""
    cases, default = [], None

    def val(r):
        v = r.value
        if kind == "format":
            if isinstance(v, ast.Constant) and isinstance(v.value, str):
                return v.value
        else:
            if isinstance(v, ast.Call) and len(v.args) == 1:
                return dtype_of(v.args[0])
        raise Unsupported(ast.dump(r))

    def walk(stmts):
        nonlocal default
        for s in stmts:
            if isinstance(s, ast.Expr) and isinstance(s.value, ast.Constant):
                continue
            if isinstance(s, ast.If):
                t = s.test
                if (isinstance(t, ast.Call) and isinstance(t.func, ast.Name) and t.func.id == "isinstance"):
                    continue  # `if isinstance(size, numpy.dtype): size = size.itemsize` -- a conversion, not a case
                if not (isinstance(t, ast.Compare) and len(t.ops) == 1 and isinstance(t.ops[0], ast.Eq)
                        and isinstance(t.left, ast.Name) and isinstance(t.comparators[0], ast.Constant)):
                    raise Unsupported(ast.dump(t))
                if not (len(s.body) == 1 and isinstance(s.body[0], ast.Return)):
                    raise Unsupported(ast.dump(s))
                cases.append((t.comparators[0].value, val(s.body[0])))
                walk(s.orelse)
            elif isinstance(s, ast.Return):
                default = val(s)
            else:
                raise Unsupported(ast.dump(s))
    walk(fn.body)
    if default is None:
        raise Unsupported("no default return in %s" % fn.name)
    return cases, default


FMT = {"<B": 1, "<H": 2, "<L": 4, "<Q": 8, "<I": 4}


def gen_consts(indx_src, iidx_src, ccube_src, xcube_src):
    t = ast.parse(indx_src)
    c = class_consts(t, "IndxIO", {"INDEXED_MAGIC", "VERSION"})
    if set(c) != {"INDEXED_MAGIC", "VERSION"}:
        raise Unsupported("IndxIO constants")
    fns = {}
    for n in t.body:
        if isinstance(n, ast.ClassDef) and n.name == "IndxIO":
            for s in n.body:
                if isinstance(s, ast.FunctionDef):
                    fns[s.name] = s
    fcases, fdef = size_ladder(fns["format"], "format")
    dcases, ddef = size_ladder(fns["dtype"], "dtype")

    def lean_bytes(b):
        return "[" + ", ".join(str(x) for x in b) + "]"

    def ladder(cases, default, f):
        s = ""
        for k, v in cases:
            s += "if size = %d then %s else " % (k, f(v))
        return s + f(default)

    for v in [x for _, x in fcases] + [fdef]:
        if v not in FMT:
            raise Unsupported("struct format %r" % v)
    big = None
    for n in ast.parse(ccube_src).body:
        if isinstance(n, ast.Assign) and isinstance(n.targets[0], ast.Name) and n.targets[0].id == "BIG_REGIONS":
            big = ex_const(n.value)
    bigx = None
    for n in ast.parse(xcube_src).body:
        if isinstance(n, ast.Assign) and isinstance(n.targets[0], ast.Name) and n.targets[0].id == "BIG_REGIONS":
            bigx = ex_const(n.value)
    out = ("import CatiiModel.Dtypes\n"
           "-- GENERATED by tools/translate.py from src/catii/indxio.py, ccubes.py, xcubes.py; do not edit\n"
           "namespace Catii.Gen\n\n"
           "def indxMagic : List Nat := %s\n"
           "def indxVersion : List Nat := %s\n\n"
           "/-- byte width of the struct format `IndxIO.format(size)` selects -/\n"
           "def formatWidth (size : Nat) : Nat := %s\n\n"
           "/-- `IndxIO.dtype(itemsize)` -/\n"
           "def wordDtype (size : Nat) : DT := %s\n\n"
           "def bigRegionsC : Nat := %s\n"
           "def bigRegionsX : Nat := %s\n\n"
           "end Catii.Gen\n" % (
               lean_bytes(c["INDEXED_MAGIC"]), lean_bytes(c["VERSION"]),
               ladder(fcases, fdef, lambda v: str(FMT[v])),
               ladder(dcases, ddef, lambda v: v),
               big, bigx))
    return out


def ex_const(e):
    if isinstance(e, ast.BinOp) and isinstance(e.op, ast.LShift):
        return "(%s * 2 ^ %s)" % (ex(e.left, {}), ex(e.right, {}))
    return ex(e, {})



# ----------------------------------------------------------------------------------------------
# purity programs (C17): constructors of the aggregate functions -> alias/fresh/write programs
# ----------------------------------------------------------------------------------------------
VIEW_ATTRS = {"T", "real", "imag", "flat", "base"}
VIEW_METHODS = {"reshape", "ravel", "view", "squeeze", "transpose", "swapaxes", "newbyteorder", "diagonal"}
MUTATING_METHODS = {"sort", "fill", "put", "resize", "partition", "byteswap", "itemset", "setflags", "setfield"}
ALIAS_FUNCS = {"asarray", "asanyarray", "ascontiguousarray", "asfortranarray", "atleast_1d", "atleast_2d", "ravel",
               "reshape", "squeeze", "transpose"}


def root_var(e):
    """the variable an l-value / view expression is rooted in, or None"""
    if isinstance(e, ast.Name):
        return e.id
    if isinstance(e, ast.Attribute):
        if isinstance(e.value, ast.Name) and e.value.id == "self":
            return "self." + e.attr
        if e.attr in VIEW_ATTRS:
            return root_var(e.value)
        return None
    if isinstance(e, ast.Subscript):
        return root_var(e.value)
    if isinstance(e, (ast.ListComp, ast.GeneratorExp)) and len(e.generators) == 1:
        g = e.generators[0]
        if isinstance(g.target, ast.Name) and root_var(e.elt) == g.target.id:
            return root_var(g.iter)
        return None
    if isinstance(e, (ast.List, ast.Tuple)) and len(e.elts) == 1:
        return root_var(e.elts[0])
    return None


# methods of the aggregate-function classes and of the cube that are called from fill / reduce:
# name -> (positions of the arguments they write in place, what they return)
KNOWN_CALLS = {
    "adjust_zeros": ([0], "alias0"),
    "_compute_common_cells_from_marginal_diffs": ([0], "fresh"),
    "flat_regions": ([], "alias0"),
    "bins": ([], "fresh"),
    "op": ([], "fresh"),
    "qfunc": ([], "fresh"),
    "weighted_quantile": ([], "fresh"),
    "_fill_one_no_coordinates": ([0], "fresh"),
    "_fill_one_by_coordinates": ([0], "fresh"),
}
NUMPY_INPLACE = {"copyto", "put", "putmask", "place", "put_along_axis", "fill_diagonal"}
PURE_BUILTINS = {"len", "isinstance", "range", "int", "float", "bool", "tuple", "list", "max", "min", "zip", "enumerate",
                 "slice", "print", "sum", "abs", "getattr", "hasattr", "type", "str", "repr", "any", "all", "sorted",
                 "reduce", "ValueError", "TypeError", "NotImplementedError"}


def call_effects(e):
    """names written in place by the calls occurring anywhere inside expression `e`"""
    out = []
    for c in ast.walk(e):
        if not isinstance(c, ast.Call):
            continue
        f = c.func
        for kw in c.keywords:
            if kw.arg == "out":
                r = root_var(kw.value)
                if r is None:
                    raise Unsupported("out= target")
                out.append(r)
        if isinstance(f, ast.Name):
            if f.id not in PURE_BUILTINS:
                raise Unsupported("call of %s" % f.id)
            continue
        if not isinstance(f, ast.Attribute):
            raise Unsupported("call through %s" % type(f).__name__)
        owner = f.value
        if isinstance(owner, ast.Name) and owner.id in ("numpy", "np"):
            if f.attr in NUMPY_INPLACE:
                r = root_var(c.args[0]) if c.args else None
                if r is None:
                    raise Unsupported("numpy.%s target" % f.attr)
                out.append(r)
            for kw in c.keywords:
                if kw.arg == "copy" and isinstance(kw.value, ast.Constant) and kw.value.value is False and c.args:
                    r = root_var(c.args[0])
                    if r is not None:
                        out.append(r)
            continue
        if isinstance(owner, ast.Attribute) and isinstance(owner.value, ast.Name) and owner.value.id in ("numpy", "np"):
            if f.attr in ("at", "reduceat", "accumulate", "outer", "reduce"):      # numpy.<ufunc>.at(a, ...) is in place
                if f.attr == "at":
                    r = root_var(c.args[0]) if c.args else None
                    if r is None:
                        raise Unsupported("ufunc.at target")
                    out.append(r)
                continue
            continue                                                                # numpy.errstate(...), numpy.random...
        if isinstance(owner, ast.Name) and owner.id in ("self", "cube", "xfunc", "ffunc"):
            if f.attr not in KNOWN_CALLS:
                raise Unsupported("call of %s.%s" % (owner.id, f.attr))
            for k in KNOWN_CALLS[f.attr][0]:
                r = root_var(c.args[k]) if k < len(c.args) else None
                if r is None:
                    raise Unsupported("argument %d of %s" % (k, f.attr))
                out.append(r)
            continue
        if isinstance(owner, ast.Name) and owner.id in ("time", "operator", "itertools", "math", "warnings"):
            continue
        if f.attr in MUTATING_METHODS:
            r = root_var(owner)
            if r is None:
                raise Unsupported("in-place method on %s" % ast.dump(owner)[:40])
            out.append(r)
            continue
        # any other method of an array / tuple / dict object: treated as pure (astype, sum, copy, any, get, ...)
    return out


def classify(e):
    """('alias', var) or ('fresh',)"""
    if isinstance(e, ast.Name):
        return ("alias", e.id)
    if isinstance(e, ast.Attribute):
        if isinstance(e.value, ast.Name) and e.value.id == "self":
            return ("alias", "self." + e.attr)
        if e.attr in VIEW_ATTRS:
            return classify(e.value)
        return ("fresh",)
    if isinstance(e, ast.Subscript):
        return classify(e.value)
    if isinstance(e, (ast.ListComp, ast.GeneratorExp, ast.List, ast.Tuple)):
        r = root_var(e)
        return ("alias", r) if r is not None else ("fresh",)
    if isinstance(e, ast.Call):
        f = e.func
        if isinstance(f, ast.Attribute):
            if isinstance(f.value, ast.Name) and f.value.id in ("self", "cube", "xfunc", "ffunc") and f.attr in KNOWN_CALLS:
                if KNOWN_CALLS[f.attr][1] == "alias0" and e.args:
                    return classify(e.args[0])
                return ("fresh",)
            if isinstance(f.value, ast.Name) and f.value.id in ("numpy", "np"):
                if f.attr in ALIAS_FUNCS and e.args:
                    return classify(e.args[0])
                return ("fresh",)
            if f.attr in VIEW_METHODS:
                return classify(f.value)
            if f.attr == "astype":
                for kw in e.keywords:
                    if kw.arg == "copy" and not (isinstance(kw.value, ast.Constant) and kw.value.value is True):
                        return classify(f.value)
                return ("fresh",)
            return ("fresh",)
        return ("fresh",)
    if isinstance(e, ast.IfExp):
        a, b = classify(e.body), classify(e.orelse)
        if a[0] == "alias" and b[0] == "alias" and a[1] != b[1]:
            raise Unsupported("conditional expression aliasing two different variables")
        return a if a[0] == "alias" else b
    return ("fresh",)


class PurityTranslator:
    def __init__(self, helpers):
        self.helpers = helpers       # name -> FunctionDef (inlined at call sites), e.g. as_separate_validity
        self.depth = 0

    def assign(self, target, value, path, rename):
        """instructions for `target = value` (single target expression)"""
        rn = lambda v: rename.get(v, v)
        if isinstance(target, ast.Subscript):
            r = root_var(target)
            if r is None:
                raise Unsupported("store through %s" % ast.dump(target)[:60])
            return [[("write", rn(r))]]
        name = root_var(target) if isinstance(target, (ast.Name, ast.Attribute)) else None
        if name is None:
            raise Unsupported("assignment target %s" % ast.dump(target)[:60])
        c = classify(value)
        if c[0] == "alias":
            return [[("alias", rn(name), rn(c[1]))]]
        return [[("fresh", rn(name))]]

    def inline(self, fn, args, targets, rename_out):
        """all paths of helper `fn` applied to `args`, binding the returned tuple to `targets`"""
        self.depth += 1
        pre = "%s%d." % (fn.name, self.depth)
        rename = {a.arg: pre + a.arg for a in fn.args.args}
        for n in ast.walk(fn):
            if isinstance(n, ast.Name) and isinstance(n.ctx, ast.Store):
                rename[n.id] = pre + n.id
        start = []
        for a, v in zip(fn.args.args, args):
            c = classify(v)
            start.append(("alias", rename[a.arg], rename_out.get(c[1], c[1])) if c[0] == "alias" else ("fresh", rename[a.arg]))
        out = []
        for path, ret in self.block(fn.body, [list(start)], rename, want_return=True):
            if ret is None:
                continue
            vals = ret.elts if isinstance(ret, ast.Tuple) else [ret]
            if len(vals) != len(targets):
                raise Unsupported("helper %s returns %d values for %d targets" % (fn.name, len(vals), len(targets)))
            p = list(path)
            for t, v in zip(targets, vals):
                c = classify(v)
                tn = root_var(t)
                if tn is None:
                    raise Unsupported("target")
                tn = rename_out.get(tn, tn)
                p.append(("alias", tn, rename.get(c[1], c[1])) if c[0] == "alias" else ("fresh", tn))
            out.append(p)
        return out

    def block(self, stmts, paths, rename, want_return=False):
        """returns list of (path, return_expr|None) when want_return else list of paths"""
        live = [(p, None, False) for p in paths]          # (instrs, ret, finished)
        for s in stmts:
            nxt = []
            for p, ret, done in live:
                if done:
                    nxt.append((p, ret, done))
                    continue
                for np_, nret, ndone in self.stmt(s, p, rename):
                    nxt.append((np_, nret, ndone))
            live, seen = [], set()
            for q, r, d in nxt:                       # identical instruction lists need not be carried twice
                key = (tuple(q), id(r), d)
                if key not in seen:
                    seen.add(key)
                    live.append((q, r, d))
            if len(live) > 256:
                raise Unsupported("too many paths")
        if want_return:
            return [(p, r) for p, r, d in live]
        return [p for p, r, d in live]

    def stmt(self, s, p, rename):
        rn = lambda v: rename.get(v, v)
        if isinstance(s, (ast.Pass, ast.Import, ast.ImportFrom, ast.Global, ast.Assert)):
            return [(p, None, False)]
        if isinstance(s, ast.Expr):
            v = s.value
            if isinstance(v, ast.Constant):
                return [(p, None, False)]
            if isinstance(v, ast.Call):
                extra = []
                if isinstance(v.func, ast.Attribute) and v.func.attr in MUTATING_METHODS:
                    r = root_var(v.func.value)
                    if r is not None:
                        extra.append(("write", rn(r)))
                for kw in v.keywords:
                    if kw.arg == "out":
                        r = root_var(kw.value)
                        if r is not None:
                            extra.append(("write", rn(r)))
                return [(p + extra, None, False)]
            return [(p, None, False)]
        if isinstance(s, ast.Return):
            return [(p, s.value, True)]
        if isinstance(s, ast.Raise):
            return []                                   # this path constructs nothing
        if isinstance(s, ast.AugAssign):
            r = root_var(s.target)
            if r is None:
                raise Unsupported("augmented assignment target")
            return [(p + [("write", rn(r))], None, False)]
        if isinstance(s, ast.Assign):
            if len(s.targets) != 1:
                raise Unsupported("chained assignment")
            t, v = s.targets[0], s.value
            if isinstance(t, ast.Tuple):
                if isinstance(v, ast.Call) and isinstance(v.func, ast.Name) and v.func.id in self.helpers:
                    return [(p + q, None, False) for q in self.inline(self.helpers[v.func.id], v.args, t.elts, rename)]
                if isinstance(v, ast.Name):              # `arr, validity = arr`: components of the caller's tuple
                    return [(p + [("alias", rn(root_var(e)), rn(v.id)) for e in t.elts], None, False)]
                if isinstance(v, ast.Tuple) and len(v.elts) == len(t.elts):
                    q = list(p)
                    for e, x in zip(t.elts, v.elts):
                        q += self.assign(e, x, q, rename)[0]
                    return [(q, None, False)]
                raise Unsupported("tuple assignment from %s" % ast.dump(v)[:60])
            return [(p + self.assign(t, v, p, rename)[0], None, False)]
        if isinstance(s, ast.If):
            out = []
            for branch in (s.body, s.orelse):
                for q, r in self.block(branch, [list(p)], rename, want_return=True):
                    out.append((q, r, r is not None))
            return out
        if isinstance(s, ast.With):
            return [(q, r, r is not None) for q, r in self.block(s.body, [list(p)], rename, want_return=True)]
        if isinstance(s, (ast.For, ast.While)):
            # one pass over the body (no constructor relies on loop-carried aliasing)
            out = [(p, None, False)]
            for q, r in self.block(s.body, [list(p)], rename, want_return=True):
                out.append((q, r, r is not None))
            return out
        raise Unsupported("statement %s" % type(s).__name__)


def lean_str(x):
    return '"' + x.replace('"', "'") + '"'


def gen_purity(sources):
    progs = []
    for modname, src in sources:
        tree = ast.parse(src)
        helpers = {n.name: n for n in tree.body if isinstance(n, ast.FunctionDef) and n.name == "as_separate_validity"}
        for cls in tree.body:
            if not isinstance(cls, ast.ClassDef):
                continue
            for fn in cls.body:
                if isinstance(fn, ast.FunctionDef) and fn.name == "__init__":
                    inputs = [a.arg for a in fn.args.args if a.arg != "self"]
                    tr = PurityTranslator(helpers)
                    paths = tr.block(fn.body, [[]], {})
                    seen = []
                    for path in paths:
                        if path not in seen:
                            seen.append(path)
                    for k, path in enumerate(seen):
                        progs.append(("%s.%s.__init__#%d" % (modname, cls.name, k), inputs, path))
    def instr(i):
        if i[0] == "alias":
            return ".alias %s %s" % (lean_str(i[1]), lean_str(i[2]))
        return ".%s %s" % (i[0], lean_str(i[1]))
    body = ",\n".join("  (%s, [%s], [%s])" % (lean_str(n), ", ".join(lean_str(v) for v in ins),
                                              ", ".join(instr(i) for i in path)) for n, ins, path in progs)
    return ("import CatiiModel.Store\n"
            "-- GENERATED by tools/translate.py from src/catii/ffuncs.py and xfuncs.py (every __init__ of an aggregate\n"
            "-- function class, one program per control-flow path, as_separate_validity inlined); do not edit\n"
            "namespace Catii.Gen\nopen Catii.Store\n\n"
            "/-- (constructor#path, caller-owned inputs, alias/fresh/write program) -/\n"
            "def purityProgs : List (String × List Var × List Instr) := [\n%s\n]\n\nend Catii.Gen\n" % body), len(progs)


# ----------------------------------------------------------------------------------------------
# purity programs (C17), part 2: get_initial_regions / fill_func / fill / reduce and their helper methods
# ----------------------------------------------------------------------------------------------
METHODS = ("get_initial_regions", "fill_func", "fill", "reduce", "_fill_one_no_coordinates", "_fill_one_by_coordinates",
           "weighted_quantile", "flat_regions", "bins")
LIBRARY_OWNED = {"self", "cube", "regions", "coordinates", "size", "new", "condition"}   # parameters that are not caller buffers
DIAGNOSTICS = {"tracing", "self.tracing"}


_LOOP = object()      # "this pass over the loop body ends here" (continue / break)


class MethodTranslator(PurityTranslator):
    def __init__(self, kind):
        PurityTranslator.__init__(self, {})
        self.kind = kind

    def stmt(self, s, p, rename):
        rn = lambda v: rename.get(v, v)
        if isinstance(s, ast.FunctionDef):           # a closure: its body runs later, in the same environment
            q = p + [("fresh", a.arg) for a in s.args.args]
            return [(path, None, False) for path, _ in self.block(s.body, [q], rename, want_return=True)]
        if isinstance(s, ast.Expr):
            if isinstance(s.value, ast.Constant):
                return [(p, None, False)]
            return [(p + [("write", rn(w)) for w in call_effects(s.value)], None, False)]
        if isinstance(s, ast.AugAssign):
            r = root_var(s.target)
            if r in DIAGNOSTICS:
                return [(p, None, False)]
            if r is None:
                raise Unsupported("augmented assignment target")
            return [(p + [("write", rn(w)) for w in call_effects(s.value)] + [("write", rn(r))], None, False)]
        if isinstance(s, ast.Assign) and isinstance(s.value, ast.IfExp):
            out = []                                  # `x = a if c else b`: one path per branch
            for v in (s.value.body, s.value.orelse):
                s2 = ast.Assign(targets=s.targets, value=v)
                out += self.stmt(s2, p + [("write", rn(w)) for w in call_effects(s.value.test)], rename)
            return out
        if isinstance(s, ast.Assign):
            p = p + [("write", rn(w)) for w in call_effects(s.value)]
            if len(s.targets) == 1 and isinstance(s.targets[0], ast.Tuple) and not isinstance(s.value, (ast.Name, ast.Tuple)):
                # `a, b = f(...)`: every target gets what the call returns
                c = classify(s.value)
                q = list(p)
                for e in s.targets[0].elts:
                    n = root_var(e)
                    if n is None:
                        raise Unsupported("tuple target")
                    q.append(("alias", rn(n), rn(c[1])) if c[0] == "alias" else ("fresh", rn(n)))
                return [(q, None, False)]
            return PurityTranslator.stmt(self, s, p, rename)
        if isinstance(s, ast.Return):
            q = list(p)
            if s.value is not None:
                q += [("write", rn(w)) for w in call_effects(s.value)]
                if self.kind == "get_initial_regions":
                    # the returned arrays are the regions fill() will write into: they must not be caller buffers
                    vals = s.value.elts if isinstance(s.value, ast.Tuple) else [s.value]
                    for v in vals:
                        c = classify(v)
                        if c[0] == "alias":
                            q.append(("write", rn(c[1])))
            return [(q, s.value, True)]
        if isinstance(s, ast.Try):
            # the body may be abandoned at any statement: take "not at all" and "completely", each followed by no / any handler
            starts = [(list(p), None, False)] + [(q, r, r is not None) for q, r in self.block(s.body, [list(p)], rename, want_return=True)]
            out = []
            for q, r, done in starts:
                out.append((q, r, done))
                if not done:
                    for h in s.handlers:
                        out += [(q2, r2, r2 is not None) for q2, r2 in self.block(h.body, [list(q)], rename, want_return=True)]
            if s.finalbody:
                fin = []
                for q, r, done in out:
                    fin += [(q2, r if done else r2, done or r2 is not None)
                            for q2, r2 in self.block(s.finalbody, [list(q)], rename, want_return=True)]
                out = fin
            return out
        if isinstance(s, (ast.If, ast.While)):
            p = p + [("write", rn(w)) for w in call_effects(s.test)]
        if isinstance(s, (ast.Continue, ast.Break)):
            return [(p, _LOOP, True)]
        if isinstance(s, ast.For):
            p = p + [("write", rn(w)) for w in call_effects(s.iter)]
            targets = [s.target] if isinstance(s.target, ast.Name) else (
                list(s.target.elts) if isinstance(s.target, ast.Tuple) else [])
            c = classify(s.iter)
            for t in targets:
                t = root_var(t)
                if t is None:
                    raise Unsupported("loop target")
                p = p + [("alias", rn(t), rn(c[1])) if c[0] == "alias" else ("fresh", rn(t))]
        if isinstance(s, (ast.For, ast.While)):
            # no pass, or one pass over the body (nothing here relies on loop-carried aliasing)
            out = [(p, None, False)]
            once = [(q, (None if r is _LOOP else r), (r is not None and r is not _LOOP))
                    for q, r in self.block(s.body, [list(p)], rename, want_return=True)]
            out += once
            return out
        return PurityTranslator.stmt(self, s, p, rename)


def self_attrs(fn):
    """the attributes of self a method reads as data (not the methods it calls)"""
    called = {id(c.func) for c in ast.walk(fn) if isinstance(c, ast.Call)}
    out = []
    for n in ast.walk(fn):
        if isinstance(n, ast.Attribute) and isinstance(n.value, ast.Name) and n.value.id == "self" and id(n) not in called:
            v = "self." + n.attr
            if v not in out and v not in DIAGNOSTICS:
                out.append(v)
    return out


def gen_method_purity(sources):
    progs = []
    for modname, src in sources:
        tree = ast.parse(src)
        for cls in tree.body:
            if not isinstance(cls, ast.ClassDef):
                continue
            for fn in cls.body:
                if isinstance(fn, ast.FunctionDef) and fn.name in METHODS:
                    if len(fn.body) <= 2 and any(isinstance(x, ast.Raise) for x in fn.body):
                        continue                     # abstract placeholder
                    params = [a.arg for a in fn.args.args if a.arg not in LIBRARY_OWNED]
                    inputs = params + self_attrs(fn)
                    tr = MethodTranslator(fn.name)
                    paths = tr.block(fn.body, [[]], {})
                    seen = []
                    for path in paths:
                        if path not in seen:
                            seen.append(path)
                    for k, path in enumerate(seen):
                        progs.append(("%s.%s.%s#%d" % (modname, cls.name, fn.name, k), inputs, path))
    def instr(i):
        if i[0] == "alias":
            return ".alias %s %s" % (lean_str(i[1]), lean_str(i[2]))
        return ".%s %s" % (i[0], lean_str(i[1]))
    body = ",\n".join("  (%s, [%s], [%s])" % (lean_str(n), ", ".join(lean_str(v) for v in ins),
                                              ", ".join(instr(i) for i in path)) for n, ins, path in progs)
    return ("import CatiiModel.Store\n"
            "-- GENERATED by tools/translate.py from src/catii/ffuncs.py and xfuncs.py (get_initial_regions, fill_func /\n"
            "-- fill with its closures, reduce and their helper methods of every aggregate function class, one program per\n"
            "-- control-flow path; caller-owned = the data attributes of self the method reads + its array parameters;\n"
            "-- library-owned = regions, cube, coordinates); do not edit\n"
            "namespace Catii.Gen\nopen Catii.Store\n\n"
            "/-- (method#path, caller-owned inputs, alias/fresh/write program) -/\n"
            "def methodProgs : List (String × List Var × List Instr) := [\n%s\n]\n\nend Catii.Gen\n" % body), len(progs)



# ----------------------------------------------------------------------------------------------
# what IndxIO.save does to its file object (C12): the sequence of file operations, in source order
# ----------------------------------------------------------------------------------------------
def gen_indx_fileops(indx_src):
    """every call in IndxIO.save that touches the file parameter: methods of it (`f.write`, `f.tell`, `f.seek`,
    `f.truncate`, ...) and calls it is handed to (`arr.tofile(f)`, `numpy.save(f, ...)`, `os.ftruncate(f.fileno())`).
    A use of the file that is not a call (aliasing it, storing it) is outside the subset."""
    t = ast.parse(indx_src)
    save = None
    for n in t.body:
        if isinstance(n, ast.ClassDef) and n.name == "IndxIO":
            for m in n.body:
                if isinstance(m, ast.FunctionDef) and m.name == "save":
                    save = m
    if save is None:
        raise Unsupported("IndxIO.save not found")
    fname = save.args.args[0].arg
    ops = []
    accounted = set()

    def mentions(e):
        return any(isinstance(x, ast.Name) and x.id == fname for x in ast.walk(e))

    for c in ast.walk(save):
        if isinstance(c, ast.Call):
            f = c.func
            if isinstance(f, ast.Attribute) and isinstance(f.value, ast.Name) and f.value.id == fname:
                ops.append((c.lineno, c.col_offset, f.attr))
                accounted.add(id(f.value))
            args = list(c.args) + [k.value for k in c.keywords]
            for a in args:
                if isinstance(a, ast.Name) and a.id == fname:
                    name = f.attr if isinstance(f, ast.Attribute) else (f.id if isinstance(f, ast.Name) else "?")
                    ops.append((c.lineno, c.col_offset, name + "(file)"))
                    accounted.add(id(a))
                elif mentions(a) and not (isinstance(a, ast.Call) and isinstance(a.func, ast.Attribute)
                                            and isinstance(a.func.value, ast.Name) and a.func.value.id == fname):
                    raise Unsupported("the file object inside an argument expression")
    for x in ast.walk(save):
        if isinstance(x, ast.Name) and x.id == fname and id(x) not in accounted and not isinstance(x.ctx, ast.Param):
            if isinstance(x.ctx, ast.Store):
                raise Unsupported("the file parameter is re-bound")
            raise Unsupported("the file object is used outside a call (line %d)" % x.lineno)
    ops.sort()
    names = [o[2] for o in ops]
    return ("-- GENERATED by tools/translate.py from IndxIO.save in src/catii/indxio.py: every operation on the file object,\n"
            "-- in source order (loops listed once); do not edit\n"
            "namespace Catii.Gen\n\n"
            "def saveFileOps : List String := [%s]\n\nend Catii.Gen\n" % ", ".join(lean_str(n) for n in names)), names


def write_if_changed(path, text):
    try:
        if open(path, encoding="utf-8").read() == text:
            return False
    except FileNotFoundError:
        pass
    os.makedirs(os.path.dirname(path), exist_ok=True)
    with open(path, "w", encoding="utf-8") as f:
        f.write(text)
    return True


def main():
    """Regenerate every piece; prints one line `FAILED <piece>: <message>` per piece whose source left the translatable
    subset (a stub is written so that the Lean obligations about that piece fail); exit status 3 if any failed."""
    rd = lambda p: open(os.path.join(REPO, "src", "catii", p), encoding="utf-8").read()
    import translate_pyx
    import translate_walk
    import translate_eq
    import translate_indx
    import translate_strides
    import translate_missing
    import translate_driver
    import translate_diff
    import translate_validate
    import translate_common
    import translate_slices
    import translate_mask
    import translate_shift
    import translate_toarray
    import translate_append
    import translate_filtered
    import translate_queries
    failed = {}
    ERR = (Unsupported, translate_pyx.Unsupported, translate_walk.Unsupported, translate_eq.Unsupported, translate_indx.Unsupported, translate_strides.Unsupported, translate_missing.Unsupported, translate_driver.Unsupported, translate_diff.Unsupported, translate_validate.Unsupported, translate_common.Unsupported, translate_slices.Unsupported, translate_mask.Unsupported, translate_shift.Unsupported, translate_toarray.Unsupported, translate_append.Unsupported, translate_filtered.Unsupported, translate_queries.Unsupported,
           StopIteration, SyntaxError, KeyError, IndexError, AttributeError)

    def piece(name, path, gen, stub_import=None):
        try:
            write_if_changed(os.path.join(GEN, path), gen())
        except ERR as e:
            msg = str(e).replace("\n", " ")[:300]
            failed[name] = msg
            print("FAILED %s: %s" % (name, msg), file=sys.stderr)
            if stub_import:
                write_if_changed(os.path.join(GEN, path), "import %s\n-- translation FAILED: %s\n" % (stub_import, msg))

    piece("fit_dtype", "FitDtype.lean", lambda: FitDtype().run(rd("iindexes.py")))
    piece("consts", "Consts.lean", lambda: gen_consts(rd("indxio.py"), rd("iindexes.py"), rd("ccubes.py"), rd("xcubes.py")))
    piece("purity", "Purity.lean", lambda: gen_purity([("ffuncs", rd("ffuncs.py")), ("xfuncs", rd("xfuncs.py"))])[0])
    piece("indx_fileops", "IndxFileOps.lean", lambda: gen_indx_fileops(rd("indxio.py"))[0])
    piece("purity_methods", "PurityMethods.lean", lambda: gen_method_purity([("ffuncs", rd("ffuncs.py")), ("xfuncs", rd("xfuncs.py"))])[0])
    piece("kernels", "KernelsGen.lean", lambda: translate_pyx.generate(rd("set_operations.pyx")), "CatiiModel.Kernels")
    piece("walk", "WalkGen.lean", lambda: translate_walk.generate(rd("ccubes.py")), "CatiiModel.Cube")
    piece("eq", "EqGen.lean", lambda: translate_eq.generate(rd("iindexes.py")), "CatiiModel.IIndex")
    piece("indx_save", "IndxSaveGen.lean", lambda: translate_indx.generate(rd("indxio.py")), "CatiiModel.Indx")
    piece("indx_load", "IndxLoadGen.lean", lambda: translate_indx.generate_load(rd("indxio.py")), "CatiiModel.Indx")
    piece("strides", "StridesGen.lean", lambda: translate_strides.generate(rd("xcubes.py")), "CatiiModel.Prelude")
    piece("missing_rule", "MissingGen.lean",
          lambda: translate_missing.generate([("ffuncs", rd("ffuncs.py")), ("xfuncs", rd("xfuncs.py"))]), "CatiiModel.Prelude")
    piece("driver", "DriverGen.lean", lambda: translate_driver.generate(rd("ccubes.py"), rd("xcubes.py")), "CatiiModel.Sched")
    piece("marginal_diff", "DiffGen.lean", lambda: translate_diff.generate(rd("ccubes.py")), "CatiiModel.Cube")
    piece("validate", "ValidateGen.lean", lambda: translate_validate.generate(rd("iindexes.py")), "CatiiModel.IIndex")
    piece("choose_common", "CommonGen.lean", lambda: translate_common.generate(rd("iindexes.py")), "CatiiModel.IIndex")
    piece("slices1d", "SlicesGen.lean", lambda: translate_slices.generate(rd("iindexes.py")), "CatiiModel.IIndex")
    piece("common_rowids", "MaskGen.lean", lambda: translate_mask.generate(rd("iindexes.py")), "CatiiModel.IIndex")
    piece("shift_to", "ShiftGen.lean", lambda: translate_shift.generate(rd("iindexes.py")), "CatiiModel.IIndex")
    piece("to_array", "ToArrayGen.lean", lambda: translate_toarray.generate(rd("iindexes.py")), "CatiiModel.IIndex")
    piece("append", "AppendGen.lean", lambda: translate_append.generate(rd("iindexes.py")), "CatiiModel.IIndex")
    piece("filtered", "FilteredGen.lean", lambda: translate_filtered.generate(rd("iindexes.py")), "CatiiModel.IIndex")
    piece("queries", "QueriesGen.lean", lambda: translate_queries.generate(rd("iindexes.py")), "CatiiModel.IIndex")
    return 3 if failed else 0


if __name__ == "__main__":
    sys.exit(main())
