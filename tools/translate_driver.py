#!/venv/bin/python
"""Translator for the cube drivers: `ccube.calculate` (src/catii/ccubes.py) and `xcube.calculate` (src/catii/xcubes.py)
-> lean/CatiiModel/Gen/DriverGen.lean

The scheduling / interrupt / purity theorems (C16, C20, C17) are about a driver of this shape:

    results = [func.get_initial_regions(self) for func in funcs]        fresh result regions per call
    def fill_one_cube(x):                                               one TASK per sub-cube
        if self.check_interrupt is not None: self.check_interrupt()     the callback is consulted first, once
        ... regions = [region[tuple(flattened_slice)] for region in regions] ...   views selected by THIS task's coordinates
        ... fill ...                                                    no store to shared state except diagnostics
    if self.parallel:  pool.map(worker, product); re-raise what a worker handed back        (worker = task + BaseException hand-back)
    else:              for x in product: fill_one_cube(x)
    return reduce(...)

The translator does not execute anything: it reads the CURRENT source and emits what it finds as data (`Gen.ccubeDriver`,
`Gen.xcubeDriver : DriverFacts`).  The theorems then carry hypotheses of the form "the regenerated facts say so", discharged
by `decide` - so a driver that stops consulting the callback first, stores to `self` inside a task, allocates regions
elsewhere, maps something else over the pool or swallows exceptions breaks a proof obligation.
"""
import ast


class Unsupported(Exception):
    pass


DIAGNOSTIC = {"intersection_data_points", "_tracing"}


def lean_str(s):
    return '"' + s.replace("\\", "\\\\").replace('"', '\\"') + '"'


def stores_in(fn, shared_names):
    """names of shared things a task stores to: attributes of `self`, enclosing-scope names via nonlocal/global, and
    subscript stores through a local alias of `self.<attr>[...]` or of an enclosing mutable"""
    shared = []
    aliases = {}
    local = set(a.arg for a in fn.args.args)
    for n in ast.walk(fn):
        if isinstance(n, (ast.Global, ast.Nonlocal)):
            shared += ["nonlocal:" + x for x in n.names]
        if isinstance(n, (ast.Assign, ast.AugAssign, ast.AnnAssign)):
            targets = n.targets if isinstance(n, ast.Assign) else [n.target]
            val = n.value
            for t in targets:
                base = t
                sub = False
                while isinstance(base, ast.Subscript):
                    base, sub = base.value, True
                if isinstance(base, ast.Attribute) and isinstance(base.value, ast.Name) and base.value.id == "self":
                    shared.append(base.attr)
                elif isinstance(base, ast.Name):
                    if sub and base.id in aliases:
                        shared.append(aliases[base.id])
                    elif sub and base.id in shared_names:
                        shared.append("closure:" + base.id)
                    elif not sub:
                        local.add(base.id)
                        # alias of shared state?
                        v = val
                        while isinstance(v, ast.Subscript):
                            v = v.value
                        if isinstance(v, ast.Attribute) and isinstance(v.value, ast.Name) and v.value.id == "self":
                            aliases[base.id] = v.attr
        if isinstance(n, ast.Call) and isinstance(n.func, ast.Attribute) and n.func.attr in (
                "append", "extend", "update", "pop", "clear", "add", "setdefault", "insert", "remove", "acquire", "release"):
            b = n.func.value
            if isinstance(b, ast.Attribute) and isinstance(b.value, ast.Name) and b.value.id == "self":
                shared.append(b.attr)
            elif isinstance(b, ast.Name) and b.id in shared_names and b.id not in local:
                shared.append("closure:" + b.id)
    out = []
    for s in shared:
        if s not in out:
            out.append(s)
    return out


def diagnostic_reads(fn):
    """statements of `fn` (nested functions included) in which a diagnostic (`self.<DIAGNOSTIC>` or a local alias of one of
    its items) is READ by something other than the bookkeeping of the diagnostics themselves.  Allowed: stores / augmented
    stores whose target is the diagnostic (whatever the value reads), `alias = self.<diag>[...]`, and an `if` on a diagnostic
    whose body only stores to diagnostics.  Everything else that mentions one - a test, an iteration, a value assigned
    elsewhere, an argument - lets a counter that tasks update without a lock steer the computation."""
    aliases = set()

    def is_diag(e):
        while isinstance(e, ast.Subscript):
            e = e.value
        if isinstance(e, ast.Attribute) and isinstance(e.value, ast.Name) and e.value.id == "self" and e.attr in DIAGNOSTIC:
            return True
        return isinstance(e, ast.Name) and e.id in aliases

    def mentions(node):
        for n in ast.walk(node):
            if isinstance(n, ast.Attribute) and isinstance(n.value, ast.Name) and n.value.id == "self" and n.attr in DIAGNOSTIC:
                return True
            if isinstance(n, ast.Name) and n.id in aliases:
                return True
        return False

    def book(s):
        if isinstance(s, (ast.Assign, ast.AugAssign)):
            targets = s.targets if isinstance(s, ast.Assign) else [s.target]
            if all(is_diag(t) for t in targets):
                return True
            if isinstance(s, ast.Assign) and len(targets) == 1 and isinstance(targets[0], ast.Name) and is_diag(s.value):
                aliases.add(targets[0].id)
                return True
        if isinstance(s, ast.If) and not s.orelse and all(book(b) for b in s.body):
            return True
        return False

    reads = []

    def visit(stmts):
        for s in stmts:
            if book(s):
                continue
            headers = []
            bodies = []
            if isinstance(s, (ast.For, ast.While, ast.If, ast.With, ast.Try, ast.FunctionDef)):
                for fld in ("body", "orelse", "finalbody"):
                    bodies += getattr(s, fld, []) or []
                for h in getattr(s, "handlers", []) or []:
                    bodies += h.body
                for fld in ("test", "iter", "target"):
                    if getattr(s, fld, None) is not None:
                        headers.append(getattr(s, fld))
                for it in getattr(s, "items", []) or []:
                    headers.append(it.context_expr)
                if any(mentions(h) for h in headers):
                    reads.append(ast.unparse(s).split("\n")[0][:70])
                visit(bodies)
            elif mentions(s):
                reads.append(ast.unparse(s).split("\n")[0][:70])
    visit(fn.body)
    return reads


def facts(src, clsname, product_expr):
    tree = ast.parse(src)
    cls = next(n for n in tree.body if isinstance(n, ast.ClassDef) and n.name == clsname)
    calc = next(n for n in cls.body if isinstance(n, ast.FunctionDef) and n.name == "calculate")
    body = calc.body
    f = {}
    # fresh regions per call, before any task exists
    idx_res = [i for i, s in enumerate(body) if isinstance(s, ast.Assign) and ast.unparse(s) ==
               "results = [func.get_initial_regions(self) for func in funcs]"]
    tasks = [(i, s) for i, s in enumerate(body) if isinstance(s, ast.FunctionDef) and s.name == "fill_one_cube"]
    if len(tasks) != 1:
        raise Unsupported("%s.calculate: expected exactly one fill_one_cube" % clsname)
    ti, task = tasks[0]
    f["regionsPerCall"] = len(idx_res) == 1 and idx_res[0] < ti and not any(
        isinstance(n, ast.Name) and n.id == "results" and isinstance(n.ctx, ast.Store) for s in body[idx_res[0] + 1:] for n in ast.walk(s)) \
        if idx_res else False
    # the task: first effective statement, number of callback call sites
    tb = [s for s in task.body if not (isinstance(s, ast.Expr) and isinstance(s.value, ast.Constant))]
    first = tb[0] if tb else None
    guarded = (isinstance(first, ast.If) and ast.unparse(first.test) == "self.check_interrupt is not None" and len(first.body) == 1
               and ast.unparse(first.body[0]) == "self.check_interrupt()" and not first.orelse)
    f["callbackFirst"] = bool(guarded)
    f["callbackSites"] = sum(1 for n in ast.walk(task) if isinstance(n, ast.Call) and ast.unparse(n.func) == "self.check_interrupt")
    f["taskReturnsEarly"] = any(isinstance(n, ast.Return) for n in ast.walk(task))
    outer_names = set()
    for s in body[:ti]:
        for n in ast.walk(s):
            if isinstance(n, ast.Name) and isinstance(n.ctx, ast.Store):
                outer_names.add(n.id)
    f["sharedStores"] = stores_in(task, outer_names)
    f["diagnosticReads"] = diagnostic_reads(calc)
    views = [ast.unparse(n) for n in ast.walk(task) if isinstance(n, ast.Assign) and ast.unparse(n.targets[0]) == "regions"]
    f["viewSelection"] = views
    flat = [ast.unparse(n.value) for n in ast.walk(task) if isinstance(n, ast.Assign) and ast.unparse(n.targets[0]) == "flattened_slice"]
    f["flattened"] = flat
    # the two drivers
    par = [s for s in body[ti + 1:] if isinstance(s, ast.If) and ast.unparse(s.test) == "self.parallel"]
    if len(par) != 1:
        raise Unsupported("%s.calculate: expected one `if self.parallel`" % clsname)
    par = par[0]
    serial = [s for s in par.orelse if not (isinstance(s, ast.Expr) and isinstance(s.value, ast.Constant))]
    f["serialLoop"] = (len(serial) == 1 and isinstance(serial[0], ast.For) and ast.unparse(serial[0].iter) == product_expr
                       and len(serial[0].body) == 1 and ast.unparse(serial[0].body[0]) == "fill_one_cube(%s)" % ast.unparse(serial[0].target)
                       and not serial[0].orelse)
    pb = par.body
    worker = [s for s in pb if isinstance(s, ast.FunctionDef)]
    withs = [s for s in pb if isinstance(s, ast.With)]
    ok_worker = False
    if len(worker) == 1:
        wb = [s for s in worker[0].body if not (isinstance(s, ast.Expr) and isinstance(s.value, ast.Constant))]
        if len(wb) == 1 and isinstance(wb[0], ast.Try) and len(wb[0].body) == 1 \
                and ast.unparse(wb[0].body[0]) == "fill_one_cube(%s)" % worker[0].args.args[0].arg and len(wb[0].handlers) == 2:
            h1, h2 = wb[0].handlers
            ok_worker = (ast.unparse(h1.type) == "Exception" and len(h1.body) == 1 and isinstance(h1.body[0], ast.Raise) and h1.body[0].exc is None
                         and ast.unparse(h2.type) == "BaseException" and h2.name and len(h2.body) == 1
                         and ast.unparse(h2.body[0]) == "return %s" % h2.name and not wb[0].orelse and not wb[0].finalbody)
    f["workerHandsBack"] = ok_worker
    ok_pool = False
    if len(withs) == 1 and len(withs[0].items) == 1 and ast.unparse(withs[0].items[0].context_expr).startswith("closing(") \
            and withs[0].items[0].optional_vars is not None:
        pool = ast.unparse(withs[0].items[0].optional_vars)
        wbody = withs[0].body
        if len(wbody) == 1 and isinstance(wbody[0], ast.For) and len(worker) == 1 \
                and ast.unparse(wbody[0].iter) == "%s.map(%s, %s)" % (pool, worker[0].name, product_expr):
            v = ast.unparse(wbody[0].target)
            fb = wbody[0].body
            ok_pool = (len(fb) == 1 and isinstance(fb[0], ast.If) and ast.unparse(fb[0].test) == "%s is not None" % v
                       and len(fb[0].body) == 1 and ast.unparse(fb[0].body[0]) == "raise %s" % v and not fb[0].orelse)
    f["poolMapReraise"] = ok_pool
    # nothing between the drivers and the reduce may touch `results` except reading it
    return f


def lean_facts(name, f):
    b = lambda x: "true" if x else "false"
    return ("def %s : DriverFacts := {\n  regionsPerCall := %s,\n  callbackFirst := %s,\n  callbackSites := %d,\n  taskReturnsEarly := %s,\n"
            "  sharedStores := [%s],\n  diagnosticReads := [%s],\n  viewSelection := [%s],\n  flattened := [%s],\n  serialLoop := %s,\n  workerHandsBack := %s,\n"
            "  poolMapReraise := %s }\n" % (
                name, b(f["regionsPerCall"]), b(f["callbackFirst"]), f["callbackSites"], b(f["taskReturnsEarly"]),
                ", ".join(lean_str(s) for s in f["sharedStores"]), ", ".join(lean_str(s) for s in f["diagnosticReads"]),
                ", ".join(lean_str(s) for s in f["viewSelection"]),
                ", ".join(lean_str(s) for s in f["flattened"]), b(f["serialLoop"]), b(f["workerHandsBack"]), b(f["poolMapReraise"])))


def generate(ccubes_src, xcubes_src):
    c = facts(ccubes_src, "ccube", "self.product()")
    x = facts(xcubes_src, "xcube", "self.product")
    return ("import CatiiModel.Sched\n"
            "-- GENERATED by tools/translate_driver.py from ccube.calculate / xcube.calculate; do not edit.\n"
            "namespace Catii.Gen\nopen Catii.Sched\n\n" + lean_facts("ccubeDriver", c) + "\n" + lean_facts("xcubeDriver", x) +
            "\nend Catii.Gen\n")


if __name__ == "__main__":
    rd = lambda p: open("/repo/src/catii/" + p).read()
    print(generate(rd("ccubes.py"), rd("xcubes.py")))
