#!/venv/bin/python
"""Translator for `iindex.filtered` (src/catii/iindexes.py), everything before the final `new_index.shift_common()`
-> lean/CatiiModel/Gen/FilteredGen.lean

    new_rowids = numpy.empty(len(mask), dtype=self.rowid_dtype)
    new_rowids[mask] = numpy.arange(new_length, dtype=self.rowid_dtype)       position of every kept row among the kept ones
    new_entries = {}
    for coords, rowids in self.items():
        m = mask[rowids]                                                        which of the entry's rows are kept
        if numpy.any(m):
            filtered_rowids = rowids[m]
            new_entries[coords] = new_rowids[filtered_rowids]                   renumbered
    new_shape = (new_length,) + self.shape[1:]
    new_index = self.__class__(new_entries, self.common, new_shape)
    new_index.shift_common()
    return new_index

The loop body is COMPILED over the model's NumPy primitives (`maskedArange`: the masked assignment of `arange`; `boolIndex`:
`a[boolean array]`; integer fancy indexing as `getD`); what the loop reads and writes, the guard and the constructor call are
taken from the source.
"""
import ast


class Unsupported(Exception):
    pass


def nodoc(stmts):
    return [s for s in stmts if not (isinstance(s, ast.Expr) and isinstance(s.value, ast.Constant))]


class Body:
    def __init__(self):
        self.bools, self.rows = set(), {"rowids"}

    def rowsexpr(self, e):
        if isinstance(e, ast.Name) and e.id in self.rows:
            return e.id
        if isinstance(e, ast.Subscript) and isinstance(e.value, ast.Name) and isinstance(e.slice, ast.Name):
            a, i = e.value.id, e.slice.id
            if a in self.rows and i in self.bools:
                return "(boolIndex %s %s)" % (a, i)                                   # rows[boolean array]
            if a == "new_rowids" and i in self.rows:
                return "(%s.map fun r => new_rowids.getD r 0)" % i                      # new_rowids[row ids]
        raise Unsupported("row-id expression " + ast.unparse(e))

    def boolexpr(self, e):
        if isinstance(e, ast.Subscript) and ast.unparse(e.value) == "mask" and isinstance(e.slice, ast.Name) and e.slice.id in self.rows:
            return "(%s.map fun r => mask.getD r false)" % e.slice.id                   # mask[row ids]
        raise Unsupported("boolean expression " + ast.unparse(e))

    def test(self, e):
        s = ast.unparse(e)
        for b in self.bools:
            if s in ("numpy.any(%s)" % b, "%s.any()" % b):
                return "%s.any id" % b
        raise Unsupported("test " + s)

    def block(self, stmts, ind):
        pad = "  " * ind
        if not stmts:
            return pad + "new_entries"
        s, rest = stmts[0], stmts[1:]
        if isinstance(s, ast.Assign) and len(s.targets) == 1:
            t = s.targets[0]
            if isinstance(t, ast.Name):
                try:
                    v = self.boolexpr(s.value)
                    self.bools.add(t.id)
                except Unsupported:
                    v = self.rowsexpr(s.value)
                    self.rows.add(t.id)
                return pad + "let %s := %s\n" % (t.id, v) + self.block(rest, ind)
            if isinstance(t, ast.Subscript) and ast.unparse(t.value) == "new_entries" and ast.unparse(t.slice) == "coords":
                return pad + "let new_entries := dset new_entries coords %s\n" % self.rowsexpr(s.value) + self.block(rest, ind)
        if isinstance(s, ast.If):
            return (pad + "if %s then\n" % self.test(s.test) + self.block(nodoc(s.body) + rest, ind + 1) + "\n" + pad + "else\n"
                    + self.block(nodoc(s.orelse) + rest, ind + 1))
        raise Unsupported("statement " + ast.unparse(s)[:100])


def generate(iidx_src):
    tree = ast.parse(iidx_src)
    cls = next(n for n in tree.body if isinstance(n, ast.ClassDef) and n.name == "iindex")
    fn = next(n for n in cls.body if isinstance(n, ast.FunctionDef) and n.name == "filtered")
    if [a.arg for a in fn.args.args] != ["self", "mask", "new_length"]:
        raise Unsupported("filtered signature")
    body = nodoc(fn.body)
    want = {0: "new_rowids = numpy.empty(len(mask), dtype=self.rowid_dtype)",
            1: "new_rowids[mask] = numpy.arange(new_length, dtype=self.rowid_dtype)",
            2: "new_entries = {}",
            4: "new_shape = (new_length,) + self.shape[1:]",
            5: "new_index = self.__class__(new_entries, self.common, new_shape)",
            6: "new_index.shift_common()",
            7: "return new_index"}
    if len(body) != 8 or any(ast.unparse(body[i]) != w for i, w in want.items()):
        got = [ast.unparse(b)[:70] for b in body]
        raise Unsupported("filtered is no longer [renumbering table; empty dict; loop; new shape; new index; shift_common(); return]: %s" % got)
    loop = body[3]
    if not (isinstance(loop, ast.For) and not loop.orelse and ast.unparse(loop.iter) == "self.items()"
            and ast.unparse(loop.target) in ("(coords, rowids)", "coords, rowids")):
        raise Unsupported("loop over the entries: " + ast.unparse(loop)[:100])
    b = Body().block(nodoc(loop.body), 3)
    return ("import CatiiModel.IIndex\n"
            "-- GENERATED by tools/translate_filtered.py from iindex.filtered (everything before the final shift_common()); do not edit.\n"
            "namespace Catii.Gen\nopen Catii.IIdx\n\n"
            "/-- the index `filtered(mask, new_length)` builds, just before its `shift_common()` -/\n"
            "def filteredPreGen (self : IIndex) (mask : List Bool) (new_length : Nat) : IIndex :=\n"
            "  let new_rowids := maskedArange mask\n"
            "  let new_entries : List (Key × Rows) := []\n"
            "  let new_entries := self.entries.foldl (fun new_entries (coords, rowids) =>\n" + b + ") new_entries\n"
            "  { entries := new_entries, common := self.common, shape := new_length :: self.shape.drop 1 }\n\nend Catii.Gen\n")


if __name__ == "__main__":
    print(generate(open("/repo/src/catii/iindexes.py").read()))
