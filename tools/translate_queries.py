#!/venv/bin/python
"""Translator for the forced queries `iindex.get(key, default, force)` and `iindex.items(force)` (src/catii/iindexes.py)
-> lean/CatiiModel/Gen/QueriesGen.lean

    def get(self, key, default=None, force=False):
        if force and key[K] == self.common:
            rowids = self.common_rowids(*key[1:])
            return default if len(rowids) == 0 else rowids
        return super().get(key, default)

    def items(self, force=False):
        if force:
            if len(self.shape) == 1:
                commons = (((self.common,), self.common_rowids()) for _ in [1])
            else:
                commons = (((self.common, colindex), self.common_rowids(colindex)) for colindex in range(self.shape[1]))
            return chain(self.items(), commons)
        else:
            return super().items()

compiled to `Gen.getGen self key force : Option Rows` (`default` = None) and `Gen.itemsForceGen self : List (Key x Rows)`, both
through `Gen.commonRowidsGen` (the `common_rowids` piece).  The test of `get`, the emptiness test, the keys and arguments of the
two generator expressions and the order of `chain` are compiled from what the source says.
"""
import ast


class Unsupported(Exception):
    pass


def nodoc(stmts):
    return [s for s in stmts if not (isinstance(s, ast.Expr) and isinstance(s.value, ast.Constant))]


def key_at(e, name):
    if isinstance(e, ast.Subscript) and isinstance(e.value, ast.Name) and e.value.id == name and isinstance(e.slice, ast.Constant) \
            and isinstance(e.slice.value, int) and e.slice.value >= 0:
        return "(%s.getD %d 0)" % (name, e.slice.value)
    return None


def scalar(e, col=None):
    s = ast.unparse(e)
    if s == "self.common":
        return "self.common"
    k = key_at(e, "key")
    if k:
        return k
    if isinstance(e, ast.Name) and e.id == col:
        return "(%s : Int)" % col
    raise Unsupported("scalar " + s)


def gen_get(fn):
    if [a.arg for a in fn.args.args] != ["self", "key", "default", "force"]:
        raise Unsupported("get signature")
    body = nodoc(fn.body)
    if not (len(body) == 2 and isinstance(body[0], ast.If) and not body[0].orelse and ast.unparse(body[1]) == "return super().get(key, default)"):
        raise Unsupported("get is no longer [forced branch; dict.get]")
    t = body[0].test
    if not (isinstance(t, ast.BoolOp) and isinstance(t.op, ast.And) and len(t.values) == 2 and ast.unparse(t.values[0]) == "force"
            and isinstance(t.values[1], ast.Compare) and len(t.values[1].ops) == 1 and isinstance(t.values[1].ops[0], ast.Eq)):
        raise Unsupported("forced test " + ast.unparse(t))
    test = "(force && (%s == %s))" % (scalar(t.values[1].left), scalar(t.values[1].comparators[0]))
    fb = nodoc(body[0].body)
    if not (len(fb) == 2 and ast.unparse(fb[0]) == "rowids = self.common_rowids(*key[1:])" and isinstance(fb[1], ast.Return)
            and isinstance(fb[1].value, ast.IfExp)):
        raise Unsupported("forced branch " + "; ".join(ast.unparse(s) for s in fb)[:120])
    ie = fb[1].value
    tt = ast.unparse(ie.test)
    if tt in ("len(rowids) == 0", "not len(rowids)") and ast.unparse(ie.body) == "default" and ast.unparse(ie.orelse) == "rowids":
        ret = "if rowids.length == 0 then none else some rowids"
    elif tt in ("len(rowids)", "len(rowids) > 0", "len(rowids) != 0") and ast.unparse(ie.body) == "rowids" and ast.unparse(ie.orelse) == "default":
        ret = "if rowids.length == 0 then none else some rowids"
    else:
        raise Unsupported("forced return " + ast.unparse(ie))
    return ("/-- `get(key, None, force)`: `common_rowids(*key[1:])` takes the key's second coordinate when there is one -/\n"
            "def getGen (self : IIndex) (key : Key) (force : Bool) : Option Rows :=\n"
            "  if %s then\n"
            "    let rowids := commonRowidsGen self (starArg (key.drop 1))\n"
            "    %s\n"
            "  else dget self.entries key\n" % (test, ret))


def genexp(e, col):
    """((KEY, self.common_rowids(ARGS)) for VAR in ITER) -> (key, arg, iter)"""
    if not (isinstance(e, ast.GeneratorExp) and len(e.generators) == 1 and not e.generators[0].ifs and isinstance(e.elt, ast.Tuple)
            and len(e.elt.elts) == 2 and isinstance(e.elt.elts[0], ast.Tuple)):
        raise Unsupported("commons " + ast.unparse(e)[:100])
    g = e.generators[0]
    var = ast.unparse(g.target)
    key = "[" + ", ".join(scalar(x, var if col else None) for x in e.elt.elts[0].elts) + "]"
    call = e.elt.elts[1]
    if not (isinstance(call, ast.Call) and ast.unparse(call.func) == "self.common_rowids" and not call.keywords):
        raise Unsupported("commons value " + ast.unparse(call))
    if col:
        if not (ast.unparse(g.iter) == "range(self.shape[1])" and len(call.args) == 1 and ast.unparse(call.args[0]) == var):
            raise Unsupported("per-column commons " + ast.unparse(e)[:100])
        return key, "(some (%s : Int))" % var, var
    if not (ast.unparse(g.iter) == "[1]" and len(call.args) == 0):
        raise Unsupported("one-axis commons " + ast.unparse(e)[:100])
    return key, "none", None


def gen_items(fn):
    if [a.arg for a in fn.args.args] != ["self", "force"]:
        raise Unsupported("items signature")
    body = nodoc(fn.body)
    if not (len(body) == 1 and isinstance(body[0], ast.If) and ast.unparse(body[0].test) == "force"
            and [ast.unparse(s) for s in nodoc(body[0].orelse)] == ["return super().items()"]):
        raise Unsupported("items is no longer [if force: ... else: dict.items()]")
    fb = nodoc(body[0].body)
    if not (len(fb) == 2 and isinstance(fb[0], ast.If) and ast.unparse(fb[0].test) == "len(self.shape) == 1"
            and ast.unparse(fb[1]) == "return chain(self.items(), commons)"):
        raise Unsupported("forced items " + "; ".join(ast.unparse(s) for s in fb)[:140])
    one, many = nodoc(fb[0].body), nodoc(fb[0].orelse)
    if not (len(one) == 1 and isinstance(one[0], ast.Assign) and ast.unparse(one[0].targets[0]) == "commons"
            and len(many) == 1 and isinstance(many[0], ast.Assign) and ast.unparse(many[0].targets[0]) == "commons"):
        raise Unsupported("commons assignments")
    k1, a1, _ = genexp(one[0].value, False)
    k2, a2, var = genexp(many[0].value, True)
    return ("/-- `items(force=True)`: the explicit entries, then the common value's rows (per column) -/\n"
            "def itemsForceGen (self : IIndex) : List (Key × Rows) :=\n"
            "  if self.shape.length == 1 then\n"
            "    self.entries ++ [(%s, commonRowidsGen self %s)]\n"
            "  else\n"
            "    self.entries ++ (List.range (self.shape.getD 1 0)).map fun (%s : Nat) => (%s, commonRowidsGen self %s)\n" % (k1, a1, var, k2, a2))


def generate(iidx_src):
    tree = ast.parse(iidx_src)
    cls = next(n for n in tree.body if isinstance(n, ast.ClassDef) and n.name == "iindex")
    get = next(n for n in cls.body if isinstance(n, ast.FunctionDef) and n.name == "get")
    items = next(n for n in cls.body if isinstance(n, ast.FunctionDef) and n.name == "items")
    return ("import CatiiModel.IIndex\nimport CatiiModel.Gen.MaskGen\n"
            "-- GENERATED by tools/translate_queries.py from iindex.get / iindex.items; do not edit.\n"
            "namespace Catii.Gen\nopen Catii.IIdx\n\n" + gen_get(get) + "\n" + gen_items(items) + "\nend Catii.Gen\n")


if __name__ == "__main__":
    print(generate(open("/repo/src/catii/iindexes.py").read()))
