#!/venv/bin/python
"""Apply a seeded change to /repo, run its demonstration and the given checks, and undo it.
usage: tools/try_seeded.py <dir with patch.diff and demo.py> <check ids...>"""
import json
import os
import subprocess
import sys

d = os.path.abspath(sys.argv[1])
checks = sys.argv[2:]
patch = os.path.join(d, "patch.diff")
demo = os.path.join(d, "demo.py")
env = dict(os.environ, PYTHONPATH="/repo/src")


def sh(cmd, **kw):
    return subprocess.run(cmd, shell=True, capture_output=True, text=True, **kw)


def rebuild_if_pyx():
    if "set_operations.pyx" in open(patch).read():
        so = sh("/venv/bin/python /verif/tools/buildext.py plain").stdout.split()[-1]
        sh("cp %s /repo/src/catii/set_operations.cpython-312-x86_64-linux-gnu.so" % so)


assert sh("git -C /repo status --porcelain").stdout.strip() == "", "/repo not clean"
r0 = sh("timeout 600 /venv/bin/python %s" % demo, env=env)
print("demo on unchanged tree: rc=%d" % r0.returncode)
a = sh("git -C /repo apply %s" % patch)
if a.returncode != 0:
    print("patch does not apply:", a.stderr[:500])
    sys.exit(2)
out = {}
try:
    rebuild_if_pyx()
    r1 = sh("timeout 600 /venv/bin/python %s" % demo, env=env)
    print("demo with the change:   rc=%d" % r1.returncode)
    for c in checks:
        # evidence of a run on a CHANGED tree does not belong in /verif/evidence (the committed files describe the unchanged tree)
        r = sh("cd /verif && timeout 1800 ./check %s" % c, env=dict(os.environ, VERIF_EVIDENCE_DIR="/verif/.cache/seeded_evidence"))
        line = [l for l in r.stdout.splitlines() if l.startswith("VIOLATION")]
        out[c] = (r.returncode, line[0] if line else "", [l for l in r.stdout.splitlines() if l.startswith("  ")][:1])
        print("check %s: rc=%d %s %s" % (c, r.returncode, line[0] if line else "(no violation)", out[c][2]))
finally:
    sh("git -C /repo checkout -- .")
    rebuild_if_pyx()
    assert sh("git -C /repo status --porcelain").stdout.strip() == ""
    sh("/venv/bin/python /verif/tools/translate.py")      # the generated Lean files are those of the unchanged tree again
print(json.dumps({c: v[0] for c, v in out.items()}))
