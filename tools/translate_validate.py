#!/venv/bin/python
"""Translator for the library's own well-formedness test: `iindex.validate(check_comprehensive_unique=True)` in
src/catii/iindexes.py -> lean/CatiiModel/Gen/ValidateGen.lean

`validate` raises on the first entry that fails a test; the translator collects the tests (in source order) and emits the
predicate "validate(True) raises nothing" over the model's index:

    coords[0] == self.common                                   entry under the common value
    len(rowids) != len(numpy.unique(rowids))                   a row id listed twice
    not numpy.array_equal(rowids, numpy.unique(rowids))        row ids not increasing
    comprehensive: coords[0] != other[0] and coords[1:] == other[1:] and rowid_set & other_rowid_set   a row under two values

The tests of Python types (shape entries are `int`, coordinates are not NumPy scalars, row ids are an ndarray of the row-id
dtype) are recognised and skipped: the model's values are integers and lists by construction.
"""
import ast


class Unsupported(Exception):
    pass


def raises_value_error(s):
    return (isinstance(s, ast.Raise) and isinstance(s.exc, ast.Call) and ast.unparse(s.exc.func) == "ValueError")


def generate(iidx_src):
    tree = ast.parse(iidx_src)
    cls = next(n for n in tree.body if isinstance(n, ast.ClassDef) and n.name == "iindex")
    fn = next(n for n in cls.body if isinstance(n, ast.FunctionDef) and n.name == "validate")
    if [a.arg for a in fn.args.args] != ["self", "check_comprehensive_unique"]:
        raise Unsupported("validate signature")
    body = [s for s in fn.body if not (isinstance(s, ast.Expr) and isinstance(s.value, ast.Constant))]
    per_entry, pairwise, skipped = [], [], []
    i = 0
    # 1. shape types
    if ast.unparse(body[0]) == "shape_types = {type(s) for s in self.shape}" and isinstance(body[1], ast.If) \
            and ast.unparse(body[1].test) == "not shape_types.issubset({int})" and raises_value_error(body[1].body[0]):
        skipped.append("shape entries are Python ints")
        i = 2
    loop = body[i]
    if not (isinstance(loop, ast.For) and ast.unparse(loop.target) == "(coords, rowids)" and ast.unparse(loop.iter) == "self.items()"):
        raise Unsupported("validate: the per-entry loop")
    uniq_name = None
    for s in loop.body:
        u = ast.unparse(s)
        if isinstance(s, ast.For) and ast.unparse(s.iter) == "coords" and len(s.body) == 1 and isinstance(s.body[0], ast.If) \
                and "isinstance" in ast.unparse(s.body[0].test) and "numpy.generic" in ast.unparse(s.body[0].test):
            skipped.append("coordinates are not NumPy scalars")
        elif isinstance(s, ast.If) and raises_value_error(s.body[0]) and not s.orelse:
            t = ast.unparse(s.test)
            if t == "coords[0] == self.common":
                per_entry.append("!(val0 coords == i.common)")
            elif uniq_name and t == "len(rowids) != len(%s)" % uniq_name:
                per_entry.append("(rowids.length == (npUnique rowids).length)")
            elif uniq_name and t == "not numpy.array_equal(rowids, %s)" % uniq_name:
                per_entry.append("(rowids == npUnique rowids)")
            else:
                raise Unsupported("validate: per-entry test `%s`" % t)
        elif isinstance(s, ast.Try) and "rowids.dtype != self.rowid_dtype" in u:
            skipped.append("row ids are an ndarray of the row-id dtype")
        elif isinstance(s, ast.Assign) and ast.unparse(s.value) == "numpy.unique(rowids)" and isinstance(s.targets[0], ast.Name):
            uniq_name = s.targets[0].id
        else:
            raise Unsupported("validate: statement `%s`" % u[:100])
    rest = body[i + 1:]
    if len(rest) != 1 or not (isinstance(rest[0], ast.If) and ast.unparse(rest[0].test) == "check_comprehensive_unique"):
        raise Unsupported("validate: the comprehensive check")
    comp = rest[0].body
    ok = (len(comp) == 2 and ast.unparse(comp[0]) == "rowid_sets = {coords: set(rowids.tolist()) for coords, rowids in self.items()}"
          and isinstance(comp[1], ast.For) and ast.unparse(comp[1].iter) == "rowid_sets.items()"
          and len(comp[1].body) == 1 and isinstance(comp[1].body[0], ast.For) and ast.unparse(comp[1].body[0].iter) == "rowid_sets.items()")
    if not ok:
        raise Unsupported("validate: shape of the comprehensive check")
    inner = comp[1].body[0].body
    if not (len(inner) == 1 and isinstance(inner[0], ast.If)
            and ast.unparse(inner[0].test) == "coords[0] != other_coords[0] and coords[1:] == other_coords[1:]"
            and len(inner[0].body) == 2 and ast.unparse(inner[0].body[0]) == "intersection = rowid_set.intersection(other_rowid_set)"
            and isinstance(inner[0].body[1], ast.If) and ast.unparse(inner[0].body[1].test) == "intersection"
            and raises_value_error(inner[0].body[1].body[0])):
        raise Unsupported("validate: the exclusivity test")
    if len(per_entry) != 3:
        raise Unsupported("validate: expected three per-entry tests, found %d" % len(per_entry))
    return ("import CatiiModel.IIndex\n"
            "-- GENERATED by tools/translate_validate.py from iindex.validate in src/catii/iindexes.py; do not edit.\n"
            "-- skipped (Python types, not expressible in the model): %s\n"
            "namespace Catii.Gen\nopen Catii.IIdx\n\n"
            "/-- `validate(check_comprehensive_unique=True)` raises nothing -/\n"
            "def validateGen (i : IIndex) : Bool :=\n"
            "  (i.entries.all fun (coords, rowids) => %s) &&\n"
            "  (i.entries.all fun (coords, rowids) => i.entries.all fun (other_coords, other_rowids) =>\n"
            "    !((val0 coords != val0 other_coords) && (coords.drop 1 == other_coords.drop 1)) ||\n"
            "      (rowids.filter fun r => other_rowids.contains r).isEmpty)\n\nend Catii.Gen\n" % ("; ".join(skipped), " && ".join(per_entry)))


if __name__ == "__main__":
    print(generate(open("/repo/src/catii/iindexes.py").read()))
