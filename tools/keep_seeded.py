#!/venv/bin/python
"""Store a confirmed seeded change under /verif/seeded/<name>/ (patch.diff, demo.py, meta.json).
usage: tools/keep_seeded.py <OUT dir> <name> <property> '<json: {check: [rc, first line]}>' """
import json
import os
import shutil
import sys

src, name, prop, res = sys.argv[1], sys.argv[2], sys.argv[3], json.loads(sys.argv[4])
dst = os.path.join("/verif/seeded", name)
os.makedirs(dst, exist_ok=True)
shutil.copy(os.path.join(src, "patch.diff"), dst)
shutil.copy(os.path.join(src, "demo.py"), dst)
am = json.load(open(os.path.join(src, "meta.json")))
meta = {
    "property": prop,
    "summary": am.get("summary"),
    "needs_to_manifest": am.get("needs"),
    "author_verification": am.get("verified"),
    "confirmed_by_me": {
        "suite": "tools/suite_in_worktree.py <scratch worktree with the change>: every one of the 605 stable-pass tests of /root/.vp/BASELINE.json still passes",
        "demo": "tools/try_seeded.py: PYTHONPATH=/repo/src demo.py exits 0 on the unchanged tree and 1 with patch.diff applied",
        "checks": {k: {"exit": v[0], "first_line": v[1]} for k, v in res.items()},
        "how": "git -C /repo apply patch.diff; ./check <id>; git -C /repo checkout -- .",
    },
}
json.dump(meta, open(os.path.join(dst, "meta.json"), "w"), indent=1)
print(dst)
