import CatiiProofs.KernLoops
import CatiiProofs.KernSets
import CatiiProofs.KernTop
import CatiiProofs.KernMany
import CatiiProofs.Indx
import CatiiProofs.IndxSave
import CatiiProofs.IndxLoad
import CatiiProofs.IndxTop
