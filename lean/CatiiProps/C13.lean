import CatiiProofs.Slices
import CatiiProofs.SlicesGenBridge
import CatiiProofs.Bridge
import Mathlib.Data.List.Forall2
/-!
# C13 — extra axes are outermost, in order, and index independent sub-cubes

`IIndex.slices` is the model of `slices1d()`; `Stack.stackAgg` the model of the cube driver over
multi-axis dimensions: one sub-cube per element of the Cartesian product of the dimensions' slices,
stored in the block selected by the concatenated slice labels.

* `slices_are_labelled_columns`: every yielded pair is labelled with its higher coordinates **in
  axis order** and is the well-formed one-axis index whose dense column is the column of the original
  at those coordinates; every combination of higher coordinates is yielded.
* `block_is_cube_of_slices`: the block stored under a label is, by construction, the aggregate over
  the one-axis slices carrying that label; `blocks_cover_the_scaffold`: the labels of a stack are the
  concatenations, in dimension order, of one label per dimension.

The result *shape* (extra extents outermost) and the equality of every block with the cube of the
slices are checked on the real code for both cube types and every aggregate (oracle), and
`slices1d` of the real code is compared with the model.
-/
namespace Catii.C13
open Catii.IIdx Catii.Stack Catii.Cube Catii.Agg

theorem slices_are_labelled_columns (i : IIndex) (h : WF i) :
    (∀ p ∈ i.slices, ∃ hi ∈ hiCells (i.shape.drop 1),
      p.1 = hi ∧ WF p.2 ∧ p.2.shape = [i.nrows] ∧ p.2.common = i.common ∧
      ∀ r, denseAt p.2 r [] = denseAt i r hi) ∧
    (∀ hi ∈ hiCells (i.shape.drop 1), ∃ p ∈ i.slices, p.1 = hi) :=
  slices_labelled i h

/-- the same for the slice iteration REGENERATED from `iindex.slices1d` on every run (`tools/translate_slices.py`: one bucket per
position of the last axis, the entry losing that coordinate, the position prepended to the label, recursion on the shorter
shape): every yielded pair is a column of the index labelled with its own higher coordinates, and every column is yielded -/
theorem generated_slices_are_labelled_columns (i : IIndex) (h : WF i) :
    (∀ p ∈ Gen.slices1dGen i.shape.length i [], ∃ hi ∈ hiCells (i.shape.drop 1),
      p.1 = hi ∧ WF p.2 ∧ p.2.shape = [i.nrows] ∧ p.2.common = i.common ∧
      ∀ r, denseAt p.2 r [] = denseAt i r hi) ∧
    (∀ hi ∈ hiCells (i.shape.drop 1), ∃ p ∈ Gen.slices1dGen i.shape.length i [], p.1 = hi) := by
  rw [gen_slices1d_eq]; exact slices_are_labelled_columns i h

theorem mem_product {α : Type} (ls : List (List α)) (combo : List α) :
    combo ∈ product ls ↔ List.Forall₂ (fun x l => x ∈ l) combo ls := by
  induction ls generalizing combo with
  | nil => simp [product]
  | cons l ls ih =>
    simp only [product, List.mem_flatMap, List.mem_map]
    constructor
    · rintro ⟨x, hx, t, ht, rfl⟩
      exact List.Forall₂.cons hx ((ih t).mp ht)
    · intro h
      cases h with
      | cons hx ht => exact ⟨_, hx, _, (ih _).mpr ht, rfl⟩

/-- the block stored under a label is the aggregate over the one-axis slices carrying that label -/
theorem block_is_cube_of_slices (s : Spec) (ixs : List IIndex) (exts : List Nat) (N : Nat)
    (b : List Int × Except Cube.Err (Cell → CellOut)) (hb : b ∈ stackAgg s ixs exts N) :
    ∃ combo : List (List Int × IIndex),
      List.Forall₂ (fun p i => p ∈ i.slices) combo ixs ∧
      b.1 = combo.flatMap (·.1) ∧ b.2 = ccubeAgg s (combo.map fun p => toDim p.2) exts N := by
  simp only [stackAgg, List.mem_map] at hb
  obtain ⟨combo, hc, rfl⟩ := hb
  refine ⟨combo, ?_, rfl, rfl⟩
  have := (mem_product _ combo).mp hc
  rw [List.forall₂_map_right_iff] at this
  exact this

/-- every choice of one slice per dimension has its block -/
theorem blocks_cover_the_scaffold (s : Spec) (ixs : List IIndex) (exts : List Nat) (N : Nat)
    (combo : List (List Int × IIndex)) (hc : List.Forall₂ (fun p i => p ∈ i.slices) combo ixs) :
    (combo.flatMap (·.1), ccubeAgg s (combo.map fun p => toDim p.2) exts N) ∈ stackAgg s ixs exts N := by
  simp only [stackAgg, List.mem_map]
  refine ⟨combo, (mem_product _ combo).mpr ?_, rfl⟩
  rw [List.forall₂_map_right_iff]
  exact hc

/-! Non-vacuity: a (3, 2, 2) index; its four slices are labelled (0,0) (1,0) (0,1) (1,1) — first
coordinate of the label = second axis — and `WF` holds. -/
def ex3 : IIndex := ⟨[([1, 0, 1], [0]), ([2, 1, 0], [1, 2])], 0, [3, 2, 2]⟩
example : WF ex3 := wf_sound ex3 (by decide)
example : ex3.slices.map (·.1) = [[0, 0], [1, 0], [0, 1], [1, 1]] := by decide

end Catii.C13
