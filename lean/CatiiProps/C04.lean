import CatiiProofs.AggProofs
import CatiiProofs.MissingGenBridge
/-!
# C04 — the missing-cell rule and the three report formats agree

`inCell dims c r`: row `r` falls in cell `c`.  `rowOk s r`: the fact and weight values of row `r`
are valid (for `count`: the weight).  `missing_rule` states the property's rule for the reference
computation `directAgg`; by C03 it is the rule of both cube types.  `formats_agree`: NaN in place,
`(sentinel, False)` and a plain replacement value render the same missing set and identical values
elsewhere.  Excluded as documented: `valid_count` with a plain 0 replacement (the code's shortcut),
and the unweighted `count` (missing iff no row at all, `count_missing_iff_no_row`).
-/
namespace Catii.C04
open Catii.Cube Catii.Marg Catii.Agg

theorem missing_rule (s : Spec) (dims : List Dim) (N : Nat) (c : Cell)
    (hw : s.func = .count → s.weights ≠ .none)
    (hex : ¬ (s.func = .validCount ∧ s.ret.isPlainZero = true)) :
    (directAgg s dims N c).missing = true ↔
      (∀ r < N, inCell dims c r = true → rowOk s r = false) ∨
      (s.ignoreMissing = false ∧ ∃ r < N, inCell dims c r = true ∧ rowOk s r = false) ∨
      (s.func = .mean ∧ directMeasure dims N (rowDen s) c = 0) :=
  Agg.missing_rule s dims N c hw hex

/-- unweighted count: missing exactly when no input row falls in the cell -/
theorem count_missing_iff_no_row (s : Spec) (dims : List Dim) (N : Nat) (c : Cell)
    (hf : s.func = .count) (hw : s.weights = .none) :
    (directAgg s dims N c).missing = true ↔ ∀ r < N, inCell dims c r = false := by
  have key := counter_zero_iff dims N (fun _ => true) c
  obtain ⟨func, fact, weights, ign, ret, tol⟩ := s
  simp only at hf hw
  subst hf hw
  unfold directAgg aggFrom reduceCell
  simp only [isClose0_zero, decide_eq_true_eq]
  have hrv : (rowVal { func := .count, fact := fact, weights := .none, ignoreMissing := ign, ret := ret, zeroTol := 0 })
      = fun _ => ind true := by
    funext r; simp [rowVal, rowOk, wOk, wVal, ind]
  rw [hrv, key]
  constructor
  · intro h r hr
    cases hc : inCell dims c r with
    | false => rfl
    | true => exact absurd (h r hr hc) (by simp)
  · intro h r hr hc
    rw [h r hr] at hc; cases hc

theorem formats_agree (s : Spec) (c : CellOut) (sentinel v : Rat) :
    ((render { s with ret := .nan } c).1 = none ↔ c.missing = true) ∧
    ((render { s with ret := .pair sentinel } c).2 = !c.missing) ∧
    (c.missing = false →
      (render { s with ret := .nan } c).1 = some c.value ∧
      (render { s with ret := .pair sentinel } c).1 = some c.value ∧
      (render { s with ret := .plain v } c).1 = some c.value) :=
  Agg.formats_agree s c sentinel v

/-- the cell computed does not depend on the report format (except the documented shortcut) -/
theorem cell_independent_of_format (s : Spec) (r1 r2 : Ret) (a v m den : Rat)
    (h : s.func ≠ .validCount) :
    reduceCell { s with ret := r1 } a v m den = reduceCell { s with ret := r2 } a v m den := by
  obtain ⟨func, fact, weights, ign, ret, tol⟩ := s
  simp only at h
  cases func <;> first | exact absurd rfl h | rfl

/-! ### the missing-cell decisions REGENERATED from the `reduce` methods on every run (`tools/translate_missing.py`)

`MissingGen.<class>` is the current `output_is_missing` expression of `<class>.reduce` (for both values of `ignore_missing`);
a rule that is assigned elsewhere, a validity that is not `~output_is_missing`, or a zero-adjustment of the weight sum that
moved behind the rule does not translate. -/

/-- weighted count, valid count and sum of BOTH cube types: the model's missing flag is the regenerated expression evaluated on
the cell's valid / missing counters, and all six classes carry the same expression -/
theorem generated_missing_rule_count_sum (s : Spec) (a v m den : Rat)
    (hf : (s.func = .count ∧ s.weights ≠ .none) ∨ (s.func = .validCount ∧ s.ret.isPlainZero = false) ∨ s.func = .sum) :
    (reduceCell s a v m den).missing = MissingGen.ffunc_sum s.ignoreMissing v m ∧
    MissingGen.ffunc_count = MissingGen.ffunc_sum ∧ MissingGen.ffunc_valid_count = MissingGen.ffunc_sum ∧
    MissingGen.xfunc_count = MissingGen.ffunc_sum ∧ MissingGen.xfunc_valid_count = MissingGen.ffunc_sum ∧
    MissingGen.xfunc_sum = MissingGen.ffunc_sum :=
  gen_rule_count_sum s a v m den hf

/-- mean: the regenerated expression on the ZERO-ADJUSTED weight sum - and the source does adjust it before the rule
(a differencing residue in an empty cell must count as zero, "when the valid weights sum to zero") -/
theorem generated_missing_rule_mean (s : Spec) (a v m den : Rat) (hf : s.func = .mean) :
    (reduceCell s a v m den).missing =
      MissingGen.ffunc_mean s.ignoreMissing (if isClose0 s.zeroTol den then 0 else den) m ∧
    ("ffunc_mean", true) ∈ MissingGen.classes ∧ MissingGen.xfunc_mean = MissingGen.ffunc_mean :=
  ⟨(gen_rule_mean s a v m den hf).1, (gen_rule_mean s a v m den hf).2, gen_rule_xmean⟩

/-- the regenerated expression says what the property says: missing iff no valid row, or (unless ignored) some missing row -/
theorem generated_rule_reads (ig : Bool) (v m : Rat) :
    MissingGen.ffunc_sum ig v m = true ↔ v = 0 ∨ (ig = false ∧ m ≠ 0) := by
  unfold MissingGen.ffunc_sum
  cases ig <;> simp [bne]


end Catii.C04
