import CatiiProofs.FromArray
import CatiiProofs.RoundTrip
import CatiiProofs.ToArrayGenBridge
/-!
# C01 — array → inverted index → array is lossless

`from_array_dense`: for every rectangular 1-D or 2-D integer array, every option record
(common omitted / given, even absent from the data; counts omitted or supplied; mapping
omitted / injective / many-to-one) and **whichever construction strategy** the size and sparsity
select (`buildWhere`: per-value `numpy.where`; `buildScan`: per-row scan), every cell of the
resulting index holds the (mapped) input value.  The statement is about the dense abstraction
`denseAt` of the index — the array `to_array` materialises.

`roundtrip` composes it with `to_array`: the array returned (`numpy.full` with the common value, then one
fancy-index assignment per entry; any dtype the call accepts, including the default chosen by the regenerated
`fit_dtype`) equals the (mapped) input element for element and in shape.

`roundtrip_mapped` is the same with a value mapping on the way back (`to_array(mapping=m2)`: every cell holds
`m2[mapped input]`).  `to_array_default_succeeds`: with the default dtype the call never fails on a well-formed
index whose extreme values some NumPy integer type can represent — the dtype comes from the regenerated
`fit_dtype` (C19's `fit_contains`), so the negative-value and boundary cases that raised `OverflowError` on the
pinned tree are covered by a theorem about today's source.

What stays outside the theorems: the refusals of `from_array` (an empty array without a common value; a mapping
that lacks a key) are modelled as errors and compared with the real code by the correspondence; `Arr` is a shape
plus flat row-major data — NumPy's memory layout and dtype casting are modelled, not verified.
-/
namespace Catii.C01
open Catii.IIdx

/-- every cell of `from_array(values, counts, common, mapping)` holds the mapped input value -/
theorem from_array_dense (a : Arr) (o : FromOpts) (idx : IIndex) (w : Bool)
    (harr : ArrOK a) (h : fromArray a o = .ok (idx, w))
    (hcounts : ∀ c, o.counts = some c → (c.map (·.1)).Nodup ∧ ∀ v ∈ a.data, v ∈ c.map (·.1))
    (r : Nat) (hr : r < a.nrows) (col : Nat) (hcol : col ∈ a.cols) (mv : Int)
    (hmv : mapVal o.mapping (a.at r col) = .ok mv) :
    idx.shape = a.shape ∧ denseAt idx r ((a.key mv col).drop 1) = mv := by
  obtain ⟨es, hidx, hbuild⟩ := fromArray_inv a o idx w h
  rw [hidx]
  refine ⟨rfl, ?_⟩
  rcases hbuild with ⟨_, hb⟩ | ⟨_, hb⟩
  · -- the per-value `where` strategy
    have hcn : ((countsOf a o).map (·.1)).Nodup ∧ ∀ v ∈ a.data, v ∈ (countsOf a o).map (·.1) := by
      unfold countsOf
      cases hc : o.counts with
      | some c => exact hcounts c hc
      | none =>
        obtain ⟨h1, h2⟩ := countValues_keys a.data
        exact ⟨h1.imp (fun h => Int.ne_of_lt h), fun v hv => (h2 v).mpr hv⟩
    have hb' := buildWhere_built a o.mapping idx.common _ hcn.1 es hb
    have hfull : BuiltFor a o.mapping idx.common (fun _ _ => True) es := by
      obtain ⟨hk, hl⟩ := hb'
      refine ⟨hk, fun k r' => ?_⟩
      rw [hl k r']
      constructor
      · rintro ⟨c, hc, hrr, _, rest⟩; exact ⟨c, hc, hrr, trivial, rest⟩
      · rintro ⟨c, hc, hrr, _, rest⟩
        refine ⟨c, hc, hrr, ?_, rest⟩
        obtain ⟨x, hx, hxv⟩ := List.mem_map.mp (hcn.2 _ (at_mem_data a harr r' c hrr hc))
        exact ⟨x, hx, hxv⟩
    exact built_dense a o.mapping idx.common es hfull a.shape r hr col hcol mv hmv
  · -- the per-row scan strategy
    have hb' := buildScan_built a o.mapping idx.common (cols_nodup a) es hb
    exact built_dense a o.mapping idx.common es hb' a.shape r hr col hcol mv hmv

/-- **C01**: `to_array(from_array(a, counts, common, mapping))` equals the mapped input in shape and in every
cell, for every option record and whichever construction strategy ran -/
theorem roundtrip (a : Arr) (o : FromOpts) (idx : IIndex) (w : Bool) (harr : ArrOK a)
    (h : fromArray a o = .ok (idx, w))
    (hcounts : ∀ c, o.counts = some c → (c.map (·.1)).Nodup ∧ ∀ v ∈ a.data, v ∈ c.map (·.1))
    (dt : Option DT) (arr : Arr) (ht : toArray idx none dt = .ok arr) :
    arr.shape = a.shape ∧ ∀ r < a.nrows, ∀ col ∈ a.cols, ∀ mv,
      mapVal o.mapping (a.at r col) = .ok mv → arr.at r col = mv :=
  IIdx.roundtrip a o idx w harr h hcounts dt arr ht

/-- the `not mapping` branch of `to_array` as REGENERATED from the source on every run (`Gen.toArrayPlainGen`,
tools/translate_toarray.py: the default dtype from the values the array will hold, `numpy.full`, one fancy-index assignment
per entry) is the modelled method - same array, same error, for EVERY index and requested dtype -/
theorem generated_to_array_is_the_modelled (i : IIndex) (dt : Option DT) : Gen.toArrayPlainGen i dt = toArray i none dt :=
  gen_toArray_eq i dt

/-- hence the round trip holds for the CURRENT `to_array`: what it makes of `from_array(a, counts, common, mapping)` equals the
mapped input in shape and in every cell -/
theorem generated_roundtrip (a : Arr) (o : FromOpts) (idx : IIndex) (w : Bool) (harr : ArrOK a)
    (h : fromArray a o = .ok (idx, w))
    (hcounts : ∀ c, o.counts = some c → (c.map (·.1)).Nodup ∧ ∀ v ∈ a.data, v ∈ c.map (·.1))
    (dt : Option DT) (arr : Arr) (ht : Gen.toArrayPlainGen idx dt = .ok arr) :
    arr.shape = a.shape ∧ ∀ r < a.nrows, ∀ col ∈ a.cols, ∀ mv,
      mapVal o.mapping (a.at r col) = .ok mv → arr.at r col = mv := by
  rw [gen_toArray_eq] at ht
  exact IIdx.roundtrip a o idx w harr h hcounts dt arr ht

/-- non-vacuity: a two-axis index densified by the regenerated method -/
example : Gen.toArrayPlainGen { entries := [([1, 0], [0, 2]), ([2, 1], [1])], common := 0, shape := [3, 2] } none
    = .ok { shape := [3, 2], data := [1, 0, 0, 2, 1, 0] } := by decide

/-- the same with a value mapping on the way back -/
theorem roundtrip_mapped (a : Arr) (o : FromOpts) (idx : IIndex) (w : Bool) (harr : ArrOK a)
    (h : fromArray a o = .ok (idx, w))
    (hcounts : ∀ c, o.counts = some c → (c.map (·.1)).Nodup ∧ ∀ v ∈ a.data, v ∈ c.map (·.1))
    (m2 : List (Int × Int)) (hm2 : m2 ≠ []) (dt : Option DT) (arr : Arr) (ht : toArray idx (some m2) dt = .ok arr) :
    arr.shape = a.shape ∧ ∀ r < a.nrows, ∀ col ∈ a.cols, ∀ mv,
      mapVal o.mapping (a.at r col) = .ok mv → arr.at r col = (lookup m2 mv).getD 0 :=
  IIdx.roundtrip_mapped a o idx w harr h hcounts m2 hm2 dt arr ht

/-- with the default dtype `to_array()` cannot fail on representable values (no `OverflowError`) -/
theorem to_array_default_succeeds (i : IIndex) (h : WF i) (hnd : i.ndim ≤ 2)
    (hdom : C19.Dom (dtypeExtremes i).1 (dtypeExtremes i).2) : ∃ arr, toArray i none none = .ok arr :=
  toArray_default_succeeds i h hnd hdom

/-- the same for the CURRENT `to_array` (regenerated): with the default dtype - chosen by the regenerated `fit_dtype` from the
values the regenerated method collects - densifying a well-formed index cannot raise -/
theorem generated_to_array_default_succeeds (i : IIndex) (h : WF i) (hnd : i.ndim ≤ 2)
    (hdom : C19.Dom (dtypeExtremes i).1 (dtypeExtremes i).2) : ∃ arr, Gen.toArrayPlainGen i none = .ok arr := by
  rw [gen_toArray_eq]
  exact toArray_default_succeeds i h hnd hdom

/-- the two strategies cannot be told apart through the dense content (corollary) -/
theorem strategy_invisible (a : Arr) (o : FromOpts) (i1 i2 : IIndex) (harr : ArrOK a)
    (cm : Int) (es1 es2 : List (Key × Rows))
    (h1 : buildWhere a o.mapping cm (countsOf a o) = .ok es1) (h2 : buildScan a o.mapping cm = .ok es2)
    (hcounts : ((countsOf a o).map (·.1)).Nodup ∧ ∀ v ∈ a.data, v ∈ (countsOf a o).map (·.1))
    (r : Nat) (hr : r < a.nrows) (col : Nat) (hcol : col ∈ a.cols) (mv : Int)
    (hmv : mapVal o.mapping (a.at r col) = .ok mv) (_ : i1 = ⟨es1, cm, a.shape⟩) (_ : i2 = ⟨es2, cm, a.shape⟩) :
    denseAt ⟨es1, cm, a.shape⟩ r ((a.key mv col).drop 1) = denseAt ⟨es2, cm, a.shape⟩ r ((a.key mv col).drop 1) := by
  have hb1 := buildWhere_built a o.mapping cm _ hcounts.1 es1 h1
  have hfull : BuiltFor a o.mapping cm (fun _ _ => True) es1 := by
    obtain ⟨hk, hl⟩ := hb1
    refine ⟨hk, fun k r' => ?_⟩
    rw [hl k r']
    constructor
    · rintro ⟨c, hc, hrr, _, rest⟩; exact ⟨c, hc, hrr, trivial, rest⟩
    · rintro ⟨c, hc, hrr, _, rest⟩
      refine ⟨c, hc, hrr, ?_, rest⟩
      obtain ⟨x, hx, hxv⟩ := List.mem_map.mp (hcounts.2 _ (at_mem_data a harr r' c hrr hc))
      exact ⟨x, hx, hxv⟩
  rw [built_dense a o.mapping cm es1 hfull a.shape r hr col hcol mv hmv,
    built_dense a o.mapping cm es2 (buildScan_built a o.mapping cm (cols_nodup a) es2 h2) a.shape r hr col hcol mv hmv]

/-! Non-vacuity: a many-to-one mapping on the `where` path (the input that lost rows before the
repair of finding F01a) and a 2-D array. -/
example : mapVal (some [(0, 0), (1, 7), (2, 7)]) 1 = .ok 7 ∧ mapVal (some [(0, 0), (1, 7), (2, 7)]) 2 = .ok 7 ∧
    mapVal (some [(0, 0), (1, 7), (2, 7)]) 0 = .ok 0 := by
  refine ⟨rfl, rfl, rfl⟩
example : (fromArray ⟨[6], [0, 0, 0, 0, 1, 2]⟩ { mapping := some [(0, 0), (1, 7), (2, 7)] }).isOk = true := by
  decide +kernel
example : ArrOK ⟨[6], [0, 0, 0, 0, 1, 2]⟩ ∧ ArrOK ⟨[2, 2], [1, 0, 0, 1]⟩ := by
  constructor <;> exact ⟨by decide, by decide⟩

end Catii.C01
