import CatiiProofs.IIndexShift
import CatiiProofs.IIndexWf
import CatiiProofs.FromArray
/-!
# C06 — index operations track NumPy on the dense array over any history

`denseAt i row hi` is the dense array an index stands for.  One refinement theorem per
operation says what the operation does to that array.  **Partial**: the operations proved so
far are `copy`, `shift_common()` / `shift_common(v)` (identity on the dense array, for any value
— frequent, rare or absent) and construction from arrays (C01); `history_partial` lifts them to
arbitrary finite sequences.  The remaining operations of the property (append, update,
filtered, sliced, slices1d, reindexed, collapsed, column_stack, the entry-wise set updates, the
forced queries) are modelled in `CatiiModel/IIndex.lean` statement by statement and are tied to
the real code by the correspondence harness after **every** step of every generated history,
with the NumPy reference semantics as the oracle on the real code; their refinement lemmas are
not yet theorems.
-/
namespace Catii.C06
open Catii.IIdx

/-- operations covered by theorems so far -/
inductive Op | copy | shift (v : Option Int)

def apply (i : IIndex) : Op → M IIndex
  | .copy => pure (IIdx.copy i)
  | .shift v => shiftCommon i v

def run : IIndex → List Op → M IIndex
  | i, [] => pure i
  | i, op :: ops => do run (← apply i op) ops

/-- `copy()` and `shift_common(...)` change nothing: NumPy's counterpart is the identity -/
theorem step_refines (i : IIndex) (h : WF i) (hnd : i.ndim ≤ 2) (op : Op) (r : IIndex)
    (hr : apply i op = .ok r) :
    WF r ∧ r.shape = i.shape ∧
      ∀ row < i.nrows, ∀ hi ∈ hiCells (i.shape.drop 1), denseAt r row hi = denseAt i row hi := by
  cases op with
  | copy =>
    simp only [apply, IIdx.copy, pure, Except.pure] at hr
    cases hr
    exact ⟨h, rfl, fun _ _ _ _ => rfl⟩
  | shift v => exact shiftCommon_refines i h hnd v r hr

/-- any finite history of the covered operations leaves the dense array (and well-formedness) intact -/
theorem history_partial (i : IIndex) (h : WF i) (hnd : i.ndim ≤ 2) (ops : List Op) (r : IIndex)
    (hr : run i ops = .ok r) :
    WF r ∧ r.shape = i.shape ∧
      ∀ row < i.nrows, ∀ hi ∈ hiCells (i.shape.drop 1), denseAt r row hi = denseAt i row hi := by
  induction ops generalizing i with
  | nil =>
    simp only [run, pure, Except.pure] at hr
    cases hr
    exact ⟨h, rfl, fun _ _ _ _ => rfl⟩
  | cons op ops ih =>
    simp only [run, bind, Except.bind] at hr
    cases hs : apply i op with
    | error e => rw [hs] at hr; cases hr
    | ok j =>
      rw [hs] at hr
      obtain ⟨hwj, hsj, hdj⟩ := step_refines i h hnd op j hs
      have hndj : j.ndim ≤ 2 := by unfold IIndex.ndim at *; rw [hsj]; exact hnd
      obtain ⟨hwr, hsr, hdr⟩ := ih j hwj hndj hr
      have hnr : j.nrows = i.nrows := by unfold IIndex.nrows; rw [hsj]
      refine ⟨hwr, hsr.trans hsj, fun row hrow hi hhi => ?_⟩
      rw [hdr row (by rw [hnr]; exact hrow) hi (by rw [hsj]; exact hhi)]
      exact hdj row hrow hi hhi

/-! Non-vacuity -/
example : WF ⟨[([1], [0, 2]), ([2], [1])], 0, [4]⟩ := wf_sound _ (by decide)
example : (run ⟨[([1], [0, 2]), ([2], [1])], 0, [4]⟩ [.shift (some 1), .copy, .shift none]).isOk = true := by
  decide +kernel

end Catii.C06
