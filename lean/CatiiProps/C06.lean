import CatiiProofs.IIndexShift
import CatiiProofs.IIndexWf
import CatiiProofs.FromArray
import CatiiProofs.Append
import CatiiProofs.Filtered
import CatiiProofs.SetUpdates
import CatiiProofs.Update
import CatiiProofs.Queries
import CatiiProofs.FromArrayWf
import CatiiProofs.ColumnStack
import CatiiProofs.Reindexed
import CatiiProofs.Sliced
import CatiiProofs.CollapsedDense
import CatiiProofs.ReindexedUnique
import CatiiProofs.HistoryLemmas
import CatiiProofs.MaskGenBridge
import CatiiProofs.ShiftGenBridge
import CatiiProofs.AppendGenBridge
import CatiiProofs.FilteredGenBridge
import CatiiProofs.QueriesGenBridge
/-!
# C06 — index operations track NumPy on the dense array over any history

`denseAt i row hi` is the dense array an index stands for.  One refinement theorem per
operation says what the operation does to that array.  **Partial**: the operations proved so
far are `copy`, `shift_common()` / `shift_common(v)` (identity on the dense array, for any value
— frequent, rare or absent), `append(other)` (concatenation, for any pair of common values and any
row counts incl. 0, while the combined rows fit 32 bits), `filtered(mask, n)` (boolean row selection, any
mask), `update(entries)` (cell assignment by any consistent dictionary of cells, incl. cells set to the
common value), `reindexed(mapping)` (element-wise value mapping: injective, many-to-one, onto the common value,
or the default), `sliced(*orders)` (column selection, any number of axes), the three entry-wise set updates (through the verified kernels of C08), the forced queries `get(key, force=True)` /
`common_rowids` / `items(force=True)`, `column_stack` (= `numpy.column_stack`, any mix of inputs and commons),
`collapsed(precedence, mapping)` (each row gets the first listed value present in it, else the last listed — for every
precedence list, repeats included) and construction from arrays (C01);
`history_partial` lifts them to arbitrary finite sequences against a NumPy-side specification
(`specRun`); `history_any_shape` does the same for histories in which `sliced`, `collapsed` and `column_stack`
change the higher shape along the way (`specRunN`).  `slices1d` is C13's theorem (`CatiiProps/C13`).  Every operation is also modelled in
`CatiiModel/IIndex.lean` statement by statement and tied to the real code by the correspondence harness after
**every** step of every generated history, with the NumPy reference semantics as the oracle on the real code.
-/
namespace Catii.C06
open Catii.IIdx

/-- operations covered by theorems so far -/
inductive Op | copy | shift (v : Option Int) | append (other : IIndex) | filtered (mask : List Bool) (newLength : Nat)
  | update (ents : List (Key × Rows))
  | reindexed (m : List (Int × Int)) (shift : Bool)

def apply (i : IIndex) : Op → M IIndex
  | .copy => pure (IIdx.copy i)
  | .shift v => shiftCommon i v
  | .append o => IIdx.append i o
  | .filtered mask n' => IIdx.filtered i mask n'
  | .update ents => IIdx.update i ents
  | .reindexed m shift => IIdx.reindexed i (some m) shift false

def run : IIndex → List Op → M IIndex
  | i, [] => pure i
  | i, op :: ops => do run (← apply i op) ops

/-- the NumPy side: a dense array is its row count and its cells; `copy` and `shift_common` are the
identity, `append` is `numpy.concatenate` along the rows, `filtered` is boolean row selection `a[mask]`
(row `j` of the result is the row of `a` at the `(j+1)`-th `True` of the mask) -/
abbrev Dense := Nat × (Nat → List Int → Int)

def specStep (d : Dense) : Op → Dense
  | .copy => d
  | .shift _ => d
  | .append o => (d.1 + o.nrows, fun r hi => if r < d.1 then d.2 r hi else denseAt o (r - d.1) hi)
  | .filtered mask _ => ((mask.filter id).length, fun j hi =>
      match (List.range mask.length).find? (fun r => mask.getD r false && rankIn mask r == j) with
      | some r => d.2 r hi
      | none => 0)
  | .update ents => (d.1, fun r hi => assigned ents r hi (d.2 r hi))
  | .reindexed m _ => (d.1, fun r hi => reVal m (d.2 r hi))

def specRun (d : Dense) (ops : List Op) : Dense := ops.foldl specStep d

/-- the property's quantifier for the operands of `append`: well-formed, same higher shape, and the
combined row count fits the 32-bit row-id word -/
def OpsOK (hiShape : List Nat) : Nat → List Op → Prop
  | _, [] => True
  | n, .append o :: ops => WF o ∧ o.shape.drop 1 = hiShape ∧ n + o.nrows ≤ 2^32 ∧ OpsOK hiShape (n + o.nrows) ops
  | n, .filtered mask n' :: ops => mask.length = n ∧ n' = (mask.filter id).length ∧ OpsOK hiShape n' ops
  | n, .update ents :: ops =>
    ((∀ e ∈ ents, Kern.SSorted e.2) ∧ (∀ e ∈ ents, ∀ r ∈ e.2, r < n) ∧
     (∀ e ∈ ents, e.1.length = hiShape.length + 1) ∧ (∀ e ∈ ents, e.1.drop 1 ∈ hiCells hiShape) ∧
     (∀ e ∈ ents, ∀ f ∈ ents, e.1.drop 1 = f.1.drop 1 → ∀ r, r ∈ e.2 → r ∈ f.2 → val0 e.1 = val0 f.1)) ∧
    OpsOK hiShape n ops
  | n, .reindexed _ _ :: ops => OpsOK hiShape n ops
  | n, _ :: ops => OpsOK hiShape n ops

/-- an index *represents* a dense array -/
def Represents (i : IIndex) (hiShape : List Nat) (d : Dense) : Prop :=
  WF i ∧ i.shape = d.1 :: hiShape ∧ ∀ row < d.1, ∀ hi ∈ hiCells hiShape, denseAt i row hi = d.2 row hi

/-- one step: the index operation and its NumPy counterpart stay in step -/
theorem step_refines (i : IIndex) (hiShape : List Nat) (d : Dense) (h : Represents i hiShape d)
    (hnd : hiShape.length ≤ 1) (op : Op) (hok : OpsOK hiShape d.1 [op]) (r : IIndex)
    (hr : apply i op = .ok r) : Represents r hiShape (specStep d op) := by
  obtain ⟨hw, hs, hd⟩ := h
  have hnd' : i.ndim ≤ 2 := by simp only [IIndex.ndim, hs, List.length_cons]; omega
  have hn : i.nrows = d.1 := by simp [IIndex.nrows, hs]
  have hdrop : i.shape.drop 1 = hiShape := by simp [hs]
  cases op with
  | copy =>
    simp only [apply, IIdx.copy, pure, Except.pure] at hr
    cases hr
    exact ⟨hw, hs, hd⟩
  | shift v =>
    obtain ⟨hw', hs', hd'⟩ := shiftCommon_refines i hw hnd' v r hr
    refine ⟨hw', hs'.trans hs, fun row hrow hi hhi => ?_⟩
    rw [hd' row (by rw [hn]; exact hrow) hi (by rw [hdrop]; exact hhi)]
    exact hd row hrow hi hhi
  | append o =>
    obtain ⟨hwo, hso, hfit, _⟩ := hok
    have ok : AppendOK i o := ⟨hw, hwo, by rw [hso, hdrop], by rw [hn]; exact hfit⟩
    obtain ⟨hw', hs', hold, hnew⟩ := append_refines ok hnd' r hr
    refine ⟨hw', by rw [hs', hn, hdrop]; rfl, fun row hrow hi hhi => ?_⟩
    simp only [specStep] at hrow ⊢
    by_cases hlt : row < d.1
    · simp only [hlt, if_true]
      rw [hold row (by rw [hn]; exact hlt) hi (by rw [hdrop]; exact hhi)]
      exact hd row hlt hi hhi
    · simp only [hlt, if_false]
      have := hnew (row - d.1) (by omega) hi (by rw [hdrop]; exact hhi)
      rw [hn] at this
      rw [← this]
      congr 1
      omega
  | filtered mask n' =>
    obtain ⟨hlen, hn', _⟩ := hok
    have ok : FilterOK i mask n' := ⟨hw, by rw [hn]; exact hlen, hn'⟩
    obtain ⟨hw', hs', hd'⟩ := filtered_refines ok hnd' r hr
    refine ⟨hw', by rw [hs', hdrop, hn']; rfl, fun j hj hi hhi => ?_⟩
    have hj' : j < (mask.filter id).length := hj
    obtain ⟨r0, hr0, hm0, hrank⟩ := rankIn_surj mask j hj'
    show denseAt r j hi = (match (List.range mask.length).find? (fun r => mask.getD r false && rankIn mask r == j) with
      | some r => d.2 r hi
      | none => 0)
    cases hf : (List.range mask.length).find? (fun r => mask.getD r false && rankIn mask r == j) with
    | none =>
      have := List.find?_eq_none.mp hf r0 (List.mem_range.mpr hr0)
      rw [hm0, hrank] at this
      simp at this
    | some r1 =>
      have hp := List.find?_some hf
      simp only [Bool.and_eq_true, beq_iff_eq] at hp
      have : r1 = r0 := rankIn_inj mask r1 r0 hp.1 hm0 (by rw [hp.2, hrank])
      subst this
      simp only
      rw [← hrank, hd' r1 hm0 hi (by rw [hdrop]; exact hhi)]
      exact hd r1 (by rw [← hlen]; exact hr0) hi hhi
  | update ents =>
    obtain ⟨⟨h1, h2, h3, h4, h5⟩, _⟩ := hok
    have ok : UpdateOK i ents := ⟨hw, h1, by rw [hn]; exact h2,
      by intro e he; rw [h3 e he]; simp [IIndex.ndim, hs], by rw [hdrop]; exact h4, h5⟩
    obtain ⟨res, hrun, hw', hs', _, hd'⟩ := update_refines ok
    have : r = res := by
      have := hr.symm.trans hrun
      exact Except.ok.inj this
    subst this
    refine ⟨hw', hs'.trans hs, fun row hrow hi hhi => ?_⟩
    simp only [specStep] at hrow ⊢
    rw [hd' row hi, hd row hrow hi hhi]
  | reindexed m shift =>
    obtain ⟨hw', hs', hd'⟩ := reindexed_refines i hw hnd' (some m) shift r hr
    refine ⟨hw', hs'.trans hs, fun row hrow hi hhi => ?_⟩
    simp only [specStep] at hrow ⊢
    rw [hd' row (by rw [hn]; exact hrow) hi (by rw [hdrop]; exact hhi), hd row hrow hi hhi]
    rfl

/-- **any finite history** of the covered operations: the index reached represents the array NumPy reaches -/
theorem history_partial (i : IIndex) (hiShape : List Nat) (d : Dense) (h : Represents i hiShape d)
    (hnd : hiShape.length ≤ 1) (ops : List Op) (hok : OpsOK hiShape d.1 ops) (r : IIndex)
    (hr : run i ops = .ok r) : Represents r hiShape (specRun d ops) := by
  induction ops generalizing i d with
  | nil =>
    simp only [run, pure, Except.pure] at hr
    cases hr
    exact h
  | cons op ops ih =>
    simp only [run, bind, Except.bind] at hr
    cases hs : apply i op with
    | error e => rw [hs] at hr; cases hr
    | ok j =>
      rw [hs] at hr
      have hok1 : OpsOK hiShape d.1 [op] := by
        cases op with
        | copy => trivial
        | shift v => trivial
        | append o => exact ⟨hok.1, hok.2.1, hok.2.2.1, trivial⟩
        | filtered mask n' => exact ⟨hok.1, hok.2.1, trivial⟩
        | update ents => exact ⟨hok.1, trivial⟩
        | reindexed m shift => trivial
      have hj := step_refines i hiShape d h hnd op hok1 j hs
      have hok2 : OpsOK hiShape (specStep d op).1 ops := by
        cases op with
        | copy => exact hok
        | shift v => exact hok
        | append o => exact hok.2.2.2
        | filtered mask n' =>
          show OpsOK hiShape (mask.filter id).length ops
          rw [← hok.2.1]; exact hok.2.2
        | update ents => exact hok.2
        | reindexed m shift => exact hok
      exact ih j (specStep d op) hj hok2 hr

/-- every well-formed index represents its own dense array -/
theorem represents_self (i : IIndex) (h : WF i) :
    Represents i (i.shape.drop 1) (i.nrows, fun r hi => denseAt i r hi) := by
  refine ⟨h, ?_, fun _ _ _ _ => rfl⟩
  have := h.ndimPos
  unfold IIndex.ndim IIndex.nrows at *
  cases hsh : i.shape with
  | nil => rw [hsh] at this; simp at this
  | cons a as => simp

/-- histories may start from any array: `from_array` yields an index that represents the (mapped) array
(`CatiiProps.C01.from_array_dense` says what `denseAt idx` is), so `history_partial` applies to it -/
theorem from_array_starts_a_history (a : Arr) (o : FromOpts) (idx : IIndex) (w : Bool) (harr : ArrOK a)
    (h : fromArray a o = .ok (idx, w))
    (hcounts : ∀ c, o.counts = some c → (c.map (·.1)).Nodup ∧ ∀ v ∈ a.data, v ∈ c.map (·.1))
    (ops : List Op) (hok : OpsOK (idx.shape.drop 1) idx.nrows ops) (r : IIndex) (hr : run idx ops = .ok r) :
    Represents r (idx.shape.drop 1) (specRun (idx.nrows, fun row hi => denseAt idx row hi) ops) := by
  have hw := fromArray_wf a o idx w harr h hcounts
  have hshape : idx.shape = a.shape := by
    obtain ⟨es, hidx, _⟩ := fromArray_inv a o idx w h
    rw [hidx]
  have hnd : (idx.shape.drop 1).length ≤ 1 := by
    rw [hshape]; simp only [List.length_drop]
    rcases harr.ndim with h1 | h1 <;> omega
  exact history_partial idx (idx.shape.drop 1) _ (represents_self idx hw) hnd ops hok r hr

/-! ### histories that change the higher shape: `sliced`, `collapsed`, `column_stack`

`history_partial` keeps the higher shape fixed.  `history_any_shape` lets it change along the way: the dense array
carries its higher shape, and a history may also slice columns, collapse them, or stack further indexes next to the
receiver — the index reached still represents the array the NumPy-side specification reaches. -/

/-- a dense array with its higher shape -/
structure DenseN where
  n : Nat
  hi : List Nat
  cell : Nat → List Int → Int

inductive OpN
  | base (op : Op)
  | sliced (orders : List Order)
  | collapsed (prec : List Int) (mapping : Option (List (Int × Int)))
  | stack (others : List IIndex) (newCommon : Option Int)      -- `column_stack([self] + others, new_common)`

def applyN (i : IIndex) : OpN → M IIndex
  | .base op => apply i op
  | .sliced os => IIdx.sliced i os
  | .collapsed p m => IIdx.collapsed i p m
  | .stack others nc => columnStack (i :: others) nc

def runN : IIndex → List OpN → M IIndex
  | i, [] => pure i
  | i, op :: ops => do runN (← applyN i op) ops

/-- number of columns a one- or two-axis array contributes to a stack -/
def widthOf : List Nat → Nat
  | [] => 1
  | w :: _ => w

/-- the NumPy side: `sliced` is `take` axis by axis, `collapsed` gives each row the first listed value present in it
(else the last listed), `column_stack` puts the columns of the others after the receiver's -/
def specStepN (d : DenseN) : OpN → DenseN
  | .base op => ⟨(specStep (d.n, d.cell) op).1, d.hi, (specStep (d.n, d.cell) op).2⟩
  | .sliced os => ⟨d.n, sliceTail os d.hi, fun r hi' => d.cell r (unslice os hi')⟩
  | .collapsed p m => ⟨d.n, [], fun r _ =>
      (p.find? (fun v => (hiCells d.hi).any fun hi => mapGet m (d.cell r hi) == v)).getD (p.getLast?.getD 0)⟩
  | .stack others _ => ⟨d.n, [widthOf d.hi + (others.map stackWidth).sum], fun r hi =>
      if (hi.headD 0).toNat < widthOf d.hi then d.cell r (if d.hi = [] then [] else [((hi.headD 0).toNat : Int)])
      else stackAt others r ((hi.headD 0).toNat - widthOf d.hi) 0⟩

def specRunN (d : DenseN) (ops : List OpN) : DenseN := ops.foldl specStepN d

/-- what each operation asks of its arguments, threaded through the changing shape -/
def OpsOKN : Nat → List Nat → List OpN → Prop
  | _, _, [] => True
  | n, hi, .base op :: ops => hi.length ≤ 1 ∧ OpsOK hi n [op] ∧ OpsOKN (specStep (n, fun _ _ => 0) op).1 hi ops
  | n, hi, .sliced os :: ops =>
    os ≠ [] ∧ os.length = hi.length ∧ OrdersNodup os ∧ OrdersInRange os hi ∧ OpsOKN n (sliceTail os hi) ops
  | n, hi, .collapsed _ _ :: ops => hi.length = 1 ∧ OpsOKN n [] ops
  | n, hi, .stack others _ :: ops =>
    hi.length ≤ 1 ∧ (∀ x ∈ others, WF x ∧ x.ndim ≤ 2 ∧ x.nrows = n) ∧
      OpsOKN n [widthOf hi + (others.map stackWidth).sum] ops

def RepresentsN (i : IIndex) (d : DenseN) : Prop := Represents i d.hi (d.n, d.cell)

theorem specStep_rows (n : Nat) (f g : Nat → List Int → Int) (op : Op) : (specStep (n, f) op).1 = (specStep (n, g) op).1 := by
  cases op <;> rfl

theorem any_congr_mem {α} (l : List α) (p q : α → Bool) (h : ∀ x ∈ l, p x = q x) : l.any p = l.any q := by
  induction l with
  | nil => rfl
  | cons a as ih =>
    simp only [List.any_cons, h a List.mem_cons_self, ih (fun x hx => h x (List.mem_cons_of_mem _ hx))]

theorem stackAt_default (others : List IIndex) (row col : Nat) (a b : Int)
    (h : col < (others.map stackWidth).sum) : stackAt others row col a = stackAt others row col b := by
  induction others generalizing col with
  | nil => simp at h
  | cons x rest ih =>
    simp only [stackAt]
    by_cases hc : col < stackWidth x
    · rw [if_pos hc, if_pos hc]
    · rw [if_neg hc, if_neg hc]
      apply ih
      simp only [List.map_cons, List.sum_cons] at h
      omega

/-- one step of a shape-changing history -/
theorem stepN_refines (i : IIndex) (d : DenseN) (h : RepresentsN i d) (op : OpN) (hok : OpsOKN d.n d.hi [op]) (r : IIndex)
    (hr : applyN i op = .ok r) : RepresentsN r (specStepN d op) := by
  have hw := h.1
  have hs := h.2.1
  have hd := h.2.2
  have hn : i.nrows = d.n := by simp [IIndex.nrows, hs]
  have hdrop : i.shape.drop 1 = d.hi := by simp [hs]
  cases op with
  | base op =>
    obtain ⟨hnd, hok1, _⟩ := hok
    exact step_refines i d.hi (d.n, d.cell) h hnd op hok1 r hr
  | sliced os =>
    obtain ⟨hne, hlen, hndp, hir, _⟩ := hok
    have ok : SliceOK i os := ⟨hw, hne, by simp [IIndex.ndim, hs, hlen], hndp⟩
    obtain ⟨res, hrun, hw', hs', _, hd'⟩ := sliced_refines ok
    have : r = res := Except.ok.inj (hr.symm.trans hrun)
    subst this
    refine ⟨hw', by rw [hs', hn, hdrop]; rfl, fun row hrow hi' hhi' => ?_⟩
    simp only [specStepN] at hrow hhi' ⊢
    rw [hd' row hi' (by rw [hdrop]; exact hhi')]
    exact hd row hrow _ (unslice_mem os d.hi hlen.symm hir hi' hhi')
  | collapsed p m =>
    obtain ⟨hl1, _⟩ := hok
    have hnd2 : i.ndim = 2 := by simp [IIndex.ndim, hs, hl1]
    obtain ⟨hw', hs', hd'⟩ := collapsed_refines_getD i hw hnd2 p m r hr
    refine ⟨hw', by rw [hs', hn]; rfl, fun row hrow hi hhi => ?_⟩
    simp only [specStepN] at hrow hhi ⊢
    have hhi0 : hi = [] := by simpa [hiCells] using hhi
    subst hhi0
    rw [hd' row (by rw [hn]; exact hrow)]
    congr 2
    funext v
    unfold rowHas rowCells
    rw [hdrop]
    apply any_congr_mem
    intro hi hhi
    rw [hd row hrow hi hhi]
  | stack others nc =>
    obtain ⟨hl1, hall, _⟩ := hok
    have hnd2 : i.ndim ≤ 2 := by simp only [IIndex.ndim, hs, List.length_cons]; omega
    have hall' : ∀ x ∈ i :: others, WF x ∧ x.ndim ≤ 2 ∧ x.nrows = d.n := by
      intro x hx
      rcases List.mem_cons.mp hx with rfl | hx
      · exact ⟨hw, hnd2, hn⟩
      · exact hall x hx
    obtain ⟨hw', hs', hd'⟩ := columnStack_full i others nc r d.n hall' hr
    have hwid : stackWidth i = widthOf d.hi := by
      unfold stackWidth IIndex.ndim
      rw [hs]
      cases hhi : d.hi with
      | nil => simp [widthOf]
      | cons w rest => simp [widthOf]
    have htot : ((i :: others).map stackWidth).sum = widthOf d.hi + (others.map stackWidth).sum := by
      rw [List.map_cons, List.sum_cons, hwid]
    refine ⟨hw', by rw [hs', htot]; rfl, fun row hrow hi hhi => ?_⟩
    simp only [specStepN] at hrow hhi ⊢
    obtain ⟨col, hcol, rfl⟩ := (mem_hiCells_one _ hi).mp hhi
    rw [hd' row hrow col (by rw [htot]; exact hcol)]
    simp only [List.headD_cons, Int.toNat_natCast, stackAt, hwid]
    by_cases hc : col < widthOf d.hi
    · simp only [hc, ↓reduceIte]
      have hmem : (if i.ndim > 1 then [(col : Int)] else []) ∈ hiCells d.hi := by
        unfold IIndex.ndim; rw [hs]
        cases hhi2 : d.hi with
        | nil => simp [hiCells]
        | cons w rest =>
          have hrest : rest = [] := by
            rw [hhi2] at hl1; simp only [List.length_cons] at hl1
            exact List.eq_nil_of_length_eq_zero (by omega)
          subst hrest
          rw [hhi2] at hc
          simp only [List.length_cons, List.length_nil, gt_iff_lt, Nat.lt_add_one, ↓reduceIte]
          exact (mem_hiCells_one w _).mpr ⟨col, hc, rfl⟩
      rw [hd row hrow _ hmem]
      congr 1
      unfold IIndex.ndim; rw [hs]
      cases hhi2 : d.hi with
      | nil => simp
      | cons w rest => simp
    · simp only [hc, ↓reduceIte]
      apply stackAt_default
      omega

theorem opsOKN_head (n : Nat) (hi : List Nat) (op : OpN) (ops : List OpN) (h : OpsOKN n hi (op :: ops)) :
    OpsOKN n hi [op] := by
  cases op with
  | base op => exact ⟨h.1, h.2.1, trivial⟩
  | sliced os => exact ⟨h.1, h.2.1, h.2.2.1, h.2.2.2.1, trivial⟩
  | collapsed p m => exact ⟨h.1, trivial⟩
  | stack others nc => exact ⟨h.1, h.2.1, trivial⟩

theorem opsOKN_tail (d : DenseN) (op : OpN) (ops : List OpN) (h : OpsOKN d.n d.hi (op :: ops)) :
    OpsOKN (specStepN d op).n (specStepN d op).hi ops := by
  cases op with
  | base op =>
    simp only [specStepN]
    rw [specStep_rows d.n d.cell (fun _ _ => 0) op]
    exact h.2.2
  | sliced os => exact h.2.2.2.2
  | collapsed p m => exact h.2
  | stack others nc => exact h.2.2

/-- **any finite history, the higher shape changing along the way**: copy, shift_common, append, filtered, update,
reindexed (while the receiver has one or two axes), sliced (any number of axes), collapsed (two axes), column_stack —
the index reached represents the array the NumPy-side specification reaches -/
theorem history_any_shape (i : IIndex) (d : DenseN) (h : RepresentsN i d) (ops : List OpN)
    (hok : OpsOKN d.n d.hi ops) (r : IIndex) (hr : runN i ops = .ok r) : RepresentsN r (specRunN d ops) := by
  induction ops generalizing i d with
  | nil =>
    simp only [runN, pure, Except.pure] at hr
    cases hr
    exact h
  | cons op ops ih =>
    simp only [runN, bind, Except.bind] at hr
    cases hs : applyN i op with
    | error e => rw [hs] at hr; cases hr
    | ok j =>
      rw [hs] at hr
      have hj := stepN_refines i d h op (opsOKN_head d.n d.hi op ops hok) j hs
      exact ih j (specStepN d op) hj (opsOKN_tail d op ops hok) hr

/-- every well-formed index starts such a history -/
theorem representsN_self (i : IIndex) (h : WF i) :
    RepresentsN i ⟨i.nrows, i.shape.drop 1, fun r hi => denseAt i r hi⟩ :=
  represents_self i h

/-! ### the entry-wise set updates (the property: "entry-wise set algebra")

They are run through the verified kernels of C08; `Listed es k r` says row `r` is listed under key `k`.
The receiver only needs distinct keys and strictly increasing row ids (every well-formed index has both). -/

theorem union_update_entrywise (i : IIndex) (other : List (Key × Rows)) (h : WF i)
    (ho : ∀ e ∈ other, Kern.SSorted e.2) :
    ∃ res, unionUpdate i other = .ok res ∧ res.common = i.common ∧ res.shape = i.shape ∧
      ∀ k r, Listed res.entries k r ↔ Listed i.entries k r ∨ Listed other k r := by
  obtain ⟨res, h1, h2, h3, _, _, _, h6⟩ := unionUpdate_spec i other h.keys h.sorted ho
  exact ⟨res, h1, h2, h3, h6⟩

theorem intersection_update_entrywise (i : IIndex) (other : List (Key × Rows)) (h : WF i)
    (ho : ∀ e ∈ other, Kern.SSorted e.2) (hd : other.Pairwise (fun a b => a.1 ≠ b.1)) :
    ∃ res, intersectionUpdate i other = .ok res ∧ res.common = i.common ∧ res.shape = i.shape ∧
      ∀ k r, Listed res.entries k r ↔ Listed i.entries k r ∧ Listed other k r := by
  obtain ⟨res, h1, h2, h3, _, _, _, h6⟩ := intersectionUpdate_spec i other h.keys h.sorted ho hd
  exact ⟨res, h1, h2, h3, h6⟩

theorem difference_update_entrywise (i : IIndex) (other : List (Key × Rows)) (h : WF i)
    (ho : ∀ e ∈ other, Kern.SSorted e.2) :
    ∃ res, differenceUpdate i other = .ok res ∧ res.common = i.common ∧ res.shape = i.shape ∧
      ∀ k r, Listed res.entries k r ↔ Listed i.entries k r ∧ ¬ Listed other k r := by
  obtain ⟨res, h1, h2, h3, _, _, _, h6⟩ := differenceUpdate_spec i other h.keys h.sorted ho
  exact ⟨res, h1, h2, h3, h6⟩

/-- `reindexed()` with the default mapping (the k-th smallest listed value ↦ k, the common value kept) is the
same element-wise mapping, with the mapping read off the index -/
theorem reindexed_default_mapping (i : IIndex) (h : WF i) (hnd : i.ndim ≤ 2) (shift : Bool) (res : IIndex)
    (hr : reindexed i none shift false = .ok res) :
    WF res ∧ res.shape = i.shape ∧ ∀ r < i.nrows, ∀ hi ∈ hiCells (i.shape.drop 1),
      denseAt res r hi = reVal (reMapping i none) (denseAt i r hi) :=
  reindexed_refines i h hnd none shift res hr

/-! ### sliced -/

/-- `sliced(*orders)` is column selection in the requested order, for any number of axes (1-D … n-D): cell
`hi'` of the result is cell `unslice orders hi'` of the receiver (`None` keeps an axis, an int fixes and drops
it, an order list selects / re-orders) -/
theorem sliced_is_take (i : IIndex) (orders : List Order) (ok : SliceOK i orders) :
    ∃ res, sliced i orders = .ok res ∧ WF res ∧ res.shape = i.nrows :: sliceTail orders (i.shape.drop 1) ∧
      res.common = i.common ∧
      ∀ r, ∀ hi' ∈ hiCells (sliceTail orders (i.shape.drop 1)),
        denseAt res r hi' = denseAt i r (unslice orders hi') :=
  sliced_refines ok

/-! ### column_stack -/

/-- `column_stack(indexes, new_common)` is `numpy.column_stack` of the dense arrays (`stackAt`: column `col`
belongs to the first input whose width covers it), for any mix of 1-D and 2-D inputs with any common values,
whether the stack's common value is given or computed from the sparsities -/
theorem column_stack_is_numpy_column_stack (first : IIndex) (tl : List IIndex) (newCommon : Option Int)
    (r : IIndex) (n : Nat) (hall : ∀ x ∈ first :: tl, WF x ∧ x.ndim ≤ 2 ∧ x.nrows = n)
    (h : columnStack (first :: tl) newCommon = .ok r) :
    WF r ∧ ∃ total, r.shape = [n, total] ∧
      ∀ row < n, ∀ col < total, denseAt r row [(col : Int)] = stackAt (first :: tl) row col r.common :=
  columnStack_refines first tl newCommon r n hall h

/-! ### the forced queries -/

/-- `reindexed(..., assume_unique=True)`: on a well-formed index the promise "no row is merged twice" always holds, and
the option changes nothing — same result (hence same dense array, same well-formedness) as without it -/
theorem reindexed_assume_unique_changes_nothing (i : IIndex) (h : WF i) (mapping : Option (List (Int × Int)))
    (shift : Bool) : reindexed i mapping shift true = reindexed i mapping shift false :=
  reindexed_assume_unique i h mapping shift

/-- `collapsed(precedence, mapping)`: "each row gets the first listed value present in it, else the last listed" —
`rowHas i mp r p` says that some cell of row `r` holds `p` after the (optional) mapping.  Holds for every well-formed
2-D receiver, every common value, every precedence list (negatives, values occurring nowhere, present values left
out, values listed more than once) and every mapping; the result is also well-formed and 1-D of the same length -/
theorem collapsed_is_first_listed (i : IIndex) (h : WF i) (hnd : i.ndim = 2) (prec : List Int)
    (mapping : Option (List (Int × Int))) (res : IIndex) (hr : collapsed i prec mapping = .ok res) :
    WF res ∧ res.shape = [i.nrows] ∧ ∀ last, prec.getLast? = some last → ∀ r < i.nrows,
      denseAt res r [] = (prec.find? (rowHas i (mapGet mapping) r)).getD last :=
  collapsed_refines i h hnd prec mapping res hr

/-- `get(key, force=True)` lists exactly the rows where column `key[1:]` of the dense array equals `key[0]`,
for listed values and for the common value alike -/
theorem forced_get_is_where (i : IIndex) (h : WF i) (hnd : i.ndim ≤ 2) (k : Key) (hk : k.length = i.ndim)
    (hhi : k.drop 1 ∈ hiCells (i.shape.drop 1)) (r : Nat) :
    r ∈ (getKey i k true).getD [] ↔ r < i.nrows ∧ denseAt i r (k.drop 1) = val0 k :=
  getKey_force i h hnd k hk hhi r

/-- `common_rowids(col)` lists exactly the rows holding the common value in that column -/
theorem common_rowids_is_where (i : IIndex) (h : WF i) (hi : List Int) (r : Nat) :
    r ∈ commonRowidsHi i hi ↔ r < i.nrows ∧ denseAt i r hi = i.common :=
  commonRowids_spec i h hi r

/-- the same for `common_rowids` as REGENERATED from the source on every run (`tools/translate_mask.py`: the boolean-mask program
`ones` / `mask[rowids] = False` for the matching entries / `nonzero`): on a well-formed one- or two-axis index it lists exactly the
rows holding the common value (in the requested column) -/
theorem generated_common_rowids_is_where (i : IIndex) (h : WF i) (h2 : i.ndim ≤ 2) (col : Option Int)
    (hcol : i.ndim > 1 → col ≠ none) (r : Nat) :
    r ∈ Gen.commonRowidsGen i col ↔
      r < i.nrows ∧ denseAt i r (if i.ndim > 1 then [col.getD 0] else []) = i.common := by
  rw [gen_commonRowids_eq i col h.arity h2 hcol]
  unfold commonRowids
  by_cases hn : i.ndim > 1
  · simp only [hn, if_true]
    cases col with
    | none => exact absurd rfl (hcol hn)
    | some c => exact common_rowids_is_where i h [c] r
  · simp only [hn, if_false]
    exact common_rowids_is_where i h [] r

/-- the re-encoding block of `shift_common` as REGENERATED from the source on every run (`tools/translate_shift.py`: the
per-column mask of the cells no entry lists, the old common value assigned as entries column by column, the new common value's
entries deleted over a snapshot of the keys): on a well-formed one- or two-axis index, for EVERY new common value, it is the
modelled operation, changes no cell of the dense array, keeps the shape and keeps the index well-formed -/
theorem generated_shift_common_changes_no_cell (i : IIndex) (h : WF i) (h2 : i.ndim ≤ 2) (v : Int) :
    shiftCommon i (some v) = .ok (Gen.shiftToGen i v) ∧ WF (Gen.shiftToGen i v) ∧ (Gen.shiftToGen i v).shape = i.shape ∧
      (Gen.shiftToGen i v).common = v ∧
      ∀ row < i.nrows, ∀ hi ∈ hiCells (i.shape.drop 1), denseAt (Gen.shiftToGen i v) row hi = denseAt i row hi := by
  have hb := gen_shiftTo_eq i v h.arity h2
  obtain ⟨hw, hs, hd⟩ := shiftCommon_refines i h h2 (some v) _ hb
  refine ⟨hb, hw, hs, ?_, hd⟩
  unfold Gen.shiftToGen
  by_cases hv : v = i.common
  · simp [hv]
  · have : (v != i.common) = true := by simpa using hv
    simp only [this, if_true]

/-- non-vacuity: a two-axis index re-encoded to a value it lists -/
example : (Gen.shiftToGen { entries := [([1, 0], [0, 2]), ([2, 1], [1])], common := 0, shape := [3, 2] } 1).entries
    = [([2, 1], [1]), ([0, 0], [1]), ([0, 1], [0, 2])] := by decide

/-- `append` up to its final `shift_common()` as REGENERATED from the source on every run (`Gen.appendPreGen`,
tools/translate_append.py: other's entries offset by the receiver's row count and merged key by key, the rows holding other's
common value added column by column when the two common values differ), followed by the library-chosen re-encoding: the
result is well-formed, has the rows of both, keeps every old cell and holds other's cells below them - `numpy.concatenate` -/
theorem generated_append_is_concatenation {i other : IIndex} (ok : AppendOK i other) (hnd : i.ndim ≤ 2) (r : IIndex)
    (hr : shiftCommon (Gen.appendPreGen i other) none = .ok r) :
    WF r ∧ r.shape = (i.nrows + other.nrows) :: i.shape.drop 1 ∧
      (∀ row < i.nrows, ∀ hi ∈ hiCells (i.shape.drop 1), denseAt r row hi = denseAt i row hi) ∧
      (∀ row' < other.nrows, ∀ hi ∈ hiCells (i.shape.drop 1),
        denseAt r (row' + i.nrows) hi = denseAt other row' hi) := by
  have hsame : other.shape.length = i.shape.length := ndim_eq_of_drop ok
  rw [gen_appendPre_eq i other hnd hsame ok.wo.arity] at hr
  have hr' : IIdx.append i other = .ok r := by
    unfold IIdx.append
    have : ¬ i.ndim > 2 := by omega
    simp only [this, if_false]
    exact hr
  exact append_refines ok hnd r hr'

/-- `filtered` up to its final `shift_common()` as REGENERATED from the source on every run (`Gen.filteredPreGen`,
tools/translate_filtered.py: the renumbering table `new_rowids[mask] = arange(new_length)`, per entry `mask[rowids]`,
`rowids[m]`, `new_rowids[filtered_rowids]`, entries that keep no row left out), followed by the library-chosen re-encoding:
the result is well-formed and holds, at the new number of every kept row, the cells of that row - `a[mask]` -/
theorem generated_filtered_is_row_selection {i : IIndex} {mask : List Bool} {n' : Nat} (ok : FilterOK i mask n')
    (hnd : i.ndim ≤ 2) (res : IIndex) (hr : shiftCommon (Gen.filteredPreGen i mask n') none = .ok res) :
    WF res ∧ res.shape = n' :: i.shape.drop 1 ∧
      ∀ r, mask.getD r false = true → ∀ hi ∈ hiCells (i.shape.drop 1),
        denseAt res (rankIn mask r) hi = denseAt i r hi :=
  filtered_refines ok hnd res (filtered_of_gen ok res hr)

/-- ... and the regenerated construction is the modelled one for EVERY index, mask and length (no precondition) -/
theorem generated_filtered_construction_is_the_modelled (i : IIndex) (mask : List Bool) (n : Nat) :
    Gen.filteredPreGen i mask n = filteredPre i mask n := gen_filteredPre_eq i mask n

/-- `items(force=True)` / `to_dict(force=True)`: every item lists exactly the rows where the dense array holds
the item's value in the item's column -/
theorem forced_items_are_where (i : IIndex) (h : WF i) (hnd : i.ndim ≤ 2) (x : Key × Rows) (hx : x ∈ itemsForce i)
    (r : Nat) : r ∈ x.2 ↔ r < i.nrows ∧ denseAt i r (x.1.drop 1) = val0 x.1 :=
  itemsForce_spec i h hnd x hx r

/-- the forced queries as REGENERATED from the source on every run (`Gen.getGen`, `Gen.itemsForceGen`,
tools/translate_queries.py): `get(key, force=True)` lists exactly the rows where column `key[1:]` of the dense array equals
`key[0]` - listed value or common value - and every pair of `items(force=True)` lists exactly the rows holding its value in
its column -/
theorem generated_forced_get_is_where (i : IIndex) (h : WF i) (hnd : i.ndim ≤ 2) (k : Key) (hk : k.length = i.ndim)
    (hhi : k.drop 1 ∈ hiCells (i.shape.drop 1)) (r : Nat) :
    r ∈ (Gen.getGen i k true).getD [] ↔ r < i.nrows ∧ denseAt i r (k.drop 1) = val0 k := by
  rw [gen_get_eq i k true h.arity hnd hk]
  exact getKey_force i h hnd k hk hhi r

theorem generated_forced_items_are_where (i : IIndex) (h : WF i) (hnd : i.ndim ≤ 2) (x : Key × Rows)
    (hx : x ∈ Gen.itemsForceGen i) (r : Nat) : r ∈ x.2 ↔ r < i.nrows ∧ denseAt i r (x.1.drop 1) = val0 x.1 := by
  rw [gen_itemsForce_eq i h.arity hnd] at hx
  exact itemsForce_spec i h hnd x hx r

/-! Non-vacuity -/
example : WF ⟨[([1], [0, 2]), ([2], [1])], 0, [4]⟩ := wf_sound _ (by decide)
example : (run ⟨[([1], [0, 2]), ([2], [1])], 0, [4]⟩
    [.shift (some 1), .copy, .append ⟨[([0], [1])], 2, [3]⟩, .filtered [true, false, true, true, false, true, true] 5,
     .shift none]).isOk = true := by
  decide +kernel
example : OpsOK [] 4 [.shift (some 1), .copy, .append ⟨[([0], [1])], 2, [3]⟩, .shift none] :=
  ⟨wf_sound _ (by decide), rfl, by decide, trivial⟩

-- `collapsed` on [[1,0],[0,0],[1,1]] with a value listed twice: rows get 0, 0, 1
example : (collapsed ⟨[([1, 0], [0, 2]), ([1, 1], [2])], 0, [3, 2]⟩ [0, 1, 1, 2] none).toOption.map
    (fun r => (List.range 3).map (fun row => denseAt r row [])) = some [0, 0, 1] := by decide +kernel

-- a shape-changing history on a (3, 2) index: re-order the columns, stack a 1-D index next to them, collapse, re-normalise
def exStart : IIndex := ⟨[([1, 0], [0, 2]), ([2, 1], [1])], 0, [3, 2]⟩
def exOps : List OpN :=
  [.sliced [.list [1, 0]], .stack [⟨[([5], [0])], 0, [3]⟩] none, .collapsed [5, 2, 1, 0] none, .base (.shift none)]
example : OpsOKN 3 [2] exOps := by
  refine ⟨by decide, by decide, ?_, ⟨by decide, trivial⟩, ?_⟩
  · intro o ho ks hk
    simp only [List.mem_singleton] at ho
    subst ho; cases hk; decide
  · refine ⟨by decide, ?_, ?_⟩
    · intro x hx
      simp only [List.mem_singleton] at hx
      subst hx
      exact ⟨wf_sound _ (by decide), by decide, rfl⟩
    · exact ⟨by decide, by decide, trivial, trivial⟩
example : (runN exStart exOps).isOk = true := by decide +kernel

end Catii.C06
