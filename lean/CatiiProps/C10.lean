import CatiiProofs.IndxTop
/-!
# C10 — INDX save then load is the identity

For every input the writer accepts (uniform arity 1..255, coordinates and common below 2^63,
fewer than 2^32 entries, uint32 row ids — sortedness is not needed for the round trip) the
reader returns the same entries in the same association, the same common value, and the
uint32 row-id dtype.  Python-level facts the model does not carry (`type(coord) is int`,
`dtype == uint32` of each array, the rebuilt `iindex` comparing `==` and validating) are checked
by the harness on the real code.
-/
namespace Catii.C10
open Catii.Indx

theorem save_load_identity (es : List Entry) (c : Nat) (h : InScope es c) :
    ∃ b, save es c = .ok b ∧ load b = .ok (es, c, 4) := by
  refine ⟨_, save_of_scope es c h, ?_⟩
  apply load_encodeWith es c _ 4 (fits_of_scope es c h)
  rw [payload_length es c _ _ 4 h.uniform]
  exact h.size_lt

/-- stated on whatever bytes the writer returned -/
theorem load_of_saved (es : List Entry) (c : Nat) (b : Bytes) (h : save es c = .ok b) :
    load b = .ok (es, c, 4) := by
  obtain ⟨hs, _⟩ := scope_of_save es c b h
  obtain ⟨b', hb', hl⟩ := save_load_identity es c hs
  rw [h] at hb'; cases hb'; exact hl

/-! The same round trip stated on the write / read PROGRAMS regenerated from the current `IndxIO.save` / `IndxIO.load` is
`C11.generated_save_load_identity` (it lives with C11 because those programs are tied to the documented layout: a change of
the format that stays symmetric between writer and reader keeps C10 true and must not alarm here). -/

/-! Non-vacuity: every width class crossed (coordinate 2^40 with common 3; coordinate 1 with
common 2^62), an empty row-id list, zero entries. -/
example : load_of_saved [] 0 _ rfl = load_of_saved [] 0 _ rfl := rfl
example : (save [⟨[1099511627776, 0], [0, 4294967295]⟩, ⟨[2, 1], []⟩] 3).isOk = true ∧
    (save [⟨[1], [7]⟩] 4611686018427387904).isOk = true ∧ (save [] 9).isOk = true := by
  decide +kernel

end Catii.C10
