import CatiiProofs.IIndexShift
import CatiiProofs.IIndexWf
import CatiiProofs.Append
import CatiiProofs.Filtered
import CatiiProofs.Update
import CatiiProofs.FromArray
import CatiiProofs.FromArrayWf
import CatiiProofs.ColumnStack
import CatiiProofs.Reindexed
import CatiiProofs.Sliced
import CatiiProofs.Collapsed
import CatiiProofs.SetUpdates
import CatiiProofs.ShiftGenBridge
import CatiiProofs.AppendGenBridge
import CatiiProofs.FilteredGenBridge
import CatiiProofs.ValidateGenBridge
/-!
# C07 — every operation preserves index well-formedness

`WF` is the predicate of the property: distinct keys of the right arity, nothing listed under the
common value, no empty entry, row ids strictly increasing and below the row count, higher
coordinates within the shape, no row under two values of the same column.  `wf` is the decidable
version the harness evaluates on every real result; `wf_sound` ties the two.

Preservation is a theorem for every operation of the property: construction (`from_array_wellformed`, both
strategies), `copy`, `shift_common` (given or library-chosen value), `append`, `filtered`, `update`, `reindexed`,
`sliced`, `column_stack`, `collapsed` (for *every* input: its result is built by `from_array`), and the entry-wise
set updates (`difference_update` / `intersection_update` always; `union_update` when what it adds assigns no cell
a second value — which is what well-formedness of its result means).  Each theorem is stated under the
operation's own precondition (e.g. same higher shape and combined rows within 32 bits for `append`; one order
per higher axis for `sliced`).  `slices1d` yields the per-column slices of C13 (`CatiiProps/C13`).  The names
keep the suffix `_partial` where the model restricts the number of axes to the one/two the code supports.
The real code is checked after every step of every generated history (`validate(True)` plus the range / arity /
non-emptiness conditions) and its results are compared with the model (`wf`).
-/
namespace Catii.C07
open Catii.IIdx

/-- the decidable predicate evaluated by the harness implies the proposition used in proofs -/
theorem decidable_wf_sound (i : IIndex) (h : wf i = true) : WF i := wf_sound i h

/-- `validate(check_comprehensive_unique=True)` as REGENERATED from the source on every run (`tools/translate_validate.py`:
no entry under the common value; `len(rowids) == len(numpy.unique(rowids))`; `array_equal(rowids, numpy.unique(rowids))`; no row
under two values of the same higher coordinates) accepts exactly the indexes the model's `validates` accepts - the two NumPy
tests together ARE "strictly increasing" -/
theorem generated_validate_is_the_modelled_validate (i : IIndex) : Gen.validateGen i = validates i :=
  gen_validate_eq i

/-- hence a well-formed index passes the library's own validation as the source defines it now -/
theorem wellformed_passes_generated_validate (i : IIndex) (h : wf i = true) : Gen.validateGen i = true := by
  rw [gen_validate_eq]
  unfold wf at h
  simp only [Bool.and_eq_true] at h
  exact h.1.1.2

/-- `shift_common` (given or library-chosen value) preserves well-formedness -/
theorem shift_common_preserves_partial (i : IIndex) (h : WF i) (hnd : i.ndim ≤ 2) (v : Option Int)
    (r : IIndex) (hr : shiftCommon i v = .ok r) : WF r :=
  (shiftCommon_refines i h hnd v r hr).1

/-- the re-encoding block of `shift_common` as REGENERATED from the source on every run (`Gen.shiftToGen`,
tools/translate_shift.py) keeps a well-formed one- or two-axis index well-formed, for EVERY new common value - -/
theorem generated_shift_common_keeps_wellformed (i : IIndex) (h : WF i) (hnd : i.ndim ≤ 2) (v : Int) :
    WF (Gen.shiftToGen i v) :=
  (shiftCommon_refines i h hnd (some v) _ (gen_shiftTo_eq i v h.arity hnd)).1

/-- `append` as REGENERATED from the source on every run (`Gen.appendPreGen` + the re-encoding) preserves well-formedness -/
theorem generated_append_keeps_wellformed {i other : IIndex} (ok : AppendOK i other) (hnd : i.ndim ≤ 2) (r : IIndex)
    (hr : shiftCommon (Gen.appendPreGen i other) none = .ok r) : WF r := by
  have hsame : other.shape.length = i.shape.length := ndim_eq_of_drop ok
  rw [gen_appendPre_eq i other hnd hsame ok.wo.arity] at hr
  have hr' : append i other = .ok r := by
    unfold append
    have : ¬ i.ndim > 2 := by omega
    simp only [this, if_false]
    exact hr
  exact (append_refines ok hnd r hr').1

/-- `filtered` as REGENERATED from the source on every run (`Gen.filteredPreGen` + the re-encoding) preserves well-formedness -/
theorem generated_filtered_keeps_wellformed {i : IIndex} {mask : List Bool} {n' : Nat} (ok : FilterOK i mask n')
    (hnd : i.ndim ≤ 2) (res : IIndex) (hr : shiftCommon (Gen.filteredPreGen i mask n') none = .ok res) : WF res :=
  (filtered_refines ok hnd res (filtered_of_gen ok res hr)).1

/-- `from_array(values, counts, common, mapping)` returns a well-formed index on both construction paths -/
theorem from_array_wellformed (a : Arr) (o : FromOpts) (idx : IIndex) (w : Bool) (harr : ArrOK a)
    (h : fromArray a o = .ok (idx, w))
    (hcounts : ∀ c, o.counts = some c → (c.map (·.1)).Nodup ∧ ∀ v ∈ a.data, v ∈ c.map (·.1)) : WF idx :=
  fromArray_wf a o idx w harr h hcounts

/-- `append(other)` preserves well-formedness, for any two common values and any row counts -/
theorem append_preserves_partial (i other : IIndex) (ok : AppendOK i other) (hnd : i.ndim ≤ 2)
    (r : IIndex) (hr : append i other = .ok r) : WF r :=
  (append_refines ok hnd r hr).1

/-- `filtered(mask, new_length)` preserves well-formedness, for any mask -/
theorem filtered_preserves_partial (i : IIndex) (mask : List Bool) (n' : Nat) (ok : FilterOK i mask n')
    (hnd : i.ndim ≤ 2) (r : IIndex) (hr : filtered i mask n' = .ok r) : WF r :=
  (filtered_refines ok hnd r hr).1

/-- `update(entries)` preserves well-formedness, for any consistent dictionary of cell assignments -/
theorem update_preserves_partial (i : IIndex) (ents : List (Key × Rows)) (ok : UpdateOK i ents) :
    ∃ r, update i ents = .ok r ∧ WF r := by
  obtain ⟨r, h1, h2, _⟩ := update_refines ok
  exact ⟨r, h1, h2⟩

/-- `column_stack` returns a well-formed index, for any mix of 1-D / 2-D inputs and common values -/
theorem column_stack_preserves_partial (first : IIndex) (tl : List IIndex) (newCommon : Option Int) (r : IIndex)
    (n : Nat) (hall : ∀ x ∈ first :: tl, WF x ∧ x.ndim ≤ 2 ∧ x.nrows = n)
    (h : columnStack (first :: tl) newCommon = .ok r) : WF r :=
  (columnStack_refines first tl newCommon r n hall h).1

/-- `reindexed(mapping)` preserves well-formedness for every mapping (injective, many-to-one, onto the common
value, default), with or without the final re-normalisation -/
theorem reindexed_preserves_partial (i : IIndex) (h : WF i) (hnd : i.ndim ≤ 2) (mapping : Option (List (Int × Int)))
    (shift : Bool) (r : IIndex) (hr : reindexed i mapping shift false = .ok r) : WF r :=
  (reindexed_refines i h hnd mapping shift r hr).1

/-- `sliced(*orders)` returns a well-formed index (any number of axes) -/
theorem sliced_preserves_partial (i : IIndex) (orders : List Order) (ok : SliceOK i orders) :
    ∃ r, sliced i orders = .ok r ∧ WF r := by
  obtain ⟨r, h1, h2, _⟩ := sliced_refines ok
  exact ⟨r, h1, h2⟩

/-- `collapsed(precedence, mapping)` returns a well-formed index for every receiver, precedence list and mapping -/
theorem collapsed_wellformed (i : IIndex) (prec : List Int) (mapping : Option (List (Int × Int))) (r : IIndex)
    (hr : collapsed i prec mapping = .ok r) : WF r :=
  collapsed_wf i prec mapping r hr

/-- `difference_update` keeps the index well-formed -/
theorem difference_update_preserves (i : IIndex) (other : List (Key × Rows)) (h : WF i)
    (ho : ∀ e ∈ other, Kern.SSorted e.2) : ∃ r, differenceUpdate i other = .ok r ∧ WF r :=
  differenceUpdate_wf i other h ho

/-- `intersection_update` (argument a dictionary) keeps the index well-formed -/
theorem intersection_update_preserves (i : IIndex) (other : List (Key × Rows)) (h : WF i)
    (ho : ∀ e ∈ other, Kern.SSorted e.2) (hd : other.Pairwise (fun a b => a.1 ≠ b.1)) :
    ∃ r, intersectionUpdate i other = .ok r ∧ WF r :=
  intersectionUpdate_wf i other h ho hd

/-- `union_update` keeps the index well-formed exactly under the condition well-formedness of its result states:
the added rows fit the shape, avoid the common value, and no cell ends up with two values -/
theorem union_update_preserves (i : IIndex) (other : List (Key × Rows)) (h : WF i)
    (ho : ∀ e ∈ other, Kern.SSorted e.2)
    (hfit : ∀ k r, Listed other k r →
      k.length = i.ndim ∧ val0 k ≠ i.common ∧ r < i.nrows ∧ k.drop 1 ∈ hiCells (i.shape.drop 1))
    (hone : ∀ k1 k2 r, (Listed i.entries k1 r ∨ Listed other k1 r) → (Listed i.entries k2 r ∨ Listed other k2 r) →
      k1.drop 1 = k2.drop 1 → val0 k1 = val0 k2) :
    ∃ r, unionUpdate i other = .ok r ∧ WF r :=
  unionUpdate_wf i other h ho hfit hone

/-- consequence named by the property: after re-encoding nothing is listed under the common value
and no entry is empty, so the set of listed values contains no category that occurs nowhere -/
theorem no_phantom_categories (i : IIndex) (h : WF i) (e : Key × Rows) (he : e ∈ i.entries) :
    ∃ r, r ∈ e.2 ∧ r < i.nrows ∧ denseAt i r (e.1.drop 1) = val0 e.1 := by
  obtain ⟨r, hr⟩ := List.exists_mem_of_ne_nil e.2 (h.nonEmpty e he)
  exact ⟨r, hr, h.inRange e he r hr, denseAt_of_mem i h e he r _ rfl hr⟩

example : WF ⟨[([1, 0], [0, 2]), ([2, 1], [1])], 0, [3, 2]⟩ := wf_sound _ (by decide)
example : AppendOK ⟨[([1], [0, 2]), ([2], [1])], 0, [4]⟩ ⟨[([0], [1])], 2, [3]⟩ :=
  ⟨wf_sound _ (by decide), wf_sound _ (by decide), rfl, by decide⟩
example : wf ⟨[([5], [])], 0, [3]⟩ = false ∧ wf ⟨[([0], [1])], 0, [3]⟩ = false := by decide

end Catii.C07
