import CatiiProofs.CubeCount
import CatiiProofs.DiffGenBridge
/-!
# C02 — the count cube equals the brute-force contingency table

`countCube` is the model of `ccube(dims, interacting_shape).count()` for one-axis dimensions:
walk → fill (`counts[coords] = len(rowids)`, corner = N) → marginal differencing along each axis
in turn → margins cut off → zero ⇒ missing.  `brute dims N c` counts the rows `r < N` whose
category (`dense`) on every dimension equals the cell's coordinate.  Multi-axis dimensions are
stacks of one-axis cubes (C13).  Chain: `walk_sound/complete` (C14) ⇒ initial invariant
(`fill_inv0`) ⇒ inclusion–exclusion (`marginal_diff_correct`, any additive group) ⇒ output.
-/
namespace Catii.C02
open Catii.Cube Catii.Marg

/-- explicit shape: every output cell — visited or reconstructed by differencing — holds exactly
the brute-force count, and is reported missing exactly when that count is zero.  Any number of
dimensions (zero included), any commons, any extents above the listed categories and commons. -/
theorem count_equals_brute_force (dims : List Dim) (exts : List Nat) (N : Nat)
    (h : CubeOK dims exts N) :
    ∃ out, countCube dims N (some exts) = .ok out ∧ out.shape = exts ∧
      out.counts = (allCells exts).map (fun c => (c, (brute dims N c : Int))) ∧
      out.missing = (allCells exts).filter (fun c => brute dims N c == 0) :=
  countCube_spec h

theorem cubeOK_inferred (dims : List Dim) (N : Nat) (hok : ∀ d ∈ dims, DimOK N d) :
    CubeOK dims (dims.map inferExtent) N := by
  have hat : ∀ a < dims.length, at' (dims.map inferExtent) a = inferExtent (dims.getD a default) := by
    intro a ha
    unfold at'
    rw [List.getD_eq_getElem?_getD, List.getD_eq_getElem?_getD, List.getElem?_map,
      List.getElem?_eq_getElem ha]
    simp
  refine ⟨by simp, hok, fun a ha e he => ?_, fun a ha => ?_⟩
  · rw [hat a ha]; exact (inferExtent_gt _).1 e he
  · rw [hat a ha]; exact (inferExtent_gt _).2

/-- inferred shape (no `interacting_shape`): the same, over `max(listed ∪ {common}) + 1` per dimension -/
theorem count_equals_brute_force_inferred (dims : List Dim) (N : Nat) (hok : ∀ d ∈ dims, DimOK N d) :
    ∃ out, countCube dims N none = .ok out ∧ out.shape = dims.map inferExtent ∧
      out.counts = (allCells (dims.map inferExtent)).map (fun c => (c, (brute dims N c : Int))) ∧
      out.missing = (allCells (dims.map inferExtent)).filter (fun c => brute dims N c == 0) := by
  have := count_equals_brute_force dims (dims.map inferExtent) N (cubeOK_inferred dims N hok)
  unfold countCube at this ⊢
  exact this

/-- the inferred extent is the least bound above every listed category and the common one -/
theorem inferred_extent_least (d : Dim) :
    (∀ e ∈ d.entries, e.1 < inferExtent d) ∧ d.common < inferExtent d ∧
    ∀ m, (∀ e ∈ d.entries, e.1 < m) → d.common < m → inferExtent d ≤ m := by
  refine ⟨(inferExtent_gt d).1, (inferExtent_gt d).2, ?_⟩
  intro m hk hc
  unfold inferExtent
  have key : ∀ (xs : List Nat) (i : Nat), i < m → (∀ x ∈ xs, x < m) → xs.foldl max i < m := by
    intro xs
    induction xs with
    | nil => intro i hi _; simpa
    | cons a as ih =>
      intro i hi hx
      simp only [List.foldl_cons]
      exact ih _ (by have := hx a List.mem_cons_self; omega) (fun x h => hx x (List.mem_cons_of_mem _ h))
  have := key (d.entries.map (·.1)) d.common hc (by
    intro x hx
    obtain ⟨e, he, rfl⟩ := List.mem_map.mp hx
    exact hk e he)
  omega

/-! Non-vacuity: the docstring example of `ccubes.py` (two rows, common 0 on both axes), a cube
whose common cell is empty and whose shape is padded, and the zero-dimension cube. -/
def exDims : List Dim := [⟨[(1, [1])], 0⟩, ⟨[(1, [0])], 0⟩]
example : CubeOK exDims [2, 2] 2 := by
  refine ⟨rfl, ?_, ?_, ?_⟩
  · intro d hd
    simp [exDims] at hd
    rcases hd with rfl | rfl <;>
      exact ⟨by decide, by decide, by decide, by decide, by decide⟩
  · intro a ha e he
    have : a = 0 ∨ a = 1 := by simp [exDims] at ha; omega
    rcases this with rfl | rfl <;> simp [exDims] at he <;> subst he <;> decide
  · intro a ha
    have : a = 0 ∨ a = 1 := by simp [exDims] at ha; omega
    rcases this with rfl | rfl <;> decide
example : CubeOK [] [] 5 := ⟨rfl, by simp, by simp, by simp⟩


/-! ### the marginal pass REGENERATED from `_compute_common_cells_from_marginal_diffs` (`tools/translate_diff.py`)

`Gen.diffPass` records what the current source writes, subtracts from and sums in one pass (as selections along the pass's
axis and along the other axes); `passOf` is the pass those data describe. -/

/-- it is the pass `passFn` that `count_equals_brute_force` and the inclusion-exclusion theorem are about - in any additive
commutative group - and the passes run in ascending order over whole other axes, summing over the pass's own axis -/
theorem generated_pass_is_the_modelled_pass {α : Type} [AddCommGroup α] (exts cms : List Nat) (k : Nat) (R : Cell → α) (c : Cell) :
    passOf Gen.diffPass exts cms k R c = passFn exts cms k R c ∧
    Gen.diffPass.ascending = true ∧ Gen.diffPass.written.2 = .all ∧ Gen.diffPass.minuend.2 = .all ∧
    Gen.diffPass.summed.2 = .all ∧ Gen.diffPass.sumOverPassAxis = true :=
  ⟨gen_pass_is_passFn exts cms k R c, gen_pass_facts⟩

end Catii.C02
