import CatiiProofs.SchedProofs
import CatiiModel.Gen.DriverGen
/-!
# C20 — an interrupt raised at any cancellation point stops the cube cleanly

Model: the drivers consult the callback at the start of every sub-cube task.  `raises i = some e`
means the `i`-th consultation raises `e`.

* serial (`calcSerial`): the first raising consultation stops the loop, its exception is the result,
  and the callback was consulted exactly `k+1` times; without a raise it is consulted once per
  sub-cube and the result is the uninterrupted one;
* pooled (`calcPooled`, `pool.map` semantics): every sub-cube's callback is consulted; the call
  raises iff some consultation raised, and the exception is one of the raised ones;
* re-use: the model keeps no state between calls (result regions are local to a call), so a
  following call is a fresh evaluation — `reuse_is_fresh` is definitional.

**Partial**: pool and thread lifetime, and what CPython's `ThreadPool` does with exceptions, are
observed by the harness (under a hard timeout), not proved.
-/
namespace Catii.C20
open Catii.Sched

theorem serial_runs_to_completion {E S R : Type} (tasks : List (S → S)) (raises : Nat → Option E) (init : S)
    (reduce : S → R) (h : ∀ j < tasks.length, raises j = none) :
    calcSerial tasks raises init reduce =
      { result := .ok (reduce (tasks.foldl (fun σ t => t σ) init)), calls := tasks.length } :=
  serial_no_interrupt tasks raises init reduce h

theorem serial_stops_at_first_raise {E S R : Type} (tasks : List (S → S)) (raises : Nat → Option E) (init : S)
    (reduce : S → R) (k : Nat) (e : E) (hk : k < tasks.length) (hr : raises k = some e)
    (hbefore : ∀ j < k, raises j = none) :
    calcSerial tasks raises init reduce = { result := .error e, calls := k + 1 } :=
  serial_interrupt tasks raises init reduce k e hk hr hbefore

theorem pooled_raises_one_of_the_raised {E S R : Type} (tasks : List (S → S)) (raises : Nat → Option E) (init : S)
    (reduce : S → R) (pick : List Nat → Nat) :
    (calcPooled tasks raises init reduce pick).calls = tasks.length ∧
    ((∀ j < tasks.length, raises j = none) → ∃ r, (calcPooled tasks raises init reduce pick).result = .ok r) ∧
    ((∃ j < tasks.length, (raises j).isSome) →
      ∃ j < tasks.length, ∃ e, raises j = some e ∧ (calcPooled tasks raises init reduce pick).result = .error e) :=
  pooled_interrupt tasks raises init reduce pick

/-- after an interrupted call (whatever `raises` was), the same tasks evaluate as if nothing had happened:
the uninterrupted evaluation is a function of the tasks and inputs alone -/
theorem reuse_is_fresh {E S R : Type} (tasks : List (S → S)) (raises : Nat → Option E) (init : S) (reduce : S → R) :
    let _interrupted := calcSerial tasks raises init reduce
    calcSerial tasks (fun _ => (none : Option E)) init reduce =
      { result := .ok (reduce (tasks.foldl (fun σ t => t σ) init)), calls := tasks.length } :=
  serial_no_interrupt tasks (fun _ => none) init reduce (fun _ _ => rfl)

/-! Non-vacuity -/
example : calcSerial [(· + 1), (· + 2), (· + 4)] (fun i => if i = 1 then some "stop" else none) 0 id
    = { result := .error "stop", calls := 2 } := by
  refine serial_stops_at_first_raise _ _ _ _ 1 "stop" (by decide) rfl ?_
  intro j hj
  have hj0 : j = 0 := by omega
  subst hj0
  rfl


/-! ### what the CURRENT drivers look like (`Gen/DriverGen.lean`, regenerated from `ccube.calculate` / `xcube.calculate`) -/

/-- `calcSerial` / `calcPooled` consult the callback first in every task, once; both drivers do: the task's first statement is
`if self.check_interrupt is not None: self.check_interrupt()`, that is its only call site, the task has no early `return`,
the serial branch is a plain loop over the product, the pooled branch re-raises what `pool.map` hands back, and the worker hands
back exactly the exceptions `pool.map` itself would not deliver (`BaseException`s that are not `Exception`s) -/
theorem generated_drivers_have_the_modelled_shape :
    Gen.ccubeDriver.modelled ["intersection_data_points"] = true ∧ Gen.xcubeDriver.modelled ["_tracing"] = true := by decide

theorem generated_callback_first_and_once :
    Gen.ccubeDriver.callbackFirst = true ∧ Gen.ccubeDriver.callbackSites = 1 ∧ Gen.ccubeDriver.taskReturnsEarly = false ∧
    Gen.xcubeDriver.callbackFirst = true ∧ Gen.xcubeDriver.callbackSites = 1 ∧ Gen.xcubeDriver.taskReturnsEarly = false := by decide

end Catii.C20
