import CatiiModel.Gen.FitDtype
/-!
# C19 — chosen integer dtypes are wide enough, and no wider than needed

Theorems about the **regenerated** definition `Catii.fitDtype`
(`CatiiModel/Gen/FitDtype.lean`, rewritten from `/repo/src/catii/iindexes.py` on every
run by `tools/translate.py`).  Property theorems only; no helper lemmas live here.
-/
namespace Catii.C19

/-- The quantifier of C19: `-2^63 ≤ min ≤ 0`, `min ≤ max < 2^64`, and the pair is
representable by *some* NumPy integer type (a negative `min` needs a signed type, whose
maximum is `2^63-1`). -/
def Dom (mx mn : Int) : Prop :=
  mn ≤ 0 ∧ mn ≤ mx ∧ -2^63 ≤ mn ∧ (mn < 0 → mx ≤ 2^63-1) ∧ mx ≤ 2^64 - 1

/-- the selected dtype represents both `min` and `max` without wrap-around -/
theorem fit_contains (mx mn : Int) (h : Dom mx mn) :
    (fitDtype mx mn).lo ≤ mn ∧ mx ≤ (fitDtype mx mn).hi := by
  unfold Dom at h
  unfold fitDtype
  grind [DT.lo, DT.hi]

/-- unsigned when nothing is negative, signed otherwise -/
theorem fit_signedness (mx mn : Int) (h : Dom mx mn) :
    (fitDtype mx mn).signed = decide (mn < 0) := by
  unfold Dom at h
  unfold fitDtype
  grind [DT.signed]

/-- no narrower integer dtype of the same signedness contains `[min, max]` -/
theorem fit_narrowest (mx mn : Int) (h : Dom mx mn) (d : DT)
    (hs : d.signed = (fitDtype mx mn).signed) (hlo : d.lo ≤ mn) (hhi : mx ≤ d.hi) :
    (fitDtype mx mn).bits ≤ d.bits := by
  unfold Dom at h
  revert hs hlo hhi
  unfold fitDtype
  cases d <;> grind [DT.lo, DT.hi, DT.signed, DT.bits]

/-- The one-argument form used by `to_array`, `collapsed` and INDX (`fit_dtype(maxval)`):
for a non-negative maximum the result is the narrowest unsigned type holding it. -/
theorem fit1_unsigned (mx : Int) (h0 : 0 ≤ mx) (h1 : mx ≤ 2^64 - 1) :
    (fitDtype1 mx).signed = false ∧ 0 ≤ (fitDtype1 mx).lo ∧ mx ≤ (fitDtype1 mx).hi ∧
    ∀ d : DT, d.signed = false → mx ≤ d.hi → (fitDtype1 mx).bits ≤ d.bits := by
  have hd : Dom mx 0 := by unfold Dom; omega
  have hc := fit_contains mx 0 hd
  have hs := fit_signedness mx 0 hd
  refine ⟨by simpa [fitDtype1] using hs, ?_, by simpa [fitDtype1] using hc.2, ?_⟩
  · unfold fitDtype1 fitDtype; grind [DT.lo]
  · intro d hds hhi
    have hlo : d.lo ≤ 0 := by cases d <;> simp_all [DT.signed, DT.lo]
    exact fit_narrowest mx 0 hd d (by rw [hds, hs]; simp) hlo hhi

/-- A negative maximum with the default minimum is treated as its own minimum (the
documented "negative side uses more bits" rule): the result is signed and contains it. -/
theorem fit1_negative (mx : Int) (h0 : mx < 0) (h1 : -2^63 ≤ mx) :
    (fitDtype1 mx).signed = true ∧ (fitDtype1 mx).lo ≤ mx ∧ mx ≤ (fitDtype1 mx).hi := by
  unfold fitDtype1 fitDtype
  grind [DT.lo, DT.hi, DT.signed]

/-! Non-vacuity: the hypotheses are met at the boundaries the property names. -/
example : Dom 127 (-1) ∧ Dom 128 (-1) ∧ Dom (2^31) (-1) ∧ Dom (2^63-1) (-1) ∧
    Dom (2^64-1) 0 ∧ Dom 0 (-2^63) ∧ Dom 255 0 ∧ Dom 256 0 := by
  unfold Dom; omega
example : fitDtype 127 (-1) = .i8 ∧ fitDtype 128 (-1) = .i16 ∧ fitDtype 128 0 = .u8 ∧
    fitDtype 256 0 = .u16 ∧ fitDtype (2^31) (-1) = .i64 ∧ fitDtype (2^64-1) 0 = .u64 := by
  decide

end Catii.C19
