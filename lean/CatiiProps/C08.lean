import CatiiProofs.KernTop
import CatiiProofs.KernMany
import CatiiProofs.KernManyRefine
import CatiiProofs.KernGenBridge
import CatiiProofs.KernManyGenBridge
/-!
# C08 — sorted-set kernels compute exact set algebra

Statements about the kernel models of `CatiiModel/Kernels.lean` (index loops with the
shortcuts and tail loops of `set_operations.pyx`).  `SSorted l` = strictly increasing.
Values are unbounded naturals here; the code stores uint32, and the two-array kernels do
no arithmetic on values, so the theorems specialise to values `< 2^32` (including 0 and
`2^32-1`) without change.
-/
namespace Catii.C08
open Catii.Kern

/-- `set_intersect_merge_np`: exactly the common elements, strictly increasing -/
theorem intersect_exact (L R : Array Nat) (hL : SSorted L.toList) (hR : SSorted R.toList) :
    ∃ out, interK L R = .ok out ∧ SSorted out.toList ∧
      ∀ x, x ∈ out.toList ↔ x ∈ L.toList ∧ x ∈ R.toList := by
  obtain ⟨out, hrun, hcase⟩ := interK_run L R
  refine ⟨out, hrun, ?_⟩
  rcases hcase with rfl | ⟨rfl, hwhy⟩
  · exact ⟨by simpa using inter_sorted _ _ hL, fun x => by simpa using mem_inter _ _ hL hR x⟩
  · refine ⟨by simp, fun x => ?_⟩
    simp only [List.not_mem_nil, false_iff]
    rcases hwhy with h | h | ⟨hl, hr, hs⟩
    · have : L.toList = [] := by simpa using h
      simp [this]
    · have : R.toList = [] := by simpa using h
      simp [this]
    · exact disjoint_of_above L R hL hR hl hr hs x

/-- `set_union_merge_np`: exactly the elements of either operand, strictly increasing -/
theorem union_exact (L R : Array Nat) (hL : SSorted L.toList) (hR : SSorted R.toList) :
    ∃ out, unionK L R = .ok out ∧ SSorted out.toList ∧
      ∀ x, x ∈ out.toList ↔ x ∈ L.toList ∨ x ∈ R.toList := by
  obtain ⟨out, hrun, hcase⟩ := unionK_run L R
  refine ⟨out, hrun, ?_⟩
  rcases hcase with rfl | ⟨hl, hr, hs, rfl⟩ | ⟨hl, hr, hs, rfl⟩
  · exact ⟨by simpa using uni_sorted _ _ hL hR, fun x => by simpa using mem_uni L.toList R.toList x⟩
  · exact ⟨append_sorted R L hR hL hr hl hs, fun x => by simp [or_comm]⟩
  · exact ⟨append_sorted L R hL hR hl hr hs, fun x => by simp⟩

/-- `set_difference_merge_np`: exactly the elements of the left operand not in the right -/
theorem difference_exact (L R : Array Nat) (hL : SSorted L.toList) (hR : SSorted R.toList) :
    ∃ out, diffK L R = .ok out ∧ SSorted out.toList ∧
      ∀ x, x ∈ out.toList ↔ x ∈ L.toList ∧ x ∉ R.toList := by
  obtain ⟨out, hrun, hcase⟩ := diffK_run L R
  refine ⟨out, hrun, ?_⟩
  rcases hcase with rfl | ⟨rfl, hl, hr, hs⟩
  · exact ⟨by simpa using dif_sorted _ _ hL, fun x => by simpa using mem_dif _ _ hL hR x⟩
  · refine ⟨hL, fun x => ⟨fun h => ⟨h, fun h2 => disjoint_of_above _ R hL hR hl hr hs x ⟨h, h2⟩⟩, fun h => h.1⟩⟩

/-- the index loop of `set_union_merge_many` (checked accesses, C09) returns exactly the list merge that
`union_many_exact` is about — for every list of arrays -/
theorem union_many_loop_is_the_merge (arrays : List (Array Nat)) : unionManyChecked arrays = unionManyK arrays :=
  unionManyChecked_eq arrays

/-- `set_union_merge_many`: the strictly increasing union of all the arrays, for any number
of arrays (zero included) and any mix of empty ones -/
theorem union_many_exact (arrays : List (Array Nat)) (hs : ∀ a ∈ arrays, SSorted a.toList) :
    ∃ out, unionManyK arrays = .ok out ∧ SSorted out.toList ∧
      ∀ x, x ∈ out.toList ↔ ∃ a ∈ arrays, x ∈ a.toList := by
  have hall : AllSorted ((arrays.map Array.toList).filter (· ≠ [])) := by
    intro l hl
    simp only [List.mem_filter, List.mem_map] at hl
    obtain ⟨⟨a, ha, rfl⟩, _⟩ := hl
    exact hs a ha
  obtain ⟨h1, h2⟩ := unionManyL_spec _ hall
  refine ⟨_, rfl, by simpa using h1, fun x => ?_⟩
  simp only [List.toList_toArray] at *
  rw [h2 x]
  constructor
  · rintro ⟨l, hl, hx⟩
    simp only [List.mem_filter, List.mem_map] at hl
    obtain ⟨⟨a, ha, rfl⟩, _⟩ := hl
    exact ⟨a, ha, hx⟩
  · rintro ⟨a, ha, hx⟩
    refine ⟨a.toList, ?_, hx⟩
    simp only [List.mem_filter, List.mem_map]
    exact ⟨⟨a, ha, rfl⟩, by simpa using List.ne_nil_of_mem hx⟩

/-! ### the documented `None` conventions of the wrappers -/

def OSorted : Option (Array Nat) → Prop
  | none => True
  | some a => SSorted a.toList
def omem (x : Nat) : Option (Array Nat) → Prop
  | none => False
  | some a => x ∈ a.toList

/-- `nonEmpty` (the `if len(result): return result` tail of every wrapper) keeps content -/
theorem nonEmpty_spec (A : Array Nat) (hA : SSorted A.toList) :
    OSorted (nonEmpty A) ∧ (∀ x, omem x (nonEmpty A) ↔ x ∈ A.toList) ∧
    (∀ a, nonEmpty A = some a → a.size ≠ 0) := by
  by_cases h0 : A.size = 0
  · have hn : nonEmpty A = none := by simp [nonEmpty, h0]
    have : A.toList = [] := by simpa using h0
    rw [hn]
    exact ⟨trivial, fun x => by rw [this]; simp [omem], by simp⟩
  · have hn : nonEmpty A = some A := by simp [nonEmpty, h0]
    rw [hn]
    exact ⟨hA, fun x => Iff.rfl, by intro a ha; cases ha; exact h0⟩

/-- `intersection`: `None` iff an operand is absent or nothing is common; otherwise the
non-empty exact intersection -/
theorem intersection_wrapper (l r : Option (Array Nat)) (hl : OSorted l) (hr : OSorted r) :
    ∃ res, intersectionW l r = .ok res ∧ OSorted res ∧ (∀ x, omem x res ↔ omem x l ∧ omem x r) ∧
      (∀ a, res = some a → a.size ≠ 0) := by
  cases l with
  | none => exact ⟨none, by cases r <;> rfl, trivial, fun x => by simp [omem], by simp⟩
  | some L => cases r with
    | none => exact ⟨none, rfl, trivial, fun x => by simp [omem], by simp⟩
    | some R =>
      obtain ⟨out, hrun, hs, hm⟩ := intersect_exact L R hl hr
      obtain ⟨h1, h2, h3⟩ := nonEmpty_spec out hs
      exact ⟨nonEmpty out, by simp [intersectionW, hrun]; rfl, h1, fun x => (h2 x).trans (hm x), h3⟩

/-- `union`: `None` iff nothing is present at all; otherwise the non-empty exact union -/
theorem union_wrapper (l r : Option (Array Nat)) (hl : OSorted l) (hr : OSorted r) :
    ∃ res, unionW l r = .ok res ∧ OSorted res ∧ (∀ x, omem x res ↔ omem x l ∨ omem x r) ∧
      (∀ a, res = some a → a.size ≠ 0) := by
  cases l with
  | none => cases r with
    | none => exact ⟨none, rfl, trivial, fun x => by simp [omem], by simp⟩
    | some R =>
      obtain ⟨h1, h2, h3⟩ := nonEmpty_spec R hr
      exact ⟨nonEmpty R, rfl, h1, fun x => (h2 x).trans (by simp [omem]), h3⟩
  | some L => cases r with
    | none =>
      obtain ⟨h1, h2, h3⟩ := nonEmpty_spec L hl
      exact ⟨nonEmpty L, rfl, h1, fun x => (h2 x).trans (by simp [omem]), h3⟩
    | some R =>
      obtain ⟨out, hrun, hs, hm⟩ := union_exact L R hl hr
      obtain ⟨h1, h2, h3⟩ := nonEmpty_spec out hs
      exact ⟨nonEmpty out, by simp [unionW, hrun]; rfl, h1, fun x => (h2 x).trans (hm x), h3⟩

/-- `difference`: `None` iff the left operand is absent or nothing remains -/
theorem difference_wrapper (l r : Option (Array Nat)) (hl : OSorted l) (hr : OSorted r) :
    ∃ res, differenceW l r = .ok res ∧ OSorted res ∧ (∀ x, omem x res ↔ omem x l ∧ ¬ omem x r) ∧
      (∀ a, res = some a → a.size ≠ 0) := by
  cases l with
  | none => exact ⟨none, rfl, trivial, fun x => by simp [omem], by simp⟩
  | some L => cases r with
    | none =>
      obtain ⟨h1, h2, h3⟩ := nonEmpty_spec L hl
      exact ⟨nonEmpty L, rfl, h1, fun x => (h2 x).trans (by simp [omem]), h3⟩
    | some R =>
      obtain ⟨out, hrun, hs, hm⟩ := difference_exact L R hl hr
      obtain ⟨h1, h2, h3⟩ := nonEmpty_spec out hs
      exact ⟨nonEmpty out, by simp [differenceW, hrun]; rfl, h1, fun x => (h2 x).trans (hm x), h3⟩

/-! ### the same statements about the kernels REGENERATED from `set_operations.pyx` on every run

`Catii.KernGen.set_*_merge_np` (`CatiiModel/Gen/KernelsGen.lean`) is what `tools/translate_pyx.py` makes of the current
source: the allocated result buffer with unspecified initial content `junk`, `result_len`, the loops with their `break`s,
every `a[i]` a checked access.  `CatiiProofs/KernGenBridge.lean` proves them equal to the hand-written models for all
operands, so the three exactness theorems hold of what the source says NOW, whatever the buffer held before. -/

theorem generated_intersect_exact (junk : Nat → Nat) (L R : Array Nat) (hL : SSorted L.toList) (hR : SSorted R.toList) :
    ∃ out, KernGen.set_intersect_merge_np junk L R = .ok out ∧ SSorted out.toList ∧
      ∀ x, x ∈ out.toList ↔ x ∈ L.toList ∧ x ∈ R.toList := by
  rw [gen_intersect_eq]; exact intersect_exact L R hL hR

theorem generated_union_exact (junk : Nat → Nat) (L R : Array Nat) (hL : SSorted L.toList) (hR : SSorted R.toList) :
    ∃ out, KernGen.set_union_merge_np junk L R = .ok out ∧ SSorted out.toList ∧
      ∀ x, x ∈ out.toList ↔ x ∈ L.toList ∨ x ∈ R.toList := by
  rw [gen_union_eq]; exact union_exact L R hL hR

theorem generated_difference_exact (junk : Nat → Nat) (L R : Array Nat) (hL : SSorted L.toList) (hR : SSorted R.toList) :
    ∃ out, KernGen.set_difference_merge_np junk L R = .ok out ∧ SSorted out.toList ∧
      ∀ x, x ∈ out.toList ↔ x ∈ L.toList ∧ x ∉ R.toList := by
  rw [gen_difference_eq]; exact difference_exact L R hL hR

/-- the k-way union REGENERATED from `set_union_merge_many` (the NumPy prelude, the `pointers` / `limits` arrays, the `for arrnum
in range(num_arrays)` loops with their `continue`, the `-1` sentinel, checked accesses; `len(values) + 1` rounds of fuel for the
`while 1:`): the strictly increasing union of all the arrays -/
theorem generated_union_many_exact (junk : Nat → Nat) (arrays : List (Array Nat)) (hs : ∀ a ∈ arrays, SSorted a.toList) :
    ∃ out, KernGen.set_union_merge_many junk ((concatAll (arrays.filter fun a => a.size ≠ 0)).size + 1) arrays = .ok out ∧
      SSorted out.toList ∧ ∀ x, x ∈ out.toList ↔ ∃ a ∈ arrays, x ∈ a.toList := by
  rw [gen_union_many_eq, union_many_loop_is_the_merge]; exact union_many_exact arrays hs

-- non-vacuity: the generated kernels run; the initial content of the result buffer (here 7777...) never shows
example : KernGen.set_intersect_merge_np (fun i => 7777 + i) #[0, 5, 4294967295] #[5, 4294967295] = .ok #[5, 4294967295] ∧
    KernGen.set_union_merge_np (fun i => 7777 + i) #[0, 5, 4294967295] #[1, 5] = .ok #[0, 1, 5, 4294967295] ∧
    KernGen.set_difference_merge_np (fun i => 7777 + i) #[0, 5, 4294967295] #[5] = .ok #[0, 4294967295] := by decide +kernel

/-! Non-vacuity: strictly increasing inputs containing 0 and 2^32-1 exist and the kernels
run on them. -/
example : SSorted (#[0, 5, 4294967295] : Array Nat).toList ∧ SSorted (#[5, 4294967295] : Array Nat).toList := by
  decide
example : interK #[0, 5, 4294967295] #[5, 4294967295] = .ok #[5, 4294967295] ∧
    unionK #[0, 5, 4294967295] #[1, 5] = .ok #[0, 1, 5, 4294967295] ∧
    diffK #[0, 5, 4294967295] #[5] = .ok #[0, 4294967295] ∧
    unionManyK [#[1, 4294967295], #[], #[1, 2], #[0, 2]] = .ok #[0, 1, 2, 4294967295] ∧
    unionManyK [] = .ok #[] := by decide +kernel

end Catii.C08
