import CatiiProofs.StatsProofs
import CatiiProofs.WQuantile
import CatiiProofs.MissingGenBridge
/-!
# C18 — array-cube-only statistics equal the per-cell textbook statistic

What the array cube *adds* to NumPy for these statistics is the selection of the rows of each cell
(bin masks / bincount over strided coordinates) and the missing rules.

* `per_bin_statistic_sees_exactly_the_cell`: for ANY per-bin functional `Q` (NumPy's `quantile`,
  `cov`, `corrcoef`, `amin/amax`, or the explicit variance code), the value computed for a cell is
  `Q` applied to exactly the rows of that cell; `rows_are_partitioned`: every row is in exactly one
  output cell.
* `stddev_missing_rule`: a standard deviation is missing iff fewer than two valid rows, or (unless
  missing values are ignored) some row is missing — after the repair of finding F18b both policies
  require two valid rows.
* `weighted_quantile_scale_invariant`: the weighted quantile model is unchanged when all weights are
  multiplied by a positive factor.
* `weighted_quantile_within_range`: for every probability in [0, 1] and positive weights the weighted quantile of a
  cell lies between the smallest and the largest of the cell's valid values (`WQuantile.wqCore_in_range`: the
  `cumsum` / `digitize` / `clip` / `diff(append=[0])` arithmetic of `weighted_quantile_1d`, case by case).

**Partial**: NumPy's own `quantile/cov/corrcoef/std`, square roots and float rounding are
parameters, not theorems; the variance and weighted-quantile models are tied to the code by
correspondence on the rows of each cell (tolerance 1e-9).  Weights are positive throughout (the harness draws them
so; a zero weight on the largest value makes the real code divide 0 by 0 at probability 1 — outside the quantifier).
-/
namespace Catii.C18
open Catii.Cube Catii.Marg Catii.Agg Catii.Stats

theorem per_bin_statistic_sees_exactly_the_cell {α : Type} (Q : List Nat → α) (dims : List Dim) (exts : List Nat)
    (N : Nat) (h : CubeOK dims exts N) (c : Cell) (hc : c ∈ allCells exts) :
    statCube Q (dims.map fun d => fun r => dense d r) exts N c = Q (cellRows dims N c) := by
  unfold statCube
  rw [binRows_eq_cellRows h c hc]

theorem rows_are_partitioned (dims : List Dim) (exts : List Nat) (N : Nat) (h : CubeOK dims exts N) (r : Nat) (hr : r < N) :
    ∃ c ∈ allCells exts, r ∈ cellRows dims N c ∧ ∀ c' ∈ allCells exts, r ∈ cellRows dims N c' → c' = c :=
  row_in_unique_cell h r hr

theorem stddev_missing_rule (ignoreMissing : Bool) (valid missing : Nat) :
    stddevMissing ignoreMissing valid missing = true ↔ valid < 2 ∨ (ignoreMissing = false ∧ missing ≠ 0) := by
  unfold stddevMissing
  cases ignoreMissing <;> simp

/-- the same rule as REGENERATED from `xfunc_stddev.reduce` on every run (`tools/translate_missing.py`) -/
theorem generated_stddev_missing_rule (ignoreMissing : Bool) (valid missing : Nat) :
    MissingGen.xfunc_stddev ignoreMissing (valid : Rat) (missing : Rat) = true ↔
      valid < 2 ∨ (ignoreMissing = false ∧ missing ≠ 0) := by
  rw [← Catii.Agg.gen_rule_stddev]; exact stddev_missing_rule ignoreMissing valid missing

theorem weighted_quantile_scale_invariant (p k : Rat) (hk : 0 < k) (xs : List (Rat × Rat)) :
    wquantile p (xs.map fun x => (x.1, k * x.2)) = wquantile p xs :=
  wquantile_scale p k hk xs

/-- the weighted quantile is within [min, max] of the cell's valid values (rows sorted by value, as the code sorts
them; positive weights; any probability in [0, 1]) -/
theorem weighted_quantile_within_range (p : Rat) (hp0 : 0 ≤ p) (hp1 : p ≤ 1) (xs : List (Rat × Rat))
    (hs : (xs.map (·.1)).Pairwise (· ≤ ·)) (hw : ∀ x ∈ xs, 0 < x.2) (q : Rat) (hq : wquantile p xs = some q) :
    (∀ x ∈ xs, (xs.map (·.1)).getD 0 0 ≤ x.1 ∧ x.1 ≤ (xs.map (·.1)).getD (xs.length - 1) 0) ∧
    (xs.map (·.1)).getD 0 0 ≤ q ∧ q ≤ (xs.map (·.1)).getD (xs.length - 1) 0 :=
  wquantile_in_range p hp0 hp1 xs hs hw q hq

/-- no valid row ⇒ the weighted quantile is missing -/
theorem weighted_quantile_empty (p : Rat) : wquantile p [] = none := rfl

/-! Non-vacuity -/
example : stddevMissing false 1 0 = true ∧ stddevMissing true 2 3 = false ∧ stddevMissing false 2 1 = true := by decide
example : (∃ q, wquantile (1/2) [((1 : Rat), (1 : Rat)), (2, 2), (5, 1)] = some q) ∧
    (([((1 : Rat), (1 : Rat)), (2, 2), (5, 1)] : List (Rat × Rat)).map (·.1)).Pairwise (· ≤ ·) ∧
    ∀ x ∈ ([((1 : Rat), (1 : Rat)), (2, 2), (5, 1)] : List (Rat × Rat)), 0 < x.2 := by
  refine ⟨⟨_, rfl⟩, ?_, ?_⟩
  · simp only [List.map_cons, List.map_nil, List.pairwise_cons, List.mem_cons, List.not_mem_nil, or_false,
      forall_eq_or_imp, forall_eq, IsEmpty.forall_iff, implies_true, List.Pairwise.nil, and_true]
    refine ⟨⟨?_, ?_⟩, ?_⟩ <;> linarith
  · intro x hx
    simp only [List.mem_cons, List.not_mem_nil, or_false] at hx
    rcases hx with rfl | rfl | rfl <;> simp

end Catii.C18
