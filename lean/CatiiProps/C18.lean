import CatiiProofs.StatsProofs
/-!
# C18 — array-cube-only statistics equal the per-cell textbook statistic

What the array cube *adds* to NumPy for these statistics is the selection of the rows of each cell
(bin masks / bincount over strided coordinates) and the missing rules.

* `per_bin_statistic_sees_exactly_the_cell`: for ANY per-bin functional `Q` (NumPy's `quantile`,
  `cov`, `corrcoef`, `amin/amax`, or the explicit variance code), the value computed for a cell is
  `Q` applied to exactly the rows of that cell; `rows_are_partitioned`: every row is in exactly one
  output cell.
* `stddev_missing_rule`: a standard deviation is missing iff fewer than two valid rows, or (unless
  missing values are ignored) some row is missing — after the repair of finding F18b both policies
  require two valid rows.
* `weighted_quantile_scale_invariant`: the weighted quantile model is unchanged when all weights are
  multiplied by a positive factor.

**Partial**: NumPy's own `quantile/cov/corrcoef/std`, square roots and float rounding are
parameters, not theorems; the variance and weighted-quantile models are tied to the code by
correspondence on the rows of each cell (tolerance 1e-9); "within [min, max]" for the weighted
quantile is checked by the oracle on the real code only.
-/
namespace Catii.C18
open Catii.Cube Catii.Marg Catii.Agg Catii.Stats

theorem per_bin_statistic_sees_exactly_the_cell {α : Type} (Q : List Nat → α) (dims : List Dim) (exts : List Nat)
    (N : Nat) (h : CubeOK dims exts N) (c : Cell) (hc : c ∈ allCells exts) :
    statCube Q (dims.map fun d => fun r => dense d r) exts N c = Q (cellRows dims N c) := by
  unfold statCube
  rw [binRows_eq_cellRows h c hc]

theorem rows_are_partitioned (dims : List Dim) (exts : List Nat) (N : Nat) (h : CubeOK dims exts N) (r : Nat) (hr : r < N) :
    ∃ c ∈ allCells exts, r ∈ cellRows dims N c ∧ ∀ c' ∈ allCells exts, r ∈ cellRows dims N c' → c' = c :=
  row_in_unique_cell h r hr

theorem stddev_missing_rule (ignoreMissing : Bool) (valid missing : Nat) :
    stddevMissing ignoreMissing valid missing = true ↔ valid < 2 ∨ (ignoreMissing = false ∧ missing ≠ 0) := by
  unfold stddevMissing
  cases ignoreMissing <;> simp

theorem weighted_quantile_scale_invariant (p k : Rat) (hk : 0 < k) (xs : List (Rat × Rat)) :
    wquantile p (xs.map fun x => (x.1, k * x.2)) = wquantile p xs :=
  wquantile_scale p k hk xs

/-- no valid row ⇒ the weighted quantile is missing -/
theorem weighted_quantile_empty (p : Rat) : wquantile p [] = none := rfl

/-! Non-vacuity -/
example : stddevMissing false 1 0 = true ∧ stddevMissing true 2 3 = false ∧ stddevMissing false 2 1 = true := by decide

end Catii.C18
