import CatiiProofs.AggProofs
import CatiiProofs.Bridge
import CatiiProofs.IIndexWf
import CatiiProofs.DiffGenBridge
import CatiiProofs.ShiftGenBridge
/-!
# C05 — results are independent of which category is stored as common

`shiftTo i v` is the index `shift_common(v)` produces (C06).  A one-axis index is seen by the cube
as `toDim i`.  `common_is_unobservable`: replacing any dimension by a copy re-encoded with another
common value — frequent, rare or absent — changes no cell of any aggregate (count, valid_count,
sum, mean; any weights, fact, policy), missing cells included; `renormalising_too` covers
`shift_common()` afterwards because it is again a `shift_common(v)` for some `v`.
Both cubes are taken over the same explicit extents, which must exceed both common values.
-/
namespace Catii.C05
open Catii.Cube Catii.Marg Catii.Agg Catii.IIdx

/-- any two encodings of the same dense columns give the same cells -/
theorem encoding_is_unobservable (s : Spec) (dims dims' : List Dim) (exts : List Nat) (N : Nat)
    (h : CubeOK dims exts N) (h' : CubeOK dims' exts N) (hd : SameDense N dims dims') :
    ∃ f f', ccubeAgg s dims exts N = .ok f ∧ ccubeAgg s dims' exts N = .ok f' ∧
      ∀ c ∈ allCells exts, f c = f' c :=
  ccube_depends_on_dense_only s h h' hd

/-- replacing dimension `a` by its re-encoding with common `v` -/
theorem common_is_unobservable (s : Spec) (pre post : List IIndex) (i : IIndex) (v : Int) (hv : 0 ≤ v)
    (exts : List Nat) (N : Nat) (hi : CubeDimOK N i)
    (h : CubeOK ((pre ++ i :: post).map toDim) exts N)
    (h' : CubeOK ((pre ++ shiftTo i v :: post).map toDim) exts N) :
    ∃ f f', ccubeAgg s ((pre ++ i :: post).map toDim) exts N = .ok f ∧
      ccubeAgg s ((pre ++ shiftTo i v :: post).map toDim) exts N = .ok f' ∧
      ∀ c ∈ allCells exts, f c = f' c := by
  apply encoding_is_unobservable s _ _ exts N h h'
  simp only [List.map_append, List.map_cons]
  apply List.rel_append (List.forall₂_same.mpr (fun _ _ _ _ => rfl))
  exact List.Forall₂.cons (fun r hr => (dense_toDim_shiftTo i hi v hv r hr).symm)
    (List.forall₂_same.mpr (fun _ _ _ _ => rfl))

/-- the re-encoded dimension is again a well-formed cube dimension over the same rows -/
theorem reencoded_dimension_ok (i : IIndex) (N : Nat) (hi : CubeDimOK N i) (v : Int) (hv : 0 ≤ v) :
    DimOK N (toDim (shiftTo i v)) :=
  dimOK_toDim _ (cubeDimOK_shiftTo i hi v hv)

/-- the same with the re-encoding block of `shift_common` as REGENERATED from the source on every run (`Gen.shiftToGen`,
tools/translate_shift.py): replacing a dimension by what the CURRENT `shift_common(v)` makes of it changes no cell of any
aggregate of the index cube -/
theorem generated_reencoding_is_unobservable (s : Spec) (pre post : List IIndex) (i : IIndex) (v : Int) (hv : 0 ≤ v)
    (hne : v ≠ i.common) (exts : List Nat) (N : Nat) (hi : CubeDimOK N i)
    (h : CubeOK ((pre ++ i :: post).map toDim) exts N)
    (h' : CubeOK ((pre ++ Gen.shiftToGen i v :: post).map toDim) exts N) :
    ∃ f f', ccubeAgg s ((pre ++ i :: post).map toDim) exts N = .ok f ∧
      ccubeAgg s ((pre ++ Gen.shiftToGen i v :: post).map toDim) exts N = .ok f' ∧
      ∀ c ∈ allCells exts, f c = f' c := by
  have h2 : i.ndim ≤ 2 := by simp [IIndex.ndim, hi.oneAxis]
  rw [gen_shiftTo_is_shiftTo i hi.wf h2 v hne] at h' ⊢
  exact common_is_unobservable s pre post i v hv exts N hi h h'

/-! Non-vacuity -/
example : CubeDimOK 4 ⟨[([1], [0, 2]), ([2], [1])], 0, [4]⟩ :=
  ⟨wf_sound _ (by decide), rfl, by decide, by decide⟩


/-- the pass REGENERATED from the source (`Gen.diffPass`, tools/translate_diff.py) writes exactly the cells whose coordinate
on the pass's axis is THAT dimension's own common value - the "common slice chosen per dimension from its own common value" of
the property - and is the modelled pass -/
theorem generated_pass_uses_each_dimensions_own_common {α : Type} [AddCommGroup α] (exts cms : List Nat) (k : Nat)
    (R : Cell → α) (c : Cell) :
    Gen.diffPass.written = (.common, .all) ∧ passOf Gen.diffPass exts cms k R c = passFn exts cms k R c :=
  ⟨by decide, gen_pass_is_passFn exts cms k R c⟩

end Catii.C05
