import CatiiProofs.KernTop
/-!
# C09 — the kernels never touch memory outside their buffers

In the kernel models every source-level index expression is a *checked* access that fails
with `Err.oobRead/oobWrite`; outputs are written into a buffer of exactly the allocated
capacity.  "Returns `.ok`" therefore means: no read outside an input array, no write
outside the output array.  **No sortedness hypothesis**: the statements quantify over all
arrays, in particular every empty/non-empty combination and every exhaustion order.
What is not covered: the C that Cython/gcc generate from the source (trusted), and the
`int` (32-bit) pointers for arrays of 2^31 or more elements (documented in the source).
-/
namespace Catii.C09
open Catii.Kern

theorem intersect_in_bounds (L R : Array Nat) : ∃ out, interK L R = .ok out := by
  obtain ⟨out, h, _⟩ := interK_run L R; exact ⟨out, h⟩

theorem union_in_bounds (L R : Array Nat) : ∃ out, unionK L R = .ok out := by
  obtain ⟨out, h, _⟩ := unionK_run L R; exact ⟨out, h⟩

theorem difference_in_bounds (L R : Array Nat) : ∃ out, diffK L R = .ok out := by
  obtain ⟨out, h, _⟩ := diffK_run L R; exact ⟨out, h⟩

/-- the written prefix never exceeds the allocation: `min(len, len)`, `len + len`, `len(left)` -/
theorem output_fits (L R : Array Nat) :
    (∀ out, interK L R = .ok out → out.size ≤ min L.size R.size) ∧
    (∀ out, unionK L R = .ok out → out.size ≤ L.size + R.size) ∧
    (∀ out, diffK L R = .ok out → out.size ≤ L.size) := by
  refine ⟨fun out h => ?_, fun out h => ?_, fun out h => ?_⟩
  · obtain ⟨o, h', hc⟩ := interK_run L R
    rw [h] at h'; cases h'
    rcases hc with rfl | ⟨rfl, _⟩
    · simpa using inter_length_le L.toList R.toList
    · simp
  · obtain ⟨o, h', hc⟩ := unionK_run L R
    rw [h] at h'; cases h'
    rcases hc with rfl | ⟨_, _, _, rfl⟩ | ⟨_, _, _, rfl⟩
    · simpa using uni_length_le L.toList R.toList
    · simp; omega
    · simp
  · obtain ⟨o, h', hc⟩ := diffK_run L R
    rw [h] at h'; cases h'
    rcases hc with rfl | ⟨rfl, _⟩
    · simpa using dif_length_le L.toList R.toList
    · simp

theorem wrappers_in_bounds (l r : Option (Array Nat)) :
    (∃ a, intersectionW l r = .ok a) ∧ (∃ a, unionW l r = .ok a) ∧ (∃ a, differenceW l r = .ok a) := by
  refine ⟨?_, ?_, ?_⟩
  · cases l <;> cases r <;> try exact ⟨none, rfl⟩
    rename_i L R
    obtain ⟨out, h⟩ := intersect_in_bounds L R
    exact ⟨nonEmpty out, by simp [intersectionW, h]; rfl⟩
  · cases l <;> cases r <;> try exact ⟨_, rfl⟩
    rename_i L R
    obtain ⟨out, h⟩ := union_in_bounds L R
    exact ⟨nonEmpty out, by simp [unionW, h]; rfl⟩
  · cases l <;> cases r <;> try exact ⟨_, rfl⟩
    rename_i L R
    obtain ⟨out, h⟩ := difference_in_bounds L R
    exact ⟨nonEmpty out, by simp [differenceW, h]; rfl⟩

/-- Finding F09 (repaired in /repo by a `fix:` commit): with the historical guard
`left_len == 0 and right_len == 0` the kernel reads element 0 of an empty operand. -/
theorem historical_guard_reads_out_of_bounds :
    interK #[] #[1] (emptyGuardOr := false) = .error (.oobRead 0 0) ∧
    interK #[7] #[] (emptyGuardOr := false) = .error (.oobRead 0 0) := by decide

/-! Non-vacuity: unsorted and empty operands are in scope. -/
example : interK #[3, 1, 2] #[] = .ok #[] ∧ unionK #[3, 1] #[2, 2] = .ok #[2, 2, 3, 1] ∧
    diffK #[] #[1] = .ok #[] := by decide

end Catii.C09
