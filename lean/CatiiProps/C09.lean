import CatiiProofs.KernTop
import CatiiProofs.KernManyBounds
import CatiiProofs.KernGenBridge
import CatiiProofs.KernManyGenBridge
/-!
# C09 — the kernels never touch memory outside their buffers

In the kernel models every source-level index expression is a *checked* access that fails
with `Err.oobRead/oobWrite`; outputs are written into a buffer of exactly the allocated
capacity.  "Returns `.ok`" therefore means: no read outside an input array, no write
outside the output array.  **No sortedness hypothesis**: the statements quantify over all
arrays, in particular every empty/non-empty combination and every exhaustion order.
The k-way union `set_union_merge_many` is modelled the same way (`unionManyChecked`: the concatenation, one
(pointer, limit) pair per input, the output buffer of `len(values)` words) and `union_many_in_bounds` covers every list
of arrays, sorted or not.  What is not covered: the C that Cython/gcc generate from the source (trusted), and the
`int` (32-bit) pointers for arrays of 2^31 or more elements (documented in the source).
-/
namespace Catii.C09
open Catii.Kern

theorem intersect_in_bounds (L R : Array Nat) : ∃ out, interK L R = .ok out := by
  obtain ⟨out, h, _⟩ := interK_run L R; exact ⟨out, h⟩

theorem union_in_bounds (L R : Array Nat) : ∃ out, unionK L R = .ok out := by
  obtain ⟨out, h, _⟩ := unionK_run L R; exact ⟨out, h⟩

theorem difference_in_bounds (L R : Array Nat) : ∃ out, diffK L R = .ok out := by
  obtain ⟨out, h, _⟩ := diffK_run L R; exact ⟨out, h⟩

/-- `set_union_merge_many`: for EVERY list of arrays every `values[ptr]` is inside the concatenation of the inputs,
every `result_view[result_len] = min_value` inside the output buffer, the result is no longer than the concatenation,
and the `while 1:` loop ends -/
theorem union_many_in_bounds (arrays : List (Array Nat)) :
    ∃ out, unionManyChecked arrays = .ok out ∧
      out.size ≤ ((arrays.map Array.toList).filter (· ≠ [])).flatten.length :=
  unionManyChecked_ok arrays

/-- the written prefix never exceeds the allocation: `min(len, len)`, `len + len`, `len(left)` -/
theorem output_fits (L R : Array Nat) :
    (∀ out, interK L R = .ok out → out.size ≤ min L.size R.size) ∧
    (∀ out, unionK L R = .ok out → out.size ≤ L.size + R.size) ∧
    (∀ out, diffK L R = .ok out → out.size ≤ L.size) := by
  refine ⟨fun out h => ?_, fun out h => ?_, fun out h => ?_⟩
  · obtain ⟨o, h', hc⟩ := interK_run L R
    rw [h] at h'; cases h'
    rcases hc with rfl | ⟨rfl, _⟩
    · simpa using inter_length_le L.toList R.toList
    · simp
  · obtain ⟨o, h', hc⟩ := unionK_run L R
    rw [h] at h'; cases h'
    rcases hc with rfl | ⟨_, _, _, rfl⟩ | ⟨_, _, _, rfl⟩
    · simpa using uni_length_le L.toList R.toList
    · simp; omega
    · simp
  · obtain ⟨o, h', hc⟩ := diffK_run L R
    rw [h] at h'; cases h'
    rcases hc with rfl | ⟨rfl, _⟩
    · simpa using dif_length_le L.toList R.toList
    · simp

/-- The kernels REGENERATED from the current `set_operations.pyx` (`tools/translate_pyx.py`; every source-level `a[i]` a
checked read, every `view[i] = e` a checked write into a buffer of exactly the allocated size, every integer
subtraction checked against going below zero): for ALL operands - sorted or not, empty or not - and whatever the
freshly allocated result buffer contained, no access fails, and the returned prefix fits the allocation. -/
theorem generated_kernels_in_bounds (junk : Nat → Nat) (L R : Array Nat) :
    (∃ out, KernGen.set_intersect_merge_np junk L R = .ok out ∧ out.size ≤ min L.size R.size) ∧
    (∃ out, KernGen.set_union_merge_np junk L R = .ok out ∧ out.size ≤ L.size + R.size) ∧
    (∃ out, KernGen.set_difference_merge_np junk L R = .ok out ∧ out.size ≤ L.size) := by
  rw [gen_intersect_eq, gen_union_eq, gen_difference_eq]
  obtain ⟨o1, h1⟩ := intersect_in_bounds L R
  obtain ⟨o2, h2⟩ := union_in_bounds L R
  obtain ⟨o3, h3⟩ := difference_in_bounds L R
  obtain ⟨f1, f2, f3⟩ := output_fits L R
  exact ⟨⟨o1, h1, f1 o1 h1⟩, ⟨o2, h2, f2 o2 h2⟩, ⟨o3, h3, f3 o3 h3⟩⟩

/-- the k-way union REGENERATED from the current source: for EVERY list of arrays every read of `pointers[arrnum]`,
`limits[arrnum]`, `values[ptr]` and every write `pointers[arrnum] = ptr + 1`, `result_view[result_len] = min_value` is inside its
array, the result is no longer than the concatenation, and `len(values) + 1` rounds are enough (the fuel is never exhausted) -/
theorem generated_union_many_in_bounds (junk : Nat → Nat) (arrays : List (Array Nat)) :
    ∃ out, KernGen.set_union_merge_many junk ((concatAll (arrays.filter fun a => a.size ≠ 0)).size + 1) arrays = .ok out ∧
      out.size ≤ ((arrays.map Array.toList).filter (· ≠ [])).flatten.length := by
  rw [gen_union_many_eq]; exact union_many_in_bounds arrays

theorem wrappers_in_bounds (l r : Option (Array Nat)) :
    (∃ a, intersectionW l r = .ok a) ∧ (∃ a, unionW l r = .ok a) ∧ (∃ a, differenceW l r = .ok a) := by
  refine ⟨?_, ?_, ?_⟩
  · cases l <;> cases r <;> try exact ⟨none, rfl⟩
    rename_i L R
    obtain ⟨out, h⟩ := intersect_in_bounds L R
    exact ⟨nonEmpty out, by simp [intersectionW, h]; rfl⟩
  · cases l <;> cases r <;> try exact ⟨_, rfl⟩
    rename_i L R
    obtain ⟨out, h⟩ := union_in_bounds L R
    exact ⟨nonEmpty out, by simp [unionW, h]; rfl⟩
  · cases l <;> cases r <;> try exact ⟨_, rfl⟩
    rename_i L R
    obtain ⟨out, h⟩ := difference_in_bounds L R
    exact ⟨nonEmpty out, by simp [differenceW, h]; rfl⟩

/-- Finding F09 (repaired in /repo by a `fix:` commit): with the historical guard
`left_len == 0 and right_len == 0` the kernel reads element 0 of an empty operand. -/
theorem historical_guard_reads_out_of_bounds :
    interK #[] #[1] (emptyGuardOr := false) = .error (.oobRead 0 0) ∧
    interK #[7] #[] (emptyGuardOr := false) = .error (.oobRead 0 0) := by decide

/-! Non-vacuity: unsorted and empty operands are in scope. -/
example : interK #[3, 1, 2] #[] = .ok #[] ∧ unionK #[3, 1] #[2, 2] = .ok #[2, 2, 3, 1] ∧
    diffK #[] #[1] = .ok #[] := by decide

example : KernGen.set_intersect_merge_np (fun _ => 9) #[3, 1, 2] #[] = .ok #[] ∧
    KernGen.set_union_merge_np (fun _ => 9) #[3, 1] #[2, 2] = .ok #[2, 2, 3, 1] ∧
    KernGen.set_difference_merge_np (fun _ => 9) #[] #[1] = .ok #[] := by decide +kernel

-- non-vacuity: the extreme row ids together, an empty array in between; an unsorted input is still in bounds
example : unionManyChecked [#[0, 4294967295], #[], #[3, 7]] = .ok #[0, 3, 7, 4294967295] := by decide +kernel
example : unionManyChecked [#[0, 4294967295], #[], #[7, 3, 7]] = .ok #[0, 7, 3, 7, 4294967295] := by decide +kernel

end Catii.C09
