import CatiiProofs.IndxTop
import CatiiProofs.IndxSaveGen
import CatiiProofs.IndxLoadGen
import CatiiProps.C10
import CatiiProps.C12
/-!
# C11 — INDX files are byte-for-byte the documented layout

`Layout b es c wi wr` transcribes the class docstring of `IndxIO`: magic and version, the
payload size as a little-endian 8-byte word, then little-endian unsigned fields in the
documented order with coordinate word size `wi` and row-id word size `wr`; the recorded size is
the real payload length.  `a` (writer ⇒ layout with the *narrowest* `wi`) and `b` (any layout
with legal word sizes ⇒ reader recovers the data) are independent of each other.
-/
namespace Catii.C11
open Catii.Indx

/-- the documented layout, field by field -/
def Layout (b : Bytes) (es : List Entry) (common wi wr : Nat) : Prop :=
  ∃ payload : Bytes,
    payload = [arityOf es]                                    -- index dimensions   (1 byte)
      ++ encLE 4 es.length                                   -- index length       (4 bytes LE)
      ++ [wi]                                                -- index word size
      ++ encLE wi common                                     -- index common value (wi bytes LE)
      ++ es.flatMap (fun e => e.coords.flatMap (encLE wi))   -- index, row-major
      ++ [wr]                                                -- rowid word size
      ++ es.flatMap (fun e => encLE wr e.rowids.length)      -- rowid lengths
      ++ es.flatMap (fun e => e.rowids.flatMap (encLE wr))   -- rowids
    ∧ b = [73, 78, 68, 88] ++ [48, 48, 48, 49]               -- "INDX" "0001"
        ++ encLE 8 payload.length ++ payload                 -- buffer size = real payload length

theorem layout_iff (b : Bytes) (es : List Entry) (c wi wr : Nat) :
    Layout b es c wi wr ↔ b = encodeWith es c wi wr := by
  unfold Layout encodeWith payload
  constructor
  · rintro ⟨p, rfl, rfl⟩; rfl
  · intro h; exact ⟨_, rfl, h⟩

/-- **C11a** every file written is the documented layout with the narrowest coordinate word size
and 4-byte row-id words — for every input the writer accepts, of any total size below 2^64 bytes
(in particular row-id totals of 2^30 and 2^32 and beyond: the size is an unbounded integer). -/
theorem writer_produces_layout (es : List Entry) (c : Nat) (h : InScope es c) :
    ∃ b wi, save es c = .ok b ∧ Layout b es c wi 4 ∧ LegalW wi ∧
      (∀ e ∈ es, ∀ x ∈ e.coords, x < 256 ^ wi) ∧ c < 256 ^ wi ∧
      (∀ w, LegalW w → (∀ e ∈ es, ∀ x ∈ e.coords, x < 256 ^ w) → c < 256 ^ w → wi ≤ w) := by
  refine ⟨_, indexWordSize es c, save_of_scope es c h, (layout_iff _ _ _ _ _).mpr rfl, ?_⟩
  have hf := fits_of_scope es c h
  have hmx : maxList (es.flatMap (·.coords)) c < 2^64 := by
    apply maxList_lt
    · have := h.common_lt; omega
    · intro x hx
      obtain ⟨e, he, hxe⟩ := List.mem_flatMap.mp hx
      have := h.coords_lt e he x hxe; omega
  obtain ⟨_, _, hnarrow⟩ := wordSize_spec _ hmx
  refine ⟨hf.wi_legal, hf.coords_lt, hf.common_lt, ?_⟩
  intro w hw hcw hcc
  apply hnarrow w hw
  apply maxList_lt _ _ _ hcc
  intro x hx
  obtain ⟨e, he, hxe⟩ := List.mem_flatMap.mp hx
  exact hcw e he x hxe

/-- the writer succeeds only on accepted inputs, and then with the layout (converse of C11a) -/
theorem writer_only_layout (es : List Entry) (c : Nat) (b : Bytes) (h : save es c = .ok b) :
    InScope es c ∧ Layout b es c (indexWordSize es c) 4 := by
  obtain ⟨h1, h2⟩ := scope_of_save es c b h
  exact ⟨h1, (layout_iff _ _ _ _ _).mpr h2⟩

/-- **C11b** any file laid out per the documentation with legal word sizes (including sizes the
writer would not choose, and 1/2/8-byte row-id words) loads to precisely the data it encodes -/
theorem reader_accepts_layout (b : Bytes) (es : List Entry) (c wi wr : Nat)
    (hlay : Layout b es c wi wr) (hfit : Fits es c wi wr) (hsize : b.length < 16 + 2^64) :
    load b = .ok (es, c, wr) := by
  rw [(layout_iff _ _ _ _ _).mp hlay] at hsize ⊢
  apply load_encodeWith es c wi wr hfit
  have hm : Gen.indxMagic.length = 4 := by decide
  have hv : Gen.indxVersion.length = 4 := by decide
  simp only [encodeWith, List.length_append, encLE_length, hm, hv] at hsize
  omega

/-! ### the writer REGENERATED from `IndxIO.save` on every run (`tools/translate_indx.py`)

`Gen.saveProgram` is the list of writes the current source performs (constant, `struct.pack` width and field, coordinate
matrix, lengths, row ids - in source order), `Gen.bufferSizeGen` the size formula it evaluates before writing.  The
translator also checks how the source defines the things those writes depend on (the word size is
`fit_dtype(max(max(index), common)).itemsize`, the matrix is cast to it, lengths and row ids run over the same key list). -/

/-- what the regenerated writer program puts into the file IS the documented layout with the narrowest word size, and the
size field it writes is what the regenerated formula computes - for every accepted input -/
theorem generated_writer_produces_layout (es : List Entry) (c : Nat) (h : InScope es c) :
    Layout (runW ⟨es, c, arityOf es, indexWordSize es c, 4,
        Gen.bufferSizeGen es.length (arityOf es) (indexWordSize es c) 4 (es.map (·.rowids.length)).sum⟩ Gen.saveProgram)
      es c (indexWordSize es c) 4 := by
  have h1 := generated_writer_is_save es c h
  have h2 := (writer_only_layout es c _ h1).2
  exact h2

/-- the size the regenerated formula computes is the real payload length (so `f.tell() == 16 + buffer_size` holds) -/
theorem generated_size_is_payload_length (es : List Entry) (c wi wr : Nat) (har : ∀ e ∈ es, e.coords.length = arityOf es) :
    Gen.bufferSizeGen es.length (arityOf es) wi wr (es.map (·.rowids.length)).sum
      = (payload es c (arityOf es) wi wr).length := by
  rw [bufferSizeGen_eq, payload_length es c (arityOf es) wi wr har]

/-- the reads of the current `IndxIO.load` (`Gen.loadProgram`, regenerated) recover the data from ANY file laid out per the
documentation with legal word sizes - including sizes the writer would not choose and 1/2/8-byte row-id words -/
theorem generated_reader_accepts_layout (b : Bytes) (es : List Entry) (c wi wr : Nat)
    (hlay : Layout b es c wi wr) (hfit : Fits es c wi wr) (hsize : b.length < 16 + 2^64) :
    runR Gen.loadProgram b = .ok (es, c, wr) := by
  rw [runR_loadProgram]; exact reader_accepts_layout b es c wi wr hlay hfit hsize

/-- **on the programs regenerated from the source**: the reads of the current `IndxIO.load` (`Gen.loadProgram`), run on what the
writes of the current `IndxIO.save` (`Gen.saveProgram`, with the size `Gen.bufferSizeGen` computes) put into the file, give back the
entries, the common value and the uint32 row-id word - for every accepted input -/
theorem generated_save_load_identity (es : List Entry) (c : Nat) (h : InScope es c) :
    runR Gen.loadProgram (runW ⟨es, c, arityOf es, indexWordSize es c, 4,
      Gen.bufferSizeGen es.length (arityOf es) (indexWordSize es c) 4 (es.map (·.rowids.length)).sum⟩ Gen.saveProgram)
      = .ok (es, c, 4) := by
  rw [runR_loadProgram]
  exact C10.load_of_saved es c _ (generated_writer_is_save es c h)

/-- **on the programs regenerated from the source**: what the current writer's writes put into a file, cut at ANY byte short of
the end, makes the current loader's reads fail (header, version, short size word, or the mapping of 16 + size bytes) -/
theorem generated_reader_rejects_every_prefix (es : List Entry) (c : Nat) (h : InScope es c) (k : Nat)
    (hk : k < (runW ⟨es, c, arityOf es, indexWordSize es c, 4,
      Gen.bufferSizeGen es.length (arityOf es) (indexWordSize es c) 4 (es.map (·.rowids.length)).sum⟩ Gen.saveProgram).length) :
    ∃ e, runR Gen.loadProgram ((runW ⟨es, c, arityOf es, indexWordSize es c, 4,
      Gen.bufferSizeGen es.length (arityOf es) (indexWordSize es c) 4 (es.map (·.rowids.length)).sum⟩ Gen.saveProgram).take k)
        = .error e ∧ TornErr e := by
  rw [runR_loadProgram]
  exact C12.torn_file_rejected es c _ (generated_writer_is_save es c h) k hk

example : runW ⟨[⟨[1, 0], [3, 5]⟩], 0, 2, 1, 4, 22⟩ Gen.saveProgram =
    [73,78,68,88, 48,48,48,49, 22,0,0,0,0,0,0,0, 2, 1,0,0,0, 1, 0, 1,0, 4, 2,0,0,0, 3,0,0,0, 5,0,0,0] := by
  decide +kernel

/-! Non-vacuity: a two-entry, two-axis index with a common value wider than every coordinate. -/
example : InScope [⟨[1, 0], [0, 4294967295]⟩, ⟨[2, 1], []⟩] 70000 := by
  refine ⟨by decide, by decide, by decide, by decide, by decide, by decide, by decide, by decide, ?_⟩
  decide +kernel
example : save [⟨[1, 0], [3, 5]⟩] 0 = .ok
    [73,78,68,88, 48,48,48,49, 22,0,0,0,0,0,0,0, 2, 1,0,0,0, 1, 0, 1,0, 4, 2,0,0,0, 3,0,0,0, 5,0,0,0] := by
  decide +kernel

end Catii.C11
