import CatiiProofs.StoreProofs
import CatiiModel.Gen.Purity
import CatiiModel.Gen.PurityMethods
import CatiiModel.Gen.DriverGen
/-!
# C17 — aggregations are pure: inputs untouched, no hidden state between calls

*Inputs untouched.*  `Gen.purityProgs` is **regenerated from the source on every run**: one
alias/fresh/write program per control-flow path of every aggregate-function constructor
(`ffunc_*` / `xfunc_*` `__init__`, with `as_separate_validity` inlined) — the place where each
aggregate copies or derives by arithmetic before zeroing / NaN-ing missing positions.
`all_constructors_pass_the_alias_check` (by kernel evaluation) says every such program passes the
may-alias analysis `check`: no in-place write goes through a variable that may name a caller-owned
buffer.  `checked_program_preserves_inputs` (soundness of the analysis w.r.t. a heap semantics)
turns that into: every input buffer is unchanged after the constructor, whatever values are written.
Removing a `.copy()` or writing through an `asarray` alias makes the regenerated program fail.
`Gen.methodProgs` does the same for the evaluation itself: `get_initial_regions`, `fill_func` / `fill` (closures
included), `reduce` and their helper methods of every aggregate function class, one program per control-flow path,
with every data attribute of `self` the method reads (the fact, weights, validity, derived arrays) and every array
parameter counted as caller-owned and only `regions` / `cube` / `coordinates` as library-owned; an array returned by
`get_initial_regions` counts as written (it becomes a region).  `all_methods_pass_the_alias_check` and
`methods_preserve_arguments` say: no path of any of these methods writes through a name that may denote a caller's
buffer (`adjust_zeros(x)` and `_compute_common_cells_from_marginal_diffs(x)` count as writes to `x`; the
diagnostic `tracing` dictionary is outside the property).

*No hidden state.*  In the cube model (`Cube.measureCube`, `Agg.ccubeAgg`) result regions are
values local to one evaluation, so independence of the aggregates computed together, of their
order, and of earlier calls is definitional there; the assurance for the real code is the
correspondence (C03) plus the harness of this property (calculate(list)[i] vs calculate([f])[0]
over all permutations, repeated calls, re-used function objects, byte-for-byte argument
comparison, shares_memory).  **Partial**: the cube drivers (`ccube.calculate`, `xcube.calculate`) and the index
methods are not translated; loops are analysed for zero or one pass (no loop-carried aliasing); the view/copy
classification of NumPy calls is the translator's; global interpreter state (warnings filters, tracing dicts) is
outside the model.
-/
namespace Catii.C17
open Catii.Store

theorem all_constructors_pass_the_alias_check :
    ∀ p ∈ Gen.purityProgs, check p.2.2 p.2.1 = true := by
  decide +kernel

/-- a program that passes the check leaves every caller-owned buffer (ids below `k`) unchanged,
for any written contents -/
theorem checked_program_preserves_inputs (w : Nat → Nat) (k : Nat) (prog : List Instr) (inputs : List Var)
    (s : St) (n : Nat) (hc : check prog inputs = true) (hcov : ∀ v, s.env v < k → v ∈ inputs) (hk : k ≤ s.next) :
    ∀ b < k, (exec w prog s n).heap b = s.heap b :=
  safe_sound w k prog inputs s n hc hcov hk

/-- every constructor path of every aggregate function preserves its arguments -/
theorem constructors_preserve_arguments (w : Nat → Nat) (k : Nat) (s : St) (n : Nat)
    (p : String × List Var × List Instr) (hp : p ∈ Gen.purityProgs)
    (hcov : ∀ v, s.env v < k → v ∈ p.2.1) (hk : k ≤ s.next) :
    ∀ b < k, (exec w p.2.2 s n).heap b = s.heap b :=
  checked_program_preserves_inputs w k p.2.2 p.2.1 s n (all_constructors_pass_the_alias_check p hp) hcov hk

/-- the same for the evaluation: every control-flow path of `get_initial_regions`, `fill_func`/`fill` (with their
closures), `reduce` and their helpers, of every aggregate function, passes the may-alias check -/
theorem all_methods_pass_the_alias_check :
    ∀ p ∈ Gen.methodProgs, check p.2.2 p.2.1 = true := by
  decide +kernel

/-- hence no evaluation step writes into a buffer the caller owns: the fact, weights and validity arrays handed to
an aggregate function (and whatever the constructor derived from them without copying) are unchanged afterwards -/
theorem methods_preserve_arguments (w : Nat → Nat) (k : Nat) (s : St) (n : Nat)
    (p : String × List Var × List Instr) (hp : p ∈ Gen.methodProgs)
    (hcov : ∀ v, s.env v < k → v ∈ p.2.1) (hk : k ≤ s.next) :
    ∀ b < k, (exec w p.2.2 s n).heap b = s.heap b :=
  checked_program_preserves_inputs w k p.2.2 p.2.1 s n (all_methods_pass_the_alias_check p hp) hcov hk

/-! Non-vacuity: the analysis rejects the constructor with its defensive copy removed. -/
example : check [.alias "summables" "arr", .write "summables"] ["arr"] = false := by decide
example : check [.alias "summables" "arr", .fresh "summables", .write "summables"] ["arr"] = true := by decide
-- a fill that zeroes the caller's array in place, and a region that IS a caller's array, are rejected
example : check [.alias "counts" "regions", .write "self.countables", .write "counts"] ["self.countables"] = false := by decide
example : check [.alias "counts" "self.countables", .write "counts"] ["self.countables"] = false := by decide
example : Gen.methodProgs.length > 400 := by decide +kernel


/-- result regions are allocated by `calculate` itself, once per call, before any task exists, and never re-bound
(`Gen/DriverGen.lean`, regenerated from the current drivers): nothing of one call can be seen by the next -/
theorem generated_regions_fresh_per_call :
    Gen.ccubeDriver.regionsPerCall = true ∧ Gen.xcubeDriver.regionsPerCall = true := by decide

end Catii.C17
