import CatiiProofs.IndxTop
import CatiiProofs.AppendOnly
import CatiiModel.Gen.IndxFileOps
/-!
# C12 — a torn INDX file is always rejected

For every file the writer can produce and **every** cut point `k` strictly inside it, loading
the first `k` bytes fails, with the error class named: a short or wrong magic/version, a short
size word, or — once the 16-byte header is intact — the mapping of `16 + size` bytes, which
exceeds the bytes present because the recorded size is the real payload length (C11a).
Assumption (validated by the harness on every prefix): mapping more bytes than the file holds
raises.

"What was written" when a save is cut short is a *prefix* of the complete file because the writer only appends:
`save_is_append_only` (on the list of file operations of `IndxIO.save`, **regenerated from the source on every run** —
a `seek`, `truncate` or any other use of the file object breaks it) and `interrupted_writer_leaves_a_prefix` (an
append-only writer stopped after any number of operations and any number of bytes of the next one); together with
`torn_file_rejected`: `interrupted_save_never_loads`.  The harness also interrupts the real writer and loads what it
left.  Trusted: that `write` / `tofile` append at the end of the file and never leave bytes beyond those they were
given (file-system semantics; a handle opened in another mode is C10/C11's subject).
-/
namespace Catii.C12
open Catii.Indx

theorem torn_file_rejected (es : List Entry) (c : Nat) (b : Bytes) (hs : save es c = .ok b)
    (k : Nat) (hk : k < b.length) :
    ∃ e, load (b.take k) = .error e ∧ TornErr e := by
  obtain ⟨hsc, hb⟩ := scope_of_save es c b hs
  have hpl := payload_length es c (arityOf es) (indexWordSize es c) 4 hsc.uniform
  have hm : Gen.indxMagic.length = 4 := by decide
  have hv : Gen.indxVersion.length = 4 := by decide
  subst hb
  unfold encodeWith at hk ⊢
  simp only [List.length_append, encLE_length, hm, hv] at hk
  exact load_prefix_fails _ (by rw [hpl]; exact hsc.size_lt) k (by omega)

/-- the same for ANY file laid out per the documentation - whatever tool wrote it, with any coordinate and row-id word sizes:
every strict prefix is rejected (the size field is the real payload length, so the mapping step fails) -/
theorem torn_layout_rejected (es : List Entry) (c wi wr : Nat)
    (hsize : (payload es c (arityOf es) wi wr).length < 2^64) (k : Nat)
    (hk : k < (encodeWith es c wi wr).length) :
    ∃ e, load ((encodeWith es c wi wr).take k) = .error e ∧ TornErr e := by
  have hm : Gen.indxMagic.length = 4 := by decide
  have hv : Gen.indxVersion.length = 4 := by decide
  unfold encodeWith at hk ⊢
  simp only [List.length_append, encLE_length, hm, hv] at hk
  exact load_prefix_fails _ hsize k (by omega)

/-- in particular no strict prefix ever loads -/
theorem torn_file_never_loads (es : List Entry) (c : Nat) (b : Bytes) (hs : save es c = .ok b)
    (k : Nat) (hk : k < b.length) : ∀ r, load (b.take k) ≠ .ok r := by
  intro r hr
  obtain ⟨e, he, _⟩ := torn_file_rejected es c b hs k hk
  rw [hr] at he; cases he

/-! The same statement on the write / read PROGRAMS regenerated from the current source is
`C11.generated_reader_rejects_every_prefix` (kept with C11: those programs are tied to the documented layout). -/

/-- the writer touches its file object through `f.write(...)`, `array.tofile(f)` and `f.tell()` only (regenerated) -/
theorem save_is_append_only :
    ∀ op ∈ Gen.saveFileOps, op = "write" ∨ op = "tofile(file)" ∨ op = "tell" := by
  decide

/-- an append-only writer stopped after `k` whole operations and `h` bytes of the next leaves a prefix -/
theorem interrupted_writer_leaves_a_prefix (ops : List FileOps.FileOp) (k h : Nat) :
    FileOps.interruptedAt ops k h <+: FileOps.contents ops :=
  FileOps.interrupted_is_prefix ops k h

/-- so: whatever sequence of appends produces the file of `save es c`, stopping it anywhere short of the end leaves
something the loader rejects -/
theorem interrupted_save_never_loads (es : List Entry) (c : Nat) (b : Bytes) (hs : save es c = .ok b)
    (ops : List FileOps.FileOp) (hops : FileOps.contents ops = b) (k h : Nat)
    (hshort : (FileOps.interruptedAt ops k h).length < b.length) :
    ∀ r, load (FileOps.interruptedAt ops k h) ≠ .ok r := by
  have hp := FileOps.interrupted_is_prefix ops k h
  rw [hops] at hp
  have : FileOps.interruptedAt ops k h = b.take (FileOps.interruptedAt ops k h).length := List.prefix_iff_eq_take.mp hp
  rw [this]
  exact torn_file_never_loads es c b hs _ hshort

/-! Non-vacuity: a real file and cuts in each region (inside the magic, inside the size word,
just after the header, one byte short of the end). -/
def sampleFile : Bytes :=
  [73,78,68,88, 48,48,48,49, 22,0,0,0,0,0,0,0, 2, 1,0,0,0, 1, 0, 1,0, 4, 2,0,0,0, 3,0,0,0, 5,0,0,0]
example : save [⟨[1, 0], [3, 5]⟩] 0 = .ok sampleFile ∧ sampleFile.length = 38 ∧
    load (sampleFile.take 3) = .error .header ∧ load (sampleFile.take 12) = .error .structShort ∧
    load (sampleFile.take 16) = .error .mmapShort ∧ load (sampleFile.take 37) = .error .mmapShort ∧
    load (sampleFile.take 38) = .ok ([⟨[1, 0], [3, 5]⟩], 0, 4) := by
  decide +kernel

end Catii.C12
