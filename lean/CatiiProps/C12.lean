import CatiiProofs.IndxTop
/-!
# C12 — a torn INDX file is always rejected

For every file the writer can produce and **every** cut point `k` strictly inside it, loading
the first `k` bytes fails, with the error class named: a short or wrong magic/version, a short
size word, or — once the 16-byte header is intact — the mapping of `16 + size` bytes, which
exceeds the bytes present because the recorded size is the real payload length (C11a).
Assumption (validated by the harness on every prefix): mapping more bytes than the file holds
raises.
-/
namespace Catii.C12
open Catii.Indx

theorem torn_file_rejected (es : List Entry) (c : Nat) (b : Bytes) (hs : save es c = .ok b)
    (k : Nat) (hk : k < b.length) :
    ∃ e, load (b.take k) = .error e ∧ TornErr e := by
  obtain ⟨hsc, hb⟩ := scope_of_save es c b hs
  have hpl := payload_length es c (arityOf es) (indexWordSize es c) 4 hsc.uniform
  have hm : Gen.indxMagic.length = 4 := by decide
  have hv : Gen.indxVersion.length = 4 := by decide
  subst hb
  unfold encodeWith at hk ⊢
  simp only [List.length_append, encLE_length, hm, hv] at hk
  exact load_prefix_fails _ (by rw [hpl]; exact hsc.size_lt) k (by omega)

/-- in particular no strict prefix ever loads -/
theorem torn_file_never_loads (es : List Entry) (c : Nat) (b : Bytes) (hs : save es c = .ok b)
    (k : Nat) (hk : k < b.length) : ∀ r, load (b.take k) ≠ .ok r := by
  intro r hr
  obtain ⟨e, he, _⟩ := torn_file_rejected es c b hs k hk
  rw [hr] at he; cases he

/-! Non-vacuity: a real file and cuts in each region (inside the magic, inside the size word,
just after the header, one byte short of the end). -/
def sampleFile : Bytes :=
  [73,78,68,88, 48,48,48,49, 22,0,0,0,0,0,0,0, 2, 1,0,0,0, 1, 0, 1,0, 4, 2,0,0,0, 3,0,0,0, 5,0,0,0]
example : save [⟨[1, 0], [3, 5]⟩] 0 = .ok sampleFile ∧ sampleFile.length = 38 ∧
    load (sampleFile.take 3) = .error .header ∧ load (sampleFile.take 12) = .error .structShort ∧
    load (sampleFile.take 16) = .error .mmapShort ∧ load (sampleFile.take 37) = .error .mmapShort ∧
    load (sampleFile.take 38) = .ok ([⟨[1, 0], [3, 5]⟩], 0, 4) := by
  decide +kernel

end Catii.C12
