import CatiiProofs.Walk
import CatiiProofs.WalkGenBridge
import CatiiProps.C08
/-!
# C14 — walk presents exactly the non-empty uncommon and marginal intersections

`interactions dims` is the list of `(coordinates, row ids)` pairs `ccube.walk` hands to its
callbacks (`none` = the `-1` margin marker).  `Sel dims co r` says row `r` matches every
non-marginal coordinate: `r` is listed under that category in that dimension.
-/
namespace Catii.C14
open Catii.Cube Catii.Kern

/-- delivered ⇔ right arity, not entirely marginal, matched by at least one row, and the row ids
are exactly the increasing list of matching rows -/
theorem delivered_iff (dims : List Dim) (hwf : ∀ d ∈ dims, DimWF d) (hne : dims ≠ [])
    (co : Co) (rows : Rows) :
    (co, rows) ∈ interactions dims ↔
      co.length = dims.length ∧ (∃ c ∈ co, c ≠ none) ∧ rows ≠ [] ∧ SSorted rows ∧
      ∀ r, r ∈ rows ↔ Sel dims co r := by
  unfold interactions
  constructor
  · intro h
    obtain ⟨cs, hco, hlen, hne', hs, hsome, hiff⟩ := walk_sound dims hwf [] none (by intro b hb; cases hb) co rows h
    simp only [List.nil_append] at hco
    subst hco
    exact ⟨hlen, hsome rfl, hne', hs, fun r => by simpa [InB] using hiff r⟩
  · rintro ⟨hlen, hsome, hne', hs, hiff⟩
    obtain ⟨r0, hr0⟩ := List.exists_mem_of_ne_nil rows hne'
    obtain ⟨rows', hmem⟩ := walk_complete dims hwf hne [] none (by intro b hb; cases hb) co hlen
      (fun _ => hsome) ⟨r0, trivial, (hiff r0).mp hr0⟩
    simp only [List.nil_append] at hmem
    obtain ⟨cs, hco, _, _, hs', _, hiff'⟩ := walk_sound dims hwf [] none (by intro b hb; cases hb) co rows' hmem
    simp only [List.nil_append] at hco
    subst hco
    have : rows' = rows := ssorted_ext _ _ hs' hs (fun x => by rw [hiff x]; simpa [InB] using hiff' x)
    rw [← this]; exact hmem

/-- exactly once: no two deliveries share coordinates -/
theorem delivered_once (dims : List Dim) (hwf : ∀ d ∈ dims, DimWF d) :
    (interactions dims).Pairwise (fun a b => a.1 ≠ b.1) :=
  walk_distinct dims (fun d hd => (hwf d hd).keys) [] none

/-- the common category of a dimension is never presented (for dimensions that list nothing
under their common value, as well-formed indexes do) -/
theorem common_never_presented (dims : List Dim) (hwf : ∀ d ∈ dims, DimWF d)
    (hnc : ∀ d ∈ dims, ∀ e ∈ d.entries, e.1 ≠ d.common)
    (co : Co) (rows : Rows) (h : (co, rows) ∈ interactions dims) :
    ∀ i (hi : i < dims.length), co[i]? ≠ some (some dims[i].common) := by
  obtain ⟨cs, hco, hlen, hne', hs_, hsome_, hiff⟩ :=
    walk_sound dims hwf [] none (by intro b hb; cases hb) co rows h
  clear hs_ hsome_
  simp only [List.nil_append] at hco
  subst hco
  obtain ⟨r0, hr0⟩ := List.exists_mem_of_ne_nil rows hne'
  have hsel := ((hiff r0).mp hr0).2
  clear hiff h
  induction dims generalizing co with
  | nil => intro i hi; simp at hi
  | cons d ds ih =>
    cases co with
    | nil => simp at hlen
    | cons c cs' =>
      intro i hi
      cases i with
      | zero =>
        simp only [List.getElem?_cons_zero, List.getElem_cons_zero]
        intro heq
        simp at heq
        subst heq
        obtain ⟨hrc, _⟩ := hsel
        obtain ⟨e, he, hk, _⟩ := rowsOf_entry d d.common r0 hrc
        exact hnc d List.mem_cons_self e he hk
      | succ j =>
        simp only [List.getElem?_cons_succ, List.getElem_cons_succ]
        have hsel' : Sel ds cs' r0 := by
          cases c with
          | none => exact hsel
          | some v => exact hsel.2
        exact ih (fun d' h => hwf d' (List.mem_cons_of_mem _ h)) (fun d' h => hnc d' (List.mem_cons_of_mem _ h))
          cs' (by simpa using hlen) hsel' j (by simpa using hi)

/-- with zero dimensions nothing is delivered (the single cell comes from the corner value) -/
theorem no_dims_no_deliveries : interactions [] = [] := rfl

/-! ### the same statements about the walk REGENERATED from `ccube._walk` on every run

`Catii.WalkGen.walk` (`CatiiModel/Gen/WalkGen.lean`) is what `tools/translate_walk.py` makes of the current body of
`ccube._walk`: the sequence of callback invocations, in order.  `CatiiProofs/WalkGenBridge.lean` proves it equal to
`interactions` for every list of dimensions, so the characterisation holds of what the source says now. -/

theorem generated_walk_delivered_iff (dims : List Dim) (hwf : ∀ d ∈ dims, DimWF d) (hne : dims ≠ [])
    (co : Co) (rows : Rows) :
    (co, rows) ∈ WalkGen.walk dims ↔
      co.length = dims.length ∧ (∃ c ∈ co, c ≠ none) ∧ rows ≠ [] ∧ SSorted rows ∧
      ∀ r, r ∈ rows ↔ Sel dims co r := by
  rw [gen_walk_is_interactions]; exact delivered_iff dims hwf hne co rows

theorem generated_walk_delivered_once (dims : List Dim) (hwf : ∀ d ∈ dims, DimWF d) :
    (WalkGen.walk dims).Pairwise (fun a b => a.1 ≠ b.1) := by
  rw [gen_walk_is_interactions]; exact delivered_once dims hwf

theorem generated_walk_common_never_presented (dims : List Dim) (hwf : ∀ d ∈ dims, DimWF d)
    (hnc : ∀ d ∈ dims, ∀ e ∈ d.entries, e.1 ≠ d.common)
    (co : Co) (rows : Rows) (h : (co, rows) ∈ WalkGen.walk dims) :
    ∀ i (hi : i < dims.length), co[i]? ≠ some (some dims[i].common) := by
  rw [gen_walk_is_interactions] at h; exact common_never_presented dims hwf hnc co rows h

/-- the merge the regenerated walk performs (`Kern.inter`, the list merge `set_intersect_merge_np` stands for in
`Gen/WalkGen.lean`) IS what the kernel REGENERATED from the current `set_operations.pyx` returns on those operands - whatever the
result buffer held before: the walk's row sets are the kernel's, for all strictly increasing row-id arrays -/
theorem generated_walk_merges_are_the_generated_kernel (junk : Nat → Nat) (a b : List Nat)
    (ha : Kern.SSorted a) (hb : Kern.SSorted b) :
    KernGen.set_intersect_merge_np junk a.toArray b.toArray = .ok (Kern.inter a b).toArray := by
  obtain ⟨out, ho, hs, hm⟩ := C08.generated_intersect_exact junk a.toArray b.toArray (by simpa using ha) (by simpa using hb)
  rw [ho]
  congr 1
  have : out.toList = Kern.inter a b :=
    Kern.ssorted_ext out.toList (Kern.inter a b) hs (Kern.inter_sorted a b ha)
      (fun x => by rw [hm x, Kern.mem_inter a b ha hb x])
  rw [← this]

/-! Non-vacuity: two dimensions over 4 rows; the margin of the first crossed with a category of
the second is delivered with the rows of that category. -/
def exDims : List Dim := [⟨[(1, [1, 3])], 0⟩, ⟨[(2, [0, 1]), (1, [2])], 0⟩]
example : (∀ d ∈ exDims, DimWF d) := by
  intro d hd
  simp [exDims] at hd
  rcases hd with rfl | rfl <;> exact ⟨by decide, by decide⟩
example : interactions exDims =
    [([some 1, some 2], [1]), ([some 1, none], [1, 3]), ([none, some 2], [0, 1]), ([none, some 1], [2])] := by
  simp [interactions, exDims, walk, Catii.Kern.inter]
example : WalkGen.walk exDims =
    [([some 1, some 2], [1]), ([some 1, none], [1, 3]), ([none, some 2], [0, 1]), ([none, some 1], [2])] := by
  rw [gen_walk_is_interactions]; simp [interactions, exDims, walk, Catii.Kern.inter]

end Catii.C14
