import CatiiProofs.IIndexEq
import CatiiProofs.IIndexShift
import CatiiProofs.IIndexWf
import CatiiProofs.Counting
import CatiiProofs.PickCommon
import CatiiProofs.EqGenBridge
import CatiiProofs.CommonGenBridge
import CatiiProofs.ShiftGenBridge
/-!
# C15 — library-chosen common value; equality is canonical

*Equality.* `eqIdx` is the model of `iindex.__eq__` (shape, common, number of entries, every
entry equal as a set of row ids).  For well-formed indexes it holds **iff** shape, common value
and dense content coincide; `!=` is defined as its negation (after the repair of finding F15),
so it never raises; comparison is reflexive, symmetric and transitive.

*Common value.* `chooseCommon` is the value `shift_common()` picks (also at the end of `append`,
`filtered`, `collapsed`).  It maximises the counter the code builds — listed rows per value, and
`size − listed` for the current common (`chosen_is_argmax_of_counter_partial`) — and that counter is exact:
every key carries the number of cells of the dense array holding it (`Counting.counter_exact`, from
well-formedness: each listed cell is listed once).  Hence `chosen_is_most_frequent`: the chosen value occurs in
the dense array at least as often as every other value, and after `shift_common()` the stored common value is
such a value (`normalised_common_is_most_frequent`).  `from_array_common_is_most_frequent`: when no common value
is given, the value `from_array` picks occurs among the (mapped) values of the array at least as often as every
other one — `bincount`/`unique` counts are exact (`countValues_exact`), counts of values mapped to the same
target add up (`finalCounts_exact`), and the first strict maximum is a maximum.  `append`, `filtered` and
`collapsed` end with `shift_common()` / `from_array`, so they inherit these theorems.
-/
namespace Catii.C15
open Catii.IIdx

/-- `a == b` iff shape, common and dense content coincide (well-formed indexes, any history) -/
theorem eq_iff_same_content (a b : IIndex) (ha : WF a) (hb : WF b) :
    eqIdx a b = true ↔ a.shape = b.shape ∧ a.common = b.common ∧
      ∀ r < a.nrows, ∀ hi ∈ hiCells (a.shape.drop 1), denseAt a r hi = denseAt b r hi :=
  eqIdx_iff_dense a b ha hb

theorem eq_refl (a : IIndex) (ha : WF a) : eqIdx a a = true :=
  (eq_iff_same_content a a ha ha).mpr ⟨rfl, rfl, fun _ _ _ _ => rfl⟩

theorem eq_symm (a b : IIndex) (ha : WF a) (hb : WF b) (h : eqIdx a b = true) : eqIdx b a = true := by
  obtain ⟨hs, hc, hd⟩ := (eq_iff_same_content a b ha hb).mp h
  refine (eq_iff_same_content b a hb ha).mpr ⟨hs.symm, hc.symm, fun r hr hi hhi => ?_⟩
  have hnr : a.nrows = b.nrows := by unfold IIndex.nrows; rw [hs]
  rw [← hnr] at hr; rw [← hs] at hhi
  exact (hd r hr hi hhi).symm

theorem eq_trans (a b c : IIndex) (ha : WF a) (hb : WF b) (hc : WF c)
    (h1 : eqIdx a b = true) (h2 : eqIdx b c = true) : eqIdx a c = true := by
  obtain ⟨hs1, hc1, hd1⟩ := (eq_iff_same_content a b ha hb).mp h1
  obtain ⟨hs2, hc2, hd2⟩ := (eq_iff_same_content b c hb hc).mp h2
  refine (eq_iff_same_content a c ha hc).mpr ⟨hs1.trans hs2, hc1.trans hc2, fun r hr hi hhi => ?_⟩
  have hnr : a.nrows = b.nrows := by unfold IIndex.nrows; rw [hs1]
  rw [hd1 r hr hi hhi]
  exact hd2 r (by rw [← hnr]; exact hr) hi (by rw [← hs1]; exact hhi)

/-! ### `==` and `!=` as REGENERATED from `iindex.__eq__` / `__ne__` on every run (`tools/translate_eq.py`)

`EqGen.indexEq` is the current boolean expression of `__eq__` (shape, common, entry count, `setxor1d` of every entry
with `other.get(coords, [])`), `EqGen.indexNe` the current `__ne__`; a class without `__ne__`, or one that is not the
negation of `__eq__`, does not translate. -/

/-- the comparison the source defines NOW is canonical: equal iff shape, common value and dense content coincide -/
theorem generated_eq_iff_same_content (a b : IIndex) (ha : WF a) (hb : WF b) :
    EqGen.indexEq a b = true ↔ a.shape = b.shape ∧ a.common = b.common ∧
      ∀ r < a.nrows, ∀ hi ∈ hiCells (a.shape.drop 1), denseAt a r hi = denseAt b r hi := by
  rw [gen_eq_is_eqIdx]; exact eq_iff_same_content a b ha hb

/-- the two regenerated pieces together: what the CURRENT `shift_common(v)` (`Gen.shiftToGen`, tools/translate_shift.py) makes
of a well-formed one- or two-axis index compares EQUAL, under the CURRENT `__eq__` (`EqGen.indexEq`), to every well-formed
index with the same shape, common value `v` and dense content - e.g. the one built directly from the array: the
re-encoding leaves no trace in the representation (no empty entry, no left-over key) -/
theorem generated_reencoding_is_canonical (i t : IIndex) (hi : WF i) (ht : WF t) (h2 : i.ndim ≤ 2) (v : Int)
    (hshape : t.shape = i.shape) (hcommon : t.common = v)
    (hdense : ∀ r < i.nrows, ∀ hi ∈ hiCells (i.shape.drop 1), denseAt t r hi = denseAt i r hi) :
    EqGen.indexEq (Gen.shiftToGen i v) t = true := by
  have hb := gen_shiftTo_eq i v hi.arity h2
  obtain ⟨hw, hs, hd⟩ := shiftCommon_refines i hi h2 (some v) _ hb
  have hc : (Gen.shiftToGen i v).common = v := by
    unfold Gen.shiftToGen
    by_cases hv : v = i.common
    · simp [hv]
    · have : (v != i.common) = true := by simpa using hv
      simp only [this, if_true]
  rw [generated_eq_iff_same_content _ _ hw ht]
  refine ⟨hs.trans hshape.symm, hc.trans hcommon.symm, ?_⟩
  intro r hr hi' hhi
  have hn : (Gen.shiftToGen i v).nrows = i.nrows := by simp [IIndex.nrows, hs]
  rw [hn] at hr
  rw [hs] at hhi
  rw [hd r hr hi' hhi, hdense r hr hi' hhi]

/-- `!=` is the negation of `==` for every pair of indexes (well-formed or not): it returns a boolean, it never raises -/
theorem generated_ne_is_negation (a b : IIndex) : EqGen.indexNe a b = !(EqGen.indexEq a b) := rfl

/-- re-encoding with a different common value makes the index unequal, although the dense content
is the same: the three components are each necessary -/
theorem different_common_unequal (a b : IIndex) (ha : WF a) (hb : WF b) (h : a.common ≠ b.common) :
    eqIdx a b = false := by
  cases he : eqIdx a b with
  | false => rfl
  | true => exact absurd ((eq_iff_same_content a b ha hb).mp he).2.1 h

/-- `argmaxCount` returns a key whose count is maximal -/
theorem argmax_is_max (cs : List (Int × Int)) (v : Int) (h : argmaxCount cs = some v) :
    ∃ n, (v, n) ∈ cs ∧ ∀ x ∈ cs, x.2 ≤ n := by
  cases cs with
  | nil => simp [argmaxCount] at h
  | cons c rest =>
    simp only [argmaxCount, Option.some.injEq] at h
    have gen : ∀ (l : List (Int × Int)) (b : Int × Int),
        let r := l.foldl (fun (best : Int × Int) x =>
          if x.2 > best.2 ∨ (x.2 = best.2 ∧ x.1 > best.1) then x else best) b
        (r = b ∨ r ∈ l) ∧ b.2 ≤ r.2 ∧ ∀ x ∈ l, x.2 ≤ r.2 := by
      intro l
      induction l with
      | nil => intro b; simp
      | cons y ys ih =>
        intro b
        simp only [List.foldl_cons]
        by_cases hy : y.2 > b.2 ∨ (y.2 = b.2 ∧ y.1 > b.1)
        · simp only [hy, if_true]
          obtain ⟨h1, h2, h3⟩ := ih y
          refine ⟨?_, ?_, ?_⟩
          · rcases h1 with h1 | h1
            · exact Or.inr (by rw [h1]; exact List.mem_cons_self)
            · exact Or.inr (List.mem_cons_of_mem _ h1)
          · rcases hy with hy | hy <;> omega
          · intro x hx
            rcases List.mem_cons.mp hx with rfl | hx
            · exact h2
            · exact h3 x hx
        · simp only [hy, if_false]
          obtain ⟨h1, h2, h3⟩ := ih b
          refine ⟨?_, h2, ?_⟩
          · rcases h1 with h1 | h1
            · exact Or.inl h1
            · exact Or.inr (List.mem_cons_of_mem _ h1)
          · intro x hx
            rcases List.mem_cons.mp hx with rfl | hx
            · have : ¬ x.2 > b.2 := fun hgt => hy (Or.inl hgt)
              omega
            · exact h3 x hx
    obtain ⟨h1, h2, h3⟩ := gen rest c
    generalize hr : rest.foldl (fun (best : Int × Int) x =>
          if x.2 > best.2 ∨ (x.2 = best.2 ∧ x.1 > best.1) then x else best) c = r at h h1 h2 h3
    refine ⟨r.2, ?_, ?_⟩
    · rw [← h]
      rcases h1 with h1 | h1
      · rw [h1]; exact List.mem_cons_self
      · exact List.mem_cons_of_mem _ h1
    · intro x hx
      rcases List.mem_cons.mp hx with rfl | hx
      · exact h2
      · exact h3 x hx

/-- the value `shift_common()` picks maximises the code's own counter (partial: see the header) -/
theorem chosen_is_argmax_of_counter_partial (i : IIndex) (v : Int) (h : chooseCommon i = some v) :
    let cs0 := i.entries.foldl (fun cs e => cadd cs (val0 e.1) e.2.length) ([] : List (Int × Int))
    let cs := cset cs0 i.common ((i.size : Int) - (cs0.map (·.2)).foldl (· + ·) 0)
    ∃ n, (v, n) ∈ cs ∧ ∀ x ∈ cs, x.2 ≤ n :=
  argmax_is_max _ v h

/-- **the library-chosen value is a most frequent one**: it occurs in the dense array at least as often as
every other value -/
theorem chosen_is_most_frequent (i : IIndex) (h : WF i) (v : Int) (hc : chooseCommon i = some v) (u : Int) :
    (denseArr i).data.count u ≤ (denseArr i).data.count v := by
  rw [← countCells_eq_count, ← countCells_eq_count]
  obtain ⟨hex, hall⟩ := counter_exact i h
  obtain ⟨n, hmem, hmax⟩ := argmax_is_max _ v hc
  have hn := hex _ hmem
  simp only at hn
  rcases hall u with ⟨x, hx, hxu⟩ | h0
  · have h1 := hex x hx
    have h2 := hmax x hx
    rw [hxu] at h1
    omega
  · omega

/-- the same for the choice REGENERATED from the `new_common is None` block of `shift_common` on every run
(`tools/translate_common.py`: counts accumulated per value over the entries, `size - sum` for the current common value, the
largest (count, value) pair): the value the current source picks occurs at least as often as every other value -/
theorem generated_choice_is_most_frequent (i : IIndex) (h : WF i) (v : Int) (hc : Gen.chooseCommonGen i = some v) (u : Int) :
    (denseArr i).data.count u ≤ (denseArr i).data.count v := by
  rw [gen_chooseCommon_eq] at hc; exact chosen_is_most_frequent i h v hc u

/-- after `shift_common()` the stored common value is a most frequent value of the (unchanged) dense array -/
theorem normalised_common_is_most_frequent (i : IIndex) (h : WF i) (hnd : i.ndim ≤ 2) (r : IIndex)
    (hr : shiftCommon i none = .ok r) (u : Int) :
    (denseArr r).data.count u ≤ (denseArr r).data.count r.common := by
  obtain ⟨v, hv, hs⟩ := shiftCommon_none i r hr
  obtain ⟨_, hshape, hd⟩ := shiftCommon_refines i h hnd (some v) r hs
  have hcommon : r.common = v := by
    rw [shiftCommon_some i h hnd v] at hs
    by_cases hvc : v = i.common
    · simp only [hvc, if_true] at hs; cases hs; exact hvc.symm
    · simp only [hvc, if_false] at hs; cases hs; rfl
  have hcong : ∀ x, countCells r x = countCells i x := fun x =>
    countCells_congr r i hshape (fun row hrow hi hhi => by
      have h1 : row < i.nrows := by unfold IIndex.nrows at *; rw [← hshape]; exact hrow
      exact hd row h1 hi (by rw [← hshape]; exact hhi)) x
  rw [← countCells_eq_count, ← countCells_eq_count, hcong, hcong, hcommon, countCells_eq_count, countCells_eq_count]
  exact chosen_is_most_frequent i h v hv u

/-- **building from an array without a common value** picks a most frequent (mapped) value, whether the counts are
computed by the library or supplied (exactly) by the caller, with or without a value mapping -/
theorem from_array_common_is_most_frequent (a : Arr) (o : FromOpts) (idx : IIndex) (w : Bool)
    (h : fromArray a o = .ok (idx, w)) (hc : o.common = none) (hne : a.data ≠ [])
    (hcounts : ∀ c, o.counts = some c → ExactCounts a.data c) (u : Int) :
    (a.data.map (mapD o.mapping)).count u ≤ (a.data.map (mapD o.mapping)).count idx.common :=
  fromArray_common_most_frequent a o idx w h hc hne hcounts u

/-- re-normalising never changes content or well-formedness, whatever value is picked -/
theorem normalisation_is_invisible (i : IIndex) (h : WF i) (hnd : i.ndim ≤ 2) (r : IIndex)
    (hr : shiftCommon i none = .ok r) :
    WF r ∧ r.shape = i.shape ∧
      ∀ row < i.nrows, ∀ hi ∈ hiCells (i.shape.drop 1), denseAt r row hi = denseAt i row hi :=
  shiftCommon_refines i h hnd none r hr

/-! Non-vacuity: a well-formed 2-D index exists (decided by the reflected predicate). -/
def ex2 : IIndex := ⟨[([1, 0], [0, 2]), ([2, 1], [1])], 0, [3, 2]⟩
example : WF ex2 := wf_sound ex2 (by decide)
example : eqIdx ex2 ex2 = true ∧ chooseCommon ex2 = some 0 := by decide

end Catii.C15
