import CatiiProofs.AggProofs
/-!
# C03 — index cube, array cube and direct group-by agree on the shared aggregates

Model (`CatiiModel/Agg.lean`): every aggregate (count, valid_count, sum, mean; weights none /
scalar / per-row with validity; facts with validity; either missing-value policy) is one formula
`reduceCell` over per-cell *measures*.  The index cube obtains a measure by walk + fill +
marginal differencing, the array cube by `bincount` over strided coordinates, the reference by
summing over the rows of the cell.  `three_way_agreement`: all three coincide on every output cell.

Exact arithmetic (`ℚ`).  **Partial** with respect to the property as stated for float64: rounding
inside marginal differencing is not a theorem (the harness checks the exact "dyadic" stream with
equality and general doubles within the stated tolerance).  The hypothesis `hTol` is forced by the
code: after differencing, `ffunc_count`/`ffunc_mean` treat |x| ≤ 1e-8 as zero, the array cube does
not; the three agree when no relevant per-cell total lies in (0, 1e-8].
-/
namespace Catii.C03
open Catii.Cube Catii.Marg Catii.Agg

/-- the three computations agree cell by cell (one-axis dimensions; multi-axis dimensions are
stacks of these, C13) -/
theorem three_way_agreement_exact (s : Spec) (dims : List Dim) (exts : List Nat) (N : Nat)
    (h : CubeOK dims exts N)
    (hTol : ∀ c ∈ allCells exts,
      isClose0 s.zeroTol (directMeasure dims N (rowVal s) c) = decide (directMeasure dims N (rowVal s) c = 0) ∧
      isClose0 s.zeroTol (directMeasure dims N (rowDen s) c) = decide (directMeasure dims N (rowDen s) c = 0)) :
    ∃ f, ccubeAgg s dims exts N = .ok f ∧ ∀ c ∈ allCells exts,
      f c = directAgg s dims N c ∧
      xcubeAgg s (dims.map fun d => fun r => dense d r) exts N c = directAgg s dims N c :=
  three_way_agreement s h hTol

/-- every region of the index cube (values, valid counter, missing counter, mean denominator) is
the per-cell sum of its per-row quantity — for any additive commutative group -/
theorem every_region_is_a_per_cell_sum {G : Type} [AddCommGroup G] (dims : List Dim) (exts : List Nat) (N : Nat)
    (h : CubeOK dims exts N) (μ : Nat → G) :
    ∃ R, measureCube dims exts N μ = .ok R ∧ ∀ c ∈ allCells exts, rget R c = directMeasure dims N μ c :=
  measureCube_correct h μ

/-- the array cube's flat bins are in bijection with in-range cells (strided coordinates) -/
theorem strided_coordinates_injective (exts c c' : List Nat) (hl : c.length = exts.length)
    (hl' : c'.length = exts.length) (hr : ∀ a < exts.length, c.getD a 0 < exts.getD a 0)
    (hr' : ∀ a < exts.length, c'.getD a 0 < exts.getD a 0) (h : flatIndex exts c = flatIndex exts c') : c = c' := by
  rw [flatIndex_eq_flat exts c hl, flatIndex_eq_flat exts c' hl'] at h
  exact flat_inj exts c c' hl hl' hr hr' h

/-! Non-vacuity: with exact tolerance 0 the hypothesis `hTol` holds for every input. -/
example (s : Spec) (hs : s.zeroTol = 0) (x : Rat) : isClose0 s.zeroTol x = decide (x = 0) := by
  rw [hs]; exact isClose0_zero x

end Catii.C03
