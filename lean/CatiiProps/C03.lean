import CatiiProofs.AggProofs
import CatiiProofs.StackDirect
import CatiiProofs.StridesGenBridge
/-!
# C03 — index cube, array cube and direct group-by agree on the shared aggregates

Model (`CatiiModel/Agg.lean`): every aggregate (count, valid_count, sum, mean; weights none /
scalar / per-row with validity; facts with validity; either missing-value policy) is one formula
`reduceCell` over per-cell *measures*.  The index cube obtains a measure by walk + fill +
marginal differencing, the array cube by `bincount` over strided coordinates, the reference by
summing over the rows of the cell.  `three_way_agreement`: all three coincide on every output cell.

Exact arithmetic (`ℚ`).  **Partial** with respect to the property as stated for float64: rounding
inside marginal differencing is not a theorem (the harness checks the exact "dyadic" stream with
equality and general doubles within the stated tolerance).  The hypothesis `hTol` is forced by the
code: after differencing, `ffunc_count`/`ffunc_mean` treat |x| ≤ 1e-8 as zero, the array cube does
not; the three agree when no relevant per-cell total lies in (0, 1e-8].

Dimensions with two or three axes: `multi_axis_blocks_are_direct` — the driver stacks one sub-cube per choice of one
column (1-D slice, C13) per dimension; every block is the direct per-cell aggregate over exactly those columns, and
the index cube and the array cube of those columns agree with it.
-/
namespace Catii.C03
open Catii.Cube Catii.Marg Catii.Agg

/-- the three computations agree cell by cell (one-axis dimensions; multi-axis dimensions are
stacks of these, C13) -/
theorem three_way_agreement_exact (s : Spec) (dims : List Dim) (exts : List Nat) (N : Nat)
    (h : CubeOK dims exts N)
    (hTol : ∀ c ∈ allCells exts,
      isClose0 s.zeroTol (directMeasure dims N (rowVal s) c) = decide (directMeasure dims N (rowVal s) c = 0) ∧
      isClose0 s.zeroTol (directMeasure dims N (rowDen s) c) = decide (directMeasure dims N (rowDen s) c = 0)) :
    ∃ f, ccubeAgg s dims exts N = .ok f ∧ ∀ c ∈ allCells exts,
      f c = directAgg s dims N c ∧
      xcubeAgg s (dims.map fun d => fun r => dense d r) exts N c = directAgg s dims N c :=
  three_way_agreement s h hTol

/-- every region of the index cube (values, valid counter, missing counter, mean denominator) is
the per-cell sum of its per-row quantity — for any additive commutative group -/
theorem every_region_is_a_per_cell_sum {G : Type} [AddCommGroup G] (dims : List Dim) (exts : List Nat) (N : Nat)
    (h : CubeOK dims exts N) (μ : Nat → G) :
    ∃ R, measureCube dims exts N μ = .ok R ∧ ∀ c ∈ allCells exts, rget R c = directMeasure dims N μ c :=
  measureCube_correct h μ

/-- the array cube's flat bins are in bijection with in-range cells (strided coordinates) -/
theorem strided_coordinates_injective (exts c c' : List Nat) (hl : c.length = exts.length)
    (hl' : c'.length = exts.length) (hr : ∀ a < exts.length, c.getD a 0 < exts.getD a 0)
    (hr' : ∀ a < exts.length, c'.getD a 0 < exts.getD a 0) (h : flatIndex exts c = flatIndex exts c') : c = c' := by
  rw [flatIndex_eq_flat exts c hl, flatIndex_eq_flat exts c' hl'] at h
  exact flat_inj exts c c' hl hl' hr hr' h

/-! ### the strided coordinates REGENERATED from `xcube._set_strides` / `strided_dims` on every run (`tools/translate_strides.py`)

`StridesGen.multipliers` is the current `numpy.append(numpy.flip(numpy.cumprod(reversed(shape)))[1:], [1])`, `mintypeBits` the
current ladder over `[uint8, uint16, uint32]` against `maxmult`, `stridedValue` the current `dim.astype(mintype)` followed
by `* m`. -/

/-- the stride of each dimension is the product of the LATER extents, and `maxmult` is the number of cells -/
theorem generated_strides_are_mixed_radix (shape : List Nat) (hne : shape ≠ []) :
    StridesGen.multipliers shape = strides shape ∧ StridesGen.maxmult shape = shape.foldl (· * ·) 1 :=
  ⟨gen_multipliers_eq shape hne, gen_maxmult_eq shape⟩

/-- "widened before multiplication": with the dtype `_set_strides` settles on, no in-range coordinate is changed by the cast,
the sum of the strided dimensions is exactly the flat index of the cell, and that index fits the dtype -/
theorem generated_strides_never_wrap (shape c : List Nat) (bits : Nat) (hne : shape ≠ [])
    (hb : StridesGen.mintypeBits shape = some bits) (hl : c.length = shape.length)
    (hr : ∀ a < shape.length, c.getD a 0 < shape.getD a 0) :
    (∀ a < shape.length, c.getD a 0 < 2 ^ bits) ∧ stridedSum bits shape c = flatIndex shape c ∧
      flatIndex shape c < 2 ^ bits :=
  gen_strides_never_wrap shape c bits hne hb hl hr

/-- hence two in-range cells never share a bin of the regenerated strided sum -/
theorem generated_strided_sum_injective (shape c c' : List Nat) (bits : Nat) (hne : shape ≠ [])
    (hb : StridesGen.mintypeBits shape = some bits) (hl : c.length = shape.length) (hl' : c'.length = shape.length)
    (hr : ∀ a < shape.length, c.getD a 0 < shape.getD a 0) (hr' : ∀ a < shape.length, c'.getD a 0 < shape.getD a 0)
    (h : stridedSum bits shape c = stridedSum bits shape c') : c = c' := by
  rw [(gen_strides_never_wrap shape c bits hne hb hl hr).2.1, (gen_strides_never_wrap shape c' bits hne hb hl' hr').2.1] at h
  exact strided_coordinates_injective shape c c' hl hl' hr hr' h

-- non-vacuity: 300 x 3 cells need uint16; the first dimension's stride is 3; cell (299, 2) is bin 899
example : StridesGen.mintypeBits [300, 3] = some 16 ∧ StridesGen.multipliers [300, 3] = [3, 1] ∧
    stridedSum 16 [300, 3] [299, 2] = 899 := by decide +kernel

/-- cubes over dimensions with extra axes (`(N, C)`, `(N, C, D)`): every block of the result — labelled by one
higher-coordinate tuple per dimension, concatenated in dimension order — is the direct per-cell aggregate over the
columns those labels name, for every aggregate of the model; index cube, array cube and direct computation agree on
every cell of every block -/
theorem multi_axis_blocks_are_direct (s : Spec) (ixs : List Catii.IIdx.IIndex) (exts : List Nat) (N : Nat)
    (hlen : exts.length = ixs.length)
    (hok : ∀ a (ha : a < ixs.length), Catii.Stack.StackDimOK N (exts.getD a 0) ixs[a])
    (hTol : ∀ (dims : List Dim), ∀ c ∈ allCells exts,
      isClose0 s.zeroTol (directMeasure dims N (rowVal s) c) = decide (directMeasure dims N (rowVal s) c = 0) ∧
      isClose0 s.zeroTol (directMeasure dims N (rowDen s) c) = decide (directMeasure dims N (rowDen s) c = 0))
    (b : List Int × Except Cube.Err (Cell → CellOut)) (hb : b ∈ Catii.Stack.stackAgg s ixs exts N) :
    ∃ (combo : List (List Int × Catii.IIdx.IIndex)) (f : Cell → CellOut),
      b.1 = combo.flatMap (·.1) ∧ b.2 = .ok f ∧
      List.Forall₂ (fun p i => p.1 ∈ Catii.IIdx.hiCells (i.shape.drop 1) ∧
        ∀ r, (dense (Catii.IIdx.toDim p.2) r : Int) = Catii.IIdx.denseAt i r p.1) combo ixs ∧
      ∀ c ∈ allCells exts,
        f c = directAgg s (combo.map fun p => Catii.IIdx.toDim p.2) N c ∧
        xcubeAgg s ((combo.map fun p => Catii.IIdx.toDim p.2).map fun d => fun r => dense d r) exts N c =
          directAgg s (combo.map fun p => Catii.IIdx.toDim p.2) N c :=
  Catii.Stack.stacked_blocks_are_direct s ixs exts N hlen hok hTol b hb

/-! Non-vacuity: with exact tolerance 0 the hypothesis `hTol` holds for every input. -/
example (s : Spec) (hs : s.zeroTol = 0) (x : Rat) : isClose0 s.zeroTol x = decide (x = 0) := by
  rw [hs]; exact isClose0_zero x

-- a (3, 2) dimension with common 0 and values < 3 meets `StackDimOK`
example : Catii.Stack.StackDimOK 3 3 ⟨[([1, 0], [0, 2]), ([2, 1], [1])], 0, [3, 2]⟩ :=
  ⟨Catii.IIdx.wf_sound _ (by decide), rfl, by decide, by decide, by decide, by decide⟩

end Catii.C03
