import CatiiProofs.SchedProofs
import CatiiModel.Gen.DriverGen
/-!
# C16 — pooled evaluation is schedule-independent

Model (`CatiiModel/Sched.lean`): each sub-cube is a task, a list of atomic steps; a step of task
`t` changes only locations of the task's footprint `F t` — the view `region[flattened_slice]` it
was handed — and depends only on that footprint and immutable inputs (`Disciplined`).
`any_interleaving_equals_serial`: if footprints are pairwise disjoint, any two schedules that
contain each task's steps in the task's own order (every interleaving the pool can produce, and
the serial loop) leave the same store.  `views_disjoint`: the views of distinct sub-cubes are
disjoint cell sets.

**Partial**: the theorem is about the model.  That the real tasks are disciplined (each fill
writes only through the views it was handed; NumPy ufunc loops and the GIL; the allocator) is not
a theorem: the harness checks the views pairwise with `numpy.shares_memory`, runs a deterministic
seeded line-level scheduler and real thread pools of size 1..16 under a microsecond switch
interval, and compares every output bit-for-bit with the serial run.  Diagnostic counters are
shared and unsynchronised, and outside the property.
-/
namespace Catii.C16
open Catii.Sched

theorem any_interleaving_equals_serial {L V : Type} (F : Nat → L → Prop)
    (hdisj : ∀ i j, i ≠ j → ∀ l, ¬ (F i l ∧ F j l))
    (sch serial : List (TStep L V)) (hd : ∀ s ∈ sch, Disciplined F s) (hd' : ∀ s ∈ serial, Disciplined F s)
    (hsame : ∀ i, sch.filter (fun s => s.tid == i) = serial.filter (fun s => s.tid == i)) (σ : L → V) :
    runS sch σ = runS serial σ :=
  schedule_independent F hdisj sch serial hd hd' hsame σ

/-- a task never affects, and is never affected by, locations outside its own view -/
theorem task_sees_only_its_view {L V : Type} (F : Nat → L → Prop)
    (hdisj : ∀ i j, i ≠ j → ∀ l, ¬ (F i l ∧ F j l))
    (sch : List (TStep L V)) (hd : ∀ s ∈ sch, Disciplined F s) (i : Nat) (σ : L → V) (l : L) (hl : F i l) :
    runS sch σ l = runS (sch.filter (fun s => s.tid == i)) σ l :=
  per_task F hdisj sch hd i σ σ (fun _ _ => rfl) l hl

theorem views_disjoint (js js' c c' : List Nat) (hlen : js.length = js'.length) (hne : js ≠ js') :
    js ++ c ≠ js' ++ c' :=
  footprints_disjoint js js' c c' hlen hne

/-! Non-vacuity: two tasks writing a constant into their own cell are disciplined for the footprints
"cell = task id", and those footprints are disjoint. -/
def setCell (t : Nat) (v : Nat) : TStep Nat Nat := ⟨t, fun σ l => if l = t then v else σ l⟩
example (t v : Nat) : Disciplined (fun i l => l = i) (setCell t v) :=
  ⟨fun σ l h => by simp only [setCell] at h ⊢; simp [h], fun σ σ' _ l h => by simp only [setCell] at h ⊢; simp [h]⟩
example : ∀ i j : Nat, i ≠ j → ∀ l, ¬ (l = i ∧ l = j) := fun i j h l ⟨a, b⟩ => h (a ▸ b)


/-! ### what the CURRENT drivers look like (`Gen/DriverGen.lean`, regenerated from `ccube.calculate` / `xcube.calculate`)

The theorems above are about tasks that write only through their own views.  The regenerated facts say where each task's views
come from and what else a task stores to: -/

/-- in both drivers every task selects its part of every region with `region[tuple(flattened_slice)]`, the slice being built
from that task's own sub-cube coordinates only, and stores to nothing shared except the diagnostic counters the property
names (`intersection_data_points`, the tracing dict); and nothing in `calculate` READS those counters except their own
bookkeeping, so a lost update between two workers (they are updated without a lock) cannot steer a result or raise -/
theorem generated_tasks_share_only_diagnostics :
    Gen.ccubeDriver.sharedStores.all (fun s => ["intersection_data_points"].contains s) = true ∧
    Gen.xcubeDriver.sharedStores.all (fun s => ["_tracing"].contains s) = true ∧
    Gen.ccubeDriver.diagnosticReads = [] ∧ Gen.xcubeDriver.diagnosticReads = [] ∧
    Gen.ccubeDriver.viewSelection = ["regions = [region[tuple(flattened_slice)] for region in regions]"] ∧
    Gen.xcubeDriver.viewSelection = ["regions = [region[tuple(flattened_slice)] for region in regions]"] ∧
    Gen.ccubeDriver.flattened = ["[e for coords in subcube_coords for e in coords]"] ∧
    Gen.xcubeDriver.flattened = ["[e for coords in nested_coords if coords is not None for e in coords]"] := by decide

/-- the pooled branch maps exactly the task (wrapped only to hand a BaseException back) over exactly the product the serial
branch loops over -/
theorem generated_pooled_maps_the_serial_tasks :
    Gen.ccubeDriver.serialLoop = true ∧ Gen.ccubeDriver.poolMapReraise = true ∧ Gen.ccubeDriver.workerHandsBack = true ∧
    Gen.xcubeDriver.serialLoop = true ∧ Gen.xcubeDriver.poolMapReraise = true ∧ Gen.xcubeDriver.workerHandsBack = true := by decide

end Catii.C16
