import CatiiProofs.IIndexBasic
/-! The decidable predicate `wf` that the harness evaluates on real results implies the
proposition `WF` used by the theorems. Core Lean only. -/
namespace Catii.IIdx
open Catii.Kern

theorem sortedStrict_iff (l : List Nat) : sortedStrict l = true → SSorted l := by
  intro h
  induction l with
  | nil => exact List.Pairwise.nil
  | cons a as ih =>
    cases as with
    | nil => simp
    | cons b bs =>
      simp only [sortedStrict, Bool.and_eq_true, decide_eq_true_eq] at h
      have ihb := ih h.2
      refine List.pairwise_cons.mpr ⟨?_, ihb⟩
      intro x hx
      rcases List.mem_cons.mp hx with rfl | hx'
      · exact h.1
      · have := (List.pairwise_cons.mp ihb).1 x hx'; omega

theorem keysDistinct_pairwise (ks : List Key) (h : keysDistinct ks = true) : ks.Pairwise (· ≠ ·) := by
  induction ks with
  | nil => exact List.Pairwise.nil
  | cons k ks ih =>
    simp only [keysDistinct, Bool.and_eq_true, Bool.not_eq_true'] at h
    refine List.pairwise_cons.mpr ⟨fun x hx heq => ?_, ih h.2⟩
    subst heq
    have h1 := h.1
    have : ks.contains k = true := by simpa using hx
    rw [this] at h1; cases h1

theorem mem_hiCells (shape : List Nat) (hi : List Int) :
    hi ∈ hiCells shape ↔ hi.length = shape.length ∧
      ∀ j < shape.length, 0 ≤ hi.getD j 0 ∧ hi.getD j 0 < (shape.getD j 0 : Int) := by
  induction shape generalizing hi with
  | nil =>
    simp only [hiCells, List.mem_singleton, List.length_nil]
    constructor
    · rintro rfl; exact ⟨rfl, fun j hj => by omega⟩
    · rintro ⟨h, _⟩; exact List.length_eq_zero_iff.mp h
  | cons n ns ih =>
    simp only [hiCells, List.mem_flatMap, List.mem_range, List.mem_map, List.length_cons]
    constructor
    · rintro ⟨j, hj, t, ht, rfl⟩
      obtain ⟨hl, hall⟩ := (ih t).mp ht
      refine ⟨by simp [hl], fun a ha => ?_⟩
      cases a with
      | zero => simp; omega
      | succ a => simpa using hall a (by omega)
    · rintro ⟨hl, hall⟩
      cases hi with
      | nil => simp at hl
      | cons x t =>
        have h0 := hall 0 (by omega)
        simp at h0
        refine ⟨x.toNat, by omega, t, (ih t).mpr ⟨by simpa using hl, fun a ha => ?_⟩, by simp; omega⟩
        simpa using hall (a + 1) (by omega)

theorem wf_sound (i : IIndex) (h : wf i = true) : WF i := by
  unfold wf at h
  simp only [Bool.and_eq_true, decide_eq_true_eq] at h
  obtain ⟨⟨⟨hpos, hval⟩, hper⟩, hkd⟩ := h
  unfold validates at hval
  simp only [Bool.and_eq_true, List.all_eq_true] at hval
  obtain ⟨hv1, hv2⟩ := hval
  rw [List.all_eq_true] at hper
  have per : ∀ e ∈ i.entries, e.1.length = i.ndim ∧ e.2 ≠ [] ∧ (∀ r ∈ e.2, r < i.nrows) ∧
      (∀ j < i.ndim - 1, 0 ≤ e.1.getD (j + 1) 0 ∧ e.1.getD (j + 1) 0 < (i.shape.getD (j + 1) 0 : Int)) := by
    intro e he
    have := hper e he
    simp only [Bool.and_eq_true, beq_iff_eq, Bool.not_eq_true', List.all_eq_true, decide_eq_true_eq,
      List.mem_range] at this
    obtain ⟨⟨⟨h1, h2⟩, h3⟩, h4⟩ := this
    exact ⟨h1, by intro hn; rw [hn] at h2; simp at h2, fun r hr => (h3 r hr).1, h4⟩
  have v1 : ∀ e ∈ i.entries, val0 e.1 ≠ i.common ∧ SSorted e.2 := by
    intro e he
    have := hv1 e he
    simp only [Bool.and_eq_true, bne_iff_ne, ne_eq] at this
    exact ⟨this.1, sortedStrict_iff _ this.2⟩
  refine ⟨?_, fun e he => (per e he).1, hpos, fun e he => (v1 e he).1,
    fun e he => (per e he).2.1, fun e he => (v1 e he).2,
    fun e he r hr => (per e he).2.2.1 r hr, ?_, ?_⟩
  · have := keysDistinct_pairwise _ hkd
    rw [List.pairwise_map] at this
    exact this
  · intro e he
    rw [mem_hiCells]
    obtain ⟨har, _, _, hco⟩ := per e he
    refine ⟨by simp [IIndex.ndim] at har ⊢; omega, fun j hj => ?_⟩
    simp only [List.length_drop] at hj
    have := hco j (by simp [IIndex.ndim]; omega)
    have e1 : (e.1.drop 1).getD j 0 = e.1.getD (j + 1) 0 := by
      simp [List.getD_eq_getElem?_getD, Nat.add_comm]
    have e2 : (i.shape.drop 1).getD j 0 = i.shape.getD (j + 1) 0 := by
      simp [List.getD_eq_getElem?_getD, Nat.add_comm]
    rw [e1, e2]; exact this
  · intro e he f hf hd r hre hrf
    have h2 := hv2 e he f hf
    simp only [Bool.or_eq_true, Bool.not_eq_true', Bool.and_eq_false_iff, bne_eq_false_iff_eq,
      List.all_eq_true] at h2
    rcases h2 with (h2 | h2) | h2
    · exact h2
    · have : (e.1.drop 1 == f.1.drop 1) = true := by simpa using hd
      rw [this] at h2; cases h2
    · have := h2 r hre
      have hc : f.2.contains r = true := by simpa using hrf
      rw [hc] at this; cases this

end Catii.IIdx
