import CatiiModel.Kernels
/-! The structural merges meet the set specification on strictly increasing lists. -/
namespace Catii.Kern

abbrev SSorted (l : List Nat) : Prop := l.Pairwise (· < ·)

theorem mem_inter (l r : List Nat) (hl : SSorted l) (hr : SSorted r) (x : Nat) :
    x ∈ inter l r ↔ x ∈ l ∧ x ∈ r := by
  fun_induction inter l r
  case case1 => simp
  case case2 => simp
  case case3 a as b bs hgt ih =>
    have hr' : SSorted bs := (List.pairwise_cons.mp hr).2
    have hb := (List.pairwise_cons.mp hr).1
    have ha := (List.pairwise_cons.mp hl).1
    rw [ih hl hr']
    constructor
    · rintro ⟨h1, h2⟩; exact ⟨h1, List.mem_cons_of_mem _ h2⟩
    · rintro ⟨h1, h2⟩
      refine ⟨h1, ?_⟩
      rcases List.mem_cons.mp h2 with rfl | h2
      · rcases List.mem_cons.mp h1 with rfl | h1
        · omega
        · have := ha _ h1; omega
      · exact h2
  case case4 a as b bs hng hgt ih =>
    have hl' : SSorted as := (List.pairwise_cons.mp hl).2
    have hb := (List.pairwise_cons.mp hr).1
    have ha := (List.pairwise_cons.mp hl).1
    rw [ih hl' hr]
    constructor
    · rintro ⟨h1, h2⟩; exact ⟨List.mem_cons_of_mem _ h1, h2⟩
    · rintro ⟨h1, h2⟩
      refine ⟨?_, h2⟩
      rcases List.mem_cons.mp h1 with rfl | h1
      · rcases List.mem_cons.mp h2 with rfl | h2
        · omega
        · have := hb _ h2; omega
      · exact h1
  case case5 a as b bs hng hng2 ih =>
    have hab : a = b := by omega
    subst hab
    have hl' : SSorted as := (List.pairwise_cons.mp hl).2
    have hr' : SSorted bs := (List.pairwise_cons.mp hr).2
    have hb := (List.pairwise_cons.mp hr).1
    have ha := (List.pairwise_cons.mp hl).1
    simp only [List.mem_cons, ih hl' hr']
    constructor
    · rintro (rfl | ⟨h1, h2⟩)
      · simp
      · exact ⟨Or.inr h1, Or.inr h2⟩
    · rintro ⟨h1, h2⟩
      rcases h1 with h1 | h1
      · exact Or.inl h1
      · rcases h2 with h2 | h2
        · exact Or.inl h2
        · exact Or.inr ⟨h1, h2⟩

theorem inter_sublist (l r : List Nat) : (inter l r).Sublist l := by
  fun_induction inter l r
  case case1 => simp
  case case2 => simp
  case case3 a as b bs hgt ih => exact ih
  case case4 a as b bs hng hgt ih => exact ih.cons _
  case case5 a as b bs hng hng2 ih => exact ih.cons_cons _

theorem inter_sorted (l r : List Nat) (hl : SSorted l) : SSorted (inter l r) :=
  hl.sublist (inter_sublist l r)

/-- membership in the merge-union needs no sortedness -/
theorem mem_uni (l r : List Nat) (x : Nat) : x ∈ uni l r ↔ x ∈ l ∨ x ∈ r := by
  fun_induction uni l r
  case case1 => simp
  case case2 => simp
  case case3 a as b bs hgt ih =>
    simp only [List.mem_cons, ih]; grind
  case case4 a as b bs hng hgt ih =>
    simp only [List.mem_cons, ih]; grind
  case case5 a as b bs hng hng2 ih =>
    have hab : a = b := by omega
    subst hab
    simp only [List.mem_cons, ih]; grind

theorem uni_sorted (l r : List Nat) (hl : SSorted l) (hr : SSorted r) : SSorted (uni l r) := by
  fun_induction uni l r
  case case1 => exact hr
  case case2 => exact hl
  case case3 a as b bs hgt ih =>
    have hr' : SSorted bs := (List.pairwise_cons.mp hr).2
    have hb := (List.pairwise_cons.mp hr).1
    have ha := (List.pairwise_cons.mp hl).1
    refine List.pairwise_cons.mpr ⟨?_, ih hl hr'⟩
    intro x hx
    rcases (mem_uni _ _ x).mp hx with h | h
    · rcases List.mem_cons.mp h with rfl | h
      · omega
      · have := ha _ h; omega
    · exact hb _ h
  case case4 a as b bs hng hgt ih =>
    have hl' : SSorted as := (List.pairwise_cons.mp hl).2
    have hb := (List.pairwise_cons.mp hr).1
    have ha := (List.pairwise_cons.mp hl).1
    refine List.pairwise_cons.mpr ⟨?_, ih hl' hr⟩
    intro x hx
    rcases (mem_uni _ _ x).mp hx with h | h
    · exact ha _ h
    · rcases List.mem_cons.mp h with rfl | h
      · omega
      · have := hb _ h; omega
  case case5 a as b bs hng hng2 ih =>
    have hab : a = b := by omega
    subst hab
    have hl' : SSorted as := (List.pairwise_cons.mp hl).2
    have hr' : SSorted bs := (List.pairwise_cons.mp hr).2
    have hb := (List.pairwise_cons.mp hr).1
    have ha := (List.pairwise_cons.mp hl).1
    refine List.pairwise_cons.mpr ⟨?_, ih hl' hr'⟩
    intro x hx
    rcases (mem_uni _ _ x).mp hx with h | h
    · exact ha _ h
    · exact hb _ h

theorem dif_sublist (l r : List Nat) : (dif l r).Sublist l := by
  fun_induction dif l r
  case case1 => simp
  case case2 => simp
  case case3 a as b bs hgt ih => exact ih
  case case4 a as b bs hng hgt ih => exact ih.cons_cons _
  case case5 a as b bs hng hng2 ih => exact ih.cons _

theorem dif_sorted (l r : List Nat) (hl : SSorted l) : SSorted (dif l r) :=
  hl.sublist (dif_sublist l r)

theorem mem_dif (l r : List Nat) (hl : SSorted l) (hr : SSorted r) (x : Nat) :
    x ∈ dif l r ↔ x ∈ l ∧ x ∉ r := by
  fun_induction dif l r
  case case1 => simp
  case case2 => simp
  case case3 a as b bs hgt ih =>
    have hr' : SSorted bs := (List.pairwise_cons.mp hr).2
    have ha := (List.pairwise_cons.mp hl).1
    rw [ih hl hr']
    constructor
    · rintro ⟨h1, h2⟩
      refine ⟨h1, ?_⟩
      intro h
      rcases List.mem_cons.mp h with rfl | h
      · rcases List.mem_cons.mp h1 with rfl | h1
        · omega
        · have := ha _ h1; omega
      · exact h2 h
    · rintro ⟨h1, h2⟩; exact ⟨h1, fun h => h2 (List.mem_cons_of_mem _ h)⟩
  case case4 a as b bs hng hgt ih =>
    have hl' : SSorted as := (List.pairwise_cons.mp hl).2
    have hb := (List.pairwise_cons.mp hr).1
    have ha := (List.pairwise_cons.mp hl).1
    simp only [List.mem_cons, ih hl' hr]
    constructor
    · rintro (rfl | ⟨h1, h2⟩)
      · refine ⟨Or.inl rfl, ?_⟩
        rintro (h | h)
        · omega
        · have := hb _ h; omega
      · exact ⟨Or.inr h1, by simpa using h2⟩
    · rintro ⟨h1 | h1, h2⟩
      · exact Or.inl h1
      · exact Or.inr ⟨h1, by simpa using h2⟩
  case case5 a as b bs hng hng2 ih =>
    have hab : a = b := by omega
    subst hab
    have hl' : SSorted as := (List.pairwise_cons.mp hl).2
    have hr' : SSorted bs := (List.pairwise_cons.mp hr).2
    have hb := (List.pairwise_cons.mp hr).1
    have ha := (List.pairwise_cons.mp hl).1
    simp only [List.mem_cons, ih hl' hr']
    constructor
    · rintro ⟨h1, h2⟩
      refine ⟨Or.inr h1, ?_⟩
      rintro (h | h)
      · have := ha _ h1; omega
      · exact h2 h
    · rintro ⟨h1 | h1, h2⟩
      · exact absurd (Or.inl h1) h2
      · exact ⟨h1, fun h => h2 (Or.inr h)⟩

end Catii.Kern

namespace Catii.Kern
/-- strictly increasing lists are determined by their members -/
theorem ssorted_ext : ∀ (l1 l2 : List Nat), SSorted l1 → SSorted l2 → (∀ x, x ∈ l1 ↔ x ∈ l2) → l1 = l2 := by
  intro l1
  induction l1 with
  | nil =>
    intro l2 _ _ h
    cases l2 with
    | nil => rfl
    | cons b bs => exact absurd ((h b).mpr List.mem_cons_self) (by simp)
  | cons a as ih =>
    intro l2 h1 h2 h
    cases l2 with
    | nil => exact absurd ((h a).mp List.mem_cons_self) (by simp)
    | cons b bs =>
      have ha := (List.pairwise_cons.mp h1)
      have hb := (List.pairwise_cons.mp h2)
      have hab : a = b := by
        have m1 := (h a).mp List.mem_cons_self
        have m2 := (h b).mpr List.mem_cons_self
        rcases List.mem_cons.mp m1 with e | e
        · exact e
        · rcases List.mem_cons.mp m2 with e' | e'
          · exact e'.symm
          · have := hb.1 a e; have := ha.1 b e'; omega
      subst hab
      congr 1
      apply ih bs ha.2 hb.2
      intro x
      constructor
      · intro hx
        have := (h x).mp (List.mem_cons_of_mem _ hx)
        rcases List.mem_cons.mp this with e | e
        · have := ha.1 x hx; omega
        · exact e
      · intro hx
        have := (h x).mpr (List.mem_cons_of_mem _ hx)
        rcases List.mem_cons.mp this with e | e
        · have := hb.1 x hx; omega
        · exact e
end Catii.Kern
