import CatiiProofs.Slices
import CatiiProofs.Bridge
import CatiiProofs.AggProofs
import Mathlib.Data.List.Forall2
/-! Cubes over multi-axis dimensions: every block of the stack is the cube of one column per dimension, hence (C03's
three-way agreement on one-axis dimensions) the direct per-cell aggregate over those columns (C02/C03 for
dimensions with two or three axes). -/
namespace Catii.Stack
open Catii.IIdx Catii.Cube Catii.Agg Catii.Marg Catii.Kern

/-- what a cube asks of a (possibly multi-axis) index dimension with `N` rows and category extent `ext` -/
structure StackDimOK (N ext : Nat) (i : IIndex) : Prop where
  wf : WF i
  rows : i.nrows = N
  cmNonneg : 0 ≤ i.common
  valNonneg : ∀ e ∈ i.entries, 0 ≤ val0 e.1
  cmLt : i.common.toNat < ext
  valLt : ∀ e ∈ i.entries, (val0 e.1).toNat < ext

theorem denseAt_cases (i : IIndex) (r : Nat) (hi : List Int) :
    denseAt i r hi = i.common ∨ ∃ e ∈ i.entries, denseAt i r hi = val0 e.1 := by
  unfold denseAt
  cases hf : i.entries.find? (fun e => e.1.drop 1 == hi && e.2.contains r) with
  | none => exact Or.inl rfl
  | some e => exact Or.inr ⟨e, List.mem_of_find?_eq_some hf, rfl⟩

/-- a slice of an acceptable dimension is an acceptable one-axis dimension, with the same bounds, and its dense
column is the column of the original at the slice's label -/
theorem slice_ok (N ext : Nat) (i : IIndex) (h : StackDimOK N ext i) (p : List Int × IIndex) (hp : p ∈ i.slices) :
    CubeDimOK N p.2 ∧ (toDim p.2).common < ext ∧ (∀ e ∈ (toDim p.2).entries, e.1 < ext) ∧
    p.1 ∈ hiCells (i.shape.drop 1) ∧ ∀ r, (dense (toDim p.2) r : Int) = denseAt i r p.1 := by
  obtain ⟨hi, hhi, h1, h2, h3, h4, h5⟩ := (slices_labelled i h.wf).1 p hp
  have hval : ∀ e ∈ p.2.entries, 0 ≤ val0 e.1 ∧ (val0 e.1).toNat < ext := by
    intro e he
    obtain ⟨r, hr⟩ := List.exists_mem_of_ne_nil e.2 (h2.nonEmpty e he)
    have hl : e.1.drop 1 = [] := by
      have := h2.arity e he
      simp only [IIndex.ndim, h3, List.length_cons, List.length_nil] at this
      apply List.drop_eq_nil_of_le; omega
    have hd := denseAt_of_mem p.2 h2 e he r [] hl hr
    rw [h5 r] at hd
    rcases denseAt_cases i r hi with hc | ⟨e', he', hc⟩
    · rw [hc] at hd; rw [← hd]; exact ⟨h.cmNonneg, h.cmLt⟩
    · rw [hc] at hd; rw [← hd]; exact ⟨h.valNonneg e' he', h.valLt e' he'⟩
  have hcd : CubeDimOK N p.2 := ⟨h2, by rw [h3, h.rows], by rw [h4]; exact h.cmNonneg, fun e he => (hval e he).1⟩
  refine ⟨hcd, ?_, ?_, by rw [h1]; exact hhi, fun r => ?_⟩
  · simp only [toDim]; rw [h4]; exact h.cmLt
  · intro e he
    simp only [toDim, List.mem_map] at he
    obtain ⟨e', he', rfl⟩ := he
    exact (hval e' he').2
  · rw [dense_toDim p.2 hcd r, h5 r, h1]

/-- one slice per dimension makes a list of one-axis dimensions the cube theorems apply to -/
theorem combo_cubeOK (ixs : List IIndex) (exts : List Nat) (N : Nat) (hlen : exts.length = ixs.length)
    (hok : ∀ a (ha : a < ixs.length), StackDimOK N (exts.getD a 0) ixs[a])
    (combo : List (List Int × IIndex)) (hc : List.Forall₂ (fun p i => p ∈ i.slices) combo ixs) :
    CubeOK (combo.map fun p => toDim p.2) exts N := by
  have hcl : combo.length = ixs.length := hc.length_eq
  have hget : ∀ a (ha : a < combo.length), combo[a] ∈ (ixs[a]'(by omega)).slices := by
    intro a ha
    have := hc.get ha (by omega)
    simpa using this
  refine ⟨by rw [List.length_map, hlen, hcl], ?_, ?_, ?_⟩
  · intro d hd
    obtain ⟨p, hp, rfl⟩ := List.mem_map.mp hd
    obtain ⟨a, ha, rfl⟩ := List.getElem_of_mem hp
    exact dimOK_toDim _ (slice_ok N _ _ (hok a (by omega)) _ (hget a ha)).1
  · intro a ha e he
    rw [List.length_map] at ha
    have hd : (combo.map fun p => toDim p.2).getD a default = toDim combo[a].2 := by
      rw [List.getD_eq_getElem?_getD, List.getElem?_map, List.getElem?_eq_getElem ha]; rfl
    rw [hd] at he
    exact (slice_ok N _ _ (hok a (by omega)) _ (hget a ha)).2.2.1 e he
  · intro a ha
    rw [List.length_map] at ha
    have hd : (combo.map fun p => toDim p.2).getD a default = toDim combo[a].2 := by
      rw [List.getD_eq_getElem?_getD, List.getElem?_map, List.getElem?_eq_getElem ha]; rfl
    rw [hd]
    exact (slice_ok N _ _ (hok a (by omega)) _ (hget a ha)).2.1

/-- **every block of a cube over multi-axis dimensions is the direct per-cell aggregate over one column per
dimension** — the columns named by the block's label; the index cube and the array cube of those columns agree with
it cell by cell (given, as in C03, that the near-zero tolerance does not bite) -/
theorem stacked_blocks_are_direct (s : Spec) (ixs : List IIndex) (exts : List Nat) (N : Nat)
    (hlen : exts.length = ixs.length)
    (hok : ∀ a (ha : a < ixs.length), StackDimOK N (exts.getD a 0) ixs[a])
    (hTol : ∀ (dims : List Dim), ∀ c ∈ allCells exts,
      isClose0 s.zeroTol (directMeasure dims N (rowVal s) c) = decide (directMeasure dims N (rowVal s) c = 0) ∧
      isClose0 s.zeroTol (directMeasure dims N (rowDen s) c) = decide (directMeasure dims N (rowDen s) c = 0))
    (b : List Int × Except Cube.Err (Cell → CellOut)) (hb : b ∈ stackAgg s ixs exts N) :
    ∃ (combo : List (List Int × IIndex)) (f : Cell → CellOut),
      b.1 = combo.flatMap (·.1) ∧ b.2 = .ok f ∧
      List.Forall₂ (fun p i => p.1 ∈ hiCells (i.shape.drop 1) ∧
        ∀ r, (dense (toDim p.2) r : Int) = denseAt i r p.1) combo ixs ∧
      ∀ c ∈ allCells exts,
        f c = directAgg s (combo.map fun p => toDim p.2) N c ∧
        xcubeAgg s ((combo.map fun p => toDim p.2).map fun d => fun r => dense d r) exts N c =
          directAgg s (combo.map fun p => toDim p.2) N c := by
  simp only [stackAgg, List.mem_map] at hb
  obtain ⟨combo, hc, rfl⟩ := hb
  have hf2 : List.Forall₂ (fun p i => p ∈ i.slices) combo ixs := by
    have : ∀ (ls : List (List (List Int × IIndex))) (cb : List (List Int × IIndex)),
        cb ∈ product ls → List.Forall₂ (fun x l => x ∈ l) cb ls := by
      intro ls
      induction ls with
      | nil => intro cb h; simp [product] at h; subst h; exact List.Forall₂.nil
      | cons l ls ih =>
        intro cb h
        simp only [product, List.mem_flatMap, List.mem_map] at h
        obtain ⟨x, hx, t, ht, rfl⟩ := h
        exact List.Forall₂.cons hx (ih t ht)
    have h2 := this _ combo hc
    rw [List.forall₂_map_right_iff] at h2
    exact h2
  have hcube := combo_cubeOK ixs exts N hlen hok combo hf2
  obtain ⟨f, hf, hspec⟩ := three_way_agreement s hcube (hTol _)
  refine ⟨combo, f, rfl, hf, ?_, hspec⟩
  have hcl : combo.length = ixs.length := hf2.length_eq
  apply List.forall₂_of_length_eq_of_get hcl
  intro a h1 h2
  have hmem := hf2.get h1 h2
  have := slice_ok N _ _ (hok a h2) _ (by simpa using hmem)
  exact ⟨this.2.2.2.1, this.2.2.2.2⟩

end Catii.Stack
