import CatiiModel.Gen.QueriesGen
import CatiiProofs.ShiftGenBridge
/-! The forced queries `get(key, force=True)` and `items(force=True)` as REGENERATED from the source
(`tools/translate_queries.py`) are the model's `getKey` / `itemsForce`, for indexes of at most two axes whose keys have the
index's arity (and, for `get`, a key of that arity). -/
namespace Catii.IIdx

theorem gen_get_eq (i : IIndex) (k : Key) (force : Bool) (hk : ∀ e ∈ i.entries, e.1.length = i.ndim) (h2 : i.ndim ≤ 2)
    (hkey : k.length = i.ndim) : Gen.getGen i k force = getKey i k force := by
  unfold Gen.getGen getKey
  rw [getD0_eq_val0]
  by_cases ht : (force && val0 k == i.common) = true
  · simp only [ht, if_true]
    have harg : starArg (k.drop 1) = (if i.ndim > 1 then some (k.getD 1 0) else none) := by
      by_cases hn : i.ndim > 1
      · have : k.length = 2 := by omega
        match k, this with
        | [a, b], _ => simp [hn, starArg]
      · simp only [hn, if_false]
        have : k.length ≤ 1 := by omega
        match k, this with
        | [], _ => rfl
        | [a], _ => rfl
    rw [harg, gen_commonRowids_eq i _ hk h2 (fun h => by simp [h])]
    cases commonRowids i (if i.ndim > 1 then some (k.getD 1 0) else none) <;> simp
  · have : (force && val0 k == i.common) = false := by simpa using ht
    simp only [this, Bool.false_eq_true, if_false]

theorem gen_itemsForce_eq (i : IIndex) (hk : ∀ e ∈ i.entries, e.1.length = i.ndim) (h2 : i.ndim ≤ 2) :
    Gen.itemsForceGen i = itemsForce i := by
  unfold Gen.itemsForceGen itemsForce
  by_cases h1 : i.ndim = 1
  · have : (i.shape.length == 1) = true := by simpa [IIndex.ndim] using h1
    simp only [this, if_true, h1]
    rw [gen_commonRowids_eq i none hk h2 (fun h => by omega)]
  · have : (i.shape.length == 1) = false := by simpa [IIndex.ndim] using h1
    simp only [this, Bool.false_eq_true, if_false, h1]
    congr 1
    apply List.map_congr_left
    intro c hc
    by_cases hn : i.ndim > 1
    · rw [gen_commonRowids_eq i (some (c : Int)) hk h2 (fun _ => by simp)]
    · -- no axes at all: the range is empty
      have h0 : i.shape = [] := by
        have : i.shape.length = 0 := by unfold IIndex.ndim at *; omega
        exact List.length_eq_zero_iff.mp this
      rw [h0] at hc
      simp at hc

end Catii.IIdx
