import CatiiProofs.IIndexShift
import CatiiProofs.Dict
/-! `filtered(mask, new_length)` is boolean row selection on the dense array and preserves
well-formedness (C06/C07). Core Lean only. -/
namespace Catii.IIdx
open Catii.Kern

/-! ### the renumbering `new_rowids[mask] = arange(new_length)` -/

theorem rankIn_zero (m : List Bool) : rankIn m 0 = 0 := by simp [rankIn]

theorem rankIn_cons_succ (b : Bool) (m : List Bool) (r : Nat) :
    rankIn (b :: m) (r + 1) = (if b then 1 else 0) + rankIn m r := by
  unfold rankIn
  cases b <;> simp [List.take_succ_cons, List.filter_cons] <;> omega

theorem rankIn_strictMono (m : List Bool) (r r' : Nat) (h : r < r') (hm : m.getD r false = true) :
    rankIn m r < rankIn m r' := by
  induction m generalizing r r' with
  | nil => simp at hm
  | cons b ms ih =>
    cases r' with
    | zero => omega
    | succ k =>
      cases r with
      | zero =>
        simp at hm
        subst hm
        rw [rankIn_zero, rankIn_cons_succ]; simp; omega
      | succ q =>
        rw [rankIn_cons_succ, rankIn_cons_succ]
        have := ih q k (by omega) (by simpa using hm)
        omega

theorem rankIn_inj (m : List Bool) (r r' : Nat) (hm : m.getD r false = true) (hm' : m.getD r' false = true)
    (h : rankIn m r = rankIn m r') : r = r' := by
  rcases Nat.lt_trichotomy r r' with hlt | heq | hgt
  · have := rankIn_strictMono m r r' hlt hm; omega
  · exact heq
  · have := rankIn_strictMono m r' r hgt hm'; omega

theorem rankIn_lt_total (m : List Bool) (r : Nat) (hm : m.getD r false = true) :
    rankIn m r < (m.filter id).length := by
  induction m generalizing r with
  | nil => simp at hm
  | cons b ms ih =>
    cases r with
    | zero =>
      simp at hm; subst hm
      simp [rankIn_zero]
    | succ q =>
      rw [rankIn_cons_succ]
      have := ih q (by simpa using hm)
      cases b <;> simp <;> omega

/-- every new row number is the rank of exactly one kept row -/
theorem rankIn_surj (m : List Bool) (j : Nat) (hj : j < (m.filter id).length) :
    ∃ r, r < m.length ∧ m.getD r false = true ∧ rankIn m r = j := by
  induction m generalizing j with
  | nil => simp at hj
  | cons b ms ih =>
    cases b with
    | true =>
      cases j with
      | zero => exact ⟨0, by simp, by simp, rankIn_zero _⟩
      | succ j' =>
        obtain ⟨r, h1, h2, h3⟩ := ih j' (by simpa using hj)
        exact ⟨r + 1, by simp; omega, by simpa using h2, by rw [rankIn_cons_succ, h3]; simp; omega⟩
    | false =>
      obtain ⟨r, h1, h2, h3⟩ := ih j (by simpa using hj)
      exact ⟨r + 1, by simp; omega, by simpa using h2, by rw [rankIn_cons_succ, h3]; simp⟩

theorem mem_filterRows (mask : List Bool) (rows : Rows) (j : Nat) :
    j ∈ filterRows mask rows ↔ ∃ r ∈ rows, mask.getD r false = true ∧ rankIn mask r = j := by
  unfold filterRows
  simp only [List.mem_map, List.mem_filter]
  constructor
  · rintro ⟨r, ⟨h1, h2⟩, h3⟩; exact ⟨r, h1, h2, h3⟩
  · rintro ⟨r, h1, h2, h3⟩; exact ⟨r, ⟨h1, h2⟩, h3⟩

theorem filterRows_sorted (mask : List Bool) (rows : Rows) (hs : SSorted rows) : SSorted (filterRows mask rows) := by
  unfold filterRows
  show List.Pairwise (· < ·) _
  rw [List.pairwise_map]
  have hf : (rows.filter (fun r => mask.getD r false)).Pairwise (· < ·) := hs.sublist List.filter_sublist
  apply List.Pairwise.imp_of_mem _ hf
  intro a b ha _ hab
  exact rankIn_strictMono mask a b hab (List.mem_filter.mp ha).2

/-! ### the entries of the result -/

/-- re-inserting transformed entries under their own (distinct) keys is a `filterMap` -/
theorem fold_dset_filterMap (f : Rows → Rows) (l acc : List (Key × Rows))
    (hl : l.Pairwise (fun a b => a.1 ≠ b.1)) (hfresh : ∀ x ∈ acc, ∀ e ∈ l, x.1 ≠ e.1) :
    l.foldl (fun es (e : Key × Rows) => if (f e.2).isEmpty then es else dset es e.1 (f e.2)) acc
    = acc ++ l.filterMap (fun e => if (f e.2).isEmpty then none else some (e.1, f e.2)) := by
  induction l generalizing acc with
  | nil => simp
  | cons e rest ih =>
    have hl' := List.pairwise_cons.mp hl
    simp only [List.foldl_cons, List.filterMap_cons]
    by_cases he : (f e.2).isEmpty = true
    · simp only [he, if_true]
      exact ih acc hl'.2 (fun x hx y hy => hfresh x hx y (List.mem_cons_of_mem _ hy))
    · simp only [he, Bool.false_eq_true, if_false]
      rw [dset_fresh acc e.1 (f e.2) (fun x hx => hfresh x hx e List.mem_cons_self)]
      rw [ih _ hl'.2]
      · simp
      · intro x hx y hy
        rcases List.mem_append.mp hx with hx | hx
        · exact hfresh x hx y (List.mem_cons_of_mem _ hy)
        · simp at hx; subst hx; exact hl'.1 y hy

theorem filteredPre_entries (i : IIndex) (h : WF i) (mask : List Bool) (n' : Nat) :
    (filteredPre i mask n').entries =
      i.entries.filterMap (fun e => if (filterRows mask e.2).isEmpty then none else some (e.1, filterRows mask e.2)) := by
  unfold filteredPre
  simp only
  rw [fold_dset_filterMap (filterRows mask) i.entries [] h.keys (by simp)]
  simp

theorem mem_filteredPre (i : IIndex) (h : WF i) (mask : List Bool) (n' : Nat) (e' : Key × Rows) :
    e' ∈ (filteredPre i mask n').entries ↔
      ∃ e ∈ i.entries, e' = (e.1, filterRows mask e.2) ∧ filterRows mask e.2 ≠ [] := by
  rw [filteredPre_entries i h]
  simp only [List.mem_filterMap]
  constructor
  · rintro ⟨e, he, hh⟩
    by_cases hc : (filterRows mask e.2).isEmpty = true
    · simp [hc] at hh
    · simp only [hc, Bool.false_eq_true, if_false, Option.some.injEq] at hh
      exact ⟨e, he, hh.symm, by simpa using hc⟩
  · rintro ⟨e, he, rfl, hne⟩
    refine ⟨e, he, ?_⟩
    have : (filterRows mask e.2).isEmpty = false := by simpa using hne
    simp [this]

/-- what `filtered` needs: a well-formed receiver and a mask with one flag per row -/
structure FilterOK (i : IIndex) (mask : List Bool) (n' : Nat) : Prop where
  wi : WF i
  hlen : mask.length = i.nrows
  hn : n' = (mask.filter id).length

theorem wf_filteredPre {i : IIndex} {mask : List Bool} {n' : Nat} (ok : FilterOK i mask n') :
    WF (filteredPre i mask n') := by
  have hm := mem_filteredPre i ok.wi mask n'
  have hnd : (filteredPre i mask n').ndim = i.ndim := by
    have := ok.wi.ndimPos
    simp only [IIndex.ndim, filteredPre, List.length_cons, List.length_drop] at *
    omega
  refine ⟨?_, ?_, ?_, ?_, ?_, ?_, ?_, ?_, ?_⟩
  · rw [filteredPre_entries i ok.wi]
    show List.Pairwise (fun a b : Key × Rows => a.1 ≠ b.1) _
    rw [List.pairwise_filterMap]
    apply ok.wi.keys.imp
    intro a b hab x hx y hy
    by_cases ha : (filterRows mask a.2).isEmpty = true
    · simp [ha] at hx
    · by_cases hb : (filterRows mask b.2).isEmpty = true
      · simp [hb] at hy
      · simp only [ha, hb, Bool.false_eq_true, if_false, Option.mem_def, Option.some.injEq] at hx hy
        subst hx hy
        exact hab
  · intro e' he'
    obtain ⟨e, he, rfl, _⟩ := (hm e').mp he'
    rw [hnd]; exact ok.wi.arity e he
  · rw [hnd]; exact ok.wi.ndimPos
  · intro e' he'
    obtain ⟨e, he, rfl, _⟩ := (hm e').mp he'
    exact ok.wi.noCommon e he
  · intro e' he'
    obtain ⟨e, he, rfl, hne⟩ := (hm e').mp he'
    exact hne
  · intro e' he'
    obtain ⟨e, he, rfl, _⟩ := (hm e').mp he'
    exact filterRows_sorted mask e.2 (ok.wi.sorted e he)
  · intro e' he' j hj
    obtain ⟨e, he, rfl, _⟩ := (hm e').mp he'
    obtain ⟨r, _, hmr, rfl⟩ := (mem_filterRows mask e.2 j).mp hj
    show rankIn mask r < n'
    rw [ok.hn]
    exact rankIn_lt_total mask r hmr
  · intro e' he'
    obtain ⟨e, he, rfl, _⟩ := (hm e').mp he'
    show e.1.drop 1 ∈ hiCells ((n' :: i.shape.drop 1).drop 1)
    simpa using ok.wi.hiRange e he
  · intro e' he' f' hf' hef j hje hjf
    obtain ⟨e, he, rfl, _⟩ := (hm e').mp he'
    obtain ⟨f, hf, rfl, _⟩ := (hm f').mp hf'
    obtain ⟨r, hr, hmr, hr2⟩ := (mem_filterRows mask e.2 j).mp hje
    obtain ⟨r', hr', hmr', hr2'⟩ := (mem_filterRows mask f.2 j).mp hjf
    have : r = r' := rankIn_inj mask r r' hmr hmr' (by rw [hr2, hr2'])
    subst this
    exact ok.wi.exclusive e he f hf hef r hr hr'

/-- the kept rows keep their content, renumbered in order -/
theorem dense_filteredPre {i : IIndex} {mask : List Bool} {n' : Nat} (ok : FilterOK i mask n')
    (r : Nat) (hmr : mask.getD r false = true) (hi : List Int) :
    denseAt (filteredPre i mask n') (rankIn mask r) hi = denseAt i r hi := by
  have hm := mem_filteredPre i ok.wi mask n'
  have hback : ∀ f' ∈ (filteredPre i mask n').entries, f'.1.drop 1 = hi → rankIn mask r ∈ f'.2 →
      ∃ f ∈ i.entries, f'.1 = f.1 ∧ f.1.drop 1 = hi ∧ r ∈ f.2 := by
    intro f' hf' h1 h2
    obtain ⟨f, hf, rfl, _⟩ := (hm f').mp hf'
    obtain ⟨r', hr', hmr', hr2⟩ := (mem_filterRows mask f.2 _).mp h2
    have : r' = r := rankIn_inj mask r' r hmr' hmr hr2
    subst this
    exact ⟨f, hf, rfl, h1, hr'⟩
  by_cases hex : ∃ e ∈ i.entries, e.1.drop 1 = hi ∧ r ∈ e.2
  · obtain ⟨e, he, h1, h2⟩ := hex
    rw [denseAt_of_mem i ok.wi e he r hi h1 h2]
    have hin : rankIn mask r ∈ filterRows mask e.2 := (mem_filterRows mask e.2 _).mpr ⟨r, h2, hmr, rfl⟩
    apply denseAt_eq
    · refine ⟨(e.1, filterRows mask e.2), (hm _).mpr ⟨e, he, rfl, ?_⟩, h1, hin⟩
      intro hnil; rw [hnil] at hin; simp at hin
    · intro f' hf' hf1 hf2
      obtain ⟨f, hf, hk, hfhi, hfr⟩ := hback f' hf' hf1 hf2
      rw [hk]
      exact ok.wi.exclusive f hf e he (by rw [hfhi, h1]) r hfr h2
  · have hnot : ∀ e ∈ i.entries, e.1.drop 1 = hi → r ∉ e.2 := fun e he h1 h2 => hex ⟨e, he, h1, h2⟩
    rw [denseAt_of_not_mem i r hi hnot]
    apply denseAt_of_not_mem
    intro f' hf' hf1 hf2
    obtain ⟨f, hf, _, hfhi, hfr⟩ := hback f' hf' hf1 hf2
    exact hnot f hf hfhi hfr

/-- **`filtered(mask, new_length)` is `a[mask]`**: the kept rows, in order, with their content; the result
is well-formed -/
theorem filtered_refines {i : IIndex} {mask : List Bool} {n' : Nat} (ok : FilterOK i mask n')
    (hnd : i.ndim ≤ 2) (res : IIndex) (hr : filtered i mask n' = .ok res) :
    WF res ∧ res.shape = n' :: i.shape.drop 1 ∧
      ∀ r, mask.getD r false = true → ∀ hi ∈ hiCells (i.shape.drop 1),
        denseAt res (rankIn mask r) hi = denseAt i r hi := by
  unfold filtered at hr
  have h1 : ¬ (mask.filter id).length ≠ n' := by rw [ok.hn]; simp
  have h2 : (i.entries.any fun e => e.2.any fun r => r ≥ mask.length) = false := by
    rw [List.any_eq_false]
    intro e he
    rw [Bool.not_eq_true, List.any_eq_false]
    intro r hr
    have := ok.wi.inRange e he r hr
    simp only [decide_eq_true_eq]
    rw [ok.hlen]; omega
  simp only [h1, h2, if_false, Bool.false_eq_true, bind, Except.bind, pure, Except.pure] at hr
  have hwf := wf_filteredPre ok
  have hnd2 : (filteredPre i mask n').ndim ≤ 2 := by
    have := ok.wi.ndimPos
    simp only [IIndex.ndim, filteredPre, List.length_cons, List.length_drop] at *
    omega
  obtain ⟨hw, hs, hd⟩ := shiftCommon_refines _ hwf hnd2 none res hr
  refine ⟨hw, hs, fun r hmr hi hhi => ?_⟩
  have hlt : rankIn mask r < (filteredPre i mask n').nrows := by
    show rankIn mask r < n'
    rw [ok.hn]; exact rankIn_lt_total mask r hmr
  rw [hd _ hlt hi (by simpa [filteredPre] using hhi)]
  exact dense_filteredPre ok r hmr hi

end Catii.IIdx
