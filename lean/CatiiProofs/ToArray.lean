import CatiiProofs.IIndexShift
/-! `to_array()` materialises exactly the dense abstraction `denseAt` (C01, last step of the round trip).
Core Lean only. -/
namespace Catii.IIdx
open Catii.Kern

/-- one fancy-index assignment writes `v` at the listed rows of column `c` and nothing else -/
theorem scatRows_ok (n ncols c : Nat) (v : Int) (rows : Rows) (out out' : Array Int)
    (h : scatRows n ncols c v rows out = .ok out') :
    (∀ r ∈ rows, r < n) ∧ out'.size = out.size ∧
      ∀ j, out'[j]? = if (∃ r ∈ rows, j = r * ncols + c) ∧ j < out.size then some v else out[j]? := by
  unfold scatRows at h
  induction rows generalizing out with
  | nil =>
    simp only [List.foldlM_nil, pure, Except.pure] at h
    cases h
    simp
  | cons r rest ih =>
    simp only [List.foldlM_cons] at h
    by_cases hr : r ≥ n
    · simp [hr, bind, Except.bind, throw, throwThe, MonadExceptOf.throw] at h
    · simp only [hr, if_false, bind, Except.bind, pure, Except.pure] at h
      obtain ⟨h1, h2, h3⟩ := ih _ h
      refine ⟨?_, ?_, ?_⟩
      · intro x hx
        rcases List.mem_cons.mp hx with rfl | hx
        · omega
        · exact h1 x hx
      · rw [h2, Array.set!_eq_setIfInBounds, Array.size_setIfInBounds]
      · intro j
        rw [h3 j, Array.set!_eq_setIfInBounds, Array.size_setIfInBounds, Array.getElem?_setIfInBounds]
        have hiff : (∃ x ∈ r :: rest, j = x * ncols + c) ↔ (r * ncols + c = j ∨ ∃ x ∈ rest, j = x * ncols + c) := by
          constructor
          · rintro ⟨x, hx, e⟩
            rcases List.mem_cons.mp hx with rfl | hx
            · exact Or.inl e.symm
            · exact Or.inr ⟨x, hx, e⟩
          · rintro (e | ⟨x, hx, e⟩)
            · exact ⟨r, List.mem_cons_self, e.symm⟩
            · exact ⟨x, List.mem_cons_of_mem _ hx, e⟩
        by_cases hex : ∃ x ∈ rest, j = x * ncols + c
        · by_cases hj : j < out.size
          · rw [if_pos ⟨hex, hj⟩, if_pos ⟨hiff.mpr (Or.inr hex), hj⟩]
          · have hn1 : ¬ ((∃ x ∈ rest, j = x * ncols + c) ∧ j < out.size) := fun h => hj h.2
            have hn2 : ¬ ((∃ x ∈ r :: rest, j = x * ncols + c) ∧ j < out.size) := fun h => hj h.2
            rw [if_neg hn1, if_neg hn2]
            by_cases hjr : r * ncols + c = j
            · rw [if_pos hjr, if_neg (by omega)]
              exact (Array.getElem?_eq_none (by omega)).symm
            · rw [if_neg hjr]
        · have hn1 : ¬ ((∃ x ∈ rest, j = x * ncols + c) ∧ j < out.size) := fun h => hex h.1
          rw [if_neg hn1]
          by_cases hjr : r * ncols + c = j
          · rw [if_pos hjr]
            by_cases hj : j < out.size
            · rw [if_pos (by omega), if_pos ⟨hiff.mpr (Or.inl hjr), hj⟩]
            · have hn2 : ¬ ((∃ x ∈ r :: rest, j = x * ncols + c) ∧ j < out.size) := fun h => hj h.2
              rw [if_neg (by omega), if_neg hn2]
              exact (Array.getElem?_eq_none (by omega)).symm
          · rw [if_neg hjr, if_neg]
            rintro ⟨h, _⟩
            rcases hiff.mp h with h | h
            · exact hjr h
            · exact hex h

/-- the column an entry is scattered to -/
def colOf (ndim : Nat) (k : Key) : Nat := (if ndim > 1 then k.getD 1 0 else 0).toNat

/-- entry `e` writes flat position `j` -/
abbrev Hits (ndim ncols : Nat) (e : Key × Rows × Int) (j : Nat) : Prop :=
  ∃ r ∈ e.2.1, j = r * ncols + colOf ndim e.1

theorem scatStep_ok (ndim : Nat) (fits : Int → Bool) (n ncols : Nat) (out out1 : Array Int)
    (e : Key × Rows × Int) (h : scatStep ndim fits n ncols out e = .ok out1) :
    out1.size = out.size ∧
      ∀ j, out1[j]? = if Hits ndim ncols e j ∧ j < out.size then some e.2.2 else out[j]? := by
  unfold scatStep at h
  by_cases hemp : e.2.1.isEmpty = true
  · simp only [hemp, if_true, pure, Except.pure] at h
    cases h
    refine ⟨rfl, fun j => ?_⟩
    have : ¬ (Hits ndim ncols e j ∧ j < out.size) := by
      rintro ⟨⟨r, hr, _⟩, _⟩
      have : e.2.1 = [] := by simpa using hemp
      rw [this] at hr; simp at hr
    rw [if_neg this]
  · simp only [hemp, Bool.false_eq_true, if_false] at h
    by_cases hf : (!fits e.2.2) = true
    · simp [hf, throw, throwThe, MonadExceptOf.throw] at h
    · simp only [hf, Bool.false_eq_true, if_false] at h
      have h' : (if ndim > 1 ∧ ((if ndim > 1 then e.1.getD 1 0 else 0) < 0 ∨
            (if ndim > 1 then e.1.getD 1 0 else 0) ≥ (ncols : Int))
          then (throw (.indexError "column") : M (Array Int))
          else scatRows n ncols (colOf ndim e.1) e.2.2 e.2.1 out) = .ok out1 := h
      by_cases hcol : ndim > 1 ∧ ((if ndim > 1 then e.1.getD 1 0 else 0) < 0 ∨
            (if ndim > 1 then e.1.getD 1 0 else 0) ≥ (ncols : Int))
      · rw [if_pos hcol] at h'
        simp [throw, throwThe, MonadExceptOf.throw] at h'
      · rw [if_neg hcol] at h'
        obtain ⟨_, h2, h3⟩ := scatRows_ok _ _ _ _ _ _ _ h'
        exact ⟨h2, fun j => h3 j⟩

/-- the scatter loop: a cell all of whose writers carry the same value ends up holding it; unwritten
cells keep what they had -/
theorem scatFold_ok (ndim : Nat) (fits : Int → Bool) (n ncols : Nat) (vals : List (Key × Rows × Int))
    (out out' : Array Int) (h : vals.foldlM (scatStep ndim fits n ncols) out = .ok out') :
    out'.size = out.size ∧
      ∀ j, j < out.size → ∀ x, (∀ e ∈ vals, Hits ndim ncols e j → e.2.2 = x) →
        out'[j]? = if (∃ e ∈ vals, Hits ndim ncols e j) then some x else out[j]? := by
  induction vals generalizing out with
  | nil =>
    simp only [List.foldlM_nil, pure, Except.pure] at h
    cases h
    exact ⟨rfl, fun j _ x _ => by simp⟩
  | cons e rest ih =>
    simp only [List.foldlM_cons, bind, Except.bind] at h
    cases hs : scatStep ndim fits n ncols out e with
    | error err => rw [hs] at h; cases h
    | ok out1 =>
      rw [hs] at h
      obtain ⟨s1, g1⟩ := scatStep_ok _ _ _ _ _ _ _ hs
      obtain ⟨s2, g2⟩ := ih out1 h
      refine ⟨s2.trans s1, fun j hj x hx => ?_⟩
      rw [g2 j (by rw [s1]; exact hj) x (fun e' he' => hx e' (List.mem_cons_of_mem _ he'))]
      by_cases hex : ∃ e' ∈ rest, Hits ndim ncols e' j
      · have : ∃ e' ∈ e :: rest, Hits ndim ncols e' j := by
          obtain ⟨e', he', hh⟩ := hex; exact ⟨e', List.mem_cons_of_mem _ he', hh⟩
        rw [if_pos hex, if_pos this]
      · rw [if_neg hex, g1 j]
        by_cases hh : Hits ndim ncols e j
        · have : ∃ e' ∈ e :: rest, Hits ndim ncols e' j := ⟨e, List.mem_cons_self, hh⟩
          rw [if_pos ⟨hh, hj⟩, if_pos this, hx e List.mem_cons_self hh]
        · have : ¬ ∃ e' ∈ e :: rest, Hits ndim ncols e' j := by
            rintro ⟨e', he', hh'⟩
            rcases List.mem_cons.mp he' with rfl | he'
            · exact hh hh'
            · exact hex ⟨e', he', hh'⟩
          rw [if_neg (fun h => hh h.1), if_neg this]

end Catii.IIdx
