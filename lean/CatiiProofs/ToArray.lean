import CatiiProofs.IIndexShift
import CatiiProps.C19
import CatiiProofs.ColumnStack
/-! `to_array()` materialises exactly the dense abstraction `denseAt` (C01, last step of the round trip).
Core Lean only. -/
namespace Catii.IIdx
open Catii.Kern

/-- one fancy-index assignment writes `v` at the listed rows of column `c` and nothing else -/
theorem scatRows_ok (n ncols c : Nat) (v : Int) (rows : Rows) (out out' : Array Int)
    (h : scatRows n ncols c v rows out = .ok out') :
    (∀ r ∈ rows, r < n) ∧ out'.size = out.size ∧
      ∀ j, out'[j]? = if (∃ r ∈ rows, j = r * ncols + c) ∧ j < out.size then some v else out[j]? := by
  unfold scatRows at h
  induction rows generalizing out with
  | nil =>
    simp only [List.foldlM_nil, pure, Except.pure] at h
    cases h
    simp
  | cons r rest ih =>
    simp only [List.foldlM_cons] at h
    by_cases hr : r ≥ n
    · simp [hr, bind, Except.bind, throw, throwThe, MonadExceptOf.throw] at h
    · simp only [hr, if_false, bind, Except.bind, pure, Except.pure] at h
      obtain ⟨h1, h2, h3⟩ := ih _ h
      refine ⟨?_, ?_, ?_⟩
      · intro x hx
        rcases List.mem_cons.mp hx with rfl | hx
        · omega
        · exact h1 x hx
      · rw [h2, Array.set!_eq_setIfInBounds, Array.size_setIfInBounds]
      · intro j
        rw [h3 j, Array.set!_eq_setIfInBounds, Array.size_setIfInBounds, Array.getElem?_setIfInBounds]
        have hiff : (∃ x ∈ r :: rest, j = x * ncols + c) ↔ (r * ncols + c = j ∨ ∃ x ∈ rest, j = x * ncols + c) := by
          constructor
          · rintro ⟨x, hx, e⟩
            rcases List.mem_cons.mp hx with rfl | hx
            · exact Or.inl e.symm
            · exact Or.inr ⟨x, hx, e⟩
          · rintro (e | ⟨x, hx, e⟩)
            · exact ⟨r, List.mem_cons_self, e.symm⟩
            · exact ⟨x, List.mem_cons_of_mem _ hx, e⟩
        by_cases hex : ∃ x ∈ rest, j = x * ncols + c
        · by_cases hj : j < out.size
          · rw [if_pos ⟨hex, hj⟩, if_pos ⟨hiff.mpr (Or.inr hex), hj⟩]
          · have hn1 : ¬ ((∃ x ∈ rest, j = x * ncols + c) ∧ j < out.size) := fun h => hj h.2
            have hn2 : ¬ ((∃ x ∈ r :: rest, j = x * ncols + c) ∧ j < out.size) := fun h => hj h.2
            rw [if_neg hn1, if_neg hn2]
            by_cases hjr : r * ncols + c = j
            · rw [if_pos hjr, if_neg (by omega)]
              exact (Array.getElem?_eq_none (by omega)).symm
            · rw [if_neg hjr]
        · have hn1 : ¬ ((∃ x ∈ rest, j = x * ncols + c) ∧ j < out.size) := fun h => hex h.1
          rw [if_neg hn1]
          by_cases hjr : r * ncols + c = j
          · rw [if_pos hjr]
            by_cases hj : j < out.size
            · rw [if_pos (by omega), if_pos ⟨hiff.mpr (Or.inl hjr), hj⟩]
            · have hn2 : ¬ ((∃ x ∈ r :: rest, j = x * ncols + c) ∧ j < out.size) := fun h => hj h.2
              rw [if_neg (by omega), if_neg hn2]
              exact (Array.getElem?_eq_none (by omega)).symm
          · rw [if_neg hjr, if_neg]
            rintro ⟨h, _⟩
            rcases hiff.mp h with h | h
            · exact hjr h
            · exact hex h

/-- the column an entry is scattered to -/
def colOf (ndim : Nat) (k : Key) : Nat := (if ndim > 1 then k.getD 1 0 else 0).toNat

/-- entry `e` writes flat position `j` -/
abbrev Hits (ndim ncols : Nat) (e : Key × Rows × Int) (j : Nat) : Prop :=
  ∃ r ∈ e.2.1, j = r * ncols + colOf ndim e.1

theorem scatStep_ok (ndim : Nat) (fits : Int → Bool) (n ncols : Nat) (out out1 : Array Int)
    (e : Key × Rows × Int) (h : scatStep ndim fits n ncols out e = .ok out1) :
    out1.size = out.size ∧
      ∀ j, out1[j]? = if Hits ndim ncols e j ∧ j < out.size then some e.2.2 else out[j]? := by
  unfold scatStep at h
  by_cases hemp : e.2.1.isEmpty = true
  · simp only [hemp, if_true, pure, Except.pure] at h
    cases h
    refine ⟨rfl, fun j => ?_⟩
    have : ¬ (Hits ndim ncols e j ∧ j < out.size) := by
      rintro ⟨⟨r, hr, _⟩, _⟩
      have : e.2.1 = [] := by simpa using hemp
      rw [this] at hr; simp at hr
    rw [if_neg this]
  · simp only [hemp, Bool.false_eq_true, if_false] at h
    by_cases hf : (!fits e.2.2) = true
    · simp [hf, throw, throwThe, MonadExceptOf.throw] at h
    · simp only [hf, Bool.false_eq_true, if_false] at h
      have h' : (if ndim > 1 ∧ ((if ndim > 1 then e.1.getD 1 0 else 0) < 0 ∨
            (if ndim > 1 then e.1.getD 1 0 else 0) ≥ (ncols : Int))
          then (throw (.indexError "column") : M (Array Int))
          else scatRows n ncols (colOf ndim e.1) e.2.2 e.2.1 out) = .ok out1 := h
      by_cases hcol : ndim > 1 ∧ ((if ndim > 1 then e.1.getD 1 0 else 0) < 0 ∨
            (if ndim > 1 then e.1.getD 1 0 else 0) ≥ (ncols : Int))
      · rw [if_pos hcol] at h'
        simp [throw, throwThe, MonadExceptOf.throw] at h'
      · rw [if_neg hcol] at h'
        obtain ⟨_, h2, h3⟩ := scatRows_ok _ _ _ _ _ _ _ h'
        exact ⟨h2, fun j => h3 j⟩

/-- the scatter loop: a cell all of whose writers carry the same value ends up holding it; unwritten
cells keep what they had -/
theorem scatFold_ok (ndim : Nat) (fits : Int → Bool) (n ncols : Nat) (vals : List (Key × Rows × Int))
    (out out' : Array Int) (h : vals.foldlM (scatStep ndim fits n ncols) out = .ok out') :
    out'.size = out.size ∧
      ∀ j, j < out.size → ∀ x, (∀ e ∈ vals, Hits ndim ncols e j → e.2.2 = x) →
        out'[j]? = if (∃ e ∈ vals, Hits ndim ncols e j) then some x else out[j]? := by
  induction vals generalizing out with
  | nil =>
    simp only [List.foldlM_nil, pure, Except.pure] at h
    cases h
    exact ⟨rfl, fun j _ x _ => by simp⟩
  | cons e rest ih =>
    simp only [List.foldlM_cons, bind, Except.bind] at h
    cases hs : scatStep ndim fits n ncols out e with
    | error err => rw [hs] at h; cases h
    | ok out1 =>
      rw [hs] at h
      obtain ⟨s1, g1⟩ := scatStep_ok _ _ _ _ _ _ _ hs
      obtain ⟨s2, g2⟩ := ih out1 h
      refine ⟨s2.trans s1, fun j hj x hx => ?_⟩
      rw [g2 j (by rw [s1]; exact hj) x (fun e' he' => hx e' (List.mem_cons_of_mem _ he'))]
      by_cases hex : ∃ e' ∈ rest, Hits ndim ncols e' j
      · have : ∃ e' ∈ e :: rest, Hits ndim ncols e' j := by
          obtain ⟨e', he', hh⟩ := hex; exact ⟨e', List.mem_cons_of_mem _ he', hh⟩
        rw [if_pos hex, if_pos this]
      · rw [if_neg hex, g1 j]
        by_cases hh : Hits ndim ncols e j
        · have : ∃ e' ∈ e :: rest, Hits ndim ncols e' j := ⟨e, List.mem_cons_self, hh⟩
          rw [if_pos ⟨hh, hj⟩, if_pos this, hx e List.mem_cons_self hh]
        · have : ¬ ∃ e' ∈ e :: rest, Hits ndim ncols e' j := by
            rintro ⟨e', he', hh'⟩
            rcases List.mem_cons.mp he' with rfl | he'
            · exact hh hh'
            · exact hex ⟨e', he', hh'⟩
          rw [if_neg (fun h => hh h.1), if_neg this]

theorem cell_inj (m r c r' c' : Nat) (hc : c < m) (hc' : c' < m) (h : r * m + c = r' * m + c') :
    r = r' ∧ c = c' := by
  have hm : 0 < m := by omega
  have h1 : (m * r + c) / m = r := by rw [Nat.mul_add_div hm, Nat.div_eq_of_lt hc]; rfl
  have h2 : (m * r' + c') / m = r' := by rw [Nat.mul_add_div hm, Nat.div_eq_of_lt hc']; rfl
  have h3 : (m * r + c) % m = c := by rw [Nat.mul_add_mod, Nat.mod_eq_of_lt hc]
  have h4 : (m * r' + c') % m = c' := by rw [Nat.mul_add_mod, Nat.mod_eq_of_lt hc']
  have h' : m * r + c = m * r' + c' := by rw [Nat.mul_comm m r, Nat.mul_comm m r']; exact h
  rw [h'] at h1 h3
  exact ⟨h1.symm.trans h2, h3.symm.trans h4⟩

/-- number of columns of the flat output -/
def ncolsOf (i : IIndex) : Nat := if i.ndim > 1 then i.shape.getD 1 0 else 1

/-- for one- and two-axis shapes a higher-coordinate tuple is a column number -/
theorem hi_col (i : IIndex) (hpos : 0 < i.ndim) (hnd : i.ndim ≤ 2) (hi : List Int)
    (hhi : hi ∈ hiCells (i.shape.drop 1)) :
    ∃ c, c < ncolsOf i ∧ ∀ k : Key, k.length = i.ndim → k.drop 1 ∈ hiCells (i.shape.drop 1) →
      (colOf i.ndim k < ncolsOf i ∧ (k.drop 1 = hi ↔ colOf i.ndim k = c)) := by
  unfold ncolsOf colOf at *
  unfold IIndex.ndim at *
  match hs : i.shape with
  | [] => rw [hs] at hpos; simp at hpos
  | [n] =>
    rw [hs] at hhi
    simp only [List.drop_succ_cons, List.drop_zero, hiCells, List.mem_singleton] at hhi
    subst hhi
    refine ⟨0, by simp, fun k hk hk2 => ?_⟩
    simp only [List.drop_succ_cons, List.drop_zero, hiCells, List.mem_singleton, List.drop_nil] at hk2
    simp [hk2]
  | [n, m] =>
    rw [hs] at hhi
    simp only [List.drop_succ_cons, List.drop_zero, hiCells, List.mem_flatMap, List.mem_range, List.mem_map,
      List.mem_singleton] at hhi
    obtain ⟨c, hc, t, rfl, rfl⟩ := hhi
    refine ⟨c, by simp [hc], fun k hk hk2 => ?_⟩
    simp only [List.drop_succ_cons, List.drop_zero, hiCells, List.mem_flatMap, List.mem_range, List.mem_map,
      List.mem_singleton] at hk2
    obtain ⟨c', hc', t', rfl, hk3⟩ := hk2
    match k, hk with
    | [a, b], _ =>
      simp only [List.drop_succ_cons, List.drop_zero, List.cons.injEq, and_true] at hk3
      subst hk3
      simp
      constructor
      · exact hc'
      · omega
  | _ :: _ :: _ :: _ => rw [hs] at hnd; simp at hnd

/-- what the scatter needs of an index (weaker than `WF`: entries with no rows are ignored, nothing is
asked about sortedness or the common value) -/
structure Scatterable (i : IIndex) : Prop where
  ndimPos : 0 < i.ndim
  arity : ∀ e ∈ i.entries, e.2 ≠ [] → e.1.length = i.ndim
  hiRange : ∀ e ∈ i.entries, e.2 ≠ [] → e.1.drop 1 ∈ hiCells (i.shape.drop 1)
  exclusive : ∀ e ∈ i.entries, ∀ f ∈ i.entries, e.1.drop 1 = f.1.drop 1 →
    ∀ r, r ∈ e.2 → r ∈ f.2 → val0 e.1 = val0 f.1

theorem WF.scatterable {i : IIndex} (h : WF i) : Scatterable i :=
  ⟨h.ndimPos, fun e he _ => h.arity e he, fun e he _ => h.hiRange e he, h.exclusive⟩

theorem denseAt_of_mem' (i : IIndex) (h : Scatterable i) (e : Key × Rows) (he : e ∈ i.entries)
    (r : Nat) (hi : List Int) (hhi : e.1.drop 1 = hi) (hr : r ∈ e.2) : denseAt i r hi = val0 e.1 :=
  denseAt_eq i r hi _ ⟨e, he, hhi, hr⟩
    (fun f hf hf1 hf2 => h.exclusive f hf e he (by rw [hf1, hhi]) r hf2 hr)

/-- the scatter with an arbitrary fill value and an arbitrary value written per entry (a function of the
entry's category): listed cells hold the written value, the others the fill value -/
theorem scatter_dense_gen (i : IIndex) (h : Scatterable i) (hnd : i.ndim ≤ 2) (dt : Option DT) (fill : Int)
    (G : Int → Int) (arr : Arr)
    (ht : scatter i fill dt (i.entries.map fun e => (e.1, e.2, G (val0 e.1))) = .ok arr) :
    arr.shape = i.shape ∧ ∀ r < i.nrows, ∀ hi ∈ hiCells (i.shape.drop 1),
      arr.data.getD (r * ncolsOf i + colOf i.ndim (0 :: hi)) 0 =
        if (∃ e ∈ i.entries, e.1.drop 1 = hi ∧ r ∈ e.2) then G (denseAt i r hi) else fill := by
  unfold scatter at ht
  have hnd' : ¬ i.ndim > 2 := by omega
  simp only [hnd', if_false, pure, Except.pure, bind, Except.bind] at ht
  by_cases hfill : (!dtFits dt fill) = true
  · simp [hfill, throw, throwThe, MonadExceptOf.throw] at ht
  · simp only [hfill, Bool.false_eq_true, if_false] at ht
    have hnc : (if i.ndim > 1 then i.shape.getD 1 0 else 1) = ncolsOf i := rfl
    rw [hnc] at ht
    cases hf : List.foldlM (scatStep i.ndim (dtFits dt) i.nrows (ncolsOf i))
        (Array.replicate (i.nrows * ncolsOf i) fill)
        (List.map (fun e => (e.fst, e.snd, G (val0 e.fst))) i.entries) with
    | error err => rw [hf] at ht; cases ht
    | ok out =>
      rw [hf] at ht
      simp only [Except.ok.injEq] at ht
      subst ht
      refine ⟨rfl, fun r hr hi hhi => ?_⟩
      obtain ⟨hsz, hcell⟩ := scatFold_ok _ _ _ _ _ _ _ hf
      obtain ⟨c, hc, hkey⟩ := hi_col i h.ndimPos hnd hi hhi
      have hlen : (0 :: hi).length = i.ndim := by
        have := hiCells_length _ hi hhi
        have hp := h.ndimPos
        simp only [List.length_cons, this, List.length_drop, IIndex.ndim] at *
        omega
      have hc0 : colOf i.ndim (0 :: hi) = c := ((hkey (0 :: hi) hlen (by simpa using hhi)).2).mp (by simp)
      rw [hc0]
      have hj : r * ncolsOf i + c < (Array.replicate (i.nrows * ncolsOf i) fill).size := by
        rw [Array.size_replicate]
        have := Nat.mul_le_mul_right (ncolsOf i) (Nat.succ_le_of_lt hr)
        rw [Nat.succ_mul] at this
        omega
      -- which entries write this cell
      have hhits : ∀ e ∈ i.entries, Hits i.ndim (ncolsOf i) (e.1, e.2, G (val0 e.1)) (r * ncolsOf i + c) ↔
          (e.1.drop 1 = hi ∧ r ∈ e.2) := by
        intro e he
        by_cases hemp : e.2 = []
        · constructor
          · rintro ⟨r', hr', _⟩; rw [hemp] at hr'; simp at hr'
          · rintro ⟨_, h2⟩; rw [hemp] at h2; simp at h2
        have hk := hkey e.1 (h.arity e he hemp) (h.hiRange e he hemp)
        constructor
        · rintro ⟨r', hr', heq⟩
          obtain ⟨h1, h2⟩ := cell_inj _ _ _ _ _ hc hk.1 heq
          exact ⟨hk.2.mpr h2.symm, h1 ▸ hr'⟩
        · rintro ⟨h1, h2⟩
          exact ⟨r, h2, by rw [hk.2.mp h1]⟩
      have hval : ∀ e' ∈ List.map (fun e => (e.fst, e.snd, G (val0 e.fst))) i.entries,
          Hits i.ndim (ncolsOf i) e' (r * ncolsOf i + c) → e'.2.2 = G (denseAt i r hi) := by
        intro e' he' hh
        obtain ⟨e, he, rfl⟩ := List.mem_map.mp he'
        obtain ⟨h1, h2⟩ := (hhits e he).mp hh
        rw [denseAt_of_mem' i h e he r hi h1 h2]
      have := hcell _ hj (G (denseAt i r hi)) hval
      rw [List.getD_eq_getElem?_getD, Array.getElem?_toList, this]
      by_cases hex : ∃ e' ∈ List.map (fun e => (e.fst, e.snd, G (val0 e.fst))) i.entries,
          Hits i.ndim (ncolsOf i) e' (r * ncolsOf i + c)
      · rw [if_pos hex]
        obtain ⟨e', he', hh⟩ := hex
        obtain ⟨e, he, rfl⟩ := List.mem_map.mp he'
        obtain ⟨h1, h2⟩ := (hhits e he).mp hh
        rw [if_pos ⟨e, he, h1, h2⟩]; rfl
      · rw [if_neg hex, Array.getElem?_replicate]
        rw [Array.size_replicate] at hj
        rw [if_pos hj]
        have : ¬ ∃ e ∈ i.entries, e.1.drop 1 = hi ∧ r ∈ e.2 := by
          rintro ⟨e, he, h1, h2⟩
          exact hex ⟨_, List.mem_map.mpr ⟨e, he, rfl⟩, (hhits e he).mpr ⟨h1, h2⟩⟩
        rw [if_neg this]; rfl

theorem scatter_dense (i : IIndex) (h : Scatterable i) (hnd : i.ndim ≤ 2) (dt : Option DT) (arr : Arr)
    (ht : scatter i i.common dt (i.entries.map fun e => (e.1, e.2, val0 e.1)) = .ok arr) :
    arr.shape = i.shape ∧ ∀ r < i.nrows, ∀ hi ∈ hiCells (i.shape.drop 1),
      arr.data.getD (r * ncolsOf i + colOf i.ndim (0 :: hi)) 0 = denseAt i r hi := by
  obtain ⟨h1, h2⟩ := scatter_dense_gen i h hnd dt i.common id arr ht
  refine ⟨h1, fun r hr hi hhi => ?_⟩
  rw [h2 r hr hi hhi]
  by_cases hex : ∃ e ∈ i.entries, e.1.drop 1 = hi ∧ r ∈ e.2
  · rw [if_pos hex]; rfl
  · rw [if_neg hex]
    exact (denseAt_of_not_mem i r hi (fun e he h1 h2 => hex ⟨e, he, h1, h2⟩)).symm

/-- a successful `mapping[value]` lookup for every entry is the map with default -/
theorem mapM_lookup (m : List (Int × Int)) (es : List (Key × Rows)) (vals : List (Key × Rows × Int))
    (h : es.mapM (mapEntry m) = .ok vals) :
    vals = es.map fun e => (e.1, e.2, (lookup m (val0 e.1)).getD 0) := by
  induction es generalizing vals with
  | nil => simp only [List.mapM_nil, pure, Except.pure, Except.ok.injEq] at h; rw [← h]; rfl
  | cons e rest ih =>
    rw [List.mapM_cons] at h
    cases hl : lookup m (val0 e.1) with
    | none => simp [mapEntry, hl, bind, Except.bind, throw, throwThe, MonadExceptOf.throw] at h
    | some v =>
      simp only [mapEntry, hl, bind, Except.bind, pure, Except.pure] at h
      cases hr : rest.mapM (mapEntry m) with
      | error err => rw [hr] at h; cases h
      | ok vs =>
        rw [hr] at h
        simp only [Except.ok.injEq] at h
        rw [← h, ih vs hr]
        simp [hl]

/-- **`to_array(mapping=m)`**: every cell holds `m[value of the cell]` (`m.get(common, 0)` where the common
value is not a key of the mapping) -/
theorem toArray_mapped (i : IIndex) (h : Scatterable i) (hnd : i.ndim ≤ 2) (m : List (Int × Int)) (hm : m ≠ [])
    (dt : Option DT) (arr : Arr) (ht : toArray i (some m) dt = .ok arr) :
    arr.shape = i.shape ∧ ∀ r < i.nrows, ∀ hi ∈ hiCells (i.shape.drop 1),
      arr.data.getD (r * ncolsOf i + colOf i.ndim (0 :: hi)) 0 = (lookup m (denseAt i r hi)).getD 0 := by
  unfold toArray at ht
  match m, hm with
  | p :: ps, _ =>
    simp only [bind, Except.bind] at ht
    split at ht
    · cases ht
    · rename_i vals hvals
      have hv := mapM_lookup (p :: ps) i.entries vals hvals
      rw [hv] at ht
      obtain ⟨h1, h2⟩ := scatter_dense_gen i h hnd _ _ (fun v => (lookup (p :: ps) v).getD 0) arr ht
      refine ⟨h1, fun r hr hi hhi => ?_⟩
      rw [h2 r hr hi hhi]
      by_cases hex : ∃ e ∈ i.entries, e.1.drop 1 = hi ∧ r ∈ e.2
      · rw [if_pos hex]
      · rw [if_neg hex, denseAt_of_not_mem i r hi (fun e he h1 h2 => hex ⟨e, he, h1, h2⟩)]

/-! ### `to_array()` with the default dtype never fails on representable values -/

theorem listMax_ge (l : List Int) (d : Int) : d ≤ listMax l d ∧ ∀ v ∈ l, v ≤ listMax l d := by
  unfold listMax
  induction l generalizing d with
  | nil => simp
  | cons a as ih =>
    simp only [List.foldl_cons]
    obtain ⟨h1, h2⟩ := ih (max d a)
    refine ⟨by omega, fun v hv => ?_⟩
    rcases List.mem_cons.mp hv with rfl | hv
    · omega
    · exact h2 v hv

theorem listMin_le (l : List Int) (d : Int) : listMin l d ≤ d ∧ ∀ v ∈ l, listMin l d ≤ v := by
  unfold listMin
  induction l generalizing d with
  | nil => simp
  | cons a as ih =>
    simp only [List.foldl_cons]
    obtain ⟨h1, h2⟩ := ih (min d a)
    refine ⟨by omega, fun v hv => ?_⟩
    rcases List.mem_cons.mp hv with rfl | hv
    · omega
    · exact h2 v hv

theorem scatRows_succeeds (n ncols c : Nat) (v : Int) (rows : Rows) (out : Array Int) (hr : ∀ r ∈ rows, r < n) :
    ∃ out', scatRows n ncols c v rows out = .ok out' := by
  unfold scatRows
  induction rows generalizing out with
  | nil => exact ⟨out, rfl⟩
  | cons r rest ih =>
    have h1 : ¬ r ≥ n := by have := hr r List.mem_cons_self; omega
    simp only [List.foldlM_cons, h1, if_false, bind, Except.bind, pure, Except.pure]
    exact ih _ (fun x hx => hr x (List.mem_cons_of_mem _ hx))

/-- the extremes `to_array()` hands to `fit_dtype` -/
def dtypeExtremes (i : IIndex) : Int × Int :=
  let dvs := i.entries.map (fun e => val0 e.1) ++ [i.common]
  (listMax dvs i.common, min (listMin dvs i.common) 0)

/-- **`to_array()` succeeds** on every well-formed one- or two-axis index whose values some NumPy integer type can
represent (`C19.Dom` of the extremes): the dtype chosen by the regenerated `fit_dtype` holds the common value and
every listed value, every column and row id is inside the array -/
theorem toArray_default_succeeds (i : IIndex) (h : WF i) (hnd : i.ndim ≤ 2)
    (hdom : C19.Dom (dtypeExtremes i).1 (dtypeExtremes i).2) : ∃ arr, toArray i none none = .ok arr := by
  obtain ⟨hlo, hhi⟩ := C19.fit_contains _ _ hdom
  unfold dtypeExtremes at hlo hhi hdom
  simp only at hlo hhi
  obtain ⟨hmax1, hmax2⟩ := listMax_ge (i.entries.map (fun e => val0 e.1) ++ [i.common]) i.common
  obtain ⟨hmin1, hmin2⟩ := listMin_le (i.entries.map (fun e => val0 e.1) ++ [i.common]) i.common
  have hfit : ∀ v ∈ i.entries.map (fun e => val0 e.1) ++ [i.common],
      dtFits (some (fitDtype (listMax (i.entries.map (fun e => val0 e.1) ++ [i.common]) i.common)
        (min (listMin (i.entries.map (fun e => val0 e.1) ++ [i.common]) i.common) 0))) v = true := by
    intro v hv
    have h1 := hmax2 v hv
    have h2 := hmin2 v hv
    simp only [dtFits, dtRange, DT.contains, Bool.and_eq_true, decide_eq_true_eq]
    constructor <;> omega
  unfold toArray
  simp only
  unfold scatter
  have hnd' : ¬ i.ndim > 2 := by omega
  have hfill := hfit i.common (by simp)
  simp only [hnd', if_false, hfill, Bool.not_true, Bool.false_eq_true, bind, Except.bind, pure, Except.pure]
  -- the fold never fails
  have hfold : ∀ (es : List (Key × Rows)) (out : Array Int), (∀ e ∈ es, e ∈ i.entries) →
      ∃ out', (es.map fun e => (e.1, e.2, val0 e.1)).foldlM
        (scatStep i.ndim (dtFits (some (fitDtype (listMax (i.entries.map (fun e => val0 e.1) ++ [i.common]) i.common)
          (min (listMin (i.entries.map (fun e => val0 e.1) ++ [i.common]) i.common) 0))))
          i.nrows (if i.ndim > 1 then i.shape.getD 1 0 else 1)) out = .ok out' := by
    intro es
    induction es with
    | nil => intro out _; exact ⟨out, rfl⟩
    | cons e rest ih =>
      intro out hsub
      have he := hsub e List.mem_cons_self
      simp only [List.map_cons, List.foldlM_cons, bind, Except.bind]
      have hstep : ∃ out1, scatStep i.ndim (dtFits (some (fitDtype (listMax (i.entries.map (fun e => val0 e.1) ++ [i.common]) i.common)
          (min (listMin (i.entries.map (fun e => val0 e.1) ++ [i.common]) i.common) 0))))
          i.nrows (if i.ndim > 1 then i.shape.getD 1 0 else 1) out (e.1, e.2, val0 e.1) = .ok out1 := by
        unfold scatStep
        have hne : e.2.isEmpty = false := by simpa using h.nonEmpty e he
        have hv := hfit (val0 e.1) (List.mem_append.mpr (Or.inl (List.mem_map.mpr ⟨e, he, rfl⟩)))
        simp only [hne, Bool.false_eq_true, if_false, hv, Bool.not_true]
        obtain ⟨c, hc1, hc2, _⟩ := col_facts i h hnd e he
        have hrange : ¬ (i.ndim > 1 ∧ ((if i.ndim > 1 then e.1.getD 1 0 else 0) < 0 ∨
            (if i.ndim > 1 then e.1.getD 1 0 else 0) ≥ ((if i.ndim > 1 then i.shape.getD 1 0 else 1 : Nat) : Int))) := by
          rintro ⟨_, hbad⟩
          have e1 : (if i.ndim > 1 then e.1.getD 1 0 else 0) = (c : Int) := hc2
          have e2 : (if i.ndim > 1 then i.shape.getD 1 0 else 1 : Nat) = stackWidth i := rfl
          rw [e1, e2] at hbad
          omega
        simp only [hrange, if_false]
        exact scatRows_succeeds _ _ _ _ _ _ (h.inRange e he)
      obtain ⟨out1, h1⟩ := hstep
      rw [h1]
      exact ih out1 (fun x hx => hsub x (List.mem_cons_of_mem _ hx))
  obtain ⟨out', hout⟩ := hfold i.entries _ (fun e he => he)
  rw [hout]
  exact ⟨_, rfl⟩

end Catii.IIdx
