import CatiiProofs.Dict
import CatiiProofs.IIndexBasic
import CatiiProps.C08
/-! `union_update` / `intersection_update` / `difference_update` are entry-wise set algebra on the row-id
sets (C06), by the kernel theorems of C08. Core Lean only. -/
namespace Catii.IIdx
open Catii.Kern Catii.C08

/-- entries whose row ids are strictly increasing (what the kernels require) -/
def RowsSorted (es : List (Key × Rows)) : Prop := ∀ e ∈ es, SSorted e.2

theorem mem_ddel (es : List (Key × Rows)) (k : Key) (e : Key × Rows) : e ∈ ddel es k ↔ e ∈ es ∧ e.1 ≠ k := by
  unfold ddel; simp [List.mem_filter]

theorem ddel_keysDistinct (es : List (Key × Rows)) (hk : KeysDistinct es) (k : Key) : KeysDistinct (ddel es k) :=
  hk.sublist List.filter_sublist

theorem listed_ddel (es : List (Key × Rows)) (k k' : Key) (r : Nat) :
    Listed (ddel es k) k' r ↔ k' ≠ k ∧ Listed es k' r := by
  unfold Listed
  constructor
  · rintro ⟨rows, hm, hr⟩
    obtain ⟨h1, h2⟩ := (mem_ddel es k _).mp hm
    exact ⟨h2, rows, h1, hr⟩
  · rintro ⟨hne, rows, hm, hr⟩
    exact ⟨rows, (mem_ddel es k _).mpr ⟨hm, hne⟩, hr⟩

/-- `set_if(key, value)`: afterwards `key` lists exactly the rows of `value` -/
theorem listed_setIf (es : List (Key × Rows)) (hk : KeysDistinct es) (k : Key) (v : Option Rows) (k' : Key) (r : Nat) :
    Listed (setIf es k v) k' r ↔ (k' = k ∧ ∃ rows, v = some rows ∧ r ∈ rows) ∨ (k' ≠ k ∧ Listed es k' r) := by
  unfold setIf
  match v with
  | none => simp [listed_ddel]
  | some [] => simp [listed_ddel]
  | some (x :: xs) =>
    simp only [listed_dset es hk]
    constructor
    · rintro (⟨h1, h2⟩ | h)
      · exact Or.inl ⟨h1, _, rfl, h2⟩
      · exact Or.inr h
    · rintro (⟨h1, rows, h2, h3⟩ | h)
      · cases h2; exact Or.inl ⟨h1, h3⟩
      · exact Or.inr h

theorem setIf_keysDistinct (es : List (Key × Rows)) (hk : KeysDistinct es) (k : Key) (v : Option Rows) :
    KeysDistinct (setIf es k v) := by
  unfold setIf
  split
  · exact ddel_keysDistinct es hk k
  · exact ddel_keysDistinct es hk k
  · exact dset_keysDistinct es hk _ _

theorem setIf_sorted (es : List (Key × Rows)) (hk : KeysDistinct es) (hs : RowsSorted es) (k : Key) (v : Option Rows)
    (hv : ∀ rows, v = some rows → SSorted rows) : RowsSorted (setIf es k v) := by
  unfold setIf
  split
  · intro e he; exact hs e ((mem_ddel es k e).mp he).1
  · intro e he; exact hs e ((mem_ddel es k e).mp he).1
  · intro e he
    rcases (mem_dset_iff es hk k _ e).mp he with rfl | ⟨h1, _⟩
    · exact hv _ rfl
    · exact hs e h1

def RowsNonEmpty (es : List (Key × Rows)) : Prop := ∀ e ∈ es, e.2 ≠ []

theorem setIf_nonEmpty (es : List (Key × Rows)) (hk : KeysDistinct es) (hne : RowsNonEmpty es) (k : Key)
    (v : Option Rows) : RowsNonEmpty (setIf es k v) := by
  unfold setIf
  split
  · intro e he; exact hne e ((mem_ddel es k e).mp he).1
  · intro e he; exact hne e ((mem_ddel es k e).mp he).1
  · rename_i r hr1 hr2
    intro e he
    rcases (mem_dset_iff es hk k _ e).mp he with rfl | ⟨h1, _⟩
    · intro hnil; exact hr2 (by simpa using hnil)
    · exact hne e h1

theorem dget_sorted (es : List (Key × Rows)) (hs : RowsSorted es) (k : Key) :
    OSorted ((dget es k).map List.toArray) := by
  cases h : dget es k with
  | none => trivial
  | some rows =>
    have := hs _ (dget_some_mem es k rows h)
    simpa [OSorted] using this

theorem omem_dget (es : List (Key × Rows)) (hk : KeysDistinct es) (k : Key) (r : Nat) :
    omem r ((dget es k).map List.toArray) ↔ Listed es k r := by
  cases h : dget es k with
  | none =>
    have := (dget_none_iff es k).mp h
    simp only [Option.map_none, omem, false_iff]
    rintro ⟨rows, hm, _⟩
    exact this _ hm rfl
  | some rows =>
    simp only [Option.map_some, omem, List.toList_toArray]
    constructor
    · intro hr; exact ⟨rows, dget_some_mem es k rows h, hr⟩
    · rintro ⟨rows', hm, hr⟩
      have := dget_of_mem es hk _ hm
      simp only at this
      rw [h] at this; cases this
      exact hr

/-- one step of any of the three updates, given the kernel wrapper's contract -/
theorem step_spec (es : List (Key × Rows)) (hk : KeysDistinct es) (hs : RowsSorted es) (k : Key) (rows : Rows)
    (res : Option (Array Nat)) (hres : OSorted res) (P : Prop → Prop → Prop)
    (hmem : ∀ x, omem x res ↔ P (omem x ((dget es k).map List.toArray)) (x ∈ rows)) :
    KeysDistinct (setIf es k (res.map Array.toList)) ∧ RowsSorted (setIf es k (res.map Array.toList)) ∧
      ∀ k' r, Listed (setIf es k (res.map Array.toList)) k' r ↔
        (k' = k ∧ P (Listed es k r) (r ∈ rows)) ∨ (k' ≠ k ∧ Listed es k' r) := by
  refine ⟨setIf_keysDistinct es hk _ _, setIf_sorted es hk hs _ _ ?_, fun k' r => ?_⟩
  · intro rs hrs
    cases res with
    | none => simp at hrs
    | some a => simp at hrs; subst hrs; exact hres
  · rw [listed_setIf es hk]
    have : (∃ rs, res.map Array.toList = some rs ∧ r ∈ rs) ↔ omem r res := by
      cases res with
      | none => simp [omem]
      | some a => simp [omem]
    rw [this, hmem r, omem_dget es hk]

/-- what is listed after folding one of the updates over `other`, entry by entry -/
def listedAfter (P : Prop → Prop → Prop) : List (Key × Rows) → (Key → Nat → Prop) → Key → Nat → Prop
  | [], L, k, r => L k r
  | (k0, rows) :: rest, L, k, r =>
    listedAfter P rest (fun k' r' => (k' = k0 ∧ P (L k0 r') (r' ∈ rows)) ∨ (k' ≠ k0 ∧ L k' r')) k r

theorem listedAfter_congr (P : Prop → Prop → Prop) (other : List (Key × Rows)) (L L' : Key → Nat → Prop)
    (h : ∀ k r, L k r ↔ L' k r) (k : Key) (r : Nat) : listedAfter P other L k r ↔ listedAfter P other L' k r := by
  induction other generalizing L L' with
  | nil => exact h k r
  | cons e rest ih =>
    obtain ⟨k0, rows⟩ := e
    simp only [listedAfter]
    apply ih
    intro k' r'
    rw [h k0 r', h k' r']

theorem fold_spec (W : Option (Array Nat) → Option (Array Nat) → Kern.M (Option (Array Nat)))
    (P : Prop → Prop → Prop)
    (hW : ∀ l rows, OSorted l → SSorted rows →
      ∃ res, W l (some rows.toArray) = .ok res ∧ OSorted res ∧ ∀ x, omem x res ↔ P (omem x l) (x ∈ rows))
    (other es : List (Key × Rows)) (hk : KeysDistinct es) (hs : RowsSorted es) (ho : RowsSorted other) :
    ∃ es', other.foldlM (fun es (e : Key × Rows) => do
        let r ← liftK (W ((dget es e.1).map List.toArray) (some e.2.toArray))
        pure (setIf es e.1 (r.map Array.toList))) es = .ok es' ∧
      KeysDistinct es' ∧ RowsSorted es' ∧ (RowsNonEmpty es → RowsNonEmpty es') ∧
      ∀ k r, Listed es' k r ↔ listedAfter P other (Listed es) k r := by
  induction other generalizing es with
  | nil => exact ⟨es, rfl, hk, hs, id, fun k r => Iff.rfl⟩
  | cons e rest ih =>
    obtain ⟨k0, rows⟩ := e
    obtain ⟨res, hrun, hsr, hmem⟩ := hW ((dget es k0).map List.toArray) rows (dget_sorted es hs k0)
      (ho _ List.mem_cons_self)
    obtain ⟨h1, h2, h3⟩ := step_spec es hk hs k0 rows res hsr P hmem
    obtain ⟨es', hrun', hk', hs', hne', hl'⟩ := ih _ h1 h2 (fun e he => ho e (List.mem_cons_of_mem _ he))
    refine ⟨es', ?_, hk', hs', fun hne => hne' (setIf_nonEmpty es hk hne _ _), fun k r => ?_⟩
    · simp only [List.foldlM_cons, bind, Except.bind, hrun, liftK, pure, Except.pure]
      exact hrun'
    · rw [hl' k r]
      simp only [listedAfter]
      apply listedAfter_congr
      intro k' r'
      exact h3 k' r'

/-- folding a union: everything listed before or in `other` -/
theorem listedAfter_union (other : List (Key × Rows)) (L : Key → Nat → Prop) (k : Key) (r : Nat) :
    listedAfter (· ∨ ·) other L k r ↔ L k r ∨ Listed other k r := by
  induction other generalizing L with
  | nil => simp [listedAfter, Listed]
  | cons e rest ih =>
    obtain ⟨k0, rows⟩ := e
    simp only [listedAfter]
    rw [ih]
    unfold Listed
    constructor
    · rintro ((⟨rfl, h | h⟩ | ⟨_, h⟩) | ⟨rs, hm, hr⟩)
      · exact Or.inl h
      · exact Or.inr ⟨rows, List.mem_cons_self, h⟩
      · exact Or.inl h
      · exact Or.inr ⟨rs, List.mem_cons_of_mem _ hm, hr⟩
    · rintro (h | ⟨rs, hm, hr⟩)
      · by_cases hkk : k = k0
        · subst hkk; exact Or.inl (Or.inl ⟨rfl, Or.inl h⟩)
        · exact Or.inl (Or.inr ⟨hkk, h⟩)
      · rcases List.mem_cons.mp hm with heq | hm
        · cases heq; exact Or.inl (Or.inl ⟨rfl, Or.inr hr⟩)
        · exact Or.inr ⟨rs, hm, hr⟩

/-- folding a difference: what was listed and is not listed in `other` -/
theorem listedAfter_diff (other : List (Key × Rows)) (L : Key → Nat → Prop) (k : Key) (r : Nat) :
    listedAfter (fun a b => a ∧ ¬ b) other L k r ↔ L k r ∧ ¬ Listed other k r := by
  induction other generalizing L with
  | nil => simp [listedAfter, Listed]
  | cons e rest ih =>
    obtain ⟨k0, rows⟩ := e
    simp only [listedAfter]
    rw [ih]
    unfold Listed
    constructor
    · rintro ⟨(⟨rfl, h, hn⟩ | ⟨hne, h⟩), hrest⟩
      · refine ⟨h, ?_⟩
        rintro ⟨rs, hm, hr⟩
        rcases List.mem_cons.mp hm with heq | hm
        · cases heq; exact hn hr
        · exact hrest ⟨rs, hm, hr⟩
      · refine ⟨h, ?_⟩
        rintro ⟨rs, hm, hr⟩
        rcases List.mem_cons.mp hm with heq | hm
        · cases heq; exact hne rfl
        · exact hrest ⟨rs, hm, hr⟩
    · rintro ⟨h, hn⟩
      refine ⟨?_, fun ⟨rs, hm, hr⟩ => hn ⟨rs, List.mem_cons_of_mem _ hm, hr⟩⟩
      by_cases hkk : k = k0
      · subst hkk
        exact Or.inl ⟨rfl, h, fun hr => hn ⟨rows, List.mem_cons_self, hr⟩⟩
      · exact Or.inr ⟨hkk, h⟩

/-- folding an intersection over a dictionary (distinct keys): keys of `other` keep the common rows, other
keys are untouched -/
theorem listedAfter_inter (other : List (Key × Rows)) (hd : KeysDistinct other) (L : Key → Nat → Prop)
    (k : Key) (r : Nat) :
    listedAfter (· ∧ ·) other L k r ↔ L k r ∧ ((∃ rs, (k, rs) ∈ other) → Listed other k r) := by
  induction other generalizing L with
  | nil => simp [listedAfter]
  | cons e rest ih =>
    obtain ⟨k0, rows⟩ := e
    have hd' := List.pairwise_cons.mp hd
    simp only [listedAfter]
    rw [ih hd'.2]
    unfold Listed
    constructor
    · rintro ⟨(⟨rfl, h, hr⟩ | ⟨hne, h⟩), hrest⟩
      · exact ⟨h, fun _ => ⟨rows, List.mem_cons_self, hr⟩⟩
      · refine ⟨h, ?_⟩
        rintro ⟨rs, hm⟩
        rcases List.mem_cons.mp hm with heq | hm
        · cases heq; exact absurd rfl hne
        · obtain ⟨rs', hm', hr'⟩ := hrest ⟨rs, hm⟩
          exact ⟨rs', List.mem_cons_of_mem _ hm', hr'⟩
    · rintro ⟨h, himp⟩
      by_cases hkk : k = k0
      · subst hkk
        obtain ⟨rs, hm, hr⟩ := himp ⟨rows, List.mem_cons_self⟩
        have hrs : rs = rows := by
          rcases List.mem_cons.mp hm with heq | hm
          · cases heq; rfl
          · exact absurd rfl (hd'.1 (k, rs) hm)
        subst hrs
        refine ⟨Or.inl ⟨rfl, h, hr⟩, ?_⟩
        rintro ⟨rs', hm'⟩
        exact absurd rfl (hd'.1 (k, rs') hm')
      · refine ⟨Or.inr ⟨hkk, h⟩, ?_⟩
        rintro ⟨rs, hm⟩
        obtain ⟨rs', hm', hr'⟩ := himp ⟨rs, List.mem_cons_of_mem _ hm⟩
        rcases List.mem_cons.mp hm' with heq | hm'
        · cases heq; exact absurd rfl hkk
        · exact ⟨rs', hm', hr'⟩

theorem omem_toArray (rows : Rows) (x : Nat) : omem x (some rows.toArray) ↔ x ∈ rows := by simp [omem]

theorem osorted_toArray (rows : Rows) (h : SSorted rows) : OSorted (some rows.toArray) := by simpa [OSorted] using h

/-- **`union_update(entries)`**: every key afterwards lists the union of what it listed and what `entries` lists -/
theorem unionUpdate_spec (i : IIndex) (other : List (Key × Rows)) (hk : KeysDistinct i.entries)
    (hs : RowsSorted i.entries) (ho : RowsSorted other) :
    ∃ res, unionUpdate i other = .ok res ∧ res.common = i.common ∧ res.shape = i.shape ∧
      KeysDistinct res.entries ∧ RowsSorted res.entries ∧ (RowsNonEmpty i.entries → RowsNonEmpty res.entries) ∧
      ∀ k r, Listed res.entries k r ↔ Listed i.entries k r ∨ Listed other k r := by
  obtain ⟨es', hrun, hk', hs', hne', hl⟩ := fold_spec Kern.unionW (· ∨ ·)
    (fun l rows hl hr => by
      obtain ⟨res, h1, h2, h3, _⟩ := union_wrapper l (some rows.toArray) hl (osorted_toArray rows hr)
      exact ⟨res, h1, h2, fun x => by rw [h3 x, omem_toArray]⟩)
    other i.entries hk hs ho
  refine ⟨{ i with entries := es' }, ?_, rfl, rfl, hk', hs', hne', fun k r => ?_⟩
  · unfold unionUpdate
    simp only [bind, Except.bind, pure, Except.pure] at hrun ⊢
    rw [hrun]
  · rw [hl k r, listedAfter_union]

/-- **`difference_update(entries)`**: every key afterwards lists what it listed minus what `entries` lists -/
theorem differenceUpdate_spec (i : IIndex) (other : List (Key × Rows)) (hk : KeysDistinct i.entries)
    (hs : RowsSorted i.entries) (ho : RowsSorted other) :
    ∃ res, differenceUpdate i other = .ok res ∧ res.common = i.common ∧ res.shape = i.shape ∧
      KeysDistinct res.entries ∧ RowsSorted res.entries ∧ (RowsNonEmpty i.entries → RowsNonEmpty res.entries) ∧
      ∀ k r, Listed res.entries k r ↔ Listed i.entries k r ∧ ¬ Listed other k r := by
  obtain ⟨es', hrun, hk', hs', hne', hl⟩ := fold_spec Kern.differenceW (fun a b => a ∧ ¬ b)
    (fun l rows hl hr => by
      obtain ⟨res, h1, h2, h3, _⟩ := difference_wrapper l (some rows.toArray) hl (osorted_toArray rows hr)
      exact ⟨res, h1, h2, fun x => by rw [h3 x, omem_toArray]⟩)
    other i.entries hk hs ho
  refine ⟨{ i with entries := es' }, ?_, rfl, rfl, hk', hs', hne', fun k r => ?_⟩
  · unfold differenceUpdate
    simp only [bind, Except.bind, pure, Except.pure] at hrun ⊢
    rw [hrun]
  · rw [hl k r, listedAfter_diff]

/-- **`intersection_update(entries)`** (`entries` a dictionary): keys absent from `entries` are dropped, the
others keep the rows listed on both sides -/
theorem intersectionUpdate_spec (i : IIndex) (other : List (Key × Rows)) (hk : KeysDistinct i.entries)
    (hs : RowsSorted i.entries) (ho : RowsSorted other) (hd : KeysDistinct other) :
    ∃ res, intersectionUpdate i other = .ok res ∧ res.common = i.common ∧ res.shape = i.shape ∧
      KeysDistinct res.entries ∧ RowsSorted res.entries ∧ (RowsNonEmpty i.entries → RowsNonEmpty res.entries) ∧
      ∀ k r, Listed res.entries k r ↔ Listed i.entries k r ∧ Listed other k r := by
  have hk0 : KeysDistinct (i.entries.filter (fun e => dhas other e.1)) := hk.sublist List.filter_sublist
  have hs0 : RowsSorted (i.entries.filter (fun e => dhas other e.1)) := fun e he => hs e (List.mem_filter.mp he).1
  obtain ⟨es', hrun, hk', hs', hne', hl⟩ := fold_spec Kern.intersectionW (· ∧ ·)
    (fun l rows hl hr => by
      obtain ⟨res, h1, h2, h3, _⟩ := intersection_wrapper l (some rows.toArray) hl (osorted_toArray rows hr)
      exact ⟨res, h1, h2, fun x => by rw [h3 x, omem_toArray]⟩)
    other _ hk0 hs0 ho
  refine ⟨{ i with entries := es' }, ?_, rfl, rfl, hk', hs', (fun hne => hne' (fun e he => hne e (List.mem_filter.mp he).1)), fun k r => ?_⟩
  · unfold intersectionUpdate
    simp only [bind, Except.bind, pure, Except.pure] at hrun ⊢
    rw [hrun]
  · rw [hl k r, listedAfter_inter other hd]
    have hhas : ∀ k, dhas other k = true ↔ ∃ rs, (k, rs) ∈ other := by
      intro k
      unfold dhas
      simp only [List.any_eq_true, beq_iff_eq]
      constructor
      · rintro ⟨e, he, rfl⟩; exact ⟨e.2, he⟩
      · rintro ⟨rs, hm⟩; exact ⟨_, hm, rfl⟩
    unfold Listed
    constructor
    · rintro ⟨⟨rs, hm, hr⟩, himp⟩
      obtain ⟨h1, h2⟩ := List.mem_filter.mp hm
      exact ⟨⟨rs, h1, hr⟩, himp ((hhas k).mp h2)⟩
    · rintro ⟨⟨rs, hm, hr⟩, ⟨rs', hm', hr'⟩⟩
      exact ⟨⟨rs, List.mem_filter.mpr ⟨hm, (hhas k).mpr ⟨rs', hm'⟩⟩, hr⟩, fun _ => ⟨rs', hm', hr'⟩⟩

/-! ### well-formedness after a set update -/

/-- a result whose listed cells all come, key by key, from well-formed sources is well-formed -/
theorem wf_of_listed (i res : IIndex) (h : WF i) (hc : res.common = i.common) (hs : res.shape = i.shape)
    (hk : KeysDistinct res.entries) (hsr : RowsSorted res.entries) (hne : RowsNonEmpty res.entries)
    (src : Key → Nat → Prop)
    (hsrc : ∀ k r, Listed res.entries k r → src k r)
    (harity : ∀ k r, src k r → k.length = i.ndim ∧ val0 k ≠ i.common ∧ r < i.nrows ∧ k.drop 1 ∈ hiCells (i.shape.drop 1))
    (hexcl : ∀ k1 k2 r, src k1 r → src k2 r → k1.drop 1 = k2.drop 1 → val0 k1 = val0 k2) : WF res := by
  have hfacts : ∀ e ∈ res.entries, ∃ r ∈ e.2, src e.1 r := by
    intro e he
    obtain ⟨r, hr⟩ := List.exists_mem_of_ne_nil e.2 (hne e he)
    exact ⟨r, hr, hsrc e.1 r ⟨e.2, he, hr⟩⟩
  refine ⟨hk, ?_, ?_, ?_, hne, hsr, ?_, ?_, ?_⟩
  · intro e he
    obtain ⟨r, _, hs'⟩ := hfacts e he
    show e.1.length = res.shape.length
    rw [hs]; exact (harity e.1 r hs').1
  · show 0 < res.shape.length
    rw [hs]; exact h.ndimPos
  · intro e he
    obtain ⟨r, _, hs'⟩ := hfacts e he
    rw [hc]; exact (harity e.1 r hs').2.1
  · intro e he r hr
    show r < res.shape.headD 0
    rw [hs]; exact (harity e.1 r (hsrc e.1 r ⟨e.2, he, hr⟩)).2.2.1
  · intro e he
    obtain ⟨r, _, hs'⟩ := hfacts e he
    rw [hs]; exact (harity e.1 r hs').2.2.2
  · intro e he f hf hef r hre hrf
    exact hexcl e.1 f.1 r (hsrc e.1 r ⟨e.2, he, hre⟩) (hsrc f.1 r ⟨f.2, hf, hrf⟩) hef

theorem wf_rows (i : IIndex) (h : WF i) : RowsSorted i.entries ∧ RowsNonEmpty i.entries := ⟨h.sorted, h.nonEmpty⟩

theorem listed_facts (i : IIndex) (h : WF i) (k : Key) (r : Nat) (hl : Listed i.entries k r) :
    k.length = i.ndim ∧ val0 k ≠ i.common ∧ r < i.nrows ∧ k.drop 1 ∈ hiCells (i.shape.drop 1) := by
  obtain ⟨rows, hm, hr⟩ := hl
  exact ⟨h.arity _ hm, h.noCommon _ hm, h.inRange _ hm r hr, h.hiRange _ hm⟩

theorem listed_excl (i : IIndex) (h : WF i) (k1 k2 : Key) (r : Nat) (h1 : Listed i.entries k1 r)
    (h2 : Listed i.entries k2 r) (hhi : k1.drop 1 = k2.drop 1) : val0 k1 = val0 k2 := by
  obtain ⟨rows1, hm1, hr1⟩ := h1
  obtain ⟨rows2, hm2, hr2⟩ := h2
  exact h.exclusive _ hm1 _ hm2 hhi r hr1 hr2

/-- `difference_update` and `intersection_update` only remove rows: the result stays well-formed -/
theorem differenceUpdate_wf (i : IIndex) (other : List (Key × Rows)) (h : WF i) (ho : RowsSorted other) :
    ∃ res, differenceUpdate i other = .ok res ∧ WF res := by
  obtain ⟨res, hrun, hc, hs, hk, hsr, hne, hl⟩ := differenceUpdate_spec i other h.keys h.sorted ho
  refine ⟨res, hrun, wf_of_listed i res h hc hs hk hsr (hne h.nonEmpty) (Listed i.entries)
    (fun k r hh => ((hl k r).mp hh).1) (listed_facts i h) (listed_excl i h)⟩

theorem intersectionUpdate_wf (i : IIndex) (other : List (Key × Rows)) (h : WF i) (ho : RowsSorted other)
    (hd : KeysDistinct other) : ∃ res, intersectionUpdate i other = .ok res ∧ WF res := by
  obtain ⟨res, hrun, hc, hs, hk, hsr, hne, hl⟩ := intersectionUpdate_spec i other h.keys h.sorted ho hd
  refine ⟨res, hrun, wf_of_listed i res h hc hs hk hsr (hne h.nonEmpty) (Listed i.entries)
    (fun k r hh => ((hl k r).mp hh).1) (listed_facts i h) (listed_excl i h)⟩

/-- `union_update` keeps the index well-formed when what it adds fits the shape, avoids the common value and
assigns no cell a second value (neither against the receiver nor within the argument) -/
theorem unionUpdate_wf (i : IIndex) (other : List (Key × Rows)) (h : WF i) (ho : RowsSorted other)
    (hfit : ∀ k r, Listed other k r →
      k.length = i.ndim ∧ val0 k ≠ i.common ∧ r < i.nrows ∧ k.drop 1 ∈ hiCells (i.shape.drop 1))
    (hone : ∀ k1 k2 r, (Listed i.entries k1 r ∨ Listed other k1 r) → (Listed i.entries k2 r ∨ Listed other k2 r) →
      k1.drop 1 = k2.drop 1 → val0 k1 = val0 k2) :
    ∃ res, unionUpdate i other = .ok res ∧ WF res := by
  obtain ⟨res, hrun, hc, hs, hk, hsr, hne, hl⟩ := unionUpdate_spec i other h.keys h.sorted ho
  refine ⟨res, hrun, wf_of_listed i res h hc hs hk hsr (hne h.nonEmpty)
    (fun k r => Listed i.entries k r ∨ Listed other k r)
    (fun k r hh => (hl k r).mp hh) ?_ hone⟩
  rintro k r (h1 | h1)
  · exact listed_facts i h k r h1
  · exact hfit k r h1

end Catii.IIdx
