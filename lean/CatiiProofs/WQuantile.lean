import CatiiProofs.StatsProofs
/-! The weighted quantile lies between the smallest and the largest value of its cell (C18). -/
namespace Catii.Stats

/-- prefix sums of the weights -/
def psum (w : List ℚ) (k : ℕ) : ℚ := (w.take k).sum

theorem psum_succ (w : List ℚ) (k : ℕ) (hk : k < w.length) : psum w (k + 1) = psum w k + w.getD k 0 := by
  unfold psum
  induction w generalizing k with
  | nil => simp at hk
  | cons x xs ih =>
    cases k with
    | zero => simp
    | succ j =>
      simp only [List.length_cons, Nat.add_lt_add_iff_right] at hk
      simp only [List.take_succ_cons, List.sum_cons, List.getD_cons_succ]
      rw [ih j hk]; ring

theorem cumsum_getD (w : List ℚ) (k : ℕ) (hk : k < w.length) : (cumsum w).getD k 0 = psum w (k + 1) := by
  induction w generalizing k with
  | nil => simp at hk
  | cons x xs ih =>
    cases k with
    | zero => simp [cumsum, psum]
    | succ j =>
      simp only [List.length_cons, Nat.add_lt_add_iff_right] at hk
      have hj : j < (cumsum xs).length := by rw [cumsum_length]; exact hk
      have := ih j hk
      rw [List.getD_eq_getElem?_getD, List.getElem?_eq_getElem hj, Option.getD_some] at this
      simp only [cumsum, List.getD_eq_getElem?_getD, List.getElem?_cons_succ, List.getElem?_map]
      rw [List.getElem?_eq_getElem hj]
      simp only [Option.map_some, Option.getD_some]
      rw [this]
      unfold psum
      simp only [List.take_succ_cons, List.sum_cons]
      ring

theorem cumsum_last (w : List ℚ) (hne : w ≠ []) : (cumsum w).getLastD 0 = psum w w.length := by
  have hl : 0 < w.length := List.length_pos_of_ne_nil hne
  have h1 : (cumsum w).getLastD 0 = (cumsum w).getD (w.length - 1) 0 := by
    rw [List.getLastD_eq_getLast?, List.getLast?_eq_getElem?, cumsum_length, List.getD_eq_getElem?_getD]
  rw [h1, cumsum_getD w (w.length - 1) (by omega)]
  congr 1; omega

theorem cumsum_pos (w : List ℚ) (hw : ∀ x ∈ w, 0 < x) : ∀ c ∈ cumsum w, 0 < c := by
  induction w with
  | nil => simp [cumsum]
  | cons x xs ih =>
    intro c hc
    simp only [cumsum, List.mem_cons, List.mem_map] at hc
    have hx : 0 < x := hw x List.mem_cons_self
    rcases hc with rfl | ⟨d, hd, rfl⟩
    · exact hx
    · have := ih (fun y hy => hw y (List.mem_cons_of_mem _ hy)) d hd
      linarith

theorem cumsum_sorted (w : List ℚ) (hw : ∀ x ∈ w, 0 < x) : (cumsum w).Pairwise (· < ·) := by
  induction w with
  | nil => simp [cumsum]
  | cons x xs ih =>
    have hxs : ∀ y ∈ xs, 0 < y := fun y hy => hw y (List.mem_cons_of_mem _ hy)
    simp only [cumsum]
    apply List.pairwise_cons.mpr
    constructor
    · intro c hc
      obtain ⟨d, hd, rfl⟩ := List.mem_map.mp hc
      have := cumsum_pos xs hxs d hd
      linarith
    · exact (ih hxs).map _ (fun a b hab => by linarith)

/-- `numpy.digitize(x, l)` on an increasing list: everything before the returned position is `≤ x`, the element at
it (if any) is `> x` -/
theorem digitize_spec (l : List ℚ) (hs : l.Pairwise (· < ·)) (x : ℚ) :
    (∀ k, k < (l.filter (· ≤ x)).length → l.getD k 0 ≤ x) ∧
    ((l.filter (· ≤ x)).length < l.length → x < l.getD (l.filter (· ≤ x)).length 0) := by
  induction l with
  | nil => simp
  | cons y ys ih =>
    obtain ⟨hy, hys⟩ := List.pairwise_cons.mp hs
    obtain ⟨i1, i2⟩ := ih hys
    by_cases hyx : y ≤ x
    · have hf : ((y :: ys).filter (· ≤ x)) = y :: ys.filter (· ≤ x) := by simp [List.filter_cons, hyx]
      rw [hf]
      constructor
      · intro k hk
        cases k with
        | zero => simpa using hyx
        | succ j =>
          simp only [List.length_cons, Nat.add_lt_add_iff_right] at hk
          simpa using i1 j hk
      · intro hlt
        simp only [List.length_cons, Nat.add_lt_add_iff_right] at hlt
        simpa using i2 hlt
    · have hall : ys.filter (· ≤ x) = [] := by
        apply List.filter_eq_nil_iff.mpr
        intro z hz
        have := hy z hz
        simp only [decide_eq_true_eq, not_le]
        linarith [not_le.mp hyx]
      have hf : ((y :: ys).filter (· ≤ x)) = [] := by simp [List.filter_cons, hyx, hall]
      rw [hf]
      constructor
      · intro k hk; simp at hk
      · intro _; simpa using not_le.mp hyx

theorem sorted_getD (a : List ℚ) (hs : a.Pairwise (· ≤ ·)) (i j : ℕ) (hij : i ≤ j) (hj : j < a.length) :
    a.getD i 0 ≤ a.getD j 0 := by
  have hi : i < a.length := by omega
  rw [List.getD_eq_getElem?_getD, List.getD_eq_getElem?_getD, List.getElem?_eq_getElem hi,
    List.getElem?_eq_getElem hj, Option.getD_some, Option.getD_some]
  rcases Nat.lt_or_eq_of_le hij with h | h
  · exact List.pairwise_iff_getElem.mp hs i j hi hj h
  · subst h; exact le_refl _

theorem getD_pos (w : List ℚ) (hw : ∀ x ∈ w, 0 < x) (k : ℕ) (hk : k < w.length) : 0 < w.getD k 0 := by
  rw [List.getD_eq_getElem?_getD, List.getElem?_eq_getElem hk, Option.getD_some]
  exact hw _ (List.getElem_mem hk)

/-- **the weighted quantile of sorted values with positive weights lies between the first and the last value** -/
theorem wqCore_in_range (p : ℚ) (hp0 : 0 ≤ p) (hp1 : p ≤ 1) (a w : List ℚ) (hlen : a.length = w.length)
    (hne : w ≠ []) (hs : a.Pairwise (· ≤ ·)) (hw : ∀ x ∈ w, 0 < x) :
    a.getD 0 0 ≤ wqCore p a w ∧ wqCore p a w ≤ a.getD (a.length - 1) 0 := by
  have hN : 0 < w.length := List.length_pos_of_ne_nil hne
  unfold wqCore
  simp only
  rw [cumsum_last w hne]
  have htot : 0 < psum w w.length := by
    have h1 := cumsum_getD w (w.length - 1) (by omega)
    have h2 : w.length - 1 + 1 = w.length := by omega
    rw [h2] at h1
    rw [← h1]
    have hm : (cumsum w).getD (w.length - 1) 0 ∈ cumsum w := by
      have hl : w.length - 1 < (cumsum w).length := by rw [cumsum_length]; omega
      rw [List.getD_eq_getElem?_getD, List.getElem?_eq_getElem hl, Option.getD_some]
      exact List.getElem_mem hl
    exact cumsum_pos w hw _ hm
  obtain ⟨d1, d2⟩ := digitize_spec (cumsum w) (cumsum_sorted w hw) (p * psum w w.length)
  have hrle : ((cumsum w).filter (· ≤ p * psum w w.length)).length ≤ w.length := by
    rw [← cumsum_length w]; exact List.length_filter_le _ _
  rw [cumsum_length] at d2
  generalize ((cumsum w).filter (· ≤ p * psum w w.length)).length = right at d1 d2 hrle
  have hprob : p * psum w w.length ≤ psum w w.length := by nlinarith
  have hfirst_last : a.getD 0 0 ≤ a.getD (a.length - 1) 0 := sorted_getD a hs 0 _ (by omega) (by omega)
  cases right with
  | zero =>
    have hlt := d2 hN
    have hneg : p * psum w w.length - (cumsum w).getD (0 - 1) 0 < 0 := by
      simp only [Nat.zero_sub]; linarith
    rw [if_pos hneg]
    simp only [Nat.zero_sub, zero_div, zero_mul, add_zero]
    exact ⟨le_refl _, hfirst_last⟩
  | succ r =>
    have hr : r < w.length := by omega
    have hle := d1 r (by omega)
    have hnn : ¬ p * psum w w.length - (cumsum w).getD (r + 1 - 1) 0 < 0 := by
      simp only [Nat.add_sub_cancel]; linarith
    rw [if_neg hnn]
    simp only [Nat.add_sub_cancel]
    rw [cumsum_getD w r hr] at hle ⊢
    by_cases hlast : r + 1 < w.length
    · have hmin : min (r + 1) (w.length - 1) = r + 1 := by omega
      rw [hmin]
      have hwp := getD_pos w hw (r + 1) hlast
      have hlt := d2 hlast
      rw [cumsum_getD w (r + 1) hlast, psum_succ w (r + 1) hlast] at hlt
      have hf0 : 0 ≤ (p * psum w w.length - psum w (r + 1)) / w.getD (r + 1) 0 :=
        div_nonneg (by linarith) (le_of_lt hwp)
      have hf1 : (p * psum w w.length - psum w (r + 1)) / w.getD (r + 1) 0 ≤ 1 := by
        rw [div_le_iff₀ hwp]; linarith
      generalize (p * psum w w.length - psum w (r + 1)) / w.getD (r + 1) 0 = f at hf0 hf1
      have h01 : a.getD 0 0 ≤ a.getD r 0 := sorted_getD a hs 0 r (by omega) (by omega)
      have h12 : a.getD r 0 ≤ a.getD (r + 1) 0 := sorted_getD a hs r (r + 1) (by omega) (by omega)
      have h23 : a.getD (r + 1) 0 ≤ a.getD (a.length - 1) 0 := sorted_getD a hs (r + 1) _ (by omega) (by omega)
      constructor
      · nlinarith
      · nlinarith
    · have hrN : r + 1 = w.length := by omega
      have hnum : p * psum w w.length - psum w (r + 1) = 0 := by rw [hrN]; rw [hrN] at hle; linarith
      rw [hnum]
      simp only [zero_div, zero_mul, add_zero]
      have : a.length - 1 = r := by omega
      rw [this]
      exact ⟨sorted_getD a hs 0 r (by omega) (by omega), le_refl _⟩

/-- for a cell's valid rows sorted by value, with positive weights and `0 ≤ p ≤ 1`: the weighted quantile is at least
the smallest and at most the largest of the values -/
theorem wquantile_in_range (p : ℚ) (hp0 : 0 ≤ p) (hp1 : p ≤ 1) (xs : List (ℚ × ℚ))
    (hs : (xs.map (·.1)).Pairwise (· ≤ ·)) (hw : ∀ x ∈ xs, 0 < x.2) (q : ℚ) (hq : wquantile p xs = some q) :
    (∀ x ∈ xs, (xs.map (·.1)).getD 0 0 ≤ x.1 ∧ x.1 ≤ (xs.map (·.1)).getD (xs.length - 1) 0) ∧
    (xs.map (·.1)).getD 0 0 ≤ q ∧ q ≤ (xs.map (·.1)).getD (xs.length - 1) 0 := by
  cases xs with
  | nil => simp [wquantile] at hq
  | cons x rest =>
    simp only [wquantile, Option.some.injEq] at hq
    subst hq
    have hne : (x :: rest).map (·.2) ≠ [] := by simp
    have hw' : ∀ y ∈ (x :: rest).map (·.2), 0 < y := by
      intro y hy; obtain ⟨z, hz, rfl⟩ := List.mem_map.mp hy; exact hw z hz
    have := wqCore_in_range p hp0 hp1 ((x :: rest).map (·.1)) ((x :: rest).map (·.2)) (by simp) hne hs hw'
    rw [List.length_map] at this
    refine ⟨fun y hy => ?_, this⟩
    obtain ⟨k, hk, rfl⟩ := List.getElem_of_mem hy
    have hk' : k < ((x :: rest).map (·.1)).length := by rw [List.length_map]; exact hk
    have e : ((x :: rest).map (·.1)).getD k 0 = ((x :: rest)[k]).1 := by
      rw [List.getD_eq_getElem?_getD, List.getElem?_eq_getElem hk', Option.getD_some, List.getElem_map]
    rw [← e]
    constructor
    · exact sorted_getD _ hs 0 k (by omega) hk'
    · have := sorted_getD _ hs k ((x :: rest).length - 1) (by omega) (by rw [List.length_map]; omega)
      exact this

end Catii.Stats
