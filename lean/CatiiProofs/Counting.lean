import CatiiProofs.IIndexShift
/-! How often each value occurs in the dense array, read off the entries (C15): a listed value occurs as
often as rows are listed under it, the common value in all remaining cells. Core Lean only. -/
namespace Catii.IIdx
open Catii.Kern

/-- the cells of the dense array, row-major -/
def cells (i : IIndex) : List (Nat × List Int) :=
  (List.range i.nrows).flatMap fun r => (hiCells (i.shape.drop 1)).map fun hi => (r, hi)

/-- number of cells holding `x` -/
def countCells (i : IIndex) (x : Int) : Nat := (cells i).countP fun c => denseAt i c.1 c.2 == x

theorem denseArr_data (i : IIndex) : (denseArr i).data = (cells i).map fun c => denseAt i c.1 c.2 := by
  unfold denseArr cells
  simp [List.map_flatMap, List.map_map, Function.comp_def]

/-- `countCells` counts occurrences in the dense array `to_array` materialises -/
theorem countCells_eq_count (i : IIndex) (x : Int) : countCells i x = (denseArr i).data.count x := by
  rw [denseArr_data, List.count_eq_countP, List.countP_map]
  rfl

theorem countP_split {α} (p q : α → Bool) (l : List α) :
    l.countP q = l.countP (fun a => p a && q a) + l.countP (fun a => !p a && q a) := by
  induction l with
  | nil => rfl
  | cons a as ih =>
    simp only [List.countP_cons, ih]
    cases p a <;> cases q a <;> simp <;> omega

theorem countP_one_of_pairwise {α} [DecidableEq α] (l : List α) (hd : l.Pairwise (· ≠ ·)) (a : α) (ha : a ∈ l) :
    l.countP (fun b => b == a) = 1 := by
  induction l with
  | nil => simp at ha
  | cons b bs ih =>
    have hd' := List.pairwise_cons.mp hd
    rw [List.countP_cons]
    rcases List.mem_cons.mp ha with rfl | ha'
    · have : bs.countP (fun b => b == a) = 0 := by
        rw [List.countP_eq_zero]
        intro c hc
        simpa using (hd'.1 c hc).symm
      simp [this]
    · have hne : ¬ (b == a) = true := by simpa using hd'.1 a ha'
      simp [hne, ih hd'.2 ha']

/-- strictly increasing row ids below `n` are exactly the rows of `range n` they contain -/
theorem range_filter_eq (n : Nat) (rows : Rows) (hs : SSorted rows) (hr : ∀ r ∈ rows, r < n) :
    (List.range n).filter (fun r => rows.contains r) = rows := by
  apply ssorted_ext
  · exact List.Pairwise.filter _ List.pairwise_lt_range
  · exact hs
  · intro x
    simp only [List.mem_filter, List.mem_range, List.contains_iff_mem]
    exact ⟨fun h => h.2, fun h => ⟨hr x h, h⟩⟩

/-- the cells one entry lists: as many as it has row ids -/
theorem count_entry_cells (i : IIndex) (e : Key × Rows) (hs : SSorted e.2) (hr : ∀ r ∈ e.2, r < i.nrows)
    (hhi : e.1.drop 1 ∈ hiCells (i.shape.drop 1)) :
    (cells i).countP (fun c => e.1.drop 1 == c.2 && e.2.contains c.1) = e.2.length := by
  unfold cells
  rw [List.countP_flatMap]
  have hrow : ∀ r, (List.countP (fun c : Nat × List Int => e.1.drop 1 == c.2 && e.2.contains c.1) ∘
      fun r => (hiCells (i.shape.drop 1)).map fun hi => (r, hi)) r = if e.2.contains r then 1 else 0 := by
    intro r
    simp only [Function.comp, List.countP_map]
    by_cases hc : e.2.contains r = true
    · simp only [hc, if_true]
      have := countP_one_of_pairwise (hiCells (i.shape.drop 1)) (hiCells_nodup _) (e.1.drop 1) hhi
      refine Eq.trans ?_ this
      apply List.countP_congr
      intro hi _
      simp only [Function.comp, hc, Bool.and_true, beq_iff_eq]
      exact eq_comm
    · simp only [hc, Bool.false_eq_true, if_false]
      rw [List.countP_eq_zero]
      intro hi _
      simp only [Function.comp, Bool.and_eq_true, not_and]
      intro _
      exact hc
  rw [List.map_congr_left (fun r _ => hrow r)]
  have : ((List.range i.nrows).map fun r => if e.2.contains r = true then 1 else 0).sum
      = ((List.range i.nrows).filter fun r => e.2.contains r).length := by
    generalize List.range i.nrows = l
    induction l with
    | nil => rfl
    | cons a as ih =>
      rw [List.map_cons, List.sum_cons, ih, List.filter_cons]
      by_cases h : e.2.contains a = true
      · rw [if_pos h, if_pos h, List.length_cons]; omega
      · rw [if_neg h, if_neg h]; omega
  rw [this, range_filter_eq i.nrows e.2 hs hr]

/-- the index with the same shape and common value and the given entries -/
def withEntries (i : IIndex) (es : List (Key × Rows)) : IIndex := ⟨es, i.common, i.shape⟩

theorem cells_withEntries (i : IIndex) (es : List (Key × Rows)) : cells (withEntries i es) = cells i := rfl

/-- entries that can be counted independently: sorted in-range rows, coordinates in the shape, never the
common value, and no cell listed by two of them -/
structure Countable (i : IIndex) (es : List (Key × Rows)) : Prop where
  sorted : ∀ e ∈ es, SSorted e.2
  inRange : ∀ e ∈ es, ∀ r ∈ e.2, r < i.nrows
  hiRange : ∀ e ∈ es, e.1.drop 1 ∈ hiCells (i.shape.drop 1)
  noCommon : ∀ e ∈ es, val0 e.1 ≠ i.common
  disjoint : es.Pairwise fun e f => ¬ (e.1.drop 1 = f.1.drop 1 ∧ ∃ r, r ∈ e.2 ∧ r ∈ f.2)

theorem Countable.tail {i : IIndex} {e : Key × Rows} {rest : List (Key × Rows)} (h : Countable i (e :: rest)) :
    Countable i rest :=
  ⟨fun x hx => h.sorted x (List.mem_cons_of_mem _ hx), fun x hx => h.inRange x (List.mem_cons_of_mem _ hx),
   fun x hx => h.hiRange x (List.mem_cons_of_mem _ hx), fun x hx => h.noCommon x (List.mem_cons_of_mem _ hx),
   (List.pairwise_cons.mp h.disjoint).2⟩

theorem WF.countable {i : IIndex} (h : WF i) : Countable i i.entries := by
  refine ⟨h.sorted, h.inRange, h.hiRange, h.noCommon, ?_⟩
  apply h.keys.imp_of_mem
  intro e f he hf hne
  rintro ⟨hhi, r, hre, hrf⟩
  apply hne
  have hv := h.exclusive e he f hf hhi r hre hrf
  have h1 : 0 < e.1.length := by rw [h.arity e he]; exact h.ndimPos
  have h2 : 0 < f.1.length := by rw [h.arity f hf]; exact h.ndimPos
  rw [key_eq e.1 h1, key_eq f.1 h2, hv, hhi]

def sumLen (es : List (Key × Rows)) : Nat := (es.map (·.2.length)).sum
def sumFor (es : List (Key × Rows)) (x : Int) : Nat := ((es.filter fun e => val0 e.1 == x).map (·.2.length)).sum

theorem denseAt_cons_hit (i : IIndex) (e : Key × Rows) (rest : List (Key × Rows)) (r : Nat) (hi : List Int)
    (h : (e.1.drop 1 == hi && e.2.contains r) = true) :
    denseAt (withEntries i (e :: rest)) r hi = val0 e.1 := by
  unfold denseAt withEntries
  have : List.find? (fun e' : Key × Rows => e'.1.drop 1 == hi && e'.2.contains r) (e :: rest) = some e :=
    List.find?_cons_of_pos (p := fun e' : Key × Rows => e'.1.drop 1 == hi && e'.2.contains r) (l := rest) h
  simp only [this]

theorem denseAt_cons_miss (i : IIndex) (e : Key × Rows) (rest : List (Key × Rows)) (r : Nat) (hi : List Int)
    (h : ¬ (e.1.drop 1 == hi && e.2.contains r) = true) :
    denseAt (withEntries i (e :: rest)) r hi = denseAt (withEntries i rest) r hi := by
  unfold denseAt withEntries
  have : List.find? (fun e' : Key × Rows => e'.1.drop 1 == hi && e'.2.contains r) (e :: rest) =
      List.find? (fun e' : Key × Rows => e'.1.drop 1 == hi && e'.2.contains r) rest :=
    List.find?_cons_of_neg (p := fun e' : Key × Rows => e'.1.drop 1 == hi && e'.2.contains r) (l := rest) h
  simp only [this]

/-- peeling one entry off: its cells move from its value to the common value -/
theorem countCells_cons (i : IIndex) (e : Key × Rows) (rest : List (Key × Rows)) (h : Countable i (e :: rest)) (x : Int) :
    countCells (withEntries i (e :: rest)) x + (if x = i.common then e.2.length else 0) =
      countCells (withEntries i rest) x + (if val0 e.1 = x then e.2.length else 0) := by
  unfold countCells
  rw [cells_withEntries, cells_withEntries]
  let p : Nat × List Int → Bool := fun c => e.1.drop 1 == c.2 && e.2.contains c.1
  have hp : (cells i).countP p = e.2.length :=
    count_entry_cells i e (h.sorted e List.mem_cons_self) (h.inRange e List.mem_cons_self) (h.hiRange e List.mem_cons_self)
  rw [countP_split p (fun c => denseAt (withEntries i (e :: rest)) c.1 c.2 == x),
    countP_split p (fun c => denseAt (withEntries i rest) c.1 c.2 == x)]
  have hcommon : ∀ c, p c = true → denseAt (withEntries i rest) c.1 c.2 = i.common := by
    intro c hc
    have hc' : (e.1.drop 1 == c.2) = true ∧ e.2.contains c.1 = true := Bool.and_eq_true_iff.mp hc
    apply denseAt_of_not_mem
    intro f hf hf1 hf2
    exact (List.pairwise_cons.mp h.disjoint).1 f hf
      ⟨by rw [beq_iff_eq.mp hc'.1, hf1], c.1, List.contains_iff_mem.mp hc'.2, hf2⟩
  -- on the cells of `e`
  have h1 : (cells i).countP (fun c => p c && (denseAt (withEntries i (e :: rest)) c.1 c.2 == x)) =
      if val0 e.1 = x then e.2.length else 0 := by
    by_cases hv : val0 e.1 = x
    · rw [if_pos hv, ← hp]
      apply List.countP_congr
      intro c _
      constructor
      · intro hh; exact (Bool.and_eq_true_iff.mp hh).1
      · intro hc
        exact Bool.and_eq_true_iff.mpr ⟨hc, by rw [denseAt_cons_hit i e rest c.1 c.2 hc]; exact beq_iff_eq.mpr hv⟩
    · rw [if_neg hv, List.countP_eq_zero]
      intro c _ hh
      obtain ⟨hc, hd⟩ := Bool.and_eq_true_iff.mp hh
      rw [denseAt_cons_hit i e rest c.1 c.2 hc] at hd
      exact hv (beq_iff_eq.mp hd)
  have h2 : (cells i).countP (fun c => p c && (denseAt (withEntries i rest) c.1 c.2 == x)) =
      if x = i.common then e.2.length else 0 := by
    by_cases hv : x = i.common
    · rw [if_pos hv, ← hp]
      apply List.countP_congr
      intro c _
      constructor
      · intro hh; exact (Bool.and_eq_true_iff.mp hh).1
      · intro hc
        exact Bool.and_eq_true_iff.mpr ⟨hc, by rw [hcommon c hc]; exact beq_iff_eq.mpr hv.symm⟩
    · rw [if_neg hv, List.countP_eq_zero]
      intro c _ hh
      obtain ⟨hc, hd⟩ := Bool.and_eq_true_iff.mp hh
      rw [hcommon c hc] at hd
      exact hv (beq_iff_eq.mp hd).symm
  have h3 : (cells i).countP (fun c => !p c && (denseAt (withEntries i (e :: rest)) c.1 c.2 == x)) =
      (cells i).countP (fun c => !p c && (denseAt (withEntries i rest) c.1 c.2 == x)) := by
    apply List.countP_congr
    intro c _
    by_cases hc : p c = true
    · simp only [hc, Bool.not_true, Bool.false_and]
    · rw [denseAt_cons_miss i e rest c.1 c.2 hc]
  rw [h1, h2, h3]
  omega

theorem sumLen_cons (e : Key × Rows) (rest : List (Key × Rows)) : sumLen (e :: rest) = e.2.length + sumLen rest := by
  simp [sumLen]

theorem sumFor_cons (e : Key × Rows) (rest : List (Key × Rows)) (x : Int) :
    sumFor (e :: rest) x = (if val0 e.1 = x then e.2.length else 0) + sumFor rest x := by
  unfold sumFor
  by_cases h : val0 e.1 = x
  · have : (val0 e.1 == x) = true := by simpa using h
    simp [List.filter_cons, this, h]
  · have : (val0 e.1 == x) = false := by simpa using h
    simp [List.filter_cons, this, h]

/-- every value's cell count, from the entries alone -/
theorem countCells_total (i : IIndex) (es : List (Key × Rows)) (h : Countable i es) (x : Int) :
    countCells (withEntries i es) x + (if x = i.common then sumLen es else 0) =
      (if x = i.common then (cells i).length else 0) + sumFor es x := by
  induction es with
  | nil =>
    have hd : ∀ r hi, denseAt (withEntries i []) r hi = i.common := fun r hi => by simp [denseAt, withEntries]
    unfold countCells
    rw [cells_withEntries]
    by_cases hx : x = i.common
    · have : (cells i).countP (fun c => denseAt (withEntries i []) c.1 c.2 == x) = (cells i).length := by
        rw [List.countP_eq_length]
        intro c _
        rw [hd]; exact beq_iff_eq.mpr hx.symm
      rw [this, if_pos hx, if_pos hx]
      simp [sumLen, sumFor]
    · have : (cells i).countP (fun c => denseAt (withEntries i []) c.1 c.2 == x) = 0 := by
        rw [List.countP_eq_zero]
        intro c _ hh
        rw [hd] at hh
        exact hx (beq_iff_eq.mp hh).symm
      rw [this, if_neg hx, if_neg hx]
      simp [sumFor]
  | cons e rest ih =>
    have h1 := countCells_cons i e rest h x
    have h2 := ih h.tail
    rw [sumLen_cons, sumFor_cons]
    by_cases hx : x = i.common
    · simp only [hx, if_true] at h1 h2 ⊢
      omega
    · simp only [hx, if_false] at h1 h2 ⊢
      omega

theorem withEntries_self (i : IIndex) : withEntries i i.entries = i := rfl

theorem sumFor_common_zero (i : IIndex) (es : List (Key × Rows)) (h : ∀ e ∈ es, val0 e.1 ≠ i.common) :
    sumFor es i.common = 0 := by
  unfold sumFor
  have : es.filter (fun e => val0 e.1 == i.common) = [] := by
    rw [List.filter_eq_nil_iff]
    intro e he
    simpa using h e he
  simp [this]

/-- a listed value occurs in exactly as many cells as rows are listed under it -/
theorem countCells_listed (i : IIndex) (h : WF i) (x : Int) (hx : x ≠ i.common) :
    countCells i x = sumFor i.entries x := by
  have := countCells_total i i.entries h.countable x
  rw [withEntries_self] at this
  simpa [hx] using this

/-- the common value occupies all remaining cells -/
theorem countCells_common (i : IIndex) (h : WF i) :
    countCells i i.common + sumLen i.entries = (cells i).length := by
  have := countCells_total i i.entries h.countable i.common
  rw [withEntries_self, sumFor_common_zero i i.entries h.noCommon] at this
  simpa using this

theorem hiCells_card (shape : List Nat) : (hiCells shape).length = prod shape := by
  induction shape with
  | nil => simp [hiCells, prod]
  | cons n ns ih =>
    have hprod : prod (n :: ns) = n * prod ns := by
      unfold prod
      simp only [List.foldl_cons, Nat.one_mul]
      have gen : ∀ (l : List Nat) (a : Nat), l.foldl (· * ·) a = a * l.foldl (· * ·) 1 := by
        intro l
        induction l with
        | nil => intro a; simp
        | cons b bs ihb =>
          intro a
          simp only [List.foldl_cons, Nat.one_mul]
          rw [ihb (a * b), ihb b, Nat.mul_assoc]
      exact gen ns n
    simp only [hiCells, List.length_flatMap, List.length_map, ih, hprod]
    generalize prod ns = m
    have : ∀ k, ((List.range k).map fun _ => m).sum = k * m := by
      intro k
      induction k with
      | zero => simp
      | succ k ihk => rw [List.range_succ, List.map_append, List.sum_append, ihk]; simp [Nat.succ_mul]
    exact this n

theorem cells_card (i : IIndex) (hpos : 0 < i.ndim) : (cells i).length = i.size := by
  unfold cells
  rw [List.length_flatMap]
  simp only [List.length_map, hiCells_card]
  have : ∀ k m, ((List.range k).map fun _ => m).sum = k * m := by
    intro k m
    induction k with
    | zero => simp
    | succ k ihk => rw [List.range_succ, List.map_append, List.sum_append, ihk]; simp [Nat.succ_mul]
  rw [this]
  unfold IIndex.size IIndex.nrows IIndex.ndim at *
  match hs : i.shape with
  | [] => rw [hs] at hpos; simp at hpos
  | n :: ns =>
    simp only [List.headD_cons, List.drop_succ_cons, List.drop_zero]
    unfold prod
    simp only [List.foldl_cons, Nat.one_mul]
    have gen : ∀ (l : List Nat) (a : Nat), l.foldl (· * ·) a = a * l.foldl (· * ·) 1 := by
      intro l
      induction l with
      | nil => intro a; simp
      | cons b bs ihb =>
        intro a
        simp only [List.foldl_cons, Nat.one_mul]
        rw [ihb (a * b), ihb b, Nat.mul_assoc]
    exact (gen ns n).symm

/-! ### the counter `shift_common()` builds -/

abbrev CKeys (cs : List (Int × Int)) : Prop := cs.Pairwise fun a b => a.1 ≠ b.1

theorem lookup_cadd (cs : List (Int × Int)) (k n k' : Int) :
    lookup (cadd cs k n) k' = if k' = k then some ((lookup cs k).getD 0 + n) else lookup cs k' := by
  induction cs with
  | nil =>
    by_cases h : k' = k
    · subst h; simp [cadd, lookup]
    · have : (k == k') = false := by simpa using fun heq => h heq.symm
      simp [cadd, lookup, h, this]
  | cons c rest ih =>
    simp only [cadd]
    by_cases hc : c.1 = k
    · have hc' : (c.1 == k) = true := by simpa using hc
      simp only [hc', if_true]
      by_cases h : k' = k
      · subst h; simp [lookup, hc]
      · have h1 : (k == k') = false := by simpa using fun heq => h heq.symm
        have h2 : (c.1 == k') = false := by rw [hc]; exact h1
        simp [lookup, h, h1, h2]
    · have hc' : (c.1 == k) = false := by simpa using hc
      simp only [hc', Bool.false_eq_true, if_false]
      by_cases hck : c.1 = k'
      · have : (c.1 == k') = true := by simpa using hck
        have hne : k' ≠ k := by rw [← hck]; exact hc
        simp [lookup, this, hne]
      · have : (c.1 == k') = false := by simpa using hck
        have ih' := ih
        unfold lookup at ih' ⊢
        simp only [List.find?_cons, this]
        have hcc : (c.1 == k) = false := hc'
        simp only [hcc] at ih' ⊢
        exact ih'

theorem lookup_cset (cs : List (Int × Int)) (k n k' : Int) :
    lookup (cset cs k n) k' = if k' = k then some n else lookup cs k' := by
  induction cs with
  | nil =>
    by_cases h : k' = k
    · subst h; simp [cset, lookup]
    · have : (k == k') = false := by simpa using fun heq => h heq.symm
      simp [cset, lookup, h, this]
  | cons c rest ih =>
    simp only [cset]
    by_cases hc : c.1 = k
    · have hc' : (c.1 == k) = true := by simpa using hc
      simp only [hc', if_true]
      by_cases h : k' = k
      · subst h; simp [lookup]
      · have h1 : (k == k') = false := by simpa using fun heq => h heq.symm
        have h2 : (c.1 == k') = false := by rw [hc]; exact h1
        simp [lookup, h, h1, h2]
    · have hc' : (c.1 == k) = false := by simpa using hc
      simp only [hc', Bool.false_eq_true, if_false]
      by_cases hck : c.1 = k'
      · have : (c.1 == k') = true := by simpa using hck
        have hne : k' ≠ k := by rw [← hck]; exact hc
        simp [lookup, this, hne]
      · have : (c.1 == k') = false := by simpa using hck
        have ih' := ih
        unfold lookup at ih' ⊢
        simp only [List.find?_cons, this]
        exact ih'

theorem mem_keys_cadd (cs : List (Int × Int)) (k n : Int) (x : Int × Int) (hx : x ∈ cadd cs k n) :
    x.1 = k ∨ ∃ y ∈ cs, y.1 = x.1 := by
  induction cs with
  | nil => simp [cadd] at hx; exact Or.inl (by rw [hx])
  | cons c rest ih =>
    simp only [cadd] at hx
    by_cases hc : (c.1 == k) = true
    · simp only [hc, if_true, List.mem_cons] at hx
      rcases hx with rfl | hx
      · exact Or.inl rfl
      · exact Or.inr ⟨x, List.mem_cons_of_mem _ hx, rfl⟩
    · simp only [hc, Bool.false_eq_true, if_false, List.mem_cons] at hx
      rcases hx with rfl | hx
      · exact Or.inr ⟨x, List.mem_cons_self, rfl⟩
      · rcases ih hx with h | ⟨y, hy, hyx⟩
        · exact Or.inl h
        · exact Or.inr ⟨y, List.mem_cons_of_mem _ hy, hyx⟩

theorem cadd_keys (cs : List (Int × Int)) (h : CKeys cs) (k n : Int) : CKeys (cadd cs k n) := by
  induction cs with
  | nil => simp [cadd]
  | cons c rest ih =>
    have h' := List.pairwise_cons.mp h
    simp only [cadd]
    by_cases hc : (c.1 == k) = true
    · simp only [hc, if_true]
      have hck : c.1 = k := by simpa using hc
      exact List.pairwise_cons.mpr ⟨fun y hy => by rw [← hck]; exact h'.1 y hy, h'.2⟩
    · simp only [hc, Bool.false_eq_true, if_false]
      have hck : c.1 ≠ k := by simpa using hc
      refine List.pairwise_cons.mpr ⟨fun y hy => ?_, ih h'.2⟩
      rcases mem_keys_cadd rest k n y hy with h1 | ⟨z, hz, hzy⟩
      · rw [h1]; exact hck
      · rw [← hzy]; exact h'.1 z hz

theorem mem_keys_cset (cs : List (Int × Int)) (k n : Int) (x : Int × Int) (hx : x ∈ cset cs k n) :
    x.1 = k ∨ ∃ y ∈ cs, y.1 = x.1 := by
  induction cs with
  | nil => simp [cset] at hx; exact Or.inl (by rw [hx])
  | cons c rest ih =>
    simp only [cset] at hx
    by_cases hc : (c.1 == k) = true
    · simp only [hc, if_true, List.mem_cons] at hx
      rcases hx with rfl | hx
      · exact Or.inl rfl
      · exact Or.inr ⟨x, List.mem_cons_of_mem _ hx, rfl⟩
    · simp only [hc, Bool.false_eq_true, if_false, List.mem_cons] at hx
      rcases hx with rfl | hx
      · exact Or.inr ⟨x, List.mem_cons_self, rfl⟩
      · rcases ih hx with h | ⟨y, hy, hyx⟩
        · exact Or.inl h
        · exact Or.inr ⟨y, List.mem_cons_of_mem _ hy, hyx⟩

theorem cset_keys (cs : List (Int × Int)) (h : CKeys cs) (k n : Int) : CKeys (cset cs k n) := by
  induction cs with
  | nil => simp [cset]
  | cons c rest ih =>
    have h' := List.pairwise_cons.mp h
    simp only [cset]
    by_cases hc : (c.1 == k) = true
    · simp only [hc, if_true]
      have hck : c.1 = k := by simpa using hc
      exact List.pairwise_cons.mpr ⟨fun y hy => by rw [← hck]; exact h'.1 y hy, h'.2⟩
    · simp only [hc, Bool.false_eq_true, if_false]
      have hck : c.1 ≠ k := by simpa using hc
      refine List.pairwise_cons.mpr ⟨fun y hy => ?_, ih h'.2⟩
      rcases mem_keys_cset rest k n y hy with h1 | ⟨z, hz, hzy⟩
      · rw [h1]; exact hck
      · rw [← hzy]; exact h'.1 z hz

theorem lookup_of_mem (cs : List (Int × Int)) (h : CKeys cs) (x : Int × Int) (hx : x ∈ cs) : lookup cs x.1 = some x.2 := by
  unfold lookup
  induction cs with
  | nil => simp at hx
  | cons c rest ih =>
    have h' := List.pairwise_cons.mp h
    simp only [List.find?_cons]
    rcases List.mem_cons.mp hx with rfl | hx'
    · simp
    · have : (c.1 == x.1) = false := by simpa using h'.1 x hx'
      simp only [this]
      exact ih h'.2 hx'

theorem mem_of_lookup (cs : List (Int × Int)) (k n : Int) (h : lookup cs k = some n) : (k, n) ∈ cs := by
  unfold lookup at h
  cases hf : cs.find? (fun p => p.1 == k) with
  | none => simp [hf] at h
  | some p =>
    simp [hf] at h
    have hm := List.mem_of_find?_eq_some hf
    have hp := List.find?_some hf
    simp at hp
    subst h hp
    exact hm

def sumAll (cs : List (Int × Int)) : Int := (cs.map (·.2)).foldl (· + ·) 0

theorem foldl_add (l : List Int) (a : Int) : l.foldl (· + ·) a = a + l.foldl (· + ·) 0 := by
  induction l generalizing a with
  | nil => simp
  | cons b bs ih => simp only [List.foldl_cons]; rw [ih (a + b), ih (0 + b)]; omega

theorem sumAll_cons (c : Int × Int) (cs : List (Int × Int)) : sumAll (c :: cs) = c.2 + sumAll cs := by
  unfold sumAll
  simp only [List.map_cons, List.foldl_cons]
  rw [foldl_add]; omega

theorem sumAll_cadd (cs : List (Int × Int)) (k n : Int) : sumAll (cadd cs k n) = sumAll cs + n := by
  induction cs with
  | nil => simp [cadd, sumAll]
  | cons c rest ih =>
    simp only [cadd]
    by_cases hc : (c.1 == k) = true
    · simp only [hc, if_true, sumAll_cons]; omega
    · simp only [hc, Bool.false_eq_true, if_false, sumAll_cons, ih]; omega

theorem fold_counter (l : List (Key × Rows)) (acc : List (Int × Int)) (hk : CKeys acc) :
    CKeys (l.foldl (fun cs e => cadd cs (val0 e.1) e.2.length) acc) ∧
    sumAll (l.foldl (fun cs e => cadd cs (val0 e.1) e.2.length) acc) = sumAll acc + sumLen l ∧
    (∀ v, (lookup (l.foldl (fun cs e => cadd cs (val0 e.1) e.2.length) acc) v).getD 0 =
      (lookup acc v).getD 0 + sumFor l v) ∧
    (∀ v, lookup (l.foldl (fun cs e => cadd cs (val0 e.1) e.2.length) acc) v = none →
      lookup acc v = none ∧ ∀ e ∈ l, val0 e.1 ≠ v) := by
  induction l generalizing acc with
  | nil => simp [sumLen, sumFor, hk]
  | cons e rest ih =>
    simp only [List.foldl_cons]
    obtain ⟨g1, g2, g3, g4⟩ := ih (cadd acc (val0 e.1) e.2.length) (cadd_keys acc hk _ _)
    refine ⟨g1, ?_, ?_, ?_⟩
    · rw [g2, sumAll_cadd, sumLen_cons]; push_cast; omega
    · intro v
      rw [g3 v, lookup_cadd, sumFor_cons]
      by_cases hv : v = val0 e.1
      · subst hv; simp; omega
      · have : ¬ val0 e.1 = v := fun h => hv h.symm
        simp [hv, this]
    · intro v hnone
      obtain ⟨h1, h2⟩ := g4 v hnone
      rw [lookup_cadd] at h1
      by_cases hv : v = val0 e.1
      · simp [hv] at h1
      · simp only [hv, if_false] at h1
        refine ⟨h1, fun e' he' => ?_⟩
        rcases List.mem_cons.mp he' with rfl | he'
        · exact fun h => hv h.symm
        · exact h2 e' he'

/-- **the counter `shift_common()` builds is exact**: every key carries the number of cells of the dense array
holding it, and every value that is not a key occurs nowhere -/
theorem counter_exact (i : IIndex) (h : WF i) :
    let cs0 := i.entries.foldl (fun cs e => cadd cs (val0 e.1) e.2.length) ([] : List (Int × Int))
    let cs := cset cs0 i.common ((i.size : Int) - sumAll cs0)
    (∀ x ∈ cs, x.2 = (countCells i x.1 : Int)) ∧ (∀ u, (∃ x ∈ cs, x.1 = u) ∨ countCells i u = 0) := by
  intro cs0 cs
  obtain ⟨k0, s0, l0, n0⟩ := fold_counter i.entries [] List.Pairwise.nil
  have hkeys : CKeys cs := cset_keys cs0 k0 _ _
  have hsum : sumAll cs0 = (sumLen i.entries : Int) := by
    have : sumAll ([] : List (Int × Int)) = 0 := rfl
    rw [s0, this]; simp
  have hcommon := countCells_common i h
  have hcard := cells_card i h.ndimPos
  refine ⟨fun x hx => ?_, fun u => ?_⟩
  · have hl := lookup_of_mem cs hkeys x hx
    rw [lookup_cset] at hl
    by_cases hxc : x.1 = i.common
    · simp only [hxc, if_true, Option.some.injEq] at hl
      rw [← hl, hsum, hxc]
      omega
    · simp only [hxc, if_false] at hl
      have := l0 x.1
      rw [hl] at this
      simp only [Option.getD_some] at this
      have hnone : lookup ([] : List (Int × Int)) x.1 = none := rfl
      rw [hnone] at this
      simp only [Option.getD_none, Int.zero_add] at this
      rw [this, countCells_listed i h x.1 hxc]
  · by_cases huc : u = i.common
    · left
      have : lookup cs u = some ((i.size : Int) - sumAll cs0) := by rw [lookup_cset]; simp [huc]
      exact ⟨_, mem_of_lookup cs u _ this, rfl⟩
    · cases hl : lookup cs0 u with
      | some n =>
        left
        have : lookup cs u = some n := by rw [lookup_cset]; simp [huc, hl]
        exact ⟨_, mem_of_lookup cs u _ this, rfl⟩
      | none =>
        right
        obtain ⟨_, hno⟩ := n0 u hl
        rw [countCells_listed i h u huc]
        unfold sumFor
        have : i.entries.filter (fun e => val0 e.1 == u) = [] := by
          rw [List.filter_eq_nil_iff]
          intro e he
          simpa using hno e he
        simp [this]

theorem mem_cells (i : IIndex) (c : Nat × List Int) : c ∈ cells i ↔ c.1 < i.nrows ∧ c.2 ∈ hiCells (i.shape.drop 1) := by
  unfold cells
  simp only [List.mem_flatMap, List.mem_range, List.mem_map]
  constructor
  · rintro ⟨r, hr, hi, hhi, rfl⟩; exact ⟨hr, hhi⟩
  · rintro ⟨h1, h2⟩; exact ⟨c.1, h1, c.2, h2, rfl⟩

/-- two indexes of the same shape with the same dense content have the same cell counts -/
theorem countCells_congr (a b : IIndex) (hs : a.shape = b.shape)
    (hd : ∀ r < a.nrows, ∀ hi ∈ hiCells (a.shape.drop 1), denseAt a r hi = denseAt b r hi) (x : Int) :
    countCells a x = countCells b x := by
  unfold countCells
  have hc : cells a = cells b := by unfold cells IIndex.nrows; rw [hs]
  rw [← hc]
  apply List.countP_congr
  intro c hcm
  obtain ⟨h1, h2⟩ := (mem_cells a c).mp hcm
  rw [hd c.1 h1 c.2 h2]

end Catii.IIdx
