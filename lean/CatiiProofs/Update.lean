import CatiiProofs.SetUpdates
import CatiiProofs.IIndexShift
/-! `update(entries)` is cell assignment on the dense array and preserves well-formedness (C06/C07).
Core Lean only. -/
namespace Catii.IIdx
open Catii.Kern Catii.C08

theorem filter_eq_of_length {α} (p : α → Bool) (l : List α) (h : (l.filter p).length = l.length) : l.filter p = l := by
  induction l with
  | nil => rfl
  | cons a as ih =>
    simp only [List.filter_cons] at h ⊢
    by_cases ha : p a = true
    · simp only [ha, if_true, List.length_cons, Nat.add_right_cancel_iff] at h ⊢
      rw [ih h]
    · simp only [ha, Bool.false_eq_true, if_false, List.length_cons] at h
      have := List.length_filter_le p as
      omega

/-- the rows an entry keeps after the first pass -/
def updKeep (ents : List (Key × Rows)) (e : Key × Rows) : Rows := e.2.filter (fun r => !updHit ents e.1 r)

/-- one step of the first pass -/
def updStep (ents : List (Key × Rows)) (es : List (Key × Rows)) (e : Key × Rows) : List (Key × Rows) :=
  if (updKeep ents e).length = e.2.length then es
  else if (updKeep ents e).isEmpty then ddel es e.1 else dset es e.1 (updKeep ents e)

theorem updMask_eq (i : IIndex) (ents : List (Key × Rows)) : updMask i ents = i.entries.foldl (updStep ents) i.entries := rfl

/-- the first pass, entry by entry: untouched entries stay, the others keep their non-overwritten rows or go -/
theorem updFold_mem (ents : List (Key × Rows)) (l es : List (Key × Rows)) (hsub : ∀ e ∈ l, e ∈ es)
    (hk : KeysDistinct es) (hl : KeysDistinct l) (hne : ∀ e ∈ l, e.2 ≠ []) :
    KeysDistinct (l.foldl (updStep ents) es) ∧
    ∀ x, x ∈ l.foldl (updStep ents) es ↔
      (x ∈ es ∧ ∀ e ∈ l, e.1 ≠ x.1) ∨ (∃ e ∈ l, x = (e.1, updKeep ents e) ∧ updKeep ents e ≠ []) := by
  induction l generalizing es with
  | nil => exact ⟨hk, fun x => by simp⟩
  | cons e rest ih =>
    have hl' := List.pairwise_cons.mp hl
    have hein : e ∈ es := hsub e List.mem_cons_self
    simp only [List.foldl_cons]
    by_cases h1 : (updKeep ents e).length = e.2.length
    · -- nothing of `e` is overwritten
      have hkeep : updKeep ents e = e.2 := filter_eq_of_length _ _ h1
      have hs : updStep ents es e = es := by simp [updStep, h1]
      rw [hs]
      obtain ⟨g1, g2⟩ := ih es (fun x hx => hsub x (List.mem_cons_of_mem _ hx)) hk hl'.2
        (fun x hx => hne x (List.mem_cons_of_mem _ hx))
      refine ⟨g1, fun x => ?_⟩
      rw [g2 x]
      constructor
      · rintro (⟨hx, hall⟩ | ⟨e', he', h⟩)
        · by_cases hxe : e.1 = x.1
          · have : x = e := by
              have h1' := dget_of_mem es hk x hx
              have h2' := dget_of_mem es hk e hein
              rw [hxe, h1'] at h2'
              exact Prod.ext hxe.symm (Option.some.inj h2')
            subst this
            exact Or.inr ⟨x, List.mem_cons_self, by rw [hkeep], by rw [hkeep]; exact hne x List.mem_cons_self⟩
          · exact Or.inl ⟨hx, fun e' he' => by
              rcases List.mem_cons.mp he' with rfl | he'
              · exact hxe
              · exact hall e' he'⟩
        · exact Or.inr ⟨e', List.mem_cons_of_mem _ he', h⟩
      · rintro (⟨hx, hall⟩ | ⟨e', he', h⟩)
        · exact Or.inl ⟨hx, fun e' he' => hall e' (List.mem_cons_of_mem _ he')⟩
        · rcases List.mem_cons.mp he' with rfl | he'
          · rw [hkeep] at h
            have : x = e' := h.1
            subst this
            exact Or.inl ⟨hein, fun e'' he'' heq => hl'.1 e'' he'' heq.symm⟩
          · exact Or.inr ⟨e', he', h⟩
    · by_cases h2 : (updKeep ents e).isEmpty = true
      · -- every row of `e` is overwritten
        have hs : updStep ents es e = ddel es e.1 := by simp [updStep, h1, h2]
        rw [hs]
        have hnil : updKeep ents e = [] := by simpa using h2
        obtain ⟨g1, g2⟩ := ih (ddel es e.1)
          (fun x hx => (mem_ddel es e.1 x).mpr ⟨hsub x (List.mem_cons_of_mem _ hx), fun heq => hl'.1 x hx heq.symm⟩)
          (ddel_keysDistinct es hk e.1) hl'.2 (fun x hx => hne x (List.mem_cons_of_mem _ hx))
        refine ⟨g1, fun x => ?_⟩
        rw [g2 x]
        constructor
        · rintro (⟨hx, hall⟩ | ⟨e', he', h⟩)
          · obtain ⟨hx1, hx2⟩ := (mem_ddel es e.1 x).mp hx
            exact Or.inl ⟨hx1, fun e' he' => by
              rcases List.mem_cons.mp he' with rfl | he'
              · exact fun heq => hx2 heq.symm
              · exact hall e' he'⟩
          · exact Or.inr ⟨e', List.mem_cons_of_mem _ he', h⟩
        · rintro (⟨hx, hall⟩ | ⟨e', he', h⟩)
          · exact Or.inl ⟨(mem_ddel es e.1 x).mpr ⟨hx, fun heq => hall e List.mem_cons_self heq.symm⟩,
              fun e' he' => hall e' (List.mem_cons_of_mem _ he')⟩
          · rcases List.mem_cons.mp he' with rfl | he'
            · exact absurd hnil h.2
            · exact Or.inr ⟨e', he', h⟩
      · -- some rows of `e` survive
        have hs : updStep ents es e = dset es e.1 (updKeep ents e) := by simp [updStep, h1, h2]
        rw [hs]
        have hnn : updKeep ents e ≠ [] := by simpa using h2
        obtain ⟨g1, g2⟩ := ih (dset es e.1 (updKeep ents e))
          (fun x hx => (mem_dset_iff es hk e.1 _ x).mpr
            (Or.inr ⟨hsub x (List.mem_cons_of_mem _ hx), fun heq => hl'.1 x hx heq.symm⟩))
          (dset_keysDistinct es hk _ _) hl'.2 (fun x hx => hne x (List.mem_cons_of_mem _ hx))
        refine ⟨g1, fun x => ?_⟩
        rw [g2 x]
        constructor
        · rintro (⟨hx, hall⟩ | ⟨e', he', h⟩)
          · rcases (mem_dset_iff es hk e.1 _ x).mp hx with rfl | ⟨hx1, hx2⟩
            · exact Or.inr ⟨e, List.mem_cons_self, rfl, hnn⟩
            · exact Or.inl ⟨hx1, fun e' he' => by
                rcases List.mem_cons.mp he' with rfl | he'
                · exact fun heq => hx2 heq.symm
                · exact hall e' he'⟩
          · exact Or.inr ⟨e', List.mem_cons_of_mem _ he', h⟩
        · rintro (⟨hx, hall⟩ | ⟨e', he', h⟩)
          · exact Or.inl ⟨(mem_dset_iff es hk e.1 _ x).mpr (Or.inr ⟨hx, fun heq => hall e List.mem_cons_self heq.symm⟩),
              fun e' he' => hall e' (List.mem_cons_of_mem _ he')⟩
          · rcases List.mem_cons.mp he' with rfl | he'
            · refine Or.inl ⟨(mem_dset_iff es hk e'.1 _ x).mpr (Or.inl h.1), fun e'' he'' heq => ?_⟩
              rw [h.1] at heq
              exact hl'.1 e'' he'' heq.symm
            · exact Or.inr ⟨e', he', h⟩

theorem updMask_spec (i : IIndex) (h : WF i) (ents : List (Key × Rows)) :
    KeysDistinct (updMask i ents) ∧
    ∀ x, x ∈ updMask i ents ↔ ∃ e ∈ i.entries, x = (e.1, updKeep ents e) ∧ updKeep ents e ≠ [] := by
  rw [updMask_eq]
  obtain ⟨g1, g2⟩ := updFold_mem ents i.entries i.entries (fun _ h => h) h.keys h.keys h.nonEmpty
  refine ⟨g1, fun x => ?_⟩
  rw [g2 x]
  constructor
  · rintro (⟨hx, hall⟩ | h)
    · exact absurd rfl (hall x hx)
    · exact h
  · exact fun h => Or.inr h

theorem mem_updKeep (ents : List (Key × Rows)) (e : Key × Rows) (r : Nat) :
    r ∈ updKeep ents e ↔ r ∈ e.2 ∧ updHit ents e.1 r = false := by
  unfold updKeep; simp [List.mem_filter]

theorem listed_updMask (i : IIndex) (h : WF i) (ents : List (Key × Rows)) (k : Key) (r : Nat) :
    Listed (updMask i ents) k r ↔ Listed i.entries k r ∧ updHit ents k r = false := by
  obtain ⟨_, hm⟩ := updMask_spec i h ents
  unfold Listed
  constructor
  · rintro ⟨rows, hx, hr⟩
    obtain ⟨e, he, heq, _⟩ := (hm _).mp hx
    cases heq
    obtain ⟨h1, h2⟩ := (mem_updKeep ents e r).mp hr
    exact ⟨⟨e.2, he, h1⟩, h2⟩
  · rintro ⟨⟨rows, he, hr⟩, hh⟩
    have hin : r ∈ updKeep ents (k, rows) := (mem_updKeep ents (k, rows) r).mpr ⟨hr, hh⟩
    refine ⟨updKeep ents (k, rows), (hm _).mpr ⟨(k, rows), he, rfl, ?_⟩, hin⟩
    intro hnil; rw [hnil] at hin; simp at hin

theorem updHit_iff (ents : List (Key × Rows)) (k : Key) (r : Nat) :
    updHit ents k r = true ↔ ∃ e ∈ ents, e.1.drop 1 = k.drop 1 ∧ r ∈ e.2 := by
  unfold updHit
  simp only [List.any_eq_true, Bool.and_eq_true, beq_iff_eq, List.contains_iff_mem]

/-- what `update` needs of its argument: a dictionary of well-formed, mutually consistent cell assignments -/
structure UpdateOK (i : IIndex) (ents : List (Key × Rows)) : Prop where
  wi : WF i
  sorted : ∀ e ∈ ents, SSorted e.2
  inRange : ∀ e ∈ ents, ∀ r ∈ e.2, r < i.nrows
  arity : ∀ e ∈ ents, e.1.length = i.ndim
  hiRange : ∀ e ∈ ents, e.1.drop 1 ∈ hiCells (i.shape.drop 1)
  consistent : ∀ e ∈ ents, ∀ f ∈ ents, e.1.drop 1 = f.1.drop 1 → ∀ r, r ∈ e.2 → r ∈ f.2 → val0 e.1 = val0 f.1

/-- the assigned value of a cell, or `d` when the update does not mention it: `a[rows, hi] = v` for every entry -/
def assigned (ents : List (Key × Rows)) (r : Nat) (hi : List Int) (d : Int) : Int :=
  match ents.find? (fun e => e.1.drop 1 == hi && e.2.contains r) with
  | some e => val0 e.1
  | none => d

/-- **`update(entries)` is cell assignment** and preserves well-formedness (the common value is kept) -/
theorem update_refines {i : IIndex} {ents : List (Key × Rows)} (ok : UpdateOK i ents) :
    ∃ res, update i ents = .ok res ∧ WF res ∧ res.shape = i.shape ∧ res.common = i.common ∧
      ∀ r hi, denseAt res r hi = assigned ents r hi (denseAt i r hi) := by
  have h := ok.wi
  obtain ⟨hk1, hm1⟩ := updMask_spec i h ents
  have hs1 : RowsSorted (updMask i ents) := by
    intro x hx
    obtain ⟨e, he, rfl, _⟩ := (hm1 x).mp hx
    exact (h.sorted e he).sublist List.filter_sublist
  have hne1 : RowsNonEmpty (updMask i ents) := by
    intro x hx
    obtain ⟨e, he, rfl, hne⟩ := (hm1 x).mp hx
    exact hne
  let ents' := ents.filter (fun e => val0 e.1 != i.common)
  have hents' : ∀ e, e ∈ ents' ↔ e ∈ ents ∧ val0 e.1 ≠ i.common := by
    intro e; simp [ents', List.mem_filter]
  obtain ⟨res, hrun, hc, hsh, hkr, hsr, hner, hl⟩ :=
    unionUpdate_spec { i with entries := updMask i ents } ents' hk1 hs1
      (fun e he => ok.sorted e ((hents' e).mp he).1)
  have hner' := hner hne1
  -- what the result lists
  have hlist : ∀ k r, Listed res.entries k r ↔
      (Listed i.entries k r ∧ updHit ents k r = false) ∨ (Listed ents k r ∧ val0 k ≠ i.common) := by
    intro k r
    rw [hl k r]
    show Listed (updMask i ents) k r ∨ Listed ents' k r ↔ _
    rw [listed_updMask i h]
    unfold Listed
    constructor
    · rintro (hx | ⟨rows, hm, hr⟩)
      · exact Or.inl hx
      · exact Or.inr ⟨⟨rows, ((hents' _).mp hm).1, hr⟩, ((hents' _).mp hm).2⟩
    · rintro (hx | ⟨⟨rows, hm, hr⟩, hv⟩)
      · exact Or.inl hx
      · exact Or.inr ⟨rows, (hents' _).mpr ⟨hm, hv⟩, hr⟩
  have hrun' : update i ents = .ok res := by
    unfold update
    have h1 : (ents.any fun e => e.2.any fun r => r ≥ i.nrows) = false := by
      rw [List.any_eq_false]
      intro e he
      rw [Bool.not_eq_true, List.any_eq_false]
      intro r hr
      have := ok.inRange e he r hr
      simp only [decide_eq_true_eq]; omega
    have h2 : (ents.any fun e => e.1.length != i.ndim) = false := by
      rw [List.any_eq_false]
      intro e he
      simp [ok.arity e he]
    simp only [h1, h2, Bool.false_eq_true, if_false]
    exact hrun
  -- every entry of the result descends from an entry of the receiver or of the update
  have horigin : ∀ x ∈ res.entries, (∃ rows, (x.1, rows) ∈ i.entries) ∨ (∃ rows, (x.1, rows) ∈ ents ∧ val0 x.1 ≠ i.common) := by
    intro x hx
    obtain ⟨r, hr⟩ := List.exists_mem_of_ne_nil x.2 (hner' x hx)
    rcases (hlist x.1 r).mp ⟨x.2, hx, hr⟩ with ⟨⟨rows, hm, _⟩, _⟩ | ⟨⟨rows, hm, _⟩, hv⟩
    · exact Or.inl ⟨rows, hm⟩
    · exact Or.inr ⟨rows, hm, hv⟩
  have hexcl : ∀ k1 k2 r, Listed res.entries k1 r → Listed res.entries k2 r → k1.drop 1 = k2.drop 1 → val0 k1 = val0 k2 := by
    intro k1 k2 r h1 h2 hhi
    rcases (hlist k1 r).mp h1 with ⟨⟨rows1, hm1', hr1⟩, hh1⟩ | ⟨⟨rows1, hm1', hr1⟩, _⟩
    · rcases (hlist k2 r).mp h2 with ⟨⟨rows2, hm2', hr2⟩, _⟩ | ⟨⟨rows2, hm2', hr2⟩, _⟩
      · exact h.exclusive _ hm1' _ hm2' hhi r hr1 hr2
      · have : updHit ents k1 r = true := (updHit_iff ents k1 r).mpr ⟨_, hm2', hhi.symm, hr2⟩
        rw [this] at hh1; cases hh1
    · rcases (hlist k2 r).mp h2 with ⟨⟨rows2, hm2', hr2⟩, hh2⟩ | ⟨⟨rows2, hm2', hr2⟩, _⟩
      · have : updHit ents k2 r = true := (updHit_iff ents k2 r).mpr ⟨_, hm1', hhi, hr1⟩
        rw [this] at hh2; cases hh2
      · exact ok.consistent _ hm1' _ hm2' hhi r hr1 hr2
  have hwf : WF res := by
    refine ⟨hkr, ?_, ?_, ?_, hner', hsr, ?_, ?_, ?_⟩
    · intro x hx
      show x.1.length = res.shape.length
      rw [hsh]
      rcases horigin x hx with ⟨rows, hm⟩ | ⟨rows, hm, _⟩
      · exact h.arity (x.1, rows) hm
      · exact ok.arity (x.1, rows) hm
    · show 0 < res.shape.length
      rw [hsh]; exact h.ndimPos
    · intro x hx
      rw [hc]
      rcases horigin x hx with ⟨rows, hm⟩ | ⟨rows, hm, hv⟩
      · exact h.noCommon (x.1, rows) hm
      · exact hv
    · intro x hx r hr
      show r < res.shape.headD 0
      rw [hsh]
      rcases (hlist x.1 r).mp ⟨x.2, hx, hr⟩ with ⟨⟨rows, hm, hr'⟩, _⟩ | ⟨⟨rows, hm, hr'⟩, _⟩
      · exact h.inRange _ hm r hr'
      · exact ok.inRange _ hm r hr'
    · intro x hx
      rw [hsh]
      rcases horigin x hx with ⟨rows, hm⟩ | ⟨rows, hm, _⟩
      · exact h.hiRange (x.1, rows) hm
      · exact ok.hiRange (x.1, rows) hm
    · intro x hx y hy hxy r hrx hry
      exact hexcl x.1 y.1 r ⟨x.2, hx, hrx⟩ ⟨y.2, hy, hry⟩ hxy
  refine ⟨res, hrun', hwf, hsh, hc, fun r hi => ?_⟩
  unfold assigned
  cases hf : ents.find? (fun e => e.1.drop 1 == hi && e.2.contains r) with
  | some e =>
    have hme := List.mem_of_find?_eq_some hf
    have hp := List.find?_some hf
    simp only [Bool.and_eq_true, beq_iff_eq, List.contains_iff_mem] at hp
    obtain ⟨hp1, hp2⟩ := hp
    simp only
    -- every entry of the result listing this cell carries the assigned value
    have hall : ∀ x ∈ res.entries, x.1.drop 1 = hi → r ∈ x.2 → val0 x.1 = val0 e.1 ∧ val0 x.1 ≠ i.common := by
      intro x hx hx1 hx2
      rcases (hlist x.1 r).mp ⟨x.2, hx, hx2⟩ with ⟨_, hh⟩ | ⟨⟨rows, hm, hr'⟩, hv⟩
      · have : updHit ents x.1 r = true := (updHit_iff ents x.1 r).mpr ⟨e, hme, by rw [hp1, hx1], hp2⟩
        rw [this] at hh; cases hh
      · exact ⟨ok.consistent _ hm e hme (by rw [hx1, hp1]) r hr' hp2, hv⟩
    by_cases hv : val0 e.1 = i.common
    · rw [hv, ← hc]
      apply denseAt_of_not_mem
      intro x hx hx1 hx2
      obtain ⟨g1, g2⟩ := hall x hx hx1 hx2
      exact g2 (by rw [g1, hv])
    · obtain ⟨rows, hm, hr'⟩ := (hlist e.1 r).mpr (Or.inr ⟨⟨e.2, hme, hp2⟩, hv⟩)
      apply denseAt_eq
      · exact ⟨(e.1, rows), hm, hp1, hr'⟩
      · intro x hx hx1 hx2
        exact (hall x hx hx1 hx2).1
  | none =>
    have hnone := List.find?_eq_none.mp hf
    have hnohit : ∀ k : Key, k.drop 1 = hi → updHit ents k r = false := by
      intro k hk
      cases hh : updHit ents k r with
      | false => rfl
      | true =>
        obtain ⟨e, he, h1, h2⟩ := (updHit_iff ents k r).mp hh
        have := hnone e he
        simp [h1, hk, h2] at this
    simp only
    by_cases hex : ∃ e ∈ i.entries, e.1.drop 1 = hi ∧ r ∈ e.2
    · obtain ⟨e, he, h1, h2⟩ := hex
      rw [denseAt_of_mem i h e he r hi h1 h2]
      obtain ⟨rows, hm, hr'⟩ := (hlist e.1 r).mpr (Or.inl ⟨⟨e.2, he, h2⟩, hnohit e.1 h1⟩)
      apply denseAt_eq
      · exact ⟨(e.1, rows), hm, h1, hr'⟩
      · intro x hx hx1 hx2
        rcases (hlist x.1 r).mp ⟨x.2, hx, hx2⟩ with ⟨⟨rows', hm', hr''⟩, _⟩ | ⟨⟨rows', hm', hr''⟩, _⟩
        · exact h.exclusive _ hm' e he (by rw [hx1, h1]) r hr'' h2
        · have := hnone _ hm'
          simp [hx1, hr''] at this
    · have hnot : ∀ e ∈ i.entries, e.1.drop 1 = hi → r ∉ e.2 := fun e he h1 h2 => hex ⟨e, he, h1, h2⟩
      rw [denseAt_of_not_mem i r hi hnot, ← hc]
      apply denseAt_of_not_mem
      intro x hx hx1 hx2
      rcases (hlist x.1 r).mp ⟨x.2, hx, hx2⟩ with ⟨⟨rows', hm', hr''⟩, _⟩ | ⟨⟨rows', hm', hr''⟩, _⟩
      · exact hnot _ hm' hx1 hr''
      · have := hnone _ hm'
        simp [hx1, hr''] at this

end Catii.IIdx
