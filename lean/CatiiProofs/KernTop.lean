import CatiiProofs.KernLoops
import CatiiProofs.KernSets
/-! Whole-kernel characterisations: the guards, the first/last-element reads and the
no-overlap shortcuts around each loop. -/
set_option linter.unusedSimpArgs false
namespace Catii.Kern

theorem sorted_le_last (A : Array Nat) (h : SSorted A.toList) (hne : 0 < A.size) (x : Nat)
    (hx : x ∈ A.toList) : x ≤ A[A.size - 1] := by
  obtain ⟨i, hi, rfl⟩ := List.mem_iff_getElem.mp hx
  have hi' : i < A.size := by simpa using hi
  by_cases hlast : i = A.size - 1
  · subst hlast; simp
  · have := (List.pairwise_iff_getElem.mp h) i (A.size - 1) hi (by simp; omega) (by omega)
    simp at this ⊢; omega

theorem sorted_first_le (A : Array Nat) (h : SSorted A.toList) (hne : 0 < A.size) (x : Nat)
    (hx : x ∈ A.toList) : A[0] ≤ x := by
  obtain ⟨i, hi, rfl⟩ := List.mem_iff_getElem.mp hx
  by_cases h0 : i = 0
  · subst h0; simp
  · have := (List.pairwise_iff_getElem.mp h) 0 i (by simpa using hne) hi (by omega)
    simp at this ⊢; omega

theorem drop_zero_toList (A : Array Nat) : A.toList.drop 0 = A.toList := by simp

/-- what `set_intersect_merge_np` (current guard) returns, for *any* arrays -/
theorem interK_run (L R : Array Nat) : ∃ out, interK L R = .ok out ∧
    (out = (inter L.toList R.toList).toArray ∨
     (out = #[] ∧ (L.size = 0 ∨ R.size = 0 ∨
        ∃ (hl : 0 < L.size) (hr : 0 < R.size), L[0] > R[R.size - 1] ∨ R[0] > L[L.size - 1]))) := by
  unfold interK
  simp only [↓reduceIte]
  by_cases h0 : L.size = 0 ∨ R.size = 0
  · refine ⟨#[], by rw [if_pos h0]; rfl, Or.inr ⟨rfl, ?_⟩⟩
    rcases h0 with h | h
    · exact Or.inl h
    · exact Or.inr (Or.inl h)
  · have hl : 0 < L.size := by omega
    have hr : 0 < R.size := by omega
    simp only [h0, if_true, if_false]
    rw [rd_ok L 0 hl, rd_ok R 0 hr, rd_ok R (R.size - 1) (by omega), rd_ok L (L.size - 1) (by omega)]
    simp only [pure_bind]
    by_cases hs : L[0] > R[R.size - 1] ∨ R[0] > L[L.size - 1]
    · exact ⟨#[], by simp [hs]; rfl, Or.inr ⟨rfl, Or.inr (Or.inr ⟨hl, hr, hs⟩)⟩⟩
    · simp only [hs, if_false]
      rw [interLoop_refines L R _ 0 0 _ _ #[] hl hr rfl rfl (by simp)]
      exact ⟨_, rfl, Or.inl (by simp)⟩

theorem unionK_run (L R : Array Nat) : ∃ out, unionK L R = .ok out ∧
    (out = (uni L.toList R.toList).toArray ∨
     (∃ (hl : 0 < L.size) (hr : 0 < R.size), L[0] > R[R.size - 1] ∧ out = R ++ L) ∨
     (∃ (hl : 0 < L.size) (hr : 0 < R.size), R[0] > L[L.size - 1] ∧ out = L ++ R)) := by
  unfold unionK
  by_cases hl0 : L.size = 0
  · refine ⟨R, by rw [if_pos hl0]; rfl, Or.inl ?_⟩
    have : L.toList = [] := by simpa using hl0
    rw [this]; simp [uni]
  · by_cases hr0 : R.size = 0
    · refine ⟨L, by rw [if_neg hl0, if_pos hr0]; rfl, Or.inl ?_⟩
      have : R.toList = [] := by simpa using hr0
      rw [this]; simp
    · have hl : 0 < L.size := by omega
      have hr : 0 < R.size := by omega
      simp only [hl0, hr0, if_false]
      rw [rd_ok L 0 hl, rd_ok R 0 hr, rd_ok R (R.size - 1) (by omega)]
      simp only [pure_bind]
      by_cases hs : L[0] > R[R.size - 1]
      · exact ⟨R ++ L, by simp [hs]; rfl, Or.inr (Or.inl ⟨hl, hr, hs, rfl⟩)⟩
      · simp only [hs, if_false]
        rw [rd_ok L (L.size - 1) (by omega)]
        simp only [pure_bind]
        by_cases hs2 : R[0] > L[L.size - 1]
        · exact ⟨L ++ R, by simp [hs2]; rfl, Or.inr (Or.inr ⟨hl, hr, hs2, rfl⟩)⟩
        · simp only [hs2, if_false]
          rw [unionLoop_refines L R _ 0 0 _ _ #[] hl hr rfl rfl (by simp)]
          exact ⟨_, rfl, Or.inl (by simp)⟩

theorem diffK_run (L R : Array Nat) : ∃ out, diffK L R = .ok out ∧
    (out = (dif L.toList R.toList).toArray ∨
     (out = L ∧ ∃ (hl : 0 < L.size) (hr : 0 < R.size), L[0] > R[R.size - 1] ∨ R[0] > L[L.size - 1])) := by
  unfold diffK
  by_cases hl0 : L.size = 0
  · refine ⟨#[], by rw [if_pos hl0]; rfl, Or.inl ?_⟩
    have : L.toList = [] := by simpa using hl0
    rw [this]; simp [dif]
  · by_cases hr0 : R.size = 0
    · refine ⟨L, by rw [if_neg hl0, if_pos hr0]; rfl, Or.inl ?_⟩
      have : R.toList = [] := by simpa using hr0
      rw [this]; simp
    · have hl : 0 < L.size := by omega
      have hr : 0 < R.size := by omega
      simp only [hl0, hr0, if_false]
      rw [rd_ok L 0 hl, rd_ok R 0 hr, rd_ok R (R.size - 1) (by omega), rd_ok L (L.size - 1) (by omega)]
      simp only [pure_bind]
      by_cases hs : L[0] > R[R.size - 1] ∨ R[0] > L[L.size - 1]
      · exact ⟨L, by simp [hs]; rfl, Or.inr ⟨rfl, hl, hr, hs⟩⟩
      · simp only [hs, if_false]
        rw [diffLoop_refines L R _ 0 0 _ _ #[] hl hr rfl rfl (by simp)]
        exact ⟨_, rfl, Or.inl (by simp)⟩

/-- no common element when one sorted array lies entirely above the other -/
theorem disjoint_of_above (L R : Array Nat) (hL : SSorted L.toList) (hR : SSorted R.toList)
    (hl : 0 < L.size) (hr : 0 < R.size)
    (hs : L[0] > R[R.size - 1] ∨ R[0] > L[L.size - 1]) (x : Nat) :
    ¬ (x ∈ L.toList ∧ x ∈ R.toList) := by
  rintro ⟨h1, h2⟩
  have a1 := sorted_first_le L hL hl x h1
  have a2 := sorted_le_last L hL hl x h1
  have b1 := sorted_first_le R hR hr x h2
  have b2 := sorted_le_last R hR hr x h2
  omega

theorem append_sorted (A B : Array Nat) (hA : SSorted A.toList) (hB : SSorted B.toList)
    (ha : 0 < A.size) (hb : 0 < B.size) (h : B[0] > A[A.size - 1]) :
    SSorted (A ++ B).toList := by
  simp only [Array.toList_append]
  refine List.pairwise_append.mpr ⟨hA, hB, ?_⟩
  intro x hx y hy
  have := sorted_le_last A hA ha x hx
  have := sorted_first_le B hB hb y hy
  omega

end Catii.Kern
