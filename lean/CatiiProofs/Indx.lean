import CatiiModel.Indx
/-! Lemmas for the INDX codec: little-endian words, payload length, sequential parsing. -/
namespace Catii.Indx

theorem M_pure {α : Type} (a : α) : (pure a : M α) = .ok a := rfl
theorem M_bind_ok {α β : Type} (a : α) (f : α → M β) : ((Except.ok a : M α) >>= f) = f a := rfl
theorem M_map_ok {α β : Type} (f : α → β) (a : α) : f <$> (Except.ok a : M α) = .ok (f a) := rfl

@[simp] theorem encLE_length (w n : Nat) : (encLE w n).length = w := by
  induction w generalizing n with
  | zero => simp [encLE]
  | succ w ih => simp [encLE, ih]

theorem dec_enc (w n : Nat) (h : n < 256 ^ w) : decLE (encLE w n) = n := by
  induction w generalizing n with
  | zero => simp [encLE, decLE] at *; omega
  | succ w ih =>
    simp only [encLE, decLE]
    have : n / 256 < 256 ^ w := by
      rw [Nat.pow_succ] at h
      exact Nat.div_lt_of_lt_mul (by omega)
    rw [ih _ this]; omega

theorem flatMap_length_const {α β : Type} (l : List α) (f : α → List β) (k : Nat)
    (h : ∀ a ∈ l, (f a).length = k) : (l.flatMap f).length = l.length * k := by
  induction l with
  | nil => simp
  | cons a as ih =>
    simp only [List.flatMap_cons, List.length_append, List.length_cons]
    rw [h a (List.mem_cons_self), ih (fun b hb => h b (List.mem_cons_of_mem _ hb))]
    rw [Nat.add_mul]; omega

theorem flatMap_enc_length (w : Nat) (vs : List Nat) : (vs.flatMap (encLE w)).length = vs.length * w :=
  flatMap_length_const vs (encLE w) w (fun _ _ => encLE_length _ _)

theorem rowids_bytes_length (wr : Nat) (es : List Entry) :
    (es.flatMap (fun e => e.rowids.flatMap (encLE wr))).length = (es.map (·.rowids.length)).sum * wr := by
  induction es with
  | nil => simp
  | cons e es ih =>
    simp only [List.flatMap_cons, List.length_append, List.map_cons, List.sum_cons, ih, flatMap_enc_length]
    rw [Nat.add_mul]

theorem payload_length (es : List Entry) (common arity wi wr : Nat)
    (har : ∀ e ∈ es, e.coords.length = arity) :
    (payload es common arity wi wr).length
      = bufferSize es.length arity wi wr (es.map (·.rowids.length)).sum := by
  unfold payload bufferSize
  simp only [List.length_append, List.length_cons, List.length_nil, encLE_length, rowids_bytes_length]
  rw [flatMap_length_const es (fun e => e.coords.flatMap (encLE wi)) (arity * wi)
        (fun e he => by rw [flatMap_enc_length, har e he]),
      flatMap_length_const es (fun e => encLE wr e.rowids.length) wr (fun _ _ => encLE_length _ _)]
  rw [Nat.mul_assoc]

/-! ### sequential reads -/
theorem takeN_append (a r : Bytes) : takeN a.length (a ++ r) = .ok (a, r) := by
  have : ¬ (a ++ r).length < a.length := by simp
  simp only [takeN, this, if_false, List.take_left', List.drop_left']
  rfl

theorem rdWord_enc (w v : Nat) (r : Bytes) (h : v < 256 ^ w) :
    rdWord w (encLE w v ++ r) = .ok (v, r) := by
  unfold rdWord
  have := takeN_append (encLE w v) r
  rw [encLE_length] at this
  rw [this]
  simp only [M_bind_ok, M_pure, dec_enc w v h]

theorem rdWords_flat (w : Nat) (vs : List Nat) (r : Bytes) (h : ∀ v ∈ vs, v < 256 ^ w) :
    rdWords w vs.length (vs.flatMap (encLE w) ++ r) = .ok (vs, r) := by
  induction vs with
  | nil => simp [rdWords, M_pure]
  | cons v vs ih =>
    simp only [List.length_cons, rdWords, List.flatMap_cons, List.append_assoc]
    rw [rdWord_enc w v _ (h v (List.mem_cons_self))]
    simp only [M_bind_ok]
    rw [ih (fun x hx => h x (List.mem_cons_of_mem _ hx))]
    rfl

theorem toRows_flat (dims : Nat) (es : List Entry) (h : ∀ e ∈ es, e.coords.length = dims) :
    toRows dims es.length (es.flatMap (·.coords)) = es.map (·.coords) := by
  induction es with
  | nil => simp [toRows]
  | cons e es ih =>
    have he := h e (List.mem_cons_self)
    simp only [List.length_cons, toRows, List.flatMap_cons, List.map_cons]
    rw [← he, List.take_left', List.drop_left']
    · rw [he, ih (fun x hx => h x (List.mem_cons_of_mem _ hx))]
    · rfl
    · rfl

theorem sliceBy_flat (es : List Entry) :
    sliceBy (es.map (·.rowids.length)) (es.flatMap (·.rowids)) = es.map (·.rowids) := by
  induction es with
  | nil => simp [sliceBy]
  | cons e es ih =>
    simp only [List.map_cons, sliceBy, List.flatMap_cons]
    rw [List.take_left', List.drop_left', ih] <;> rfl

theorem zip_rebuild (es : List Entry) :
    ((es.map (·.coords)).zip (es.map (·.rowids))).map (fun (c, r) => (⟨c, r⟩ : Entry)) = es := by
  induction es with
  | nil => simp
  | cons e es ih => simp [ih]

theorem flatMap_flatMap_enc (w : Nat) (es : List Entry) (f : Entry → List Nat) :
    es.flatMap (fun e => (f e).flatMap (encLE w)) = (es.flatMap f).flatMap (encLE w) := by
  induction es with
  | nil => simp
  | cons e es ih => simp [List.flatMap_append, ih]

theorem flatMap_single_enc (w : Nat) (es : List Entry) (f : Entry → Nat) :
    es.flatMap (fun e => encLE w (f e)) = (es.map f).flatMap (encLE w) := by
  induction es with
  | nil => simp
  | cons e es ih => simp [ih]

end Catii.Indx
