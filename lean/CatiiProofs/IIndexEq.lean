import Batteries.Data.List.Perm
import CatiiProofs.IIndexBasic
import CatiiProofs.Dict
/-! `__eq__` is canonical: for well-formed indexes it holds iff shape, common value and dense
content coincide. -/
namespace Catii.IIdx
open Catii.Kern

/-- entries as a finite map agree -/
def SameEntries (a b : IIndex) : Prop :=
  ∀ k, (∀ r, r ∈ (dget a.entries k).getD [] ↔ r ∈ (dget b.entries k).getD []) ∧
       ((dget a.entries k).isSome ↔ (dget b.entries k).isSome)

theorem keys_nodup (i : IIndex) (h : WF i) : (i.entries.map (·.1)).Nodup := by
  rw [List.Nodup, List.pairwise_map]; exact h.keys

theorem eqIdx_iff_same (a b : IIndex) (ha : WF a) (hb : WF b) :
    eqIdx a b = true ↔ a.shape = b.shape ∧ a.common = b.common ∧ a.entries.length = b.entries.length ∧
      ∀ e ∈ a.entries, ∃ f ∈ b.entries, f.1 = e.1 ∧ ∀ r, r ∈ e.2 ↔ r ∈ f.2 := by
  unfold eqIdx
  simp only [Bool.and_eq_true, beq_iff_eq, List.all_eq_true, List.contains_iff_mem]
  constructor
  · rintro ⟨⟨⟨hs, hc⟩, hl⟩, hall⟩
    refine ⟨hs, hc, hl, fun e he => ?_⟩
    obtain ⟨h1, h2⟩ := hall e he
    obtain ⟨r0, hr0⟩ := List.exists_mem_of_ne_nil e.2 (ha.nonEmpty e he)
    cases hg : dget b.entries e.1 with
    | none => rw [hg] at h1; simp at h1; exact absurd (h1 r0 hr0) (by simp)
    | some v =>
      rw [hg] at h1 h2
      simp at h1 h2
      exact ⟨(e.1, v), dget_some_mem _ _ _ hg, rfl, fun r => ⟨h1 r, h2 r⟩⟩
  · rintro ⟨hs, hc, hl, hall⟩
    refine ⟨⟨⟨hs, hc⟩, hl⟩, ?_⟩
    intro e he
    obtain ⟨f, hf, hfe, hiff⟩ := hall e he
    have : dget b.entries e.1 = some f.2 := by rw [← hfe]; exact dget_of_mem _ hb.keys f hf
    rw [this]; simp
    exact ⟨fun r hr => (hiff r).mp hr, fun r hr => (hiff r).mpr hr⟩

/-- with equally many entries, matching every entry of `a` in `b` also matches every entry of `b` in `a` -/
theorem same_symm (a b : IIndex) (ha : WF a) (hb : WF b) (hl : a.entries.length = b.entries.length)
    (hall : ∀ e ∈ a.entries, ∃ f ∈ b.entries, f.1 = e.1 ∧ ∀ r, r ∈ e.2 ↔ r ∈ f.2) :
    ∀ f ∈ b.entries, ∃ e ∈ a.entries, e.1 = f.1 ∧ ∀ r, r ∈ f.2 ↔ r ∈ e.2 := by
  have hsub : a.entries.map (·.1) ⊆ b.entries.map (·.1) := by
    intro k hk
    obtain ⟨e, he, rfl⟩ := List.mem_map.mp hk
    obtain ⟨f, hf, hfe, _⟩ := hall e he
    exact List.mem_map.mpr ⟨f, hf, hfe⟩
  have hperm : (a.entries.map (·.1)).Perm (b.entries.map (·.1)) :=
    (List.subperm_of_subset (keys_nodup a ha) hsub).perm_of_length_le (by simp [hl])
  intro f hf
  have : f.1 ∈ a.entries.map (·.1) := hperm.symm.subset (List.mem_map.mpr ⟨f, hf, rfl⟩)
  obtain ⟨e, he, hek⟩ := List.mem_map.mp this
  obtain ⟨f', hf', hfe', hiff⟩ := hall e he
  have hff : f' = f := by
    have h1 := dget_of_mem _ hb.keys f' hf'
    have h2 := dget_of_mem _ hb.keys f hf
    rw [hfe', hek] at h1
    rw [h1] at h2
    cases f; cases f'
    simp at h2 hfe' hek ⊢
    exact ⟨by rw [hfe', hek], h2⟩
  subst hff
  exact ⟨e, he, hek, fun r => (hiff r).symm⟩

/-- **equality is canonical**: `a == b` iff shape, common value and dense content coincide -/
theorem eqIdx_iff_dense (a b : IIndex) (ha : WF a) (hb : WF b) :
    eqIdx a b = true ↔ a.shape = b.shape ∧ a.common = b.common ∧
      ∀ r < a.nrows, ∀ hi ∈ hiCells (a.shape.drop 1), denseAt a r hi = denseAt b r hi := by
  rw [eqIdx_iff_same a b ha hb]
  constructor
  · rintro ⟨hs, hc, hl, hall⟩
    refine ⟨hs, hc, fun r _ hi _ => ?_⟩
    have hall' := same_symm a b ha hb hl hall
    by_cases hla : ∃ e ∈ a.entries, e.1.drop 1 = hi ∧ r ∈ e.2
    · obtain ⟨e, he, hehi, hre⟩ := hla
      obtain ⟨f, hf, hfe, hiff⟩ := hall e he
      rw [denseAt_of_mem a ha e he r hi hehi hre,
        denseAt_of_mem b hb f hf r hi (by rw [hfe]; exact hehi) ((hiff r).mp hre), hfe]
    · have hna : ∀ e ∈ a.entries, e.1.drop 1 = hi → r ∉ e.2 := fun e he h1 h2 => hla ⟨e, he, h1, h2⟩
      have hnb : ∀ f ∈ b.entries, f.1.drop 1 = hi → r ∉ f.2 := by
        intro f hf h1 h2
        obtain ⟨e, he, hef, hiff⟩ := hall' f hf
        exact hna e he (by rw [hef]; exact h1) ((hiff r).mp h2)
      rw [denseAt_of_not_mem a r hi hna, denseAt_of_not_mem b r hi hnb, hc]
  · rintro ⟨hs, hc, hd⟩
    have hnr : a.nrows = b.nrows := by unfold IIndex.nrows; rw [hs]
    -- each entry of one index is matched in the other
    have match_one : ∀ (x y : IIndex), WF x → WF y → x.shape = y.shape → x.common = y.common →
        (∀ r < x.nrows, ∀ hi ∈ hiCells (x.shape.drop 1), denseAt x r hi = denseAt y r hi) →
        ∀ e ∈ x.entries, ∃ f ∈ y.entries, f.1 = e.1 ∧ ∀ r, r ∈ e.2 → r ∈ f.2 := by
      intro x y hx hy hsxy hcxy hdxy e he
      obtain ⟨r0, hr0⟩ := List.exists_mem_of_ne_nil e.2 (hx.nonEmpty e he)
      have find : ∀ r ∈ e.2, ∃ f ∈ y.entries, f.1 = e.1 ∧ r ∈ f.2 := by
        intro r hr
        have hv := denseAt_of_mem x hx e he r (e.1.drop 1) rfl hr
        have hdy := hdxy r (hx.inRange e he r hr) (e.1.drop 1) (hx.hiRange e he)
        rw [hv] at hdy
        have hne : denseAt y r (e.1.drop 1) ≠ y.common := by
          rw [← hdy, ← hcxy]; exact hx.noCommon e he
        -- so some entry of y lists the cell
        have hex : ∃ f ∈ y.entries, f.1.drop 1 = e.1.drop 1 ∧ r ∈ f.2 := by
          apply Classical.byContradiction
          intro hno
          apply hne
          apply denseAt_of_not_mem
          intro f hf h1 h2
          exact hno ⟨f, hf, h1, h2⟩
        obtain ⟨f, hf, hfhi, hrf⟩ := hex
        refine ⟨f, hf, ?_, hrf⟩
        have hvf := denseAt_of_mem y hy f hf r (e.1.drop 1) hfhi hrf
        rw [← hdy] at hvf
        have hle : 0 < e.1.length := by rw [hx.arity e he]; exact hx.ndimPos
        have hlf : 0 < f.1.length := by rw [hy.arity f hf]; exact hy.ndimPos
        rw [key_eq f.1 hlf, key_eq e.1 hle, hfhi, ← hvf]
      obtain ⟨f0, hf0, hk0, _⟩ := find r0 hr0
      refine ⟨f0, hf0, hk0, fun r hr => ?_⟩
      obtain ⟨f, hf, hk, hrf⟩ := find r hr
      have : f = f0 := by
        have h1 := dget_of_mem _ hy.keys f hf
        have h2 := dget_of_mem _ hy.keys f0 hf0
        rw [hk] at h1; rw [hk0] at h2
        rw [h1] at h2
        cases f; cases f0
        simp at h2 hk hk0 ⊢
        exact ⟨by rw [hk, hk0], h2⟩
      rw [← this]; exact hrf
    have hab := match_one a b ha hb hs hc hd
    have hba := match_one b a hb ha hs.symm hc.symm (fun r hr hi hhi => by
      rw [← hnr] at hr; rw [← hs] at hhi; exact (hd r hr hi hhi).symm)
    have hfull : ∀ e ∈ a.entries, ∃ f ∈ b.entries, f.1 = e.1 ∧ ∀ r, r ∈ e.2 ↔ r ∈ f.2 := by
      intro e he
      obtain ⟨f, hf, hk, h1⟩ := hab e he
      obtain ⟨e', he', hk', h2⟩ := hba f hf
      have : e' = e := by
        have g1 := dget_of_mem _ ha.keys e' he'
        have g2 := dget_of_mem _ ha.keys e he
        rw [hk', hk] at g1
        rw [g1] at g2
        cases e; cases e'
        simp at g2 hk hk' ⊢
        exact ⟨by rw [hk', hk], g2⟩
      subst this
      exact ⟨f, hf, hk, fun r => ⟨h1 r, h2 r⟩⟩
    refine ⟨hs, hc, ?_, hfull⟩
    -- equal number of entries: the key lists are permutations of each other
    have s1 : a.entries.map (·.1) ⊆ b.entries.map (·.1) := by
      intro k hk
      obtain ⟨e, he, rfl⟩ := List.mem_map.mp hk
      obtain ⟨f, hf, hfe, _⟩ := hab e he
      exact List.mem_map.mpr ⟨f, hf, hfe⟩
    have s2 : b.entries.map (·.1) ⊆ a.entries.map (·.1) := by
      intro k hk
      obtain ⟨e, he, rfl⟩ := List.mem_map.mp hk
      obtain ⟨f, hf, hfe, _⟩ := hba e he
      exact List.mem_map.mpr ⟨f, hf, hfe⟩
    have l1 := (List.subperm_of_subset (keys_nodup a ha) s1).length_le
    have l2 := (List.subperm_of_subset (keys_nodup b hb) s2).length_le
    simp at l1 l2; omega

end Catii.IIdx
