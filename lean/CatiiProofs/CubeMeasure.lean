import CatiiProofs.CubeCount
/-! Every measure cube (fill with `Σ μ` over the delivered row ids, corner = grand total, marginal
passes) equals the textbook per-cell measure — for any additive commutative group.  Counts,
weighted counts, sums, valid/missing counters are instances. -/
open Finset
namespace Catii.Marg
open Catii.Cube Catii.Kern
variable {G : Type} [AddCommGroup G]
variable {dims : List Dim} {exts : List ℕ} {N : ℕ} (h : CubeOK dims exts N)
include h

theorem list_sum_eq_finset (rows : Rows) (hs : SSorted rows) (μ : ℕ → G) (P : ℕ → Prop) [DecidablePred P]
    (hiff : ∀ r, r ∈ rows ↔ r < N ∧ P r) : (rows.map μ).sum = ∑ r ∈ (range N).filter P, μ r := by
  have hnd : rows.Nodup := hs.imp (fun h => Nat.ne_of_lt h)
  have : rows.toFinset = (range N).filter P := by
    ext r; simp [hiff r]
  rw [← this, List.sum_toFinset _ hnd]

theorem corner_with (μ : ℕ → G) (c : Cell) :
    rget (initWith exts N μ) c = if exts = c then ((List.range N).map μ).sum else 0 := by
  unfold initWith rput rget
  by_cases hc : exts = c
  · subst hc; simp
  · have : (exts == c) = false := by simpa using hc
    simp [this, hc]

theorem fillWith_inv0 (μ : ℕ → G) (R : Region G)
    (hR : fillWith exts μ (interactions dims) (initWith exts N μ) = .ok R) :
    Inv (geoOf dims exts N h) μ 0 (rget R) := by
  intro c hc
  have hcl : c.length = exts.length := by rw [hc.1]; exact h.len.symm
  rcases fillWith_cell exts μ _ _ R hR c with ⟨it, hit, hcell, hval⟩ | ⟨hnone, hval⟩
  · obtain ⟨co, rows⟩ := it
    simp only at hcell hval
    obtain ⟨hlen, hne, hs, _, _⟩ := item_facts h co rows hit
    have hnc : ¬ ∃ a, 0 ≤ a ∧ a < (geoOf dims exts N h).d ∧ at' c a = at' (geoOf dims exts N h).cm a := by
      rintro ⟨a, _, ha, heq⟩
      have ha' : a < dims.length := ha
      change at' c a = at' (dims.map (·.common)) a at heq
      rw [at_map_common dims a ha', ← hcell, item_cell_at h co rows hit a ha'] at heq
      cases hv : co.getD a none with
      | none => rw [hv] at heq; simp only [Option.getD_none] at heq; have := h.cm_lt a ha'; omega
      | some v => rw [hv] at heq; simp only [Option.getD_some] at heq; exact (item_keys h co rows hit a ha' v hv).2 heq
    rw [hval, if_neg hnc]
    unfold meas
    exact list_sum_eq_finset h rows hs μ _ (fun r => by rw [← hcell]; exact item_rows_iff h co rows hit r)
  · rw [hval, corner_with h μ c]
    by_cases hcorner : exts = c
    · subst hcorner
      have hnc : ¬ ∃ a, 0 ≤ a ∧ a < (geoOf dims exts N h).d ∧ at' exts a = at' (geoOf dims exts N h).cm a := by
        rintro ⟨a, _, ha, heq⟩
        have := (geoOf dims exts N h).cm_lt a ha
        change at' (geoOf dims exts N h).cm a < at' exts a at this
        omega
      rw [if_pos rfl, if_neg hnc]
      unfold meas
      have : (range N).filter (Matches (geoOf dims exts N h) exts) = range N := by
        apply filter_true_of_mem
        intro r _ a _
        exact Or.inl rfl
      change ((List.range N).map μ).sum = ∑ r ∈ (range N).filter (Matches (geoOf dims exts N h) exts), μ r
      rw [this, sum_list_range]
    · rw [if_neg hcorner]
      by_cases hex : ∃ a, 0 ≤ a ∧ a < (geoOf dims exts N h).d ∧ at' c a = at' (geoOf dims exts N h).cm a
      · rw [if_pos hex]
      · rw [if_neg hex]
        unfold meas
        suffices hempty : (range (geoOf dims exts N h).N).filter (Matches (geoOf dims exts N h) c) = ∅ by
          rw [hempty]; simp
        apply filter_eq_empty_iff.mpr
        intro r _ hm
        exfalso
        have hd : 0 < dims.length := by
          obtain ⟨a, ha, _⟩ := exists_ne_of_ne c exts hcl (fun e => hcorner e.symm)
          rw [hcl, h.len] at ha; omega
        have hdne : dims ≠ [] := by intro e; rw [e] at hd; simp at hd
        have hcolen : (coOf exts c).length = dims.length := by rw [length_coOf, hcl, h.len]; simp
        have hsome : ∃ x ∈ coOf exts c, x ≠ none := by
          obtain ⟨a, ha, hne⟩ := exists_ne_of_ne c exts hcl (fun e => hcorner e.symm)
          have ha' : a < exts.length := by rw [← hcl]; exact ha
          have hg := getD_coOf exts c a ha' hcl
          rw [if_neg hne] at hg
          have hai : a < (coOf exts c).length := by rw [hcolen, ← h.len]; exact ha'
          refine ⟨(coOf exts c)[a], List.getElem_mem hai, ?_⟩
          rw [List.getD_eq_getElem?_getD, List.getElem?_eq_getElem hai] at hg
          simp at hg; rw [hg]; simp
        have hsel : Sel dims (coOf exts c) r := by
          rw [sel_iff_idx dims _ r hcolen]
          intro a ha v hv
          have ha' : a < exts.length := by rw [h.len]; exact ha
          rw [getD_coOf exts c a ha' hcl] at hv
          split at hv
          · cases hv
          · rename_i hne
            cases hv
            have hma := hm a ha
            change at' c a = at' exts a ∨ at' c a = dense (dims.getD a default) r at hma
            rcases hma with h1 | h1
            · exact absurd h1 hne
            · have hncm : c.getD a 0 ≠ (dims.getD a default).common := by
                intro e
                apply hex
                refine ⟨a, Nat.zero_le _, ha, ?_⟩
                change at' c a = at' (dims.map (·.common)) a
                rw [at_map_common dims a ha]; exact e
              exact (mem_rowsOf_iff (h.ok _ (getD_mem dims a ha)) _ r hncm).mpr h1.symm
        obtain ⟨rows, hmem⟩ := walk_complete dims (fun d hd => (h.ok d hd).wf) hdne [] none
          (by intro b hb; cases hb) (coOf exts c) hcolen (fun _ => hsome) ⟨r, trivial, hsel⟩
        simp only [List.nil_append] at hmem
        exact hnone (coOf exts c, rows) hmem (cellOf_coOf exts c hcl)

theorem directMeasure_eq (μ : ℕ → G) (c : Cell) (hc : c ∈ allCells exts) :
    directMeasure dims N μ c = ∑ r ∈ (range N).filter (Matches (geoOf dims exts N h) c), μ r := by
  obtain ⟨hl, hlt⟩ := (mem_allCells exts c).mp hc
  have hl' : c.length = dims.length := by rw [hl, h.len]
  unfold directMeasure
  have hnd : ((List.range N).filter fun r => (dims.zip c).all fun (d, v) => dense d r == v).Nodup :=
    List.Nodup.filter _ List.nodup_range
  rw [← List.sum_toFinset _ hnd]
  apply sum_congr _ (fun _ _ => rfl)
  ext r
  simp only [List.mem_toFinset, List.mem_filter, List.mem_range, mem_filter, mem_range]
  rw [zip_all_iff dims c r hl']
  constructor
  · rintro ⟨hr, hm⟩
    exact ⟨hr, fun a ha => Or.inr (hm a ha).symm⟩
  · rintro ⟨hr, hm⟩
    refine ⟨hr, fun a ha => ?_⟩
    rcases hm a ha with h1 | h1
    · have := hlt a (by rw [h.len]; exact ha)
      change at' c a = at' exts a at h1
      omega
    · exact h1.symm

/-- **every measure cube is the textbook per-cell measure** -/
theorem measureCube_correct (μ : ℕ → G) :
    ∃ R, measureCube dims exts N μ = .ok R ∧ ∀ c ∈ allCells exts, rget R c = directMeasure dims N μ c := by
  obtain ⟨R0, hR0⟩ : ∃ R, fillWith exts μ (interactions dims) (initWith exts N μ) = .ok R := by
    apply fillWith_ok
    intro it hit
    have hr := item_inRange h it.1 it.2 hit
    exact zip_all_le exts _ (by rw [hr.1]; exact h.len.symm)
      (fun a ha => hr.2 a (by show a < dims.length; rw [← h.len]; exact ha))
  refine ⟨passes exts (dims.map (·.common)) dims.length R0, ?_, fun c hc => ?_⟩
  · unfold measureCube; rw [hR0]; rfl
  · have := marginal_diff_correct (geoOf dims exts N h) μ R0 (fillWith_inv0 h μ R0 hR0) c (outCell_inRange h c hc)
    simp only [geoOf] at this
    rw [this, directMeasure_eq h μ c hc]
    rfl

end Catii.Marg
