import CatiiProofs.IIndexShift
import CatiiProofs.Dict
/-! `column_stack(indexes, new_common)` is `numpy.column_stack` of the dense arrays and returns a
well-formed index (C06/C07), whatever common value the stack ends up with. Core Lean only. -/
namespace Catii.IIdx
open Catii.Kern

/-- the dense array of the stack: column `col` belongs to the first input whose width covers it -/
def stackAt : List IIndex → Nat → Nat → Int → Int
  | [], _, _, d => d
  | x :: rest, row, col, d =>
    if col < stackWidth x then denseAt x row (if x.ndim > 1 then [(col : Int)] else [])
    else stackAt rest row (col - stackWidth x) d

/-- inserting entries under keys that are new and pairwise distinct is appending them -/
theorem fold_dset_fresh (l acc : List (Key × Rows)) (hl : KeysDistinct l) (hfresh : ∀ x ∈ acc, ∀ e ∈ l, x.1 ≠ e.1) :
    l.foldl (fun es e => dset es e.1 e.2) acc = acc ++ l := by
  induction l generalizing acc with
  | nil => simp
  | cons e rest ih =>
    have hl' := List.pairwise_cons.mp hl
    simp only [List.foldl_cons]
    rw [dset_fresh acc e.1 e.2 (fun x hx => hfresh x hx e List.mem_cons_self)]
    rw [ih _ hl'.2]
    · simp
    · intro x hx y hy
      rcases List.mem_append.mp hx with hx | hx
      · exact hfresh x hx y (List.mem_cons_of_mem _ hy)
      · simp at hx; subst hx; exact hl'.1 y hy

/-- the column (within its own index) of an entry -/
def colIn (x : IIndex) (k : Key) : Int := if x.ndim > 1 then k.getD 1 0 else 0

theorem mem_stackKeys (x : IIndex) (off : Nat) (e' : Key × Rows) :
    e' ∈ stackKeys x off ↔ ∃ e ∈ x.entries, e' = ([val0 e.1, colIn x e.1 + (off : Int)], e.2) := by
  unfold stackKeys colIn
  simp only [List.mem_map]
  constructor
  · rintro ⟨e, he, rfl⟩; exact ⟨e, he, rfl⟩
  · rintro ⟨e, he, rfl⟩; exact ⟨e, he, rfl⟩

/-- for one- and two-axis indexes the column of a well-formed key is a number below the width, and the key is
its value followed by that column (two axes) or just its value (one axis) -/
theorem col_facts (x : IIndex) (h : WF x) (hnd : x.ndim ≤ 2) (e : Key × Rows) (he : e ∈ x.entries) :
    ∃ c : Nat, c < stackWidth x ∧ colIn x e.1 = (c : Int) ∧
      e.1.drop 1 = (if x.ndim > 1 then [(c : Int)] else []) := by
  have ha := h.arity e he
  have hr := h.hiRange e he
  have hp := h.ndimPos
  unfold colIn stackWidth IIndex.ndim at *
  match hs : x.shape with
  | [] => rw [hs] at hp; simp at hp
  | [n] =>
    rw [hs] at ha hr
    refine ⟨0, by simp, by simp, ?_⟩
    simp only [List.drop_succ_cons, List.drop_zero, hiCells, List.mem_singleton] at hr
    simp [hr]
  | [n, m] =>
    rw [hs] at ha hr
    simp only [List.drop_succ_cons, List.drop_zero, hiCells, List.mem_flatMap, List.mem_range, List.mem_map,
      List.mem_singleton] at hr
    obtain ⟨c, hc, t, rfl, hk⟩ := hr
    match e, ha with
    | ([a, b], rows), _ =>
      simp only [List.drop_succ_cons, List.drop_zero, List.cons.injEq, and_true] at hk
      subst hk
      exact ⟨c, by simpa using hc, by simp, by simp⟩
  | _ :: _ :: _ :: _ => rw [hs] at hnd; simp at hnd

theorem mem_hiCells_one (m : Nat) (hi : List Int) : hi ∈ hiCells [m] ↔ ∃ j, j < m ∧ hi = [(j : Int)] := by
  simp only [hiCells, List.mem_flatMap, List.mem_range, List.mem_map, List.mem_singleton]
  constructor
  · rintro ⟨j, hj, t, rfl, rfl⟩; exact ⟨j, hj, rfl⟩
  · rintro ⟨j, hj, rfl⟩; exact ⟨j, hj, [], rfl, rfl⟩

/-- the partial stack after some inputs -/
def partialStack (nc : Int) (n : Nat) (acc : List (Key × Rows) × Nat) : IIndex := ⟨acc.1, nc, [n, acc.2]⟩

/-- the higher coordinates of column `c` in a one- or two-axis index -/
def hiOf (x : IIndex) (c : Nat) : List Int := if x.ndim > 1 then [(c : Int)] else []

/-- shifting an input to the common value of the stack: same shape, same content, that common value -/
theorem shifted_input (x : IIndex) (h : WF x) (hnd : x.ndim ≤ 2) (nc : Int) (x' : IIndex)
    (hx : (if x.common != nc then shiftCommon x (some nc) else pure x) = Except.ok x') :
    WF x' ∧ x'.shape = x.shape ∧ x'.common = nc ∧
      ∀ row < x.nrows, ∀ hi ∈ hiCells (x.shape.drop 1), denseAt x' row hi = denseAt x row hi := by
  by_cases hc : (x.common != nc) = true
  · simp only [hc, if_true] at hx
    obtain ⟨h1, h2, h3⟩ := shiftCommon_refines x h hnd (some nc) x' hx
    refine ⟨h1, h2, ?_, h3⟩
    rw [shiftCommon_some x h hnd nc] at hx
    have hne : ¬ nc = x.common := by
      intro heq; rw [heq] at hc; simp at hc
    simp only [hne, if_false] at hx
    cases hx; rfl
  · simp only [hc, Bool.false_eq_true, if_false, pure, Except.pure] at hx
    cases hx
    have : x.common = nc := by simpa using hc
    exact ⟨h, rfl, this, fun _ _ _ _ => rfl⟩

/-- one input added to the stack -/
theorem stackStep_spec (nc : Int) (n : Nat) (acc acc1 : List (Key × Rows) × Nat) (x : IIndex)
    (hP : WF (partialStack nc n acc)) (hx : WF x) (hnd : x.ndim ≤ 2) (hn : x.nrows = n)
    (hs : stackStep nc acc x = .ok acc1) :
    WF (partialStack nc n acc1) ∧ acc1.2 = acc.2 + stackWidth x ∧
      ∀ row < n, ∀ col < acc1.2, denseAt (partialStack nc n acc1) row [(col : Int)] =
        if col < acc.2 then denseAt (partialStack nc n acc) row [(col : Int)]
        else denseAt x row (hiOf x (col - acc.2)) := by
  have hx' : ∃ x', (if x.common != nc then shiftCommon x (some nc) else pure x) = Except.ok x' ∧
      ((stackKeys x' acc.2).foldl (fun es e => dset es e.1 e.2) acc.1, acc.2 + stackWidth x') = acc1 := by
    unfold stackStep at hs
    by_cases hc : (x.common != nc) = true
    · simp only [hc, if_true, bind, Except.bind, pure, Except.pure] at hs ⊢
      cases hsx : shiftCommon x (some nc) with
      | error e => rw [hsx] at hs; cases hs
      | ok v => rw [hsx] at hs; simp only [Except.ok.injEq] at hs; exact ⟨v, rfl, hs⟩
    · simp only [hc, Bool.false_eq_true, if_false, bind, Except.bind, pure, Except.pure] at hs ⊢
      simp only [Except.ok.injEq] at hs
      exact ⟨x, rfl, hs⟩
  obtain ⟨x', hsx, hs⟩ := hx'
  have hsx' : (if x.common != nc then shiftCommon x (some nc) else pure x) = Except.ok x' := hsx
  · skip
    obtain ⟨hw', hshape', hcom', hd'⟩ := shifted_input x hx hnd nc x' hsx
    have hnd' : x'.ndim ≤ 2 := by unfold IIndex.ndim; rw [hshape']; exact hnd
    have hwidth : stackWidth x' = stackWidth x := by unfold stackWidth IIndex.ndim; rw [hshape']
    have hn' : x'.nrows = n := by unfold IIndex.nrows; rw [hshape']; exact hn
    -- columns of the old keys lie below the offset, those of the new keys at or above it
    have hold : ∀ e ∈ acc.1, ∃ j, j < acc.2 ∧ e.1.drop 1 = [(j : Int)] := by
      intro e he
      have := hP.hiRange e he
      simpa [partialStack, mem_hiCells_one] using this
    have hnewkeys : KeysDistinct (stackKeys x' acc.2) := by
      unfold stackKeys
      show List.Pairwise (fun a b : Key × Rows => a.1 ≠ b.1) _
      rw [List.pairwise_map]
      apply hw'.keys.imp_of_mem
      intro a b ha hb hab heq
      apply hab
      simp only [List.cons.injEq, and_true] at heq
      obtain ⟨c1, _, hc1, hd1⟩ := col_facts x' hw' hnd' a ha
      obtain ⟨c2, _, hc2, hd2⟩ := col_facts x' hw' hnd' b hb
      have hcol : colIn x' a.1 = colIn x' b.1 := by
        have := heq.2
        unfold colIn
        omega
      have h1 : 0 < a.1.length := by rw [hw'.arity a ha]; exact hw'.ndimPos
      have h2 : 0 < b.1.length := by rw [hw'.arity b hb]; exact hw'.ndimPos
      rw [key_eq a.1 h1, key_eq b.1 h2, heq.1, hd1, hd2]
      rw [hc1, hc2] at hcol
      have : c1 = c2 := by exact_mod_cast hcol
      rw [this]
    have hfresh : ∀ y ∈ acc.1, ∀ e ∈ stackKeys x' acc.2, y.1 ≠ e.1 := by
      intro y hy e he heq
      obtain ⟨j, hj, hjd⟩ := hold y hy
      obtain ⟨e0, he0, rfl⟩ := (mem_stackKeys x' acc.2 e).mp he
      obtain ⟨c, _, hc, _⟩ := col_facts x' hw' hnd' e0 he0
      rw [heq] at hjd
      simp only [List.drop_succ_cons, List.drop_zero, List.cons.injEq, and_true] at hjd
      rw [hc] at hjd
      omega
    have hes : acc1.1 = acc.1 ++ stackKeys x' acc.2 := by
      rw [← hs]; exact fold_dset_fresh _ _ hnewkeys hfresh
    have hoff : acc1.2 = acc.2 + stackWidth x := by rw [← hs, hwidth]
    -- membership in the new entries
    have hmem : ∀ e, e ∈ acc1.1 ↔ e ∈ acc.1 ∨ ∃ e0 ∈ x'.entries, e = ([val0 e0.1, colIn x' e0.1 + (acc.2 : Int)], e0.2) := by
      intro e; rw [hes, List.mem_append, mem_stackKeys]
    have hP1 : WF (partialStack nc n acc1) := by
      refine ⟨?_, ?_, by simp [partialStack, IIndex.ndim], ?_, ?_, ?_, ?_, ?_, ?_⟩
      · show KeysDistinct acc1.1
        rw [hes]
        show List.Pairwise (fun a b : Key × Rows => a.1 ≠ b.1) _
        rw [List.pairwise_append]
        exact ⟨hP.keys, hnewkeys, hfresh⟩
      · intro e he
        rcases (hmem e).mp he with h1 | ⟨e0, _, rfl⟩
        · exact hP.arity e h1
        · simp [partialStack, IIndex.ndim]
      · intro e he
        rcases (hmem e).mp he with h1 | ⟨e0, he0, rfl⟩
        · exact hP.noCommon e h1
        · show val0 [val0 e0.1, _] ≠ nc
          have := hw'.noCommon e0 he0
          rw [hcom'] at this
          simpa [val0] using this
      · intro e he
        rcases (hmem e).mp he with h1 | ⟨e0, he0, rfl⟩
        · exact hP.nonEmpty e h1
        · exact hw'.nonEmpty e0 he0
      · intro e he
        rcases (hmem e).mp he with h1 | ⟨e0, he0, rfl⟩
        · exact hP.sorted e h1
        · exact hw'.sorted e0 he0
      · intro e he r hr
        rcases (hmem e).mp he with h1 | ⟨e0, he0, rfl⟩
        · exact hP.inRange e h1 r hr
        · have := hw'.inRange e0 he0 r hr
          rw [hn'] at this
          simpa [partialStack, IIndex.nrows] using this
      · intro e he
        show e.1.drop 1 ∈ hiCells ([n, acc1.2].drop 1)
        simp only [List.drop_succ_cons, List.drop_zero]
        rw [mem_hiCells_one]
        rcases (hmem e).mp he with h1 | ⟨e0, he0, rfl⟩
        · obtain ⟨j, hj, hjd⟩ := hold e h1
          exact ⟨j, by omega, hjd⟩
        · obtain ⟨c, hc1, hc2, _⟩ := col_facts x' hw' hnd' e0 he0
          refine ⟨c + acc.2, by rw [hoff, ← hwidth]; omega, ?_⟩
          simp [hc2]
      · intro e he f hf hef r hre hrf
        rcases (hmem e).mp he with h1 | ⟨e0, he0, rfl⟩
        · rcases (hmem f).mp hf with h2 | ⟨f0, hf0, rfl⟩
          · exact hP.exclusive e h1 f h2 hef r hre hrf
          · exfalso
            obtain ⟨j, hj, hjd⟩ := hold e h1
            obtain ⟨c, _, hc, _⟩ := col_facts x' hw' hnd' f0 hf0
            rw [hjd] at hef
            simp only [List.drop_succ_cons, List.drop_zero, List.cons.injEq, and_true] at hef
            rw [hc] at hef; omega
        · rcases (hmem f).mp hf with h2 | ⟨f0, hf0, rfl⟩
          · exfalso
            obtain ⟨j, hj, hjd⟩ := hold f h2
            obtain ⟨c, _, hc, _⟩ := col_facts x' hw' hnd' e0 he0
            rw [hjd] at hef
            simp only [List.drop_succ_cons, List.drop_zero, List.cons.injEq, and_true] at hef
            rw [hc] at hef; omega
          · obtain ⟨c1, _, hc1, hd1⟩ := col_facts x' hw' hnd' e0 he0
            obtain ⟨c2, _, hc2, hd2⟩ := col_facts x' hw' hnd' f0 hf0
            simp only [List.drop_succ_cons, List.drop_zero, List.cons.injEq, and_true] at hef
            have hcc : c1 = c2 := by rw [hc1, hc2] at hef; omega
            have := hw'.exclusive e0 he0 f0 hf0 (by rw [hd1, hd2, hcc]) r hre hrf
            simpa [val0] using this
    refine ⟨hP1, hoff, fun row hrow col hcol => ?_⟩
    by_cases hlt : col < acc.2
    · rw [if_pos hlt]
      -- only old entries can list this column
      by_cases hex : ∃ e ∈ acc.1, e.1.drop 1 = [(col : Int)] ∧ row ∈ e.2
      · obtain ⟨e, he, h1, h2⟩ := hex
        rw [denseAt_of_mem (partialStack nc n acc) hP e he row _ h1 h2]
        exact denseAt_of_mem (partialStack nc n acc1) hP1 e ((hmem e).mpr (Or.inl he)) row _ h1 h2
      · have hnot : ∀ e ∈ acc.1, e.1.drop 1 = [(col : Int)] → row ∉ e.2 := fun e he h1 h2 => hex ⟨e, he, h1, h2⟩
        rw [denseAt_of_not_mem (partialStack nc n acc) row _ hnot]
        apply denseAt_of_not_mem
        intro e he h1 h2
        rcases (hmem e).mp he with h3 | ⟨e0, he0, rfl⟩
        · exact hnot e h3 h1 h2
        · obtain ⟨c, _, hc, _⟩ := col_facts x' hw' hnd' e0 he0
          simp only [List.drop_succ_cons, List.drop_zero, List.cons.injEq, and_true] at h1
          rw [hc] at h1; omega
    · rw [if_neg hlt]
      have hcw : col - acc.2 < stackWidth x := by omega
      have hhi : hiOf x (col - acc.2) ∈ hiCells (x.shape.drop 1) := by
        have hp := hx.ndimPos
        unfold hiOf stackWidth IIndex.ndim at *
        match hsx : x.shape with
        | [] => rw [hsx] at hp; simp at hp
        | [a] => simp [hiCells]
        | [a, b] =>
          rw [hsx] at hcw
          simp at hcw
          simp
          exact (mem_hiCells_one b _).mpr ⟨_, hcw, rfl⟩
        | _ :: _ :: _ :: _ => rw [hsx] at hnd; simp at hnd
      rw [← hd' row (by rw [hn]; exact hrow) _ hhi]
      have hhiof : hiOf x (col - acc.2) = hiOf x' (col - acc.2) := by unfold hiOf IIndex.ndim; rw [hshape']
      rw [hhiof]
      -- entries of the stack listing this column are the re-keyed entries of `x'` with column `col - off`
      have hcolkey : ∀ e0 ∈ x'.entries, ([val0 e0.1, colIn x' e0.1 + (acc.2 : Int)] : Key).drop 1 = [(col : Int)] ↔
          e0.1.drop 1 = hiOf x' (col - acc.2) := by
        intro e0 he0
        obtain ⟨c, hc1, hc2, hc3⟩ := col_facts x' hw' hnd' e0 he0
        simp only [List.drop_succ_cons, List.drop_zero, List.cons.injEq, and_true]
        rw [hc2, hc3]
        unfold hiOf
        by_cases h2 : x'.ndim > 1
        · simp only [h2, if_true, List.cons.injEq, and_true]
          constructor
          · intro h; have : c = col - acc.2 := by omega
            rw [this]
          · intro h; have : c = col - acc.2 := by exact_mod_cast h
            omega
        · simp only [h2, if_false, iff_true]
          have hw1 : stackWidth x' = 1 := by unfold stackWidth; simp [h2]
          rw [hwidth] at hw1
          omega
      by_cases hex : ∃ e0 ∈ x'.entries, e0.1.drop 1 = hiOf x' (col - acc.2) ∧ row ∈ e0.2
      · obtain ⟨e0, he0, h1, h2⟩ := hex
        rw [denseAt_of_mem x' hw' e0 he0 row _ h1 h2]
        have := denseAt_of_mem (partialStack nc n acc1) hP1 ([val0 e0.1, colIn x' e0.1 + (acc.2 : Int)], e0.2)
          ((hmem _).mpr (Or.inr ⟨e0, he0, rfl⟩)) row [(col : Int)] ((hcolkey e0 he0).mpr h1) h2
        rw [this]; simp [val0]
      · have hnot : ∀ e0 ∈ x'.entries, e0.1.drop 1 = hiOf x' (col - acc.2) → row ∉ e0.2 :=
          fun e0 he0 h1 h2 => hex ⟨e0, he0, h1, h2⟩
        rw [denseAt_of_not_mem x' row _ hnot, hcom']
        apply denseAt_of_not_mem
        intro e he h1 h2
        rcases (hmem e).mp he with h3 | ⟨e0, he0, rfl⟩
        · obtain ⟨j, hj, hjd⟩ := hold e h3
          rw [hjd] at h1
          simp only [List.cons.injEq, and_true] at h1
          omega
        · exact hnot e0 he0 ((hcolkey e0 he0).mp h1) h2

theorem stackFold_spec (nc : Int) (n : Nat) (rest : List IIndex)
    (hall : ∀ x ∈ rest, WF x ∧ x.ndim ≤ 2 ∧ x.nrows = n) (acc res : List (Key × Rows) × Nat)
    (hP : WF (partialStack nc n acc)) (h : rest.foldlM (stackStep nc) acc = .ok res) :
    WF (partialStack nc n res) ∧
      ∀ row < n, ∀ col < res.2, denseAt (partialStack nc n res) row [(col : Int)] =
        if col < acc.2 then denseAt (partialStack nc n acc) row [(col : Int)]
        else stackAt rest row (col - acc.2) nc := by
  induction rest generalizing acc with
  | nil =>
    simp only [List.foldlM_nil, pure, Except.pure] at h
    cases h
    exact ⟨hP, fun row _ col hcol => by rw [if_pos hcol]⟩
  | cons x rest ih =>
    rw [List.foldlM_cons] at h
    cases hs : stackStep nc acc x with
    | error e => simp only [hs, bind, Except.bind] at h; cases h
    | ok acc1 =>
      simp only [hs, bind, Except.bind] at h
      obtain ⟨hxw, hxn, hxr⟩ := hall x List.mem_cons_self
      obtain ⟨hP1, hoff, hd1⟩ := stackStep_spec nc n acc acc1 x hP hxw hxn hxr hs
      obtain ⟨hPr, hdr⟩ := ih (fun y hy => hall y (List.mem_cons_of_mem _ hy)) acc1 hP1 h
      refine ⟨hPr, fun row hrow col hcol => ?_⟩
      rw [hdr row hrow col hcol]
      by_cases h1 : col < acc1.2
      · rw [if_pos h1, hd1 row hrow col h1]
        by_cases h0 : col < acc.2
        · rw [if_pos h0, if_pos h0]
        · rw [if_neg h0, if_neg h0]
          have : col - acc.2 < stackWidth x := by omega
          simp only [stackAt, this, if_true]
          rfl
      · rw [if_neg h1]
        have h0 : ¬ col < acc.2 := by omega
        rw [if_neg h0]
        have : ¬ col - acc.2 < stackWidth x := by omega
        simp only [stackAt, this, if_false]
        congr 1
        omega

/-- `columnStack` is: pick a common value (given or computed), then fold the inputs -/
theorem columnStack_inv (first : IIndex) (tl : List IIndex) (newCommon : Option Int) (r : IIndex)
    (h : columnStack (first :: tl) newCommon = .ok r) :
    ∃ nc res, (first :: tl).foldlM (stackStep nc) ([], 0) = .ok res ∧
      r = { entries := res.1, common := nc, shape := [first.nrows, res.2] } := by
  unfold columnStack at h
  simp only [bind, Except.bind] at h
  split at h
  · cases h
  · cases hnc : stackCommon (first :: tl) newCommon with
    | error e => rw [hnc] at h; cases h
    | ok nc =>
      rw [hnc] at h
      simp only at h
      cases hres : (first :: tl).foldlM (stackStep nc) ([], 0) with
      | error e => rw [hres] at h; cases h
      | ok res =>
        rw [hres] at h
        simp only [pure, Except.pure, Except.ok.injEq] at h
        exact ⟨nc, res, hres, h.symm⟩

/-- **`column_stack` is `numpy.column_stack`**: the result holds, column block by column block, the dense
content of its inputs, and is well-formed — whichever common value the stack is given or computes -/
theorem columnStack_refines (first : IIndex) (tl : List IIndex) (newCommon : Option Int) (r : IIndex) (n : Nat)
    (hall : ∀ x ∈ first :: tl, WF x ∧ x.ndim ≤ 2 ∧ x.nrows = n)
    (h : columnStack (first :: tl) newCommon = .ok r) :
    WF r ∧ ∃ total, r.shape = [n, total] ∧
      ∀ row < n, ∀ col < total, denseAt r row [(col : Int)] = stackAt (first :: tl) row col r.common := by
  obtain ⟨nc, res, hfold, rfl⟩ := columnStack_inv first tl newCommon r h
  have hn : first.nrows = n := (hall first List.mem_cons_self).2.2
  have hP0 : WF (partialStack nc n ([], 0)) := by
    refine ⟨List.Pairwise.nil, ?_, by simp [partialStack, IIndex.ndim], ?_, ?_, ?_, ?_, ?_, ?_⟩ <;>
      intro e he <;> simp [partialStack] at he
  obtain ⟨hw, hd⟩ := stackFold_spec nc n (first :: tl) hall ([], 0) res hP0 hfold
  rw [hn]
  refine ⟨hw, res.2, rfl, fun row hrow col hcol => ?_⟩
  have := hd row hrow col hcol
  simp only [Nat.not_lt_zero, if_false, Nat.sub_zero] at this
  exact this

end Catii.IIdx
