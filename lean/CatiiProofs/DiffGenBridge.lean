import CatiiModel.Gen.DiffGen
import Mathlib.Algebra.Group.Basic
/-! The marginal pass REGENERATED from `_compute_common_cells_from_marginal_diffs` (`tools/translate_diff.py`) is the pass
`Cube.passFn` that the inclusion-exclusion theorem (`Marginal.lean`) is about, over any additive commutative group. -/
namespace Catii.Cube

theorem gen_pass_is_passFn {α : Type} [AddCommGroup α] (exts cms : List Nat) (k : Nat) (R : Cell → α) (c : Cell) :
    passOf Gen.diffPass exts cms k R c = passFn exts cms k R c := by
  unfold passOf passFn Gen.diffPass
  simp only [AxSel.has, AxSel.indices, List.map_cons, List.map_nil, List.sum_cons, List.sum_nil, add_zero, beq_iff_eq]

/-- the regenerated data also say: ascending order of the passes, every other axis taken whole, the sum over the pass's axis -/
theorem gen_pass_facts :
    Gen.diffPass.ascending = true ∧ Gen.diffPass.written.2 = .all ∧ Gen.diffPass.minuend.2 = .all ∧
    Gen.diffPass.summed.2 = .all ∧ Gen.diffPass.sumOverPassAxis = true := by decide

end Catii.Cube
