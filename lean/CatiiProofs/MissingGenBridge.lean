import CatiiModel.Gen.MissingGen
import CatiiModel.Agg
import CatiiModel.Stats
import Mathlib.Algebra.Order.Field.Rat
import Mathlib.Tactic.NormNum
/-!
# The missing-cell decisions REGENERATED from the `reduce` methods are the model's

`MissingGen.<class>` is the `output_is_missing` expression of `<class>.reduce` in the current `ffuncs.py` / `xfuncs.py`
(`tools/translate_missing.py`).  Here: for every aggregate of the model the `missing` flag of `reduceCell` is that expression
evaluated on the cell's counters; for the mean, on the ZERO-ADJUSTED weight sum - the translator records that the source
adjusts it before evaluating the rule.
-/
namespace Catii.Agg
open Catii.MissingGen

theorem rule_shape (ig : Bool) (v m : Rat) :
    (if ig then (v == 0) else ((v == 0) || (m != 0))) = (decide (v = 0) || (!ig && decide (m ≠ 0))) := by
  have e1 : (v == 0) = decide (v = 0) := by rw [Bool.eq_iff_iff]; simp
  have e2 : (m == 0) = decide (m = 0) := by rw [Bool.eq_iff_iff]; simp
  cases ig <;> simp [bne, e1, e2]

/-- weighted count, valid count (not the documented plain-0 shortcut), sum: the flag is the regenerated rule on (valid, missing) -/
theorem gen_rule_count_sum (s : Spec) (a v m den : Rat)
    (hf : (s.func = .count ∧ s.weights ≠ .none) ∨ (s.func = .validCount ∧ s.ret.isPlainZero = false) ∨ s.func = .sum) :
    (reduceCell s a v m den).missing = ffunc_sum s.ignoreMissing v m ∧
    ffunc_count = ffunc_sum ∧ ffunc_valid_count = ffunc_sum ∧ xfunc_count = ffunc_sum ∧ xfunc_valid_count = ffunc_sum ∧
    xfunc_sum = ffunc_sum := by
  refine ⟨?_, rfl, rfl, rfl, rfl, rfl⟩
  unfold ffunc_sum
  rw [rule_shape]
  rcases hf with ⟨h1, h2⟩ | ⟨h1, h2⟩ | h1
  · unfold reduceCell; rw [h1]; cases hw : s.weights <;> first | exact absurd hw h2 | rfl
  · unfold reduceCell; rw [h1]; simp [h2]
  · unfold reduceCell; rw [h1]

/-- mean: the flag is the regenerated rule on the zero-adjusted weight sum; the source adjusts before it evaluates the rule -/
theorem gen_rule_mean (s : Spec) (a v m den : Rat) (hf : s.func = .mean) :
    (reduceCell s a v m den).missing = ffunc_mean s.ignoreMissing (if isClose0 s.zeroTol den then 0 else den) m ∧
    ("ffunc_mean", true) ∈ classes := by
  refine ⟨?_, by decide⟩
  unfold ffunc_mean
  rw [rule_shape]
  unfold reduceCell; rw [hf]

/-- the array cube's mean evaluates the same expression on the raw weight sum (no differencing, hence no residue to adjust) -/
theorem gen_rule_xmean : xfunc_mean = ffunc_mean := rfl

/-- standard deviation: fewer than two valid rows, or (unless ignored) a missing row -/
theorem gen_rule_stddev (ig : Bool) (valid missing : Nat) :
    Catii.Stats.stddevMissing ig valid missing = xfunc_stddev ig (valid : Rat) (missing : Rat) := by
  unfold Catii.Stats.stddevMissing xfunc_stddev
  have h1 : decide ((valid : Rat) < 2) = decide (valid < 2) := by
    apply decide_eq_decide.mpr; exact_mod_cast Iff.rfl
  have h2 : ((missing : Rat) != 0) = decide (missing ≠ 0) := by
    rw [Bool.eq_iff_iff]; simp [bne]
  cases ig <;> simp [h1, h2]

end Catii.Agg
