import CatiiModel.Kernels
/-! `set_union_merge_many` never reads outside the concatenation of its inputs nor writes outside its output
buffer, and its loop ends (C09).  Core Lean only. -/
namespace Catii.Kern

/-- every (pointer, limit) pair lies inside the concatenation -/
def PS (values : Array Nat) (ps : List (Nat × Nat)) : Prop := ∀ p ∈ ps, p.1 ≤ p.2 ∧ p.2 ≤ values.size

/-- input words not yet consumed -/
def remaining (ps : List (Nat × Nat)) : Nat := (ps.map fun p => p.2 - p.1).sum

theorem rd_ok_many (a : Array Nat) (i : Nat) (h : i < a.size) : rd a i = .ok a[i] := by
  unfold rd
  rw [Array.getElem?_eq_getElem h]
  rfl

def scanNext (st : Option Nat) (v : Nat) : Option Nat :=
  match st with
  | none => some v
  | some m => if v < m then some v else some m

theorem scanStep_exhausted (values : Array Nat) (st : Option Nat) (p : Nat × Nat) (hx : p.1 ≥ p.2) :
    manyScanStep values st p = .ok st := by
  unfold manyScanStep; rw [if_pos hx]; rfl

theorem scanStep_live (values : Array Nat) (st : Option Nat) (p : Nat × Nat) (hx : ¬ p.1 ≥ p.2) (hlt : p.1 < values.size) :
    manyScanStep values st p = .ok (scanNext st values[p.1]) := by
  unfold manyScanStep; rw [if_neg hx, rd_ok_many values p.1 hlt]; cases st <;> rfl

theorem advStep_live (values : Array Nat) (mv : Nat) (p : Nat × Nat) (hx : p.1 < p.2) (hlt : p.1 < values.size) :
    manyAdvStep values mv p = .ok (if (values[p.1] == mv) = true then (p.1 + 1, p.2) else p) := by
  unfold manyAdvStep; rw [if_pos hx, rd_ok_many values p.1 hlt]; rfl

theorem advStep_exhausted (values : Array Nat) (mv : Nat) (p : Nat × Nat) (hx : ¬ p.1 < p.2) :
    manyAdvStep values mv p = .ok p := by
  unfold manyAdvStep; rw [if_neg hx]; rfl

theorem scan_ok (values : Array Nat) (ps : List (Nat × Nat)) (st : Option Nat) (h : PS values ps) :
    ∃ m, ps.foldlM (manyScanStep values) st = .ok m ∧
      (m = none → st = none ∧ ∀ p ∈ ps, p.1 ≥ p.2) ∧
      (∀ mv, m = some mv → st = some mv ∨ ∃ p ∈ ps, ∃ hp : p.1 < values.size, p.1 < p.2 ∧ values[p.1] = mv) := by
  induction ps generalizing st with
  | nil =>
    refine ⟨st, rfl, fun hm => ⟨hm, by simp⟩, fun mv hm => Or.inl hm⟩
  | cons p rest ih =>
    have hp := h p List.mem_cons_self
    have hrest : PS values rest := fun q hq => h q (List.mem_cons_of_mem _ hq)
    rw [List.foldlM_cons]
    by_cases hx : p.1 ≥ p.2
    · rw [scanStep_exhausted values st p hx]
      simp only [bind, Except.bind]
      obtain ⟨m, h1, h2, h3⟩ := ih st hrest
      refine ⟨m, h1, fun hm => ?_, fun mv hm => ?_⟩
      · obtain ⟨a, b⟩ := h2 hm
        exact ⟨a, fun q hq => by
          rcases List.mem_cons.mp hq with rfl | hq
          · exact hx
          · exact b q hq⟩
      · rcases h3 mv hm with a | ⟨q, hq, hqs, b⟩
        · exact Or.inl a
        · exact Or.inr ⟨q, List.mem_cons_of_mem _ hq, hqs, b⟩
    · have hlt : p.1 < values.size := by omega
      rw [scanStep_live values st p hx hlt]
      simp only [bind, Except.bind]
      generalize hst' : scanNext st values[p.1] = st'
      obtain ⟨m, h1, h2, h3⟩ := ih st' hrest
      have hsome : st' ≠ none := by
        rw [← hst']; unfold scanNext; cases st with
        | none => simp
        | some m0 => simp only; split <;> simp
      refine ⟨m, h1, fun hm => absurd (h2 hm).1 hsome, fun mv hm => ?_⟩
      rcases h3 mv hm with a | ⟨q, hq, hqs, b⟩
      · -- the running minimum is either the old one or this array's next value
        rw [← hst'] at a
        unfold scanNext at a
        cases st with
        | none =>
          simp only [Option.some.injEq] at a
          exact Or.inr ⟨p, List.mem_cons_self, hlt, by omega, a⟩
        | some m0 =>
          simp only at a
          by_cases hc : values[p.1] < m0
          · rw [if_pos hc] at a
            simp only [Option.some.injEq] at a
            exact Or.inr ⟨p, List.mem_cons_self, hlt, by omega, a⟩
          · rw [if_neg hc] at a
            exact Or.inl a
      · exact Or.inr ⟨q, List.mem_cons_of_mem _ hq, hqs, b⟩

theorem remaining_cons (p : Nat × Nat) (ps : List (Nat × Nat)) : remaining (p :: ps) = (p.2 - p.1) + remaining ps := by
  simp [remaining]

theorem adv_ok (values : Array Nat) (mv : Nat) (ps : List (Nat × Nat)) (h : PS values ps) :
    ∃ ps', ps.mapM (manyAdvStep values mv) = .ok ps' ∧ PS values ps' ∧ remaining ps' ≤ remaining ps ∧
      ((∃ p ∈ ps, ∃ hp : p.1 < values.size, p.1 < p.2 ∧ values[p.1] = mv) → remaining ps' < remaining ps) := by
  induction ps with
  | nil => exact ⟨[], rfl, fun p hp => by simp at hp, Nat.le_refl _, fun ⟨p, hp, _⟩ => by simp at hp⟩
  | cons p rest ih =>
    have hp := h p List.mem_cons_self
    have hrest : PS values rest := fun q hq => h q (List.mem_cons_of_mem _ hq)
    obtain ⟨rest', h1, h2, h3, h4⟩ := ih hrest
    rw [List.mapM_cons]
    by_cases hx : p.1 < p.2
    · have hlt : p.1 < values.size := by omega
      rw [advStep_live values mv p hx hlt]
      simp only [pure, Except.pure, bind, Except.bind, h1]
      by_cases hv : (values[p.1] == mv) = true
      · rw [if_pos hv]
        refine ⟨(p.1 + 1, p.2) :: rest', rfl, ?_, ?_, fun _ => ?_⟩
        · intro q hq
          rcases List.mem_cons.mp hq with rfl | hq
          · exact ⟨by simp; omega, hp.2⟩
          · exact h2 q hq
        · rw [remaining_cons, remaining_cons]; simp only; omega
        · rw [remaining_cons, remaining_cons]; simp only; omega
      · rw [if_neg hv]
        refine ⟨p :: rest', rfl, ?_, ?_, fun hex => ?_⟩
        · intro q hq
          rcases List.mem_cons.mp hq with rfl | hq
          · exact hp
          · exact h2 q hq
        · rw [remaining_cons, remaining_cons]; omega
        · rw [remaining_cons, remaining_cons]
          obtain ⟨q, hq, hqs, hq1, hq2⟩ := hex
          rcases List.mem_cons.mp hq with rfl | hq
          · exact absurd (beq_iff_eq.mpr hq2) hv
          · have := h4 ⟨q, hq, hqs, hq1, hq2⟩
            omega
    · rw [advStep_exhausted values mv p hx]
      simp only [pure, Except.pure, bind, Except.bind, h1]
      refine ⟨p :: rest', rfl, ?_, ?_, fun hex => ?_⟩
      · intro q hq
        rcases List.mem_cons.mp hq with rfl | hq
        · exact hp
        · exact h2 q hq
      · rw [remaining_cons, remaining_cons]; omega
      · rw [remaining_cons, remaining_cons]
        obtain ⟨q, hq, hqs, hq1, hq2⟩ := hex
        rcases List.mem_cons.mp hq with rfl | hq
        · exact absurd hq1 hx
        · have := h4 ⟨q, hq, hqs, hq1, hq2⟩
          omega

theorem remaining_pos (ps : List (Nat × Nat)) (p : Nat × Nat) (hp : p ∈ ps) (h : p.1 < p.2) : 0 < remaining ps := by
  induction ps with
  | nil => simp at hp
  | cons q rest ih =>
    rw [remaining_cons]
    rcases List.mem_cons.mp hp with rfl | hp
    · omega
    · have := ih hp; omega

/-- the loop neither reads nor writes out of bounds and does not run out of fuel -/
theorem manyLoop_ok (values : Array Nat) (cap : Nat) (fuel : Nat) (ps : List (Nat × Nat)) (out : Array Nat)
    (h : PS values ps) (hcap : out.size + remaining ps ≤ cap) (hf : remaining ps < fuel) :
    ∃ o, manyLoop values cap fuel ps out = .ok o ∧ o.size ≤ cap := by
  induction fuel generalizing ps out with
  | zero => omega
  | succ fuel ih =>
    unfold manyLoop
    obtain ⟨m, h1, h2, h3⟩ := scan_ok values ps none h
    simp only [bind, Except.bind, h1]
    cases m with
    | none => exact ⟨out, rfl, by omega⟩
    | some mv =>
      simp only
      rcases h3 mv rfl with a | ⟨p, hp, hps, hlt, hv⟩
      · cases a
      · have hpos := remaining_pos ps p hp hlt
        have hw : wr out cap mv = .ok (out.push mv) := by
          unfold wr; rw [if_pos (by omega)]; rfl
        rw [hw]
        simp only
        obtain ⟨ps', a1, a2, a3, a4⟩ := adv_ok values mv ps h
        have hdec := a4 ⟨p, hp, hps, hlt, hv⟩
        rw [a1]
        simp only
        exact ih ps' (out.push mv) a2 (by simp; omega) (by omega)

theorem segments_ok (start : Nat) (lens : List Nat) :
    (∀ p ∈ segments start lens, p.1 ≤ p.2 ∧ p.2 ≤ start + lens.sum) ∧ remaining (segments start lens) = lens.sum := by
  induction lens generalizing start with
  | nil => simp [segments, remaining]
  | cons l ls ih =>
    obtain ⟨h1, h2⟩ := ih (start + l)
    constructor
    · intro p hp
      simp only [segments, List.mem_cons] at hp
      rcases hp with rfl | hp
      · simp only [List.sum_cons]; omega
      · have := h1 p hp
        simp only [List.sum_cons]; omega
    · simp only [segments, remaining_cons, h2, List.sum_cons]; omega

/-- **`set_union_merge_many` is memory-safe for every list of arrays**: every `values[ptr]` lies inside the
concatenation of the inputs, every `result_view[result_len] = ...` inside the output buffer, and the loop ends -/
theorem unionManyChecked_ok (arrays : List (Array Nat)) :
    ∃ out, unionManyChecked arrays = .ok out ∧
      out.size ≤ ((arrays.map Array.toList).filter (· ≠ [])).flatten.length := by
  unfold unionManyChecked
  simp only
  generalize (arrays.map Array.toList).filter (· ≠ []) = vas
  split
  · exact ⟨#[], rfl, by simp⟩
  · obtain ⟨s1, s2⟩ := segments_ok 0 (vas.map List.length)
    have hsz : vas.flatten.toArray.size = (vas.map List.length).sum := by
      simp [List.length_flatten]
    have hps : PS vas.flatten.toArray (segments 0 (vas.map List.length)) := by
      intro p hp
      have := s1 p hp
      rw [hsz]; omega
    obtain ⟨o, ho, hs⟩ := manyLoop_ok vas.flatten.toArray vas.flatten.toArray.size (vas.flatten.toArray.size + 1)
      (segments 0 (vas.map List.length)) #[] hps (by rw [s2, hsz]; simp) (by rw [s2, hsz]; omega)
    exact ⟨o, ho, by simpa using hs⟩

end Catii.Kern
