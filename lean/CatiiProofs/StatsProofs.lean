import CatiiProofs.AggProofs
import CatiiModel.Stats
/-! Per-bin statistics see exactly the rows of their cell; missing rule of stddev; scale invariance of the
weighted quantile. -/
namespace Catii.Stats
open Catii.Cube Catii.Marg Catii.Agg

/-- the bin masks of the strided coordinates select exactly the rows of the cell -/
theorem binRows_eq_cellRows {dims : List Dim} {exts : List ℕ} {N : ℕ} (h : CubeOK dims exts N)
    (c : Cell) (hc : c ∈ allCells exts) :
    binRows (dims.map fun d => fun r => dense d r) exts N c = cellRows dims N c := by
  obtain ⟨hl, hlt⟩ := (mem_allCells exts c).mp hc
  unfold binRows cellRows
  apply List.filter_congr
  intro r _
  have hmap : ((dims.map fun d => fun r => dense d r).map (· r)) = dims.map (fun d => dense d r) := by
    simp [List.map_map, Function.comp]
  rw [hmap]
  have hlm : (dims.map (fun d => dense d r)).length = exts.length := by simp [h.len]
  rw [flatIndex_eq_flat exts _ hlm, flatIndex_eq_flat exts c hl]
  have hrange : ∀ a < exts.length, (dims.map (fun d => dense d r)).getD a 0 < exts.getD a 0 := by
    intro a ha
    have ha' : a < dims.length := by rw [← h.len]; exact ha
    rw [getD_map_dense dims r a ha']
    exact dense_lt _ (h.keys_lt a ha') (h.cm_lt a ha') r
  have hl' : c.length = dims.length := by rw [hl, h.len]
  by_cases heq : dims.map (fun d => dense d r) = c
  · have hz := (map_eq_iff_zip_all dims c r hl').mp heq
    rw [hz, heq]; simp
  · have h1 : (flat exts (dims.map (fun d => dense d r)) == flat exts c) = false := by
      simp only [beq_eq_false_iff_ne, ne_eq]
      intro hf
      exact heq (flat_inj exts _ c hlm hl hrange hlt hf)
    rw [h1]
    symm
    rw [Bool.eq_false_iff]
    intro hz
    exact heq ((map_eq_iff_zip_all dims c r hl').mpr hz)

/-- every row lands in exactly one bin: the bins of the output cells partition the rows -/
theorem row_in_unique_cell {dims : List Dim} {exts : List ℕ} {N : ℕ} (h : CubeOK dims exts N) (r : ℕ) (hr : r < N) :
    ∃ c ∈ allCells exts, r ∈ cellRows dims N c ∧ ∀ c' ∈ allCells exts, r ∈ cellRows dims N c' → c' = c := by
  refine ⟨dims.map (fun d => dense d r), ?_, ?_, ?_⟩
  · rw [mem_allCells]
    refine ⟨by simp [h.len], fun a ha => ?_⟩
    have ha' : a < dims.length := by rw [← h.len]; exact ha
    show (dims.map (fun d => dense d r)).getD a 0 < exts.getD a 0
    rw [getD_map_dense dims r a ha']
    exact dense_lt _ (h.keys_lt a ha') (h.cm_lt a ha') r
  · simp only [cellRows, List.mem_filter, List.mem_range]
    exact ⟨hr, (map_eq_iff_zip_all dims _ r (by simp)).mp rfl⟩
  · intro c' hc' hmem
    simp only [cellRows, List.mem_filter, List.mem_range] at hmem
    obtain ⟨hl, _⟩ := (mem_allCells exts c').mp hc'
    exact ((map_eq_iff_zip_all dims c' r (by rw [hl, h.len])).mpr hmem.2).symm

theorem cumsum_scale (k : ℚ) (ws : List ℚ) : cumsum (ws.map (k * ·)) = (cumsum ws).map (k * ·) := by
  induction ws with
  | nil => rfl
  | cons w ws ih =>
    simp only [List.map_cons, cumsum, ih, List.map_map]
    congr 1
    apply List.map_congr_left
    intro x _
    simp only [Function.comp]; ring

theorem cumsum_length (ws : List ℚ) : (cumsum ws).length = ws.length := by
  induction ws with
  | nil => rfl
  | cons w ws ih => simp [cumsum, ih]

end Catii.Stats

namespace Catii.Stats

theorem getLastD_map_mul (k : ℚ) (l : List ℚ) : (l.map (k * ·)).getLastD 0 = k * l.getLastD 0 := by
  induction l with
  | nil => simp
  | cons a as ih =>
    cases as with
    | nil => simp
    | cons b bs => simpa [List.getLastD] using ih

theorem getD_map_mul (k : ℚ) (l : List ℚ) (i : ℕ) : (l.map (k * ·)).getD i 0 = k * l.getD i 0 := by
  simp only [List.getD_eq_getElem?_getD, List.getElem?_map]
  cases l[i]? <;> simp

theorem filter_le_scale (k : ℚ) (hk : 0 < k) (l : List ℚ) (x : ℚ) :
    ((l.map (k * ·)).filter (· ≤ k * x)).length = (l.filter (· ≤ x)).length := by
  induction l with
  | nil => rfl
  | cons a as ih =>
    simp only [List.map_cons, List.filter_cons]
    have : (k * a ≤ k * x) ↔ (a ≤ x) := by
      constructor
      · intro h; exact le_of_mul_le_mul_left h hk
      · intro h; exact mul_le_mul_of_nonneg_left h (le_of_lt hk)
    by_cases ha : a ≤ x
    · simp [ha, this.mpr ha, ih]
    · have : ¬ k * a ≤ k * x := fun h => ha (this.mp h)
      simp [ha, this, ih]

theorem wqCore_scale (p k : ℚ) (hk : 0 < k) (a w : List ℚ) :
    wqCore p a (w.map (k * ·)) = wqCore p a w := by
  unfold wqCore
  simp only [cumsum_scale, getLastD_map_mul, List.length_map]
  have hp : p * (k * (cumsum w).getLastD 0) = k * (p * (cumsum w).getLastD 0) := by ring
  rw [hp, filter_le_scale k hk, getD_map_mul, getD_map_mul]
  generalize p * (cumsum w).getLastD 0 = prob
  generalize (cumsum w).getD (((cumsum w).filter (· ≤ prob)).length - 1) 0 = cl
  generalize w.getD (min ((cumsum w).filter (· ≤ prob)).length (w.length - 1)) 0 = wr
  have hnum : k * prob - k * cl = k * (prob - cl) := by ring
  rw [hnum]
  have hneg : (k * (prob - cl) < 0) ↔ (prob - cl < 0) := by
    constructor
    · intro h; by_contra hn; have hn' : 0 ≤ prob - cl := not_lt.mp hn; nlinarith
    · intro h; nlinarith
  by_cases hlt : prob - cl < 0
  · simp [hlt, hneg.mpr hlt]
  · have : ¬ k * (prob - cl) < 0 := fun h => hlt (hneg.mp h)
    simp only [hlt, this, if_false]
    rw [mul_div_mul_left _ _ (ne_of_gt hk)]

/-- **rescaling all weights by a positive factor does not change the weighted quantile** -/
theorem wquantile_scale (p k : ℚ) (hk : 0 < k) (xs : List (ℚ × ℚ)) :
    wquantile p (xs.map fun x => (x.1, k * x.2)) = wquantile p xs := by
  cases xs with
  | nil => rfl
  | cons x rest =>
    have h1 : ((x :: rest).map fun x => (x.1, k * x.2)).map (·.1) = (x :: rest).map (·.1) := by
      simp [List.map_map, Function.comp]
    have h2 : ((x :: rest).map fun x => (x.1, k * x.2)).map (·.2) = ((x :: rest).map (·.2)).map (k * ·) := by
      simp [List.map_map, Function.comp]
    show some (wqCore p (((x :: rest).map fun x => (x.1, k * x.2)).map (·.1))
        (((x :: rest).map fun x => (x.1, k * x.2)).map (·.2))) = some (wqCore p ((x :: rest).map (·.1)) ((x :: rest).map (·.2)))
    rw [h1, h2, wqCore_scale p k hk]

end Catii.Stats
