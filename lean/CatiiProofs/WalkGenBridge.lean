import CatiiModel.Gen.WalkGen
/-!
# The walk REGENERATED from `ccube._walk` equals the hand-written `Cube.walk`

`Catii.WalkGen._walk` is rewritten from the current `src/catii/ccubes.py` by `tools/translate_walk.py` on every run; its
value is the sequence of callback invocations.  It is equal to `Cube.walk` (about which C14's soundness, completeness
and exactly-once theorems and C02's fill invariant are proved) for every list of dimensions, every prefix of coordinates
and every running row set - including the order of the invocations.
-/
namespace Catii.Cube
open Catii.WalkGen

theorem flatMap_singleton_or_nil {α β : Type} (l : List α) (f : α → Option β) :
    (l.flatMap fun a => match f a with | some b => [b] | none => []) = l.filterMap f := by
  induction l with
  | nil => rfl
  | cons a as ih => simp only [List.flatMap_cons, List.filterMap_cons, ih]; cases f a <;> rfl

theorem gen_walk_eq (dims : List Dim) : ∀ (base : Co) (rows : Option Rows), _walk dims base rows = walk dims base rows := by
  induction dims with
  | nil => intro base rows; cases rows <;> (rw [_walk]; simp [walk])
  | cons d ds ih =>
    intro base rows
    cases ds with
    | nil =>
      -- the last dimension
      cases rows with
      | none =>
        rw [_walk]
        simp only [List.length_cons, List.length_nil, walk, items, List.flatMap_map]
        simp only [show ¬ (0 + 1 > 1) by omega, if_false, ne_eq, reduceCtorEq, not_false_eq_true, if_true]
        rw [← flatMap_singleton_or_nil]
        congr 1; funext e; by_cases h : e.2 = [] <;> simp [h]
      | some b =>
        rw [_walk]
        simp only [List.length_cons, List.length_nil, walk, items, List.flatMap_map]
        simp only [show ¬ (0 + 1 > 1) by omega, if_false, ne_eq, reduceCtorEq, not_false_eq_true, if_true]
        rw [← flatMap_singleton_or_nil]
        congr 2; funext e; by_cases h : Kern.inter b e.2 = [] <;> simp [h]
    | cons d' ds' =>
      have hlen : (d :: d' :: ds').length > 1 := by simp
      cases rows with
      | none =>
        rw [_walk]
        simp only [hlen, if_true, walk, items, List.flatMap_map, List.drop_succ_cons, List.drop_zero]
        rw [ih]
        congr 1
        congr 1; funext e; rw [ih]
      | some b =>
        rw [_walk]
        simp only [hlen, if_true, walk, items, List.flatMap_map, List.drop_succ_cons, List.drop_zero]
        rw [ih]
        congr 1
        congr 1; funext e
        by_cases h : Kern.inter b e.2 = []
        · simp [h]
        · simp only [h, ne_eq, not_false_eq_true, if_true]; rw [ih]

/-- `ccube.walk` as regenerated = `interactions` of the hand-written model -/
theorem gen_walk_is_interactions (dims : List Dim) : WalkGen.walk dims = interactions dims :=
  gen_walk_eq dims [] none

end Catii.Cube
