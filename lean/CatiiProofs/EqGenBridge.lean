import CatiiModel.Gen.EqGen
/-! `iindex.__eq__` / `__ne__` as REGENERATED from the current source (`tools/translate_eq.py`) are the hand-written
`eqIdx` and its negation, for all pairs of indexes. -/
namespace Catii.IIdx
open Catii.EqGen

theorem setxor1d_empty_iff (a b : Rows) :
    ((setxor1d a b).length == 0) = (a.all (fun r => b.contains r) && b.all (fun r => a.contains r)) := by
  unfold setxor1d
  rw [Bool.eq_iff_iff]
  simp only [beq_iff_eq, List.length_eq_zero_iff, List.append_eq_nil_iff, List.filter_eq_nil_iff, Bool.and_eq_true,
    List.all_eq_true]
  constructor
  · rintro ⟨h1, h2⟩
    exact ⟨fun r hr => by simpa using h1 r hr, fun r hr => by simpa using h2 r hr⟩
  · rintro ⟨h1, h2⟩
    exact ⟨fun r hr => by simpa using h1 r hr, fun r hr => by simpa using h2 r hr⟩

theorem gen_eq_is_eqIdx (a b : IIndex) : indexEq a b = eqIdx a b := by
  unfold indexEq eqIdx
  congr 1
  apply List.all_congr rfl
  intro e
  obtain ⟨k, v⟩ := e
  exact setxor1d_empty_iff v _

theorem gen_ne_is_not_eq (a b : IIndex) : indexNe a b = !(eqIdx a b) := by
  unfold indexNe; rw [gen_eq_is_eqIdx]

end Catii.IIdx
