import CatiiModel.FileOps
/-! An interrupted append-only writer leaves a prefix of what it would have written (C12). Core Lean only. -/
namespace Catii.FileOps

theorem contents_append (a b : List FileOp) : contents (a ++ b) = contents a ++ contents b := by
  simp [contents]

theorem interrupted_is_prefix (ops : List FileOp) (k h : Nat) : interruptedAt ops k h <+: contents ops := by
  unfold interruptedAt
  cases hk : ops[k]? with
  | none =>
    simp only [List.append_nil]
    have : ops.length ≤ k := by
      rcases Nat.lt_or_ge k ops.length with hlt | hge
      · rw [List.getElem?_eq_getElem hlt] at hk; cases hk
      · exact hge
    rw [List.take_of_length_le this]
    exact List.prefix_refl _
  | some op =>
    have hlt : k < ops.length := by
      rcases Nat.lt_or_ge k ops.length with hlt | hge
      · exact hlt
      · rw [List.getElem?_eq_none hge] at hk; cases hk
    have hop : ops[k] = op := by
      rw [List.getElem?_eq_getElem hlt] at hk; exact Option.some.inj hk
    have hsplit : ops = ops.take k ++ op :: ops.drop (k + 1) := by
      rw [← hop]; exact (List.take_append_drop k ops).symm.trans (by rw [List.drop_eq_getElem_cons hlt])
    conv => rhs; rw [hsplit]
    rw [contents_append]
    apply List.prefix_append_right_inj _ |>.mpr
    simp only [contents, List.flatMap_cons]
    exact (List.take_prefix _ _).trans (List.prefix_append _ _)

end Catii.FileOps
