import CatiiModel.Gen.KernelsGen
import CatiiProofs.KernLoops
/-!
# The kernels REGENERATED from `set_operations.pyx` equal the hand-written kernel models

`Catii.KernGen.*` (file `CatiiModel/Gen/KernelsGen.lean`) is rewritten from the current Cython source by
`tools/translate_pyx.py` on every run.  There the result buffer keeps its allocated size (with unspecified initial
content `junk`), `result_len` is an ordinary integer and `result[:result_len]` is taken at the end - as in the source.
The hand-written models (`Catii.Kern.interK`, `unionK`, `diffK`) push onto an output array instead.  This file proves the
two equal for ALL operands - including the error outcomes of the checked accesses, so every theorem of C08 and C09
about the hand-written models is a theorem about the generated ones.  No sortedness, no in-bounds reasoning: the proof
is purely structural (relation `Pref` between the two output representations), so a change of the source that alters
the control flow, an index expression, a bound, the order of two accesses or the size of the allocation breaks it.
-/
set_option linter.unusedSimpArgs false
set_option linter.unusedVariables false
namespace Catii.Kern

/-- the pushed output `out` is the written prefix `res[:n]` of the allocated buffer -/
def Pref (res : Array Nat) (n : Nat) (out : Array Nat) : Prop := n ≤ res.size ∧ out = res.extract 0 n

theorem Pref.size {res n out} (h : Pref res n out) : out.size = n := by
  obtain ⟨h1, rfl⟩ := h; simp; omega

theorem Pref.empty (res : Array Nat) : Pref res 0 #[] := ⟨Nat.zero_le _, by simp⟩

theorem Pref.extract {res n out} (h : Pref res n out) : res.extract 0 n = out := h.2.symm

/-- one checked write on either representation: the same outcome, and the relation is kept -/
theorem wr_bridge {res : Array Nat} {n : Nat} {out : Array Nat} (h : Pref res n out) (v : Nat) :
    (n < res.size ∧ wrAt res n v = pure (res.setIfInBounds n v) ∧ wr out res.size v = pure (out.push v) ∧
      Pref (res.setIfInBounds n v) (n + 1) (out.push v)) ∨
    (wrAt res n v = throw (.oobWrite n res.size) ∧ wr out res.size v = throw (.oobWrite n res.size)) := by
  have hs := h.size
  obtain ⟨hle, rfl⟩ := h
  by_cases hlt : n < res.size
  · left
    refine ⟨hlt, by simp [wrAt, hlt], by simp [wr, hs, hlt], by simp; omega, ?_⟩
    apply Array.ext
    · simp; omega
    · intro i h1 h2
      simp at h1 h2
      by_cases hi : i = n
      · subst hi; simp [Array.getElem_push]; intro h; omega
      · have hin : i < n := by omega
        have hm : i < min n res.size := by omega
        simp [Array.getElem_push, hm]
        rw [Array.getElem_setIfInBounds (by omega)]
        have : ¬ n = i := fun h => hi h.symm
        simp [this]
  · right
    have : n = res.size := by omega
    refine ⟨by simp [wrAt, hlt], ?_⟩
    simp [wr, hs, hlt]


open Catii.KernGen

/-- finishing step shared by all kernels: `return result[:result_len]` -/
def fin2 (s : Array Nat × Nat) : M (Array Nat) := pure (s.1.extract 0 s.2)

/-! ### set_intersect_merge_np -/

theorem inter_loop_bridge (L R : Array Nat) (cap lp rp left right : Nat) (out : Array Nat) :
    ∀ (res : Array Nat) (n : Nat), Pref res n out → res.size = cap → lp < L.size → rp < R.size →
      (set_intersect_merge_np.loop1 L R L.size R.size lp rp left right res n >>= fin2)
        = interLoop L R cap lp rp left right out := by
  fun_induction interLoop L R cap lp rp left right out
  all_goals intro res n hp hc hl hr
  all_goals rw [set_intersect_merge_np.loop1]
  case case1 lp rp left right out _ hgt hge =>
    simp [hgt, hge, fin2, hp.extract]
  case case2 lp rp left right out _ hgt hlt ih =>
    simp only [hgt, hlt, if_true, if_false, bind_assoc]
    congr 1; funext x
    exact ih x res n hp hc hl (by omega)
  case case3 lp rp left right out _ hng hgt hge =>
    simp [hng, hgt, hge, fin2, hp.extract]
  case case4 lp rp left right out _ hng hgt hlt ih =>
    simp only [hng, hgt, hlt, if_true, if_false, bind_assoc]
    congr 1; funext x
    exact ih x res n hp hc (by omega) hr
  case case5 lp rp left right out _ hng hng2 ih =>
    simp only [hng, hng2, if_false, bind_assoc]
    subst hc
    rcases wr_bridge hp left with ⟨hlt, h1, h2, hp'⟩ | ⟨h1, h2⟩
    · rw [h1, h2]; simp only [pure_bind]
      by_cases c1 : lp + 1 ≥ L.size
      · simp [c1, fin2, hp'.extract]
      · by_cases c2 : rp + 1 ≥ R.size
        · simp [c1, c2, fin2, hp'.extract]
        · simp only [c1, c2, if_false, bind_assoc]
          congr 1; funext x; congr 1; funext y
          exact ih _ c1 c2 x y _ _ hp' (by simp) (by omega) (by omega)
    · rw [h1, h2]; rfl
  case case6 => omega

theorem csub_ok (a b : Nat) (h : b ≤ a) : csub a b = pure (a - b) := by simp [csub, h]

@[simp] theorem numpyEmpty_size (n : Nat) (junk : Nat → Nat) : (numpyEmpty n junk).size = n := by simp [numpyEmpty]

@[simp] theorem numpyEmpty_zero (junk : Nat → Nat) : numpyEmpty 0 junk = #[] := by simp [numpyEmpty]

/-- the regenerated `set_intersect_merge_np` is the hand-written `interK`, for all operands and any initial buffer content -/
theorem gen_intersect_eq (junk : Nat → Nat) (L R : Array Nat) : set_intersect_merge_np junk L R = interK L R := by
  unfold set_intersect_merge_np interK
  simp only [↓reduceIte]
  by_cases h0 : L.size = 0 ∨ R.size = 0
  · rw [if_pos h0, if_pos h0]; simp
  · have hl : 0 < L.size := by omega
    have hr : 0 < R.size := by omega
    rw [if_neg h0, if_neg h0]
    rw [rd_ok L 0 hl, rd_ok R 0 hr, csub_ok _ _ hr, csub_ok _ _ hl]
    simp only [pure_bind]
    rw [rd_ok R (R.size - 1) (by omega), rd_ok L (L.size - 1) (by omega)]
    simp only [pure_bind]
    by_cases c1 : L[0] > R[R.size - 1]
    · simp [c1]
    · by_cases c2 : R[0] > L[L.size - 1]
      · simp [c1, c2]
      · simp only [c1, c2, if_false, or_self]
        have := inter_loop_bridge L R (min L.size R.size) 0 0 L[0] R[0] #[] (numpyEmpty (min L.size R.size) junk) 0
          (Pref.empty _) (by simp) hl hr
        exact this

/-! ### the tail-copy loops (`while ptr < len: result_view[result_len] = array[ptr]; ...`) -/

theorem union_copy_left_bridge {β : Type} (A : Array Nat) (cap p : Nat) (out : Array Nat) :
    ∀ (res : Array Nat) (n : Nat) (k : Array Nat × Nat → M β) (k' : Array Nat → M β), Pref res n out → res.size = cap →
      (∀ res' n' out', Pref res' n' out' → res'.size = cap → k (res', n') = k' out') →
      (set_union_merge_np.loop2 A A.size res n p >>= k) = (copyTail A cap p out >>= k') := by
  fun_induction copyTail A cap p out
  all_goals intro res n k k' hp hc hk
  all_goals rw [set_union_merge_np.loop2]
  case case1 p out hlt ih =>
    simp only [hlt, if_true, bind_assoc]
    congr 1; funext v
    subst hc
    rcases wr_bridge hp v with ⟨_, h1, h2, hp'⟩ | ⟨h1, h2⟩
    · rw [h1, h2]; simp only [pure_bind]
      exact ih _ _ _ k k' hp' (by simp) hk
    · rw [h1, h2]; rfl
  case case2 p out hge =>
    simp only [hge, if_false, pure_bind]
    exact hk _ _ _ hp hc

theorem union_copy_right_bridge {β : Type} (A : Array Nat) (cap p : Nat) (out : Array Nat) :
    ∀ (res : Array Nat) (n : Nat) (k : Array Nat × Nat → M β) (k' : Array Nat → M β), Pref res n out → res.size = cap →
      (∀ res' n' out', Pref res' n' out' → res'.size = cap → k (res', n') = k' out') →
      (set_union_merge_np.loop3 A A.size res n p >>= k) = (copyTail A cap p out >>= k') := by
  fun_induction copyTail A cap p out
  all_goals intro res n k k' hp hc hk
  all_goals rw [set_union_merge_np.loop3]
  case case1 p out hlt ih =>
    simp only [hlt, if_true, bind_assoc]
    congr 1; funext v
    subst hc
    rcases wr_bridge hp v with ⟨_, h1, h2, hp'⟩ | ⟨h1, h2⟩
    · rw [h1, h2]; simp only [pure_bind]
      exact ih _ _ _ k k' hp' (by simp) hk
    · rw [h1, h2]; rfl
  case case2 p out hge =>
    simp only [hge, if_false, pure_bind]
    exact hk _ _ _ hp hc

theorem diff_copy_left_bridge {β : Type} (A : Array Nat) (cap p : Nat) (out : Array Nat) :
    ∀ (res : Array Nat) (n : Nat) (k : Array Nat × Nat → M β) (k' : Array Nat → M β), Pref res n out → res.size = cap →
      (∀ res' n' out', Pref res' n' out' → res'.size = cap → k (res', n') = k' out') →
      (set_difference_merge_np.loop2 A A.size res n p >>= k) = (copyTail A cap p out >>= k') := by
  fun_induction copyTail A cap p out
  all_goals intro res n k k' hp hc hk
  all_goals rw [set_difference_merge_np.loop2]
  case case1 p out hlt ih =>
    simp only [hlt, if_true, bind_assoc]
    congr 1; funext v
    subst hc
    rcases wr_bridge hp v with ⟨_, h1, h2, hp'⟩ | ⟨h1, h2⟩
    · rw [h1, h2]; simp only [pure_bind]
      exact ih _ _ _ k k' hp' (by simp) hk
    · rw [h1, h2]; rfl
  case case2 p out hge =>
    simp only [hge, if_false, pure_bind]
    exact hk _ _ _ hp hc

/-! ### set_union_merge_np -/

/-- what follows the main loop of the union kernel: both tail loops, then `result[:result_len]` -/
def unionTailGen (L R : Array Nat) (s : Array Nat × Nat × Nat × Nat) : M (Array Nat) :=
  set_union_merge_np.loop2 L L.size s.1 s.2.1 s.2.2.1 >>= fun r =>
    set_union_merge_np.loop3 R R.size r.1 r.2 s.2.2.2 >>= fin2

theorem union_tail_bridge (L R : Array Nat) (cap lp rp : Nat) (out res : Array Nat) (n : Nat)
    (hp : Pref res n out) (hc : res.size = cap) :
    unionTailGen L R (res, n, lp, rp) = unionFinish L R cap lp rp out := by
  unfold unionTailGen unionFinish
  refine union_copy_left_bridge L cap lp out res n _ _ hp hc ?_
  intro res' n' out' hp' hc'
  have := union_copy_right_bridge R cap rp out' res' n' fin2 pure hp' hc' (by
    intro r m o hpo _; simp [fin2, hpo.extract])
  simpa using this

theorem union_loop_bridge (L R : Array Nat) (cap lp rp left right : Nat) (out : Array Nat) :
    ∀ (res : Array Nat) (n : Nat), Pref res n out → res.size = cap → lp < L.size → rp < R.size →
      (set_union_merge_np.loop1 L R L.size R.size res n lp rp left right >>= unionTailGen L R)
        = unionLoop L R cap lp rp left right out := by
  fun_induction unionLoop L R cap lp rp left right out
  all_goals intro res n hp hc hl hr
  all_goals rw [set_union_merge_np.loop1]
  all_goals subst hc
  case case1 lp rp left right out _ hgt ih =>
    simp only [hgt, if_true, bind_assoc]
    rcases wr_bridge hp right with ⟨_, h1, h2, hp'⟩ | ⟨h1, h2⟩
    · rw [h1, h2]; simp only [pure_bind]
      by_cases c : rp + 1 ≥ R.size
      · simp only [c, if_true, pure_bind]
        exact union_tail_bridge L R _ _ _ _ _ _ hp' (by simp)
      · simp only [c, if_false, bind_assoc]
        congr 1; funext x
        exact ih _ c x _ _ hp' (by simp) hl (by omega)
    · rw [h1, h2]; rfl
  case case2 lp rp left right out _ hng hgt ih =>
    simp only [hng, hgt, if_true, if_false, bind_assoc]
    rcases wr_bridge hp left with ⟨_, h1, h2, hp'⟩ | ⟨h1, h2⟩
    · rw [h1, h2]; simp only [pure_bind]
      by_cases c : lp + 1 ≥ L.size
      · simp only [c, if_true, pure_bind]
        exact union_tail_bridge L R _ _ _ _ _ _ hp' (by simp)
      · simp only [c, if_false, bind_assoc]
        congr 1; funext x
        exact ih _ c x _ _ hp' (by simp) (by omega) hr
    · rw [h1, h2]; rfl
  case case3 lp rp left right out _ hng hng2 ih =>
    simp only [hng, hng2, if_false, bind_assoc]
    rcases wr_bridge hp left with ⟨_, h1, h2, hp'⟩ | ⟨h1, h2⟩
    · rw [h1, h2]; simp only [pure_bind]
      by_cases c1 : lp + 1 ≥ L.size
      · simp only [c1, if_true, pure_bind]
        exact union_tail_bridge L R _ _ _ _ _ _ hp' (by simp)
      · by_cases c2 : rp + 1 ≥ R.size
        · simp only [c1, c2, if_true, if_false, pure_bind]
          exact union_tail_bridge L R _ _ _ _ _ _ hp' (by simp)
        · simp only [c1, c2, if_false, bind_assoc]
          congr 1; funext x; congr 1; funext y
          exact ih _ c1 c2 x y _ _ hp' (by simp) (by omega) (by omega)
    · rw [h1, h2]; rfl
  case case4 => omega

/-- the regenerated `set_union_merge_np` is the hand-written `unionK` -/
theorem gen_union_eq (junk : Nat → Nat) (L R : Array Nat) : set_union_merge_np junk L R = unionK L R := by
  unfold set_union_merge_np unionK
  by_cases hl0 : L.size = 0
  · rw [if_pos hl0, if_pos hl0]
  · rw [if_neg hl0, if_neg hl0]
    by_cases hr0 : R.size = 0
    · rw [if_pos hr0, if_pos hr0]
    · rw [if_neg hr0, if_neg hr0]
      have hl : 0 < L.size := by omega
      have hr : 0 < R.size := by omega
      rw [rd_ok L 0 hl, rd_ok R 0 hr, csub_ok _ _ hr, csub_ok _ _ hl]
      simp only [pure_bind]
      rw [rd_ok R (R.size - 1) (by omega), rd_ok L (L.size - 1) (by omega)]
      simp only [pure_bind]
      by_cases c1 : L[0] > R[R.size - 1]
      · simp only [c1, if_true]
      · by_cases c2 : R[0] > L[L.size - 1]
        · simp only [c1, c2, if_true, if_false]
        · simp only [c1, c2, if_false]
          exact union_loop_bridge L R (L.size + R.size) 0 0 L[0] R[0] #[] (numpyEmpty (L.size + R.size) junk) 0
            (Pref.empty _) (by simp) hl hr

/-! ### set_difference_merge_np -/

/-- what follows the main loop of the difference kernel: the tail loop over the left operand, then `result[:result_len]` -/
def diffTailGen (L : Array Nat) (s : Array Nat × Nat × Nat) : M (Array Nat) :=
  set_difference_merge_np.loop2 L L.size s.1 s.2.1 s.2.2 >>= fin2

theorem diff_tail_bridge (L : Array Nat) (cap lp : Nat) (out res : Array Nat) (n : Nat)
    (hp : Pref res n out) (hc : res.size = cap) :
    diffTailGen L (res, n, lp) = copyTail L cap lp out := by
  unfold diffTailGen
  have := diff_copy_left_bridge L cap lp out res n fin2 pure hp hc (by
    intro r m o hpo _; simp [fin2, hpo.extract])
  simpa using this

theorem diff_loop_bridge (L R : Array Nat) (cap lp rp left right : Nat) (out : Array Nat) :
    ∀ (res : Array Nat) (n : Nat), Pref res n out → res.size = cap → lp < L.size → rp < R.size →
      (set_difference_merge_np.loop1 L R L.size R.size res n lp rp left right >>= diffTailGen L)
        = diffLoop L R cap lp rp left right out := by
  fun_induction diffLoop L R cap lp rp left right out
  all_goals intro res n hp hc hl hr
  all_goals rw [set_difference_merge_np.loop1]
  all_goals subst hc
  case case1 lp rp left right out _ hgt hge =>
    simp only [hgt, hge, if_true, pure_bind]
    exact diff_tail_bridge L _ _ _ _ _ hp rfl
  case case2 lp rp left right out _ hgt hlt ih =>
    simp only [hgt, hlt, if_true, if_false, bind_assoc]
    congr 1; funext x
    exact ih x _ _ hp rfl hl (by omega)
  case case3 lp rp left right out _ hng hgt ih =>
    simp only [hng, hgt, if_true, if_false, bind_assoc]
    rcases wr_bridge hp left with ⟨_, h1, h2, hp'⟩ | ⟨h1, h2⟩
    · rw [h1, h2]; simp only [pure_bind]
      by_cases c : lp + 1 ≥ L.size
      · simp only [c, if_true, pure_bind]
        exact diff_tail_bridge L _ _ _ _ _ hp' (by simp)
      · simp only [c, if_false, bind_assoc]
        congr 1; funext x
        exact ih _ c x _ _ hp' (by simp) (by omega) hr
    · rw [h1, h2]; rfl
  case case4 lp rp left right out _ hng hng2 hge =>
    simp only [hng, hng2, hge, if_true, if_false, pure_bind]
    exact diff_tail_bridge L _ _ _ _ _ hp rfl
  case case5 lp rp left right out _ hng hng2 hlt hge =>
    simp only [hng, hng2, hlt, hge, if_true, if_false, pure_bind]
    exact diff_tail_bridge L _ _ _ _ _ hp rfl
  case case6 lp rp left right out _ hng hng2 hlt hlt2 ih =>
    simp only [hng, hng2, hlt, hlt2, if_false, bind_assoc]
    congr 1; funext x; congr 1; funext y
    exact ih x y _ _ hp rfl (by omega) (by omega)
  case case7 => omega

theorem sliceAssign_whole (n : Nat) (junk : Nat → Nat) (L : Array Nat) (h : L.size = n) :
    sliceAssign (numpyEmpty n junk) n L = pure L := by
  have he : (numpyEmpty n junk).extract n n = #[] := by
    apply Array.ext <;> simp
  simp [sliceAssign, h, he]

/-- the regenerated `set_difference_merge_np` is the hand-written `diffK` -/
theorem gen_difference_eq (junk : Nat → Nat) (L R : Array Nat) : set_difference_merge_np junk L R = diffK L R := by
  unfold set_difference_merge_np diffK
  by_cases hl0 : L.size = 0
  · rw [if_pos hl0, if_pos hl0]; simp
  · rw [if_neg hl0, if_neg hl0]
    have hwhole : (sliceAssign (numpyEmpty L.size junk) L.size L >>= fun r => (pure (r.extract 0 L.size) : M (Array Nat)))
        = pure L := by
      rw [sliceAssign_whole _ _ _ rfl]; simp
    by_cases hr0 : R.size = 0
    · rw [if_pos hr0, if_pos hr0]; exact hwhole
    · rw [if_neg hr0, if_neg hr0]
      have hl : 0 < L.size := by omega
      have hr : 0 < R.size := by omega
      rw [rd_ok L 0 hl, rd_ok R 0 hr, csub_ok _ _ hr, csub_ok _ _ hl]
      simp only [pure_bind]
      rw [rd_ok R (R.size - 1) (by omega), rd_ok L (L.size - 1) (by omega)]
      simp only [pure_bind]
      by_cases c1 : L[0] > R[R.size - 1]
      · simp only [c1, if_true, true_or]; exact hwhole
      · by_cases c2 : R[0] > L[L.size - 1]
        · simp only [c1, c2, if_true, if_false, or_true]; exact hwhole
        · simp only [c1, c2, if_false, or_self]
          exact diff_loop_bridge L R L.size 0 0 L[0] R[0] #[] (numpyEmpty L.size junk) 0
            (Pref.empty _) (by simp) hl hr

end Catii.Kern
