import CatiiProofs.RoundTrip
/-! `from_array` returns a well-formed index (C07), on both construction paths. Core Lean only. -/
namespace Catii.IIdx
open Catii.Kern

/-- every entry lists a non-empty, strictly increasing set of rows -/
def RowsOK (es : List (Key × Rows)) : Prop := ∀ e ∈ es, e.2 ≠ [] ∧ SSorted e.2

theorem rowsOK_dset (es : List (Key × Rows)) (hk : KeysDistinct es) (h : RowsOK es) (k : Key) (v : Rows)
    (hv : v ≠ [] ∧ SSorted v) : RowsOK (dset es k v) := by
  intro e he
  rcases (mem_dset_iff es hk k v e).mp he with rfl | ⟨h1, _⟩
  · exact hv
  · exact h e h1

theorem whereEq_sorted (l : List Int) (v : Int) : SSorted (whereEq l v) := by
  unfold whereEq
  exact List.Pairwise.filter _ List.pairwise_lt_range

theorem rowsOK_dunion (es : List (Key × Rows)) (hk : KeysDistinct es) (h : RowsOK es) (k : Key) (rows : Rows)
    (hr : rows ≠ [] ∧ SSorted rows) : RowsOK (dunion es k rows) := by
  unfold dunion
  cases hg : dget es k with
  | none => exact rowsOK_dset es hk h k rows hr
  | some old =>
    have hold := h _ (dget_some_mem es k old hg)
    apply rowsOK_dset es hk h
    refine ⟨?_, uni_sorted old rows hold.2 hr.2⟩
    obtain ⟨x, hx⟩ := List.exists_mem_of_ne_nil rows hr.1
    intro hnil
    have := (mem_uni old rows x).mpr (Or.inr hx)
    rw [hnil] at this; simp at this

/-- the per-value `where` path keeps rows non-empty and sorted -/
theorem whereStep_rowsOK (a : Arr) (m : Option (List (Int × Int))) (cm : Int) (es es' : List (Key × Rows))
    (c : Int × Int) (hk : KeysDistinct es) (h : RowsOK es) (hs : whereStep a m cm es c = .ok es') :
    KeysDistinct es' ∧ RowsOK es' := by
  unfold whereStep at hs
  cases hmv : mapVal m c.1 with
  | error e => simp [hmv] at hs
  | ok mv =>
    simp only [hmv, Except.ok.injEq] at hs
    subst hs
    by_cases hcm : (mv == cm) = true
    · simp only [hcm, if_true]; exact ⟨hk, h⟩
    · simp only [hcm, Bool.false_eq_true, if_false]
      have gen : ∀ (cols : List Nat) (es : List (Key × Rows)), KeysDistinct es → RowsOK es →
          KeysDistinct (cols.foldl (fun es col =>
            let rows := whereEq (a.col col) c.1
            if rows.isEmpty then es else dunion es (a.key mv col) rows) es) ∧
          RowsOK (cols.foldl (fun es col =>
            let rows := whereEq (a.col col) c.1
            if rows.isEmpty then es else dunion es (a.key mv col) rows) es) := by
        intro cols
        induction cols with
        | nil => intro es hk h; exact ⟨hk, h⟩
        | cons col rest ih =>
          intro es hk h
          simp only [List.foldl_cons]
          by_cases hemp : (whereEq (a.col col) c.1).isEmpty = true
          · simp only [hemp, if_true]; exact ih es hk h
          · simp only [hemp, Bool.false_eq_true, if_false]
            exact ih _ (dunion_keysDistinct es hk _ _)
              (rowsOK_dunion es hk h _ _ ⟨by simpa using hemp, whereEq_sorted _ _⟩)
      exact gen a.cols es hk h

theorem buildWhere_rowsOK (a : Arr) (m : Option (List (Int × Int))) (cm : Int) (counts : List (Int × Int))
    (res : List (Key × Rows)) (h : buildWhere a m cm counts = .ok res) : RowsOK res := by
  unfold buildWhere at h
  have gen : ∀ (cs : List (Int × Int)) (es : List (Key × Rows)), KeysDistinct es → RowsOK es →
      cs.foldlM (whereStep a m cm) es = .ok res → RowsOK res := by
    intro cs
    induction cs with
    | nil => intro es _ h hres; simp only [List.foldlM_nil, pure, Except.pure] at hres; cases hres; exact h
    | cons c rest ih =>
      intro es hk h hres
      rw [List.foldlM_cons] at hres
      cases hs : whereStep a m cm es c with
      | error e => simp only [hs, bind, Except.bind] at hres; cases hres
      | ok es' =>
        simp only [hs, bind, Except.bind] at hres
        obtain ⟨hk', h'⟩ := whereStep_rowsOK a m cm es es' c hk h hs
        exact ih es' hk' h' hres
  exact gen counts [] List.Pairwise.nil (fun e he => by simp at he) h

/-! ### the per-row scan path -/

theorem rowsOK_dappend (es : List (Key × Rows)) (hk : KeysDistinct es) (h : RowsOK es) (k : Key) (r0 : Nat)
    (hb : ∀ old, dget es k = some old → ∀ r' ∈ old, r' < r0) : RowsOK (dappend es k r0) := by
  unfold dappend
  cases hg : dget es k with
  | none => exact rowsOK_dset es hk h k [r0] ⟨by simp, by simp⟩
  | some old =>
    have hold := h _ (dget_some_mem es k old hg)
    apply rowsOK_dset es hk h
    refine ⟨by simp, ?_⟩
    show List.Pairwise (· < ·) _
    rw [List.pairwise_append]
    exact ⟨hold.2, by simp, fun x hx y hy => by simp at hy; subst hy; exact hb old hg x hx⟩

/-- within one column, rows listed under a key of that column lie below the scan position -/
def InvCol (a : Arr) (col bound : Nat) (es : List (Key × Rows)) : Prop :=
  RowsOK es ∧ ∀ e ∈ es, (∃ mv, e.1 = a.key mv col) → ∀ r' ∈ e.2, r' < bound

theorem scanCol_rowsOK (a : Arr) (m : Option (List (Int × Int))) (cm : Int) (col : Nat) (rs : List Nat)
    (hs : rs.Pairwise (· < ·)) (bound : Nat) (hb : ∀ r ∈ rs, bound ≤ r) (es res : List (Key × Rows))
    (hk : KeysDistinct es) (h : InvCol a col bound es) (hrun : rs.foldlM (scanStep a m cm col) es = .ok res) :
    RowsOK res := by
  induction rs generalizing bound es with
  | nil => simp only [List.foldlM_nil, pure, Except.pure] at hrun; cases hrun; exact h.1
  | cons r0 rest ih =>
    have hs' := List.pairwise_cons.mp hs
    rw [List.foldlM_cons] at hrun
    cases hmv : mapVal m (a.at r0 col) with
    | error e => simp only [scanStep, hmv, bind, Except.bind] at hrun; cases hrun
    | ok mv =>
      simp only [scanStep, hmv, bind, Except.bind] at hrun
      have hb0 : bound ≤ r0 := hb r0 List.mem_cons_self
      have hrest : ∀ r ∈ rest, r0 + 1 ≤ r := fun r hr => hs'.1 r hr
      by_cases hcm : (mv == cm) = true
      · simp only [hcm, if_true] at hrun
        refine ih hs'.2 (r0 + 1) hrest es hk ⟨h.1, fun e he hkey r' hr' => ?_⟩ hrun
        have := h.2 e he hkey r' hr'
        omega
      · simp only [hcm, Bool.false_eq_true, if_false] at hrun
        have hbelow : ∀ old, dget es (a.key mv col) = some old → ∀ r' ∈ old, r' < r0 := by
          intro old hg r' hr'
          have := h.2 _ (dget_some_mem es _ old hg) ⟨mv, rfl⟩ r' hr'
          omega
        refine ih hs'.2 (r0 + 1) hrest _ (dappend_keysDistinct es hk _ _)
          ⟨rowsOK_dappend es hk h.1 _ r0 hbelow, fun e he hkey r' hr' => ?_⟩ hrun
        unfold dappend at he
        cases hg : dget es (a.key mv col) with
        | none =>
          rw [hg] at he
          rcases (mem_dset_iff es hk _ _ e).mp he with rfl | ⟨h1, _⟩
          · simp at hr'; omega
          · have := h.2 e h1 hkey r' hr'; omega
        | some old =>
          rw [hg] at he
          rcases (mem_dset_iff es hk _ _ e).mp he with rfl | ⟨h1, _⟩
          · rcases List.mem_append.mp hr' with hr' | hr'
            · have := hbelow old hg r' hr'; omega
            · simp at hr'; omega
          · have := h.2 e h1 hkey r' hr'; omega

/-- one whole column of the scan: the processed-cells invariant advances by that column -/
theorem scanCol_built (a : Arr) (m : Option (List (Int × Int))) (cm : Int) (col : Nat) (pre : List Nat)
    (hcolmem : col ∈ a.cols) (hnotpre : col ∉ pre) (es es' : List (Key × Rows))
    (hb : BuiltFor a m cm (fun _ c => c ∈ pre) es)
    (hin : (List.range a.nrows).foldlM (scanStep a m cm col) es = .ok es') :
    BuiltFor a m cm (fun _ c => c ∈ pre ++ [col]) es' := by
  have hb' : BuiltFor a m cm (fun r c => c ∈ pre ∨ (c = col ∧ r ∈ ([] : List Nat))) es := by
    obtain ⟨hk, hl⟩ := hb
    refine ⟨hk, fun k r => ?_⟩
    rw [hl k r]
    constructor
    · rintro ⟨c, hc, hrr, hd, rest'⟩; exact ⟨c, hc, hrr, Or.inl hd, rest'⟩
    · rintro ⟨c, hc, hrr, hd, rest'⟩
      rcases hd with hd | ⟨_, h2⟩
      · exact ⟨c, hc, hrr, hd, rest'⟩
      · simp at h2
  have hrows := scan_rows a m cm col hcolmem (fun _ c => c ∈ pre) (fun _ => hnotpre)
    (List.range a.nrows) [] (by simp) es es' hb' hin
  obtain ⟨hk, hl⟩ := hrows
  refine ⟨hk, fun k r => ?_⟩
  rw [hl k r]
  constructor
  · rintro ⟨c, hc, hrr, hd, rest'⟩
    refine ⟨c, hc, hrr, ?_, rest'⟩
    rcases hd with hd | ⟨h1, _⟩
    · exact List.mem_append.mpr (Or.inl hd)
    · exact List.mem_append.mpr (Or.inr (by simp [h1]))
  · rintro ⟨c, hc, hrr, hd, rest'⟩
    refine ⟨c, hc, hrr, ?_, rest'⟩
    rcases List.mem_append.mp hd with hd | hd
    · exact Or.inl hd
    · simp at hd; exact Or.inr ⟨hd, by simpa using hrr⟩

theorem buildScan_rowsOK (a : Arr) (m : Option (List (Int × Int))) (cm : Int) (res : List (Key × Rows))
    (h : buildScan a m cm = .ok res) : RowsOK res := by
  unfold buildScan at h
  have hcn := cols_nodup a
  have gen : ∀ (rest pre : List Nat) (es : List (Key × Rows)), a.cols = pre ++ rest →
      BuiltFor a m cm (fun _ c => c ∈ pre) es → RowsOK es →
      rest.foldlM (fun es col => (List.range a.nrows).foldlM (scanStep a m cm col) es) es = .ok res → RowsOK res := by
    intro rest
    induction rest with
    | nil => intro pre es _ _ hr hres; simp only [List.foldlM_nil, pure, Except.pure] at hres; cases hres; exact hr
    | cons col rest ih =>
      intro pre es hcols hb hr hres
      rw [List.foldlM_cons] at hres
      cases hin : (List.range a.nrows).foldlM (scanStep a m cm col) es with
      | error e => simp only [hin, bind, Except.bind] at hres; cases hres
      | ok es' =>
        simp only [hin, bind, Except.bind] at hres
        have hcolmem : col ∈ a.cols := by rw [hcols]; simp
        have hnotpre : col ∉ pre := by
          rw [hcols] at hcn
          intro hp
          exact (List.nodup_append.mp hcn).2.2 col hp col (by simp) rfl
        have hinv : InvCol a col 0 es := by
          refine ⟨hr, fun e he ⟨mv, hkey⟩ r' hr' => ?_⟩
          exfalso
          obtain ⟨c, hc, _, hd, mv', _, _, hk'⟩ := (hb.2 e.1 r').mp ⟨e.2, he, hr'⟩
          rw [hkey] at hk'
          have := key_hi_inj a mv mv' col c hcolmem hc (by rw [hk'])
          subst this
          exact hnotpre hd
        have hr' := scanCol_rowsOK a m cm col (List.range a.nrows) List.pairwise_lt_range 0 (fun _ _ => Nat.zero_le _)
          es es' hb.1 hinv hin
        have hb' := scanCol_built a m cm col pre hcolmem hnotpre es es' hb hin
        exact ih (pre ++ [col]) es' (by rw [hcols]; simp) hb' hr' hres
  exact gen a.cols [] [] (by simp) ⟨List.Pairwise.nil, fun k r => by simp [Listed]⟩ (fun e he => by simp at he) h

/-- **`from_array` returns a well-formed index**, whatever the options and whichever strategy ran -/
theorem fromArray_wf (a : Arr) (o : FromOpts) (idx : IIndex) (w : Bool) (harr : ArrOK a)
    (h : fromArray a o = .ok (idx, w))
    (hcounts : ∀ c, o.counts = some c → (c.map (·.1)).Nodup ∧ ∀ v ∈ a.data, v ∈ c.map (·.1)) : WF idx := by
  obtain ⟨es, hidx, hb⟩ := fromArray_built a o idx w harr h hcounts
  obtain ⟨es', hidx', hbuild⟩ := fromArray_inv a o idx w h
  have hes : es' = es := by
    have h1 : idx.entries = es := by rw [hidx]
    have h2 : idx.entries = es' := by rw [hidx']
    rw [← h1, ← h2]
  subst hes
  have hrows : RowsOK es' := by
    rcases hbuild with ⟨_, hw⟩ | ⟨_, hs⟩
    · exact buildWhere_rowsOK a o.mapping idx.common _ es' hw
    · exact buildScan_rowsOK a o.mapping idx.common es' hs
  have hsc := built_scatterable a harr o.mapping idx.common es' hb
  rw [hidx]
  refine ⟨hb.1, fun e he => hsc.arity e he (hrows e he).1, hsc.ndimPos, ?_, fun e he => (hrows e he).1,
    fun e he => (hrows e he).2, ?_, fun e he => hsc.hiRange e he (hrows e he).1, hsc.exclusive⟩
  · intro e he
    obtain ⟨r, hr⟩ := List.exists_mem_of_ne_nil e.2 (hrows e he).1
    obtain ⟨c, _, _, _, mv, _, hne, hk⟩ := (hb.2 e.1 r).mp ⟨e.2, he, hr⟩
    show val0 e.1 ≠ idx.common
    rw [hk, val0_key]; exact hne
  · intro e he r hr
    obtain ⟨c, _, hrr, _⟩ := (hb.2 e.1 r).mp ⟨e.2, he, hr⟩
    exact hrr

end Catii.IIdx
