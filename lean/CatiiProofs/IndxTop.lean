import CatiiProofs.IndxLoad
/-! Word-size selection, scope ⇒ fits, and the torn-file theorem. -/
namespace Catii.Indx

theorem fitDtype1_unsigned (mx : Nat) :
    fitDtype1 (Int.ofNat mx) =
      if mx ≥ 2^32 then DT.u64 else if mx ≥ 2^16 then DT.u32 else if mx ≥ 2^8 then DT.u16 else DT.u8 := by
  unfold fitDtype1 fitDtype
  simp only [Int.ofNat_eq_natCast]
  grind

theorem wordSize_spec (mx : Nat) (h : mx < 2^64) :
    LegalW (fitDtype1 (Int.ofNat mx)).itemsize ∧ mx < 256 ^ (fitDtype1 (Int.ofNat mx)).itemsize ∧
    ∀ w, LegalW w → mx < 256 ^ w → (fitDtype1 (Int.ofNat mx)).itemsize ≤ w := by
  rw [fitDtype1_unsigned]
  by_cases h1 : mx ≥ 2^32
  · simp only [h1, if_true]
    refine ⟨Or.inr (Or.inr (Or.inr rfl)), by simp [DT.itemsize, DT.bits]; omega, ?_⟩
    rintro w (rfl | rfl | rfl | rfl) hw <;> simp [DT.itemsize, DT.bits] at * <;> omega
  · by_cases h2 : mx ≥ 2^16
    · simp only [h1, h2, if_true, if_false]
      refine ⟨Or.inr (Or.inr (Or.inl rfl)), by simp [DT.itemsize, DT.bits]; omega, ?_⟩
      rintro w (rfl | rfl | rfl | rfl) hw <;> simp [DT.itemsize, DT.bits] at * <;> omega
    · by_cases h3 : mx ≥ 2^8
      · simp only [h1, h2, h3, if_true, if_false]
        refine ⟨Or.inr (Or.inl rfl), by simp [DT.itemsize, DT.bits]; omega, ?_⟩
        rintro w (rfl | rfl | rfl | rfl) hw <;> simp [DT.itemsize, DT.bits] at * <;> omega
      · simp only [h1, h2, h3, if_false]
        refine ⟨Or.inl rfl, by simp [DT.itemsize, DT.bits]; omega, ?_⟩
        rintro w (rfl | rfl | rfl | rfl) hw <;> simp [DT.itemsize, DT.bits] at * <;> omega

theorem maxList_ge_init (xs : List Nat) (i : Nat) : i ≤ maxList xs i := by
  unfold maxList
  induction xs generalizing i with
  | nil => simp
  | cons a as ih => simp only [List.foldl_cons]; exact Nat.le_trans (Nat.le_max_left i a) (ih _)

theorem maxList_ge_mem (xs : List Nat) (i x : Nat) (hx : x ∈ xs) : x ≤ maxList xs i := by
  unfold maxList
  induction xs generalizing i with
  | nil => simp at hx
  | cons a as ih =>
    simp only [List.foldl_cons]
    rcases List.mem_cons.mp hx with rfl | hx'
    · exact Nat.le_trans (Nat.le_max_right i x) (maxList_ge_init as _)
    · exact ih _ hx'

theorem maxList_lt (xs : List Nat) (i B : Nat) (hi : i < B) (hx : ∀ x ∈ xs, x < B) : maxList xs i < B := by
  unfold maxList
  induction xs generalizing i with
  | nil => simpa
  | cons a as ih =>
    simp only [List.foldl_cons]
    exact ih _ (by have := hx a List.mem_cons_self; omega) (fun x h => hx x (List.mem_cons_of_mem _ h))

theorem fits_of_scope (es : List Entry) (c : Nat) (h : InScope es c) :
    Fits es c (indexWordSize es c) 4 := by
  have hmx : maxList (es.flatMap (·.coords)) c < 2^64 := by
    apply maxList_lt
    · have := h.common_lt; omega
    · intro x hx
      obtain ⟨e, he, hxe⟩ := List.mem_flatMap.mp hx
      have := h.coords_lt e he x hxe; omega
  obtain ⟨hl, hlt, _⟩ := wordSize_spec _ hmx
  refine ⟨hl, Or.inr (Or.inr (Or.inl rfl)), h.count, h.uniform, h.arity_le, ?_, ?_, ?_, ?_, h.ids_lt⟩
  · exact Nat.lt_of_le_of_lt (maxList_ge_init _ _) hlt
  · intro e he x hx
    exact Nat.lt_of_le_of_lt (maxList_ge_mem _ _ x (List.mem_flatMap.mpr ⟨e, he, hx⟩)) hlt
  · intro e he; have := h.len_lt e he; omega
  · intro e he x hx; have := h.ids_lt e he x hx; omega

/-! ### torn files -/
inductive TornErr (e : Err) : Prop
  | header (h : e = .header) | version (h : e = .version)
  | structShort (h : e = .structShort) | mmapShort (h : e = .mmapShort)

theorem load_prefix_fails (p : Bytes) (hp : p.length < 2^64) (k : Nat)
    (hk : k < 16 + p.length) :
    ∃ e, load ((Gen.indxMagic ++ Gen.indxVersion ++ encLE 8 p.length ++ p).take k) = .error e ∧ TornErr e := by
  have hm : Gen.indxMagic.length = 4 := by decide
  have hv : Gen.indxVersion.length = 4 := by decide
  generalize hb : Gen.indxMagic ++ Gen.indxVersion ++ encLE 8 p.length ++ p = b
  have hblen : b.length = 16 + p.length := by
    rw [← hb]; simp [hm, hv]; omega
  have hb4 : b.take 4 = Gen.indxMagic := by
    rw [← hb]; simp only [List.append_assoc]; exact List.take_left' hm
  have hb8 : (b.drop 4).take 4 = Gen.indxVersion := by
    rw [← hb]; simp only [List.append_assoc]; rw [List.drop_left' hm]; exact List.take_left' hv
  have hb16 : (b.drop 8).take 8 = encLE 8 p.length := by
    rw [← hb]
    have : (Gen.indxMagic ++ Gen.indxVersion ++ encLE 8 p.length ++ p).drop 8 = encLE 8 p.length ++ p := by
      rw [List.append_assoc (Gen.indxMagic ++ Gen.indxVersion)]
      exact List.drop_left' (by simp [hm, hv])
    rw [this]; exact List.take_left' (encLE_length _ _)
  unfold load
  by_cases h4 : k < 4
  · refine ⟨.header, ?_, .header rfl⟩
    have : (b.take k).take 4 ≠ Gen.indxMagic := by
      intro heq
      have := congrArg List.length heq
      simp [hm] at this; omega
    simp only [this, ne_eq, not_false_eq_true, if_true]; rfl
  · have t4 : (b.take k).take 4 = Gen.indxMagic := by
      rw [List.take_take, Nat.min_eq_left (by omega), hb4]
    by_cases h8 : k < 8
    · refine ⟨.version, ?_, .version rfl⟩
      have : ((b.take k).drop 4).take 4 ≠ Gen.indxVersion := by
        intro heq
        have := congrArg List.length heq
        simp [hv] at this; omega
      simp only [t4, ne_eq, not_true_eq_false, if_false, this, not_false_eq_true, if_true]; rfl
    · have t8 : ((b.take k).drop 4).take 4 = Gen.indxVersion := by
        rw [List.drop_take, List.take_take, Nat.min_eq_left (by omega), hb8]
      by_cases h16 : k < 16
      · refine ⟨.structShort, ?_, .structShort rfl⟩
        have : (((b.take k).drop 8).take 8).length < 8 := by simp; omega
        simp only [t4, t8, ne_eq, not_true_eq_false, if_false, this, if_true]; rfl
      · refine ⟨.mmapShort, ?_, .mmapShort rfl⟩
        have t16 : ((b.take k).drop 8).take 8 = encLE 8 p.length := by
          rw [List.drop_take, List.take_take, Nat.min_eq_left (by omega), hb16]
        have hl : ¬ (encLE 8 p.length).length < 8 := by simp
        have hshort : (b.take k).length < 16 + p.length := by simp; omega
        simp only [t4, t8, t16, ne_eq, not_true_eq_false, if_false, hl, dec_enc 8 p.length (by omega),
          hshort, if_true]
        rfl

end Catii.Indx
