import CatiiModel.IIndex
import CatiiProofs.KernSets
/-! Python-dict primitives of the `iindex` model, membership-wise. Core Lean only. -/
namespace Catii.IIdx
open Catii.Kern

abbrev KeysDistinct (es : List (Key × Rows)) : Prop := es.Pairwise (fun a b => a.1 ≠ b.1)

theorem dget_of_mem (es : List (Key × Rows)) (hk : KeysDistinct es) (e : Key × Rows)
    (he : e ∈ es) : dget es e.1 = some e.2 := by
  unfold dget
  induction es with
  | nil => simp at he
  | cons a as ih =>
    simp only [List.find?_cons]
    rcases List.mem_cons.mp he with rfl | he'
    · simp
    · have hne : a.1 ≠ e.1 := (List.pairwise_cons.mp hk).1 e he'
      have : (a.1 == e.1) = false := by simpa using hne
      simp only [this]
      exact ih (List.pairwise_cons.mp hk).2 he'

theorem dget_some_mem (es : List (Key × Rows)) (k : Key) (v : Rows) (h : dget es k = some v) : (k, v) ∈ es := by
  unfold dget at h
  cases hf : es.find? (fun e => e.1 == k) with
  | none => simp [hf] at h
  | some e =>
    simp [hf] at h
    have hm := List.mem_of_find?_eq_some hf
    have hp := List.find?_some hf
    simp at hp
    subst h hp
    exact hm

theorem dget_none_iff (es : List (Key × Rows)) (k : Key) : dget es k = none ↔ ∀ e ∈ es, e.1 ≠ k := by
  unfold dget
  simp only [Option.map_eq_none_iff, List.find?_eq_none, beq_iff_eq]

theorem mem_dset_iff (es : List (Key × Rows)) (hk : KeysDistinct es) (k : Key) (v : Rows) (e : Key × Rows) :
    e ∈ dset es k v ↔ e = (k, v) ∨ (e ∈ es ∧ e.1 ≠ k) := by
  induction es with
  | nil => simp [dset]
  | cons x xs ih =>
    have hk' := List.pairwise_cons.mp hk
    simp only [dset]
    by_cases hx : x.1 = k
    · have : (x.1 == k) = true := by simpa using hx
      simp only [this, if_true, List.mem_cons]
      constructor
      · rintro (h | h)
        · exact Or.inl h
        · exact Or.inr ⟨Or.inr h, by rw [← hx]; exact fun heq => hk'.1 e h heq.symm⟩
      · rintro (h | ⟨h1 | h1, h2⟩)
        · exact Or.inl h
        · subst h1; exact absurd hx h2
        · exact Or.inr h1
    · have : (x.1 == k) = false := by simpa using hx
      simp only [this, Bool.false_eq_true, if_false, List.mem_cons]
      rw [ih hk'.2]
      constructor
      · rintro (h | h | ⟨h1, h2⟩)
        · subst h; exact Or.inr ⟨Or.inl rfl, hx⟩
        · exact Or.inl h
        · exact Or.inr ⟨Or.inr h1, h2⟩
      · rintro (h | ⟨h1 | h1, h2⟩)
        · exact Or.inr (Or.inl h)
        · exact Or.inl h1
        · exact Or.inr (Or.inr ⟨h1, h2⟩)

theorem dset_keysDistinct (es : List (Key × Rows)) (hk : KeysDistinct es) (k : Key) (v : Rows) :
    KeysDistinct (dset es k v) := by
  induction es with
  | nil => simp [dset]
  | cons x xs ih =>
    have hk' := List.pairwise_cons.mp hk
    simp only [dset]
    by_cases hx : x.1 = k
    · have : (x.1 == k) = true := by simpa using hx
      simp only [this, if_true]
      exact List.pairwise_cons.mpr ⟨fun e he => by rw [← hx]; exact hk'.1 e he, hk'.2⟩
    · have : (x.1 == k) = false := by simpa using hx
      simp only [this, Bool.false_eq_true, if_false]
      refine List.pairwise_cons.mpr ⟨fun e he => ?_, ih hk'.2⟩
      rcases (mem_dset_iff xs hk'.2 k v e).mp he with rfl | ⟨h1, _⟩
      · exact hx
      · exact hk'.1 e h1

/-- row `r` is listed under key `k` -/
def Listed (es : List (Key × Rows)) (k : Key) (r : Nat) : Prop := ∃ rows, (k, rows) ∈ es ∧ r ∈ rows

theorem listed_dset (es : List (Key × Rows)) (hk : KeysDistinct es) (k : Key) (v : Rows) (k' : Key) (r : Nat) :
    Listed (dset es k v) k' r ↔ (k' = k ∧ r ∈ v) ∨ (k' ≠ k ∧ Listed es k' r) := by
  unfold Listed
  constructor
  · rintro ⟨rows, hm, hr⟩
    rcases (mem_dset_iff es hk k v _).mp hm with h | ⟨h1, h2⟩
    · cases h; exact Or.inl ⟨rfl, hr⟩
    · exact Or.inr ⟨h2, rows, h1, hr⟩
  · rintro (⟨rfl, hr⟩ | ⟨hne, rows, hm, hr⟩)
    · exact ⟨v, (mem_dset_iff es hk _ v _).mpr (Or.inl rfl), hr⟩
    · exact ⟨rows, (mem_dset_iff es hk k v _).mpr (Or.inr ⟨hm, hne⟩), hr⟩

theorem listed_dunion (es : List (Key × Rows)) (hk : KeysDistinct es) (k : Key) (rows : Rows) (k' : Key) (r : Nat) :
    Listed (dunion es k rows) k' r ↔ Listed es k' r ∨ (k' = k ∧ r ∈ rows) := by
  unfold dunion
  cases hg : dget es k with
  | none =>
    simp only
    rw [listed_dset es hk]
    have hno := (dget_none_iff es k).mp hg
    constructor
    · rintro (h | ⟨_, h⟩)
      · exact Or.inr h
      · exact Or.inl h
    · rintro (⟨rs, hm, hr⟩ | h)
      · exact Or.inr ⟨fun heq => hno _ hm heq, rs, hm, hr⟩
      · exact Or.inl h
  | some old =>
    simp only
    rw [listed_dset es hk]
    have hold := dget_some_mem es k old hg
    constructor
    · rintro (⟨rfl, h⟩ | ⟨_, h⟩)
      · rcases (mem_uni old rows r).mp h with h | h
        · exact Or.inl ⟨old, hold, h⟩
        · exact Or.inr ⟨rfl, h⟩
      · exact Or.inl h
    · rintro (⟨rs, hm, hr⟩ | ⟨rfl, h⟩)
      · by_cases hkk : k' = k
        · subst hkk
          have : rs = old := by
            have := dget_of_mem es hk _ hm
            simp at this; rw [hg] at this; cases this; rfl
          subst this
          exact Or.inl ⟨rfl, (mem_uni rs rows r).mpr (Or.inl hr)⟩
        · exact Or.inr ⟨hkk, rs, hm, hr⟩
      · exact Or.inl ⟨rfl, (mem_uni old rows r).mpr (Or.inr h)⟩

theorem dunion_keysDistinct (es : List (Key × Rows)) (hk : KeysDistinct es) (k : Key) (rows : Rows) :
    KeysDistinct (dunion es k rows) := by
  unfold dunion; split <;> exact dset_keysDistinct es hk _ _

theorem listed_dappend (es : List (Key × Rows)) (hk : KeysDistinct es) (k : Key) (r0 : Nat) (k' : Key) (r : Nat) :
    Listed (dappend es k r0) k' r ↔ Listed es k' r ∨ (k' = k ∧ r = r0) := by
  unfold dappend
  cases hg : dget es k with
  | none =>
    simp only
    rw [listed_dset es hk]
    have hno := (dget_none_iff es k).mp hg
    constructor
    · rintro (⟨h1, h2⟩ | ⟨_, h⟩)
      · exact Or.inr ⟨h1, by simpa using h2⟩
      · exact Or.inl h
    · rintro (⟨rs, hm, hr⟩ | ⟨h1, h2⟩)
      · exact Or.inr ⟨fun heq => hno _ hm heq, rs, hm, hr⟩
      · exact Or.inl ⟨h1, by simp [h2]⟩
  | some old =>
    simp only
    rw [listed_dset es hk]
    have hold := dget_some_mem es k old hg
    constructor
    · rintro (⟨rfl, h⟩ | ⟨_, h⟩)
      · rcases List.mem_append.mp h with h | h
        · exact Or.inl ⟨old, hold, h⟩
        · exact Or.inr ⟨rfl, by simpa using h⟩
      · exact Or.inl h
    · rintro (⟨rs, hm, hr⟩ | ⟨rfl, h⟩)
      · by_cases hkk : k' = k
        · subst hkk
          have : rs = old := by
            have := dget_of_mem es hk _ hm
            simp at this; rw [hg] at this; cases this; rfl
          subst this
          exact Or.inl ⟨rfl, List.mem_append.mpr (Or.inl hr)⟩
        · exact Or.inr ⟨hkk, rs, hm, hr⟩
      · exact Or.inl ⟨rfl, List.mem_append.mpr (Or.inr (by simp [h]))⟩

theorem dappend_keysDistinct (es : List (Key × Rows)) (hk : KeysDistinct es) (k : Key) (r0 : Nat) :
    KeysDistinct (dappend es k r0) := by
  unfold dappend; split <;> exact dset_keysDistinct es hk _ _

end Catii.IIdx
