import CatiiProofs.IIndexShift
import CatiiProofs.Dict
import CatiiProofs.ColumnStack
/-! `sliced(*orders)` is column selection in the requested order on the dense array, for any number of axes, and
preserves well-formedness (C06/C07). Core Lean only. -/
namespace Catii.IIdx
open Catii.Kern

/-- the selection on the higher coordinates alone -/
def sliceCoords : List Order → List Int → Option (List Int)
  | [], _ => some []
  | _ :: _, [] => none
  | .all :: os, c :: cs => (sliceCoords os cs).map (c :: ·)
  | .one k :: os, c :: cs => if c == k then sliceCoords os cs else none
  | .list ks :: os, c :: cs =>
    match indexOf ks c with
    | some p => (sliceCoords os cs).map ((p : Int) :: ·)
    | none => none

/-- the old higher coordinates a new cell is read from: `numpy.take` axis by axis -/
def unslice : List Order → List Int → List Int
  | [], _ => []
  | .all :: os, c :: cs => c :: unslice os cs
  | .all :: os, [] => 0 :: unslice os []
  | .one k :: os, cs => k :: unslice os cs
  | .list ks :: os, c :: cs => ks.getD c.toNat 0 :: unslice os cs
  | .list ks :: os, [] => ks.getD 0 0 :: unslice os []

theorem sliceGo_eq (k : Key) (os : List Order) (j : Nat) (acc : List Int)
    (hlen : os.length ≤ (k.drop (j + 1)).length) :
    sliceGo k j os acc = (sliceCoords os (k.drop (j + 1))).map (acc ++ ·) := by
  induction os generalizing j acc with
  | nil => simp [sliceGo, sliceCoords]
  | cons o rest ih =>
    have hne : k.drop (j + 1) ≠ [] := by intro h; rw [h] at hlen; simp at hlen
    obtain ⟨c, cs, hcs⟩ := List.exists_cons_of_ne_nil hne
    have hget : k.getD (j + 1) 0 = c := by
      have : (k.drop (j + 1)).getD 0 0 = c := by rw [hcs]; rfl
      rw [← this, List.getD_eq_getElem?_getD, List.getD_eq_getElem?_getD, List.getElem?_drop]
    have hdrop : k.drop (j + 1 + 1) = cs := by
      have : k.drop (j + 1 + 1) = (k.drop (j + 1)).drop 1 := by rw [List.drop_drop]
      rw [this, hcs]; rfl
    have hlen' : rest.length ≤ (k.drop (j + 1 + 1)).length := by
      rw [hdrop]; rw [hcs] at hlen; simp at hlen; omega
    unfold sliceGo
    simp only [hget]
    rw [hcs]
    cases o with
    | all =>
      simp only [sliceCoords]
      rw [ih (j + 1) _ hlen', hdrop]
      cases sliceCoords rest cs <;> simp
    | one v =>
      simp only [sliceCoords]
      by_cases hcv : (c == v) = true
      · simp only [hcv, if_true]; rw [ih (j + 1) _ hlen', hdrop]
      · simp only [hcv, Bool.false_eq_true, if_false]; rfl
    | list ks =>
      simp only [sliceCoords]
      cases hi : indexOf ks c with
      | none => rfl
      | some p =>
        simp only
        rw [ih (j + 1) _ hlen', hdrop]
        cases sliceCoords rest cs <;> simp

theorem mem_hiCells_cons (n : Nat) (ns : List Nat) (hi : List Int) :
    hi ∈ hiCells (n :: ns) ↔ ∃ j, j < n ∧ ∃ t ∈ hiCells ns, hi = (j : Int) :: t := by
  simp only [hiCells, List.mem_flatMap, List.mem_range, List.mem_map]
  constructor
  · rintro ⟨j, hj, t, ht, rfl⟩; exact ⟨j, hj, t, ht, rfl⟩
  · rintro ⟨j, hj, t, ht, rfl⟩; exact ⟨j, hj, t, ht, rfl⟩

theorem indexOf_some (ks : List Int) (c : Int) (p : Nat) (h : indexOf ks c = some p) :
    p < ks.length ∧ ks.getD p 0 = c := by
  unfold indexOf at h
  have hm := List.mem_of_find?_eq_some h
  have hp := List.find?_some h
  exact ⟨List.mem_range.mp hm, by simpa using hp⟩

theorem indexOf_of_nodup (ks : List Int) (hnd : ks.Nodup) (p : Nat) (hp : p < ks.length) :
    indexOf ks (ks.getD p 0) = some p := by
  unfold indexOf
  have : ∃ q, List.find? (fun j => ks.getD j 0 == ks.getD p 0) (List.range ks.length) = some q := by
    cases hf : List.find? (fun j => ks.getD j 0 == ks.getD p 0) (List.range ks.length) with
    | none =>
      have := List.find?_eq_none.mp hf p (List.mem_range.mpr hp)
      simp at this
    | some q => exact ⟨q, rfl⟩
  obtain ⟨q, hq⟩ := this
  rw [hq]
  have hm := List.mem_range.mp (List.mem_of_find?_eq_some hq)
  have hpq := List.find?_some hq
  simp only [beq_iff_eq] at hpq
  have h1 : ks.getD q 0 = ks[q] := by simp [List.getD_eq_getElem?_getD, hm]
  have h2 : ks.getD p 0 = ks[p] := by simp [List.getD_eq_getElem?_getD, hp]
  rw [h1, h2] at hpq
  have := (List.getElem_inj hnd).mp hpq
  rw [this]

/-- selected old coordinates give valid new coordinates, and `unslice` recovers them -/
theorem sliceCoords_sound (os : List Order) (cs : List Int) (ext : List Nat) (hi' : List Int)
    (hext : ext.length = os.length) (hcs : cs ∈ hiCells ext) (h : sliceCoords os cs = some hi') :
    hi' ∈ hiCells (sliceTail os ext) ∧ unslice os hi' = cs := by
  induction os generalizing cs ext hi' with
  | nil =>
    have : ext = [] := List.eq_nil_of_length_eq_zero (by simpa using hext)
    subst this
    simp [hiCells] at hcs
    subst hcs
    simp [sliceCoords] at h
    subst h
    simp [sliceTail, hiCells, unslice]
  | cons o rest ih =>
    match ext, hext with
    | n :: ns, hext =>
      obtain ⟨j, hj, t, ht, rfl⟩ := (mem_hiCells_cons n ns cs).mp hcs
      have hns : ns.length = rest.length := by simpa using hext
      cases o with
      | all =>
        simp only [sliceCoords] at h
        cases hr : sliceCoords rest t with
        | none => rw [hr] at h; simp at h
        | some u =>
          rw [hr] at h; simp at h; subst h
          obtain ⟨g1, g2⟩ := ih t ns u hns ht hr
          refine ⟨?_, by simp [unslice, g2]⟩
          simp only [sliceTail, List.headD_cons, List.tail_cons]
          exact (mem_hiCells_cons n _ _).mpr ⟨j, hj, u, g1, rfl⟩
      | one v =>
        simp only [sliceCoords] at h
        by_cases hcv : ((j : Int) == v) = true
        · simp only [hcv, if_true] at h
          obtain ⟨g1, g2⟩ := ih t ns hi' hns ht h
          have : (j : Int) = v := by simpa using hcv
          exact ⟨by simpa [sliceTail] using g1, by simp [unslice, g2, this]⟩
        · simp [hcv] at h
      | list ks =>
        simp only [sliceCoords] at h
        cases hi : indexOf ks (j : Int) with
        | none => rw [hi] at h; simp at h
        | some p =>
          rw [hi] at h
          cases hr : sliceCoords rest t with
          | none => rw [hr] at h; simp at h
          | some u =>
            rw [hr] at h; simp at h; subst h
            obtain ⟨g1, g2⟩ := ih t ns u hns ht hr
            obtain ⟨hp1, hp2⟩ := indexOf_some ks _ p hi
            refine ⟨?_, by simp only [unslice, Int.toNat_natCast, g2, hp2]⟩
            simp only [sliceTail, List.tail_cons]
            exact (mem_hiCells_cons ks.length _ _).mpr ⟨p, hp1, u, g1, rfl⟩

/-- duplicate-free order lists: the only ones `numpy.take` and the index agree on -/
def OrdersNodup (os : List Order) : Prop := ∀ o ∈ os, ∀ ks, o = Order.list ks → ks.Nodup

/-- every valid new coordinate tuple is selected from exactly the old tuple `unslice` names -/
theorem sliceCoords_complete (os : List Order) (hnd : OrdersNodup os) (ext : List Nat) (hi' : List Int)
    (hext : ext.length = os.length) (h : hi' ∈ hiCells (sliceTail os ext)) :
    sliceCoords os (unslice os hi') = some hi' := by
  induction os generalizing ext hi' with
  | nil =>
    simp [sliceTail, hiCells] at h; subst h; simp [sliceCoords, unslice]
  | cons o rest ih =>
    have hnd' : OrdersNodup rest := fun o' ho' ks hk => hnd o' (List.mem_cons_of_mem _ ho') ks hk
    match ext, hext with
    | n :: ns, hext =>
      have hns : ns.length = rest.length := by simpa using hext
      cases o with
      | all =>
        simp only [sliceTail, List.headD_cons, List.tail_cons] at h
        obtain ⟨j, _, t, ht, rfl⟩ := (mem_hiCells_cons n _ hi').mp h
        simp only [unslice, sliceCoords, ih hnd' ns t hns ht, Option.map_some]
      | one v =>
        simp only [sliceTail, List.tail_cons] at h
        simp only [unslice, sliceCoords, beq_self_eq_true, if_true]
        exact ih hnd' ns hi' hns h
      | list ks =>
        simp only [sliceTail, List.tail_cons] at h
        obtain ⟨p, hp, t, ht, rfl⟩ := (mem_hiCells_cons ks.length _ hi').mp h
        have hks := hnd (Order.list ks) List.mem_cons_self ks rfl
        simp only [unslice, sliceCoords, Int.toNat_natCast, indexOf_of_nodup ks hks p hp,
          ih hnd' ns t hns ht, Option.map_some]

/-- the selected entries under their new keys -/
def slicedEntries (i : IIndex) (orders : List Order) : List (Key × Rows) :=
  i.entries.filterMap fun e => (sliceCoords orders (e.1.drop 1)).map fun hi' => (val0 e.1 :: hi', e.2)

theorem sliced_fold (orders : List Order) (l acc : List (Key × Rows))
    (hlen : ∀ e ∈ l, orders.length ≤ (e.1.drop 1).length) :
    l.foldl (sliceStep orders) acc
    = (l.filterMap fun e => (sliceCoords orders (e.1.drop 1)).map fun hi' => (val0 e.1 :: hi', e.2)).foldl
        (fun es x => dset es x.1 x.2) acc := by
  induction l generalizing acc with
  | nil => rfl
  | cons e rest ih =>
    simp only [List.foldl_cons, List.filterMap_cons]
    unfold sliceStep
    rw [sliceGo_eq e.1 orders 0 [val0 e.1] (hlen e List.mem_cons_self)]
    cases hc : sliceCoords orders (e.1.drop (0 + 1)) with
    | none =>
      have hc' : sliceCoords orders (e.1.drop 1) = none := hc
      simp only [hc', Option.map_none]
      exact ih acc (fun x hx => hlen x (List.mem_cons_of_mem _ hx))
    | some hi' =>
      have hc' : sliceCoords orders (e.1.drop 1) = some hi' := hc
      simp only [hc', Option.map_some, List.foldl_cons, List.singleton_append]
      exact ih _ (fun x hx => hlen x (List.mem_cons_of_mem _ hx))

/-- what `sliced` needs: a well-formed receiver, one order per higher axis, duplicate-free order lists -/
structure SliceOK (i : IIndex) (orders : List Order) : Prop where
  wi : WF i
  hne : orders ≠ []
  hlen : orders.length = i.ndim - 1
  hnd : OrdersNodup orders

theorem mem_slicedEntries (i : IIndex) (orders : List Order) (x : Key × Rows) :
    x ∈ slicedEntries i orders ↔
      ∃ e ∈ i.entries, ∃ hi', sliceCoords orders (e.1.drop 1) = some hi' ∧ x = (val0 e.1 :: hi', e.2) := by
  unfold slicedEntries
  simp only [List.mem_filterMap, Option.map_eq_some_iff]
  constructor
  · rintro ⟨e, he, hi', h1, h2⟩; exact ⟨e, he, hi', h1, h2.symm⟩
  · rintro ⟨e, he, hi', h1, h2⟩; exact ⟨e, he, hi', h1, h2.symm⟩

theorem drop_len {i : IIndex} {orders : List Order} (ok : SliceOK i orders) (e : Key × Rows) (he : e ∈ i.entries) :
    (e.1.drop 1).length = orders.length ∧ (i.shape.drop 1).length = orders.length := by
  have := ok.wi.arity e he
  have hp := ok.wi.ndimPos
  have hl := ok.hlen
  unfold IIndex.ndim at *
  simp only [List.length_drop]
  omega

/-- old higher coordinates of an entry are recovered from its new key -/
theorem unslice_of_entry {i : IIndex} {orders : List Order} (ok : SliceOK i orders) (e : Key × Rows) (he : e ∈ i.entries)
    (hi' : List Int) (h : sliceCoords orders (e.1.drop 1) = some hi') :
    hi' ∈ hiCells (sliceTail orders (i.shape.drop 1)) ∧ unslice orders hi' = e.1.drop 1 :=
  sliceCoords_sound orders (e.1.drop 1) (i.shape.drop 1) hi' (drop_len ok e he).2 (ok.wi.hiRange e he) h

theorem slicedEntries_keys {i : IIndex} {orders : List Order} (ok : SliceOK i orders) :
    KeysDistinct (slicedEntries i orders) := by
  unfold slicedEntries
  show List.Pairwise (fun a b : Key × Rows => a.1 ≠ b.1) _
  rw [List.pairwise_filterMap]
  apply ok.wi.keys.imp_of_mem
  intro a b ha hb hab x hx y hy heq
  simp only [Option.mem_def, Option.map_eq_some_iff] at hx hy
  obtain ⟨h1, hh1, rfl⟩ := hx
  obtain ⟨h2, hh2, rfl⟩ := hy
  simp only [List.cons.injEq] at heq
  obtain ⟨_, u1⟩ := unslice_of_entry ok a ha h1 hh1
  obtain ⟨_, u2⟩ := unslice_of_entry ok b hb h2 hh2
  apply hab
  have p1 : 0 < a.1.length := by rw [ok.wi.arity a ha]; exact ok.wi.ndimPos
  have p2 : 0 < b.1.length := by rw [ok.wi.arity b hb]; exact ok.wi.ndimPos
  rw [key_eq a.1 p1, key_eq b.1 p2, heq.1, ← u1, ← u2, heq.2]

theorem sliced_eq {i : IIndex} {orders : List Order} (ok : SliceOK i orders) :
    sliced i orders = .ok { entries := slicedEntries i orders, common := i.common, shape := sliceShape i orders } := by
  unfold sliced
  have h1 : orders.isEmpty = false := by
    cases horders : orders with
    | nil => exact absurd horders ok.hne
    | cons _ _ => rfl
  have h2 : ¬ orders.length > i.ndim - 1 := by rw [ok.hlen]; omega
  simp only [h1, Bool.false_eq_true, if_false, h2]
  rw [sliced_fold orders i.entries [] (fun e he => by rw [(drop_len ok e he).1]; exact Nat.le_refl _)]
  have := fold_dset_fresh (slicedEntries i orders) [] (slicedEntries_keys ok) (by simp)
  unfold slicedEntries at this
  rw [this]
  simp [slicedEntries, pure, Except.pure]

theorem sliceTail_length (os : List Order) (ext : List Nat) :
    (sliceTail os ext).length = (os.filter fun o => match o with | .one _ => false | _ => true).length := by
  induction os generalizing ext with
  | nil => rfl
  | cons o rest ih => cases o <;> simp [sliceTail, ih]

/-- **`sliced(*orders)` is column selection in the requested order** (`numpy.take` axis by axis: `None` keeps an axis,
an int fixes and drops it, a list re-orders / selects), for any number of axes, and the result is well-formed -/
theorem sliced_refines {i : IIndex} {orders : List Order} (ok : SliceOK i orders) :
    ∃ res, sliced i orders = .ok res ∧ WF res ∧ res.shape = i.nrows :: sliceTail orders (i.shape.drop 1) ∧
      res.common = i.common ∧
      ∀ r, ∀ hi' ∈ hiCells (sliceTail orders (i.shape.drop 1)),
        denseAt res r hi' = denseAt i r (unslice orders hi') := by
  refine ⟨_, sliced_eq ok, ?_, rfl, rfl, ?_⟩
  · -- well-formedness
    have hm := mem_slicedEntries i orders
    refine ⟨slicedEntries_keys ok, ?_, by simp [IIndex.ndim, sliceShape], ?_, ?_, ?_, ?_, ?_, ?_⟩
    · intro x hx
      obtain ⟨e, he, hi', h1, rfl⟩ := (hm x).mp hx
      obtain ⟨g1, _⟩ := unslice_of_entry ok e he hi' h1
      have := hiCells_length _ hi' g1
      simp [IIndex.ndim, sliceShape, this]
    · intro x hx
      obtain ⟨e, he, hi', _, rfl⟩ := (hm x).mp hx
      simpa [val0] using ok.wi.noCommon e he
    · intro x hx
      obtain ⟨e, he, hi', _, rfl⟩ := (hm x).mp hx
      exact ok.wi.nonEmpty e he
    · intro x hx
      obtain ⟨e, he, hi', _, rfl⟩ := (hm x).mp hx
      exact ok.wi.sorted e he
    · intro x hx r hr
      obtain ⟨e, he, hi', _, rfl⟩ := (hm x).mp hx
      have := ok.wi.inRange e he r hr
      simpa [IIndex.nrows, sliceShape] using this
    · intro x hx
      obtain ⟨e, he, hi', h1, rfl⟩ := (hm x).mp hx
      obtain ⟨g1, _⟩ := unslice_of_entry ok e he hi' h1
      simpa [sliceShape] using g1
    · intro x hx y hy hxy r hrx hry
      obtain ⟨e, he, h1', h1, rfl⟩ := (hm x).mp hx
      obtain ⟨f, hf, h2', h2, rfl⟩ := (hm y).mp hy
      obtain ⟨_, u1⟩ := unslice_of_entry ok e he h1' h1
      obtain ⟨_, u2⟩ := unslice_of_entry ok f hf h2' h2
      simp only [List.drop_succ_cons, List.drop_zero] at hxy
      have hhi : e.1.drop 1 = f.1.drop 1 := by rw [← u1, ← u2, hxy]
      have := ok.wi.exclusive e he f hf hhi r hrx hry
      simpa [val0] using this
  · intro r hi' hhi'
    have hm := mem_slicedEntries i orders
    have hcomp := sliceCoords_complete orders ok.hnd (i.shape.drop 1) hi'
      (by have := ok.wi.ndimPos; have := ok.hlen; simp only [List.length_drop, IIndex.ndim] at *; omega) hhi'
    -- entries of the result listing the new cell are the entries of `i` listing the old cell
    have hback : ∀ x ∈ slicedEntries i orders, x.1.drop 1 = hi' → r ∈ x.2 →
        ∃ e ∈ i.entries, e.1.drop 1 = unslice orders hi' ∧ r ∈ e.2 ∧ val0 x.1 = val0 e.1 := by
      intro x hx hx1 hx2
      obtain ⟨e, he, h', h1, rfl⟩ := (hm x).mp hx
      obtain ⟨_, u⟩ := unslice_of_entry ok e he h' h1
      simp only [List.drop_succ_cons, List.drop_zero] at hx1
      exact ⟨e, he, by rw [← u, hx1], hx2, by simp [val0]⟩
    by_cases hex : ∃ e ∈ i.entries, e.1.drop 1 = unslice orders hi' ∧ r ∈ e.2
    · obtain ⟨e, he, h1, h2⟩ := hex
      rw [denseAt_of_mem i ok.wi e he r _ h1 h2]
      apply denseAt_eq
      · refine ⟨(val0 e.1 :: hi', e.2), (hm _).mpr ⟨e, he, hi', by rw [h1]; exact hcomp, rfl⟩, by simp, h2⟩
      · intro x hx hx1 hx2
        obtain ⟨e', he', g1, g2, g3⟩ := hback x hx hx1 hx2
        rw [g3]
        exact ok.wi.exclusive e' he' e he (by rw [g1, h1]) r g2 h2
    · have hnot : ∀ e ∈ i.entries, e.1.drop 1 = unslice orders hi' → r ∉ e.2 := fun e he h1 h2 => hex ⟨e, he, h1, h2⟩
      rw [denseAt_of_not_mem i r _ hnot]
      apply denseAt_of_not_mem
      intro x hx hx1 hx2
      obtain ⟨e', he', g1, g2, _⟩ := hback x hx hx1 hx2
      exact hnot e' he' g1 g2

end Catii.IIdx
