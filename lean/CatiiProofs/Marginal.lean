import Mathlib.Algebra.BigOperators.Group.Finset.Basic
import Mathlib.Algebra.BigOperators.Group.Finset.Piecewise
import Mathlib.Algebra.Group.Basic
import CatiiModel.Cube
/-!
# Marginal differencing is inclusion–exclusion, for any additive commutative group

`passFn` (the model of one `region[common] = region[margin] - region[uncommon].sum(axis)` step)
preserves the invariant "a working cell holds 0 if some not-yet-processed axis sits at its
common category, else the per-row measure summed over the rows matching the cell".  After all
axes every working cell holds its textbook measure.  Counts (`μ ≡ 1`, ℤ), weighted counts,
sums and validity counters (ℚ) are all instances.
-/
open Finset
namespace Catii.Marg
open Catii.Cube

variable {G : Type} [AddCommGroup G]

abbrev at' (c : List ℕ) (a : ℕ) : ℕ := c.getD a 0

theorem getD_set (c : List ℕ) (k v a : ℕ) (hk : k < c.length) :
    at' (c.set k v) a = if a = k then v else at' c a := by
  unfold at'
  by_cases h : a = k
  · subst h; simp [List.getD_eq_getElem?_getD, hk]
  · simp only [h, if_false, List.getD_eq_getElem?_getD]
    rw [List.getElem?_set_ne (Ne.symm h)]

/-- cube geometry: `d` axes; per-axis extent (margin index = extent), common, category per row -/
structure Geo where
  d   : ℕ
  N   : ℕ
  ext : List ℕ
  cm  : List ℕ
  val : ℕ → ℕ → ℕ
  hext : ext.length = d
  hcm  : cm.length = d
  cm_lt  : ∀ a < d, at' cm a < at' ext a
  val_lt : ∀ a < d, ∀ r < N, val a r < at' ext a

variable (g : Geo)

def InRange (c : Cell) : Prop := c.length = g.d ∧ ∀ a < g.d, at' c a ≤ at' g.ext a

def Matches (c : Cell) (r : ℕ) : Prop := ∀ a < g.d, at' c a = at' g.ext a ∨ at' c a = g.val a r
instance (c : Cell) (r : ℕ) : Decidable (Matches g c r) := by unfold Matches; infer_instance

/-- the textbook per-cell measure -/
def meas (μ : ℕ → G) (c : Cell) : G := ∑ r ∈ (range g.N).filter (Matches g c), μ r

open Classical in
def Inv (μ : ℕ → G) (k : ℕ) (R : Cell → G) : Prop :=
  ∀ c, InRange g c → R c = if ∃ a, k ≤ a ∧ a < g.d ∧ at' c a = at' g.cm a then 0 else meas g μ c

theorem inRange_set (c : Cell) (k v : ℕ) (hc : InRange g c) (hk : k < g.d) (hv : v ≤ at' g.ext k) :
    InRange g (c.set k v) := by
  refine ⟨by simpa using hc.1, fun a ha => ?_⟩
  rw [getD_set c k v a (by rw [hc.1]; exact hk)]
  split
  · subst_vars; exact hv
  · exact hc.2 a ha

theorem sum_list_range (n : ℕ) (f : ℕ → G) : ((List.range n).map f).sum = ∑ j ∈ range n, f j := by
  induction n with
  | zero => simp
  | succ n ih => rw [List.range_succ, List.map_append, List.sum_append, ih, sum_range_succ]; simp

/-- partition of a margin by the category on axis k -/
theorem meas_margin (μ : ℕ → G) (c : Cell) (k : ℕ) (hk : k < g.d) (hc : c.length = g.d) :
    meas g μ (c.set k (at' g.ext k)) = ∑ j ∈ range (at' g.ext k), meas g μ (c.set k j) := by
  unfold meas
  have hkc : k < c.length := by rw [hc]; exact hk
  have hmaps : ∀ r ∈ (range g.N).filter (Matches g (c.set k (at' g.ext k))),
      g.val k r ∈ range (at' g.ext k) := fun r hr => by
    simp only [mem_filter, mem_range] at hr
    exact mem_range.mpr (g.val_lt k hk r hr.1)
  rw [← sum_fiberwise_of_maps_to hmaps]
  apply sum_congr rfl
  intro j hj
  apply sum_congr _ (fun _ _ => rfl)
  ext r
  simp only [mem_filter, mem_range, Matches]
  have hjlt : j < at' g.ext k := mem_range.mp hj
  constructor
  · rintro ⟨⟨hr, hm⟩, hv⟩
    refine ⟨hr, fun a ha => ?_⟩
    have := hm a ha
    rw [getD_set c k _ a hkc] at this ⊢
    by_cases hak : a = k
    · subst hak; simp [hv]
    · simpa [hak] using this
  · rintro ⟨hr, hm⟩
    have hk' := hm k hk
    rw [getD_set c k _ k hkc] at hk'
    simp only [if_true] at hk'
    have hv : g.val k r = j := by
      rcases hk' with h | h
      · omega
      · exact h.symm
    refine ⟨⟨hr, fun a ha => ?_⟩, hv⟩
    have := hm a ha
    rw [getD_set c k _ a hkc] at this ⊢
    by_cases hak : a = k
    · subst hak; simp
    · simpa [hak] using this

theorem pass_inv (μ : ℕ → G) (k : ℕ) (hk : k < g.d) (R : Cell → G) (h : Inv g μ k R) :
    Inv g μ (k+1) (passFn g.ext g.cm k R) := by
  intro c hcr
  have hkc : k < c.length := by rw [hcr.1]; exact hk
  unfold passFn
  rw [sum_list_range]
  by_cases hc : at' c k = at' g.cm k
  · simp only [hc, if_true]
    have hrm : InRange g (c.set k (at' g.ext k)) := inRange_set g c k _ hcr hk (Nat.le_refl _)
    have hrj : ∀ j ∈ range (at' g.ext k), InRange g (c.set k j) := fun j hj =>
      inRange_set g c k j hcr hk (Nat.le_of_lt (mem_range.mp hj))
    by_cases hex : ∃ a, k + 1 ≤ a ∧ a < g.d ∧ at' c a = at' g.cm a
    · obtain ⟨a, hka, had, hca⟩ := hex
      have hne : a ≠ k := by omega
      have hz : ∀ v, InRange g (c.set k v) → R (c.set k v) = 0 := by
        intro v hv
        rw [h _ hv]
        have : ∃ a', k ≤ a' ∧ a' < g.d ∧ at' (c.set k v) a' = at' g.cm a' :=
          ⟨a, by omega, had, by rw [getD_set c k v a hkc]; simp [hne]; exact hca⟩
        rw [if_pos this]
      rw [hz _ hrm, sum_congr rfl (fun j hj => hz _ (hrj j hj))]
      simp only [sum_const_zero, sub_zero]
      rw [if_pos ⟨a, hka, had, hca⟩]
    · rw [if_neg hex]
      have hmargin : R (c.set k (at' g.ext k)) = meas g μ (c.set k (at' g.ext k)) := by
        rw [h _ hrm, if_neg]
        rintro ⟨a, hka, had, hca⟩
        rw [getD_set c k _ a hkc] at hca
        by_cases hak : a = k
        · subst hak
          simp only [if_true] at hca
          have := g.cm_lt a had; omega
        · apply hex
          refine ⟨a, by omega, had, ?_⟩
          simpa [hak] using hca
      have hterm : ∀ j ∈ range (at' g.ext k), R (c.set k j)
          = if j = at' g.cm k then 0 else meas g μ (c.set k j) := by
        intro j hj
        rw [h _ (hrj j hj)]
        by_cases hj' : j = at' g.cm k
        · rw [if_pos hj', if_pos]
          exact ⟨k, le_refl _, hk, by rw [getD_set c k j k hkc]; simp [hj']⟩
        · rw [if_neg hj', if_neg]
          rintro ⟨a, hka, had, hca⟩
          rw [getD_set c k j a hkc] at hca
          by_cases hak : a = k
          · subst hak; simp only [if_true] at hca; exact hj' hca
          · apply hex
            exact ⟨a, by omega, had, by simpa [hak] using hca⟩
      rw [hmargin, sum_congr rfl hterm, meas_margin g μ c k hk hcr.1]
      have hcm : at' g.cm k ∈ range (at' g.ext k) := mem_range.mpr (g.cm_lt k hk)
      have hE : ∑ j ∈ (range (at' g.ext k)).erase (at' g.cm k),
            (if j = at' g.cm k then (0:G) else meas g μ (c.set k j))
          = ∑ j ∈ (range (at' g.ext k)).erase (at' g.cm k), meas g μ (c.set k j) := by
        apply sum_congr rfl
        intro j hj
        rw [if_neg (ne_of_mem_erase hj)]
      have h2 : ∑ j ∈ range (at' g.ext k), (if j = at' g.cm k then (0:G) else meas g μ (c.set k j))
          = ∑ j ∈ (range (at' g.ext k)).erase (at' g.cm k), meas g μ (c.set k j) := by
        rw [← add_sum_erase _ _ hcm, if_pos rfl, zero_add]; exact hE
      rw [h2, ← add_sum_erase _ (fun j => meas g μ (c.set k j)) hcm, add_sub_cancel_right]
      congr 1
      apply List.ext_getElem?
      intro a
      by_cases hak : a = k
      · subst hak
        rw [List.getElem?_set_self hkc]
        have : c[a]? = some (c.getD a 0) := by
          rw [List.getD_eq_getElem?_getD, List.getElem?_eq_getElem hkc]; simp
        rw [this]; exact congrArg some hc.symm
      · rw [List.getElem?_set_ne (Ne.symm hak)]
  · simp only [hc, if_false]
    rw [h c hcr]
    congr 1
    apply propext
    constructor
    · rintro ⟨a, hka, had, hca⟩
      have : a ≠ k := by rintro rfl; exact hc hca
      exact ⟨a, by omega, had, hca⟩
    · rintro ⟨a, hka, had, hca⟩
      exact ⟨a, by omega, had, hca⟩

end Catii.Marg

/-! ### tables -/
namespace Catii.Marg
open Catii.Cube
variable {G : Type} [AddCommGroup G]

theorem mem_allCells (shape : List ℕ) (c : Cell) :
    c ∈ allCells shape ↔ c.length = shape.length ∧ ∀ a < shape.length, at' c a < at' shape a := by
  induction shape generalizing c with
  | nil =>
    simp only [allCells, List.mem_singleton, List.length_nil]
    constructor
    · rintro rfl; exact ⟨rfl, fun a ha => by omega⟩
    · rintro ⟨h, _⟩; exact List.length_eq_zero_iff.mp h
  | cons n ns ih =>
    simp only [allCells, List.mem_flatMap, List.mem_range, List.mem_map, List.length_cons]
    constructor
    · rintro ⟨i, hi, t, ht, rfl⟩
      obtain ⟨hl, hall⟩ := (ih t).mp ht
      refine ⟨by simp [hl], fun a ha => ?_⟩
      cases a with
      | zero => simpa [at'] using hi
      | succ a => simpa [at'] using hall a (by omega)
    · rintro ⟨hl, hall⟩
      cases c with
      | nil => simp at hl
      | cons i t =>
        refine ⟨i, by simpa [at'] using hall 0 (by omega), t, (ih t).mpr ⟨by simpa using hl, fun a ha => ?_⟩, rfl⟩
        simpa [at'] using hall (a + 1) (by omega)

theorem rget_materialise [Zero α] (f : Cell → α) (cells : List Cell) (c : Cell) (hc : c ∈ cells) :
    rget (materialise f cells) c = f c := by
  unfold rget materialise
  induction cells with
  | nil => simp at hc
  | cons x xs ih =>
    simp only [List.map_cons, List.find?_cons]
    by_cases hx : x = c
    · subst hx; simp
    · have : (x == c) = false := by simpa using hx
      simp only [this]
      rcases List.mem_cons.mp hc with h | h
      · exact absurd h.symm hx
      · exact ih h

variable (g : Geo)

theorem inRange_iff_workCell (c : Cell) : InRange g c ↔ c ∈ workCells g.ext := by
  unfold workCells InRange
  rw [mem_allCells]
  simp only [List.length_map, g.hext]
  constructor
  · rintro ⟨hl, h⟩
    refine ⟨hl, fun a ha => ?_⟩
    have := h a ha
    have hm : at' (g.ext.map (· + 1)) a = at' g.ext a + 1 := by
      unfold at'
      rw [List.getD_eq_getElem?_getD, List.getD_eq_getElem?_getD, List.getElem?_map]
      have : a < g.ext.length := by rw [g.hext]; exact ha
      rw [List.getElem?_eq_getElem this]; simp
    omega
  · rintro ⟨hl, h⟩
    refine ⟨hl, fun a ha => ?_⟩
    have := h a ha
    have hm : at' (g.ext.map (· + 1)) a = at' g.ext a + 1 := by
      unfold at'
      rw [List.getD_eq_getElem?_getD, List.getD_eq_getElem?_getD, List.getElem?_map]
      have : a < g.ext.length := by rw [g.hext]; exact ha
      rw [List.getElem?_eq_getElem this]; simp
    omega

theorem inv_congr (μ : ℕ → G) (k : ℕ) (R R' : Cell → G) (h : Inv g μ k R)
    (heq : ∀ c, InRange g c → R' c = R c) : Inv g μ k R' := by
  intro c hc; rw [heq c hc]; exact h c hc

theorem passFn_congr (k : ℕ) (hk : k < g.d) (R R' : Cell → G) (heq : ∀ c, InRange g c → R' c = R c)
    (c : Cell) (hc : InRange g c) : passFn g.ext g.cm k R' c = passFn g.ext g.cm k R c := by
  unfold passFn
  have hs : (List.range (g.ext.getD k 0)).map (fun j => R' (c.set k j))
      = (List.range (g.ext.getD k 0)).map (fun j => R (c.set k j)) := by
    apply List.map_congr_left
    intro j hj
    exact heq _ (inRange_set g c k j hc hk (Nat.le_of_lt (List.mem_range.mp hj)))
  rw [heq c hc, heq _ (inRange_set g c k _ hc hk (Nat.le_refl _)), hs]

theorem passes_inv (μ : ℕ → G) (R0 : Region G) (h0 : Inv g μ 0 (rget R0)) :
    ∀ k, k ≤ g.d → Inv g μ k (rget (passes g.ext g.cm k R0)) := by
  intro k
  induction k with
  | zero => intro _; exact h0
  | succ k ih =>
    intro hk
    have hkd : k < g.d := by omega
    have := pass_inv g μ k hkd _ (ih (by omega))
    apply inv_congr g μ (k+1) _ _ this
    intro c hc
    simp only [passes]
    exact rget_materialise _ _ c ((inRange_iff_workCell g c).mp hc)

/-- MAIN: after differencing along every axis each working cell holds its textbook measure -/
theorem marginal_diff_correct (μ : ℕ → G) (R0 : Region G) (h0 : Inv g μ 0 (rget R0))
    (c : Cell) (hc : InRange g c) :
    rget (passes g.ext g.cm g.d R0) c = meas g μ c := by
  have := passes_inv g μ R0 h0 g.d (le_refl _) c hc
  rw [this, if_neg]
  rintro ⟨a, h1, h2, _⟩; omega

end Catii.Marg
