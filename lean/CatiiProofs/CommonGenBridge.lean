import CatiiModel.Gen.CommonGen
/-! The choice of the common value REGENERATED from `iindex.shift_common` (`tools/translate_common.py`) is the model's. -/
namespace Catii.IIdx

theorem gen_chooseCommon_eq (i : IIndex) : Gen.chooseCommonGen i = chooseCommon i := by
  unfold Gen.chooseCommonGen chooseCommon
  rfl

end Catii.IIdx
