import CatiiProofs.IIndexBasic
import CatiiProofs.Dict
import CatiiProofs.IIndexWf
/-! `slices1d`: each bucket is the column slice at its coordinate; labels are the higher coordinates
in axis order. Core Lean only. -/
namespace Catii.IIdx
open Catii.Kern

theorem key_split (k : Key) (h : 0 < k.length) : k = k.dropLast ++ [k.getLastD 0] := by
  have hne : k ≠ [] := by intro e; rw [e] at h; simp at h
  have h1 := List.dropLast_concat_getLast hne
  have h2 : k.getLastD 0 = k.getLast hne := by
    cases k with
    | nil => exact absurd rfl hne
    | cons a as => simp [List.getLastD, List.getLast?_eq_getLast]
  rw [h2]; exact h1.symm

/-- entries of a bucket, as a set -/
theorem mem_bucket (i : IIndex) (h : WF i) (hnd : 1 < i.ndim) (c : Nat) :
    KeysDistinct (bucket i c).entries ∧
    ∀ k' rows, (k', rows) ∈ (bucket i c).entries ↔
      ∃ k, (k, rows) ∈ i.entries ∧ k.getLastD 0 = (c : Int) ∧ k' = k.dropLast := by
  unfold bucket
  simp only
  have gen : ∀ (pre rest : List (Key × Rows)) (es : List (Key × Rows)),
      i.entries = pre ++ rest →
      (KeysDistinct es ∧ ∀ k' rows, (k', rows) ∈ es ↔ ∃ k, (k, rows) ∈ pre ∧ k.getLastD 0 = (c : Int) ∧ k' = k.dropLast) →
      (KeysDistinct (rest.foldl (fun es (e : Key × Rows) =>
          if e.1.getLastD 0 == (c : Int) then dset es e.1.dropLast e.2 else es) es) ∧
        ∀ k' rows, (k', rows) ∈ rest.foldl (fun es (e : Key × Rows) =>
          if e.1.getLastD 0 == (c : Int) then dset es e.1.dropLast e.2 else es) es ↔
          ∃ k, (k, rows) ∈ pre ++ rest ∧ k.getLastD 0 = (c : Int) ∧ k' = k.dropLast) := by
    intro pre rest
    induction rest generalizing pre with
    | nil => intro es _ h; simpa using h
    | cons e rest ih =>
      intro es hsplit ⟨hk, hm⟩
      simp only [List.foldl_cons]
      have hsplit' : i.entries = (pre ++ [e]) ++ rest := by rw [hsplit]; simp
      have step : KeysDistinct (if e.1.getLastD 0 == (c : Int) then dset es e.1.dropLast e.2 else es) ∧
          ∀ k' rows, (k', rows) ∈ (if e.1.getLastD 0 == (c : Int) then dset es e.1.dropLast e.2 else es) ↔
            ∃ k, (k, rows) ∈ pre ++ [e] ∧ k.getLastD 0 = (c : Int) ∧ k' = k.dropLast := by
        by_cases hc : e.1.getLastD 0 = (c : Int)
        · have hb : (e.1.getLastD 0 == (c : Int)) = true := by simpa using hc
          simp only [hb, if_true]
          refine ⟨dset_keysDistinct es hk _ _, fun k' rows => ?_⟩
          rw [mem_dset_iff es hk]
          constructor
          · rintro (heq | ⟨hmem, hne⟩)
            · cases heq
              exact ⟨e.1, List.mem_append.mpr (Or.inr (by simp)), hc, rfl⟩
            · obtain ⟨k, hkm, h1, h2⟩ := (hm k' rows).mp hmem
              exact ⟨k, List.mem_append.mpr (Or.inl hkm), h1, h2⟩
          · rintro ⟨k, hkm, h1, h2⟩
            rcases List.mem_append.mp hkm with hkm | hkm
            · right
              refine ⟨(hm k' rows).mpr ⟨k, hkm, h1, h2⟩, ?_⟩
              -- a different key of `i` with the same last coordinate has a different `dropLast`
              intro heq
              have hk_in : (k, rows) ∈ i.entries := by rw [hsplit]; exact List.mem_append.mpr (Or.inl hkm)
              have he_in : e ∈ i.entries := by rw [hsplit]; simp
              have hkl : 0 < k.length := by rw [h.arity _ hk_in]; exact h.ndimPos
              have hel : 0 < e.1.length := by rw [h.arity _ he_in]; exact h.ndimPos
              have heq' : k.dropLast = e.1.dropLast := by rw [← h2]; exact heq
              have hkey : k = e.1 := by
                rw [key_split k hkl, key_split e.1 hel, heq', h1, hc]
              -- but keys of i are pairwise distinct and (k, rows) precedes e
              have hpw := h.keys
              rw [hsplit] at hpw
              have := (List.pairwise_append.mp hpw).2.2 (k, rows) hkm e List.mem_cons_self
              exact this hkey
            · simp at hkm
              left
              rw [h2]; cases hkm; rfl
        · have hb : (e.1.getLastD 0 == (c : Int)) = false := by simpa using hc
          simp only [hb, Bool.false_eq_true, if_false]
          refine ⟨hk, fun k' rows => ?_⟩
          rw [hm k' rows]
          constructor
          · rintro ⟨k, hkm, h1, h2⟩; exact ⟨k, List.mem_append.mpr (Or.inl hkm), h1, h2⟩
          · rintro ⟨k, hkm, h1, h2⟩
            rcases List.mem_append.mp hkm with hkm | hkm
            · exact ⟨k, hkm, h1, h2⟩
            · simp at hkm; cases hkm; exact absurd h1 hc
      have := ih (pre ++ [e]) _ hsplit' step
      simpa using this
  have := gen [] i.entries [] (by simp) ⟨List.Pairwise.nil, fun k' rows => by simp⟩
  simpa using this

end Catii.IIdx

namespace Catii.IIdx
open Catii.Kern

theorem dropLast_drop_one (l : List Int) : l.dropLast.drop 1 = (l.drop 1).dropLast := by
  cases l with
  | nil => rfl
  | cons a t =>
    cases t with
    | nil => rfl
    | cons b t' => simp [List.dropLast]

theorem val0_dropLast (k : Key) (h : 2 ≤ k.length) : val0 k.dropLast = val0 k := by
  cases k with
  | nil => simp at h
  | cons a t =>
    cases t with
    | nil => simp at h
    | cons b t' => simp [val0, List.dropLast]

theorem getLastD_drop_one (k : Key) (h : 2 ≤ k.length) : (k.drop 1).getLastD 0 = k.getLastD 0 := by
  cases k with
  | nil => simp at h
  | cons a t =>
    cases t with
    | nil => simp at h
    | cons b t' => simp [List.getLastD]

theorem getLastD_snoc (l : List Int) (c : Int) : (l ++ [c]).getLastD 0 = c := by
  induction l with
  | nil => rfl
  | cons a t ih =>
    cases t with
    | nil => rfl
    | cons b t' => simpa [List.getLastD] using ih

/-- higher coordinates of a key whose last coordinate is `c` -/
theorem drop_one_split (k : Key) (h : 2 ≤ k.length) (c : Int) (hc : k.getLastD 0 = c) :
    k.drop 1 = (k.dropLast.drop 1) ++ [c] := by
  have hl : 0 < (k.drop 1).length := by simp; omega
  rw [dropLast_drop_one, ← hc, ← getLastD_drop_one k h]
  exact key_split (k.drop 1) hl

/-- **a bucket is the column slice at its coordinate** -/
theorem dense_bucket (i : IIndex) (h : WF i) (hnd : 1 < i.ndim) (c : Nat) (r : Nat) (hi' : List Int) :
    denseAt (bucket i c) r hi' = denseAt i r (hi' ++ [(c : Int)]) := by
  obtain ⟨_, hm⟩ := mem_bucket i h hnd c
  have harity : ∀ e ∈ i.entries, 2 ≤ e.1.length := fun e he => by rw [h.arity e he]; exact hnd
  by_cases hl : ∃ e ∈ i.entries, e.1.drop 1 = hi' ++ [(c : Int)] ∧ r ∈ e.2
  · obtain ⟨e, he, hehi, hre⟩ := hl
    rw [denseAt_of_mem i h e he r _ hehi hre]
    have hlast : e.1.getLastD 0 = (c : Int) := by
      rw [← getLastD_drop_one e.1 (harity e he), hehi]; exact getLastD_snoc _ _
    have hsplit := drop_one_split e.1 (harity e he) c hlast
    have hhi : e.1.dropLast.drop 1 = hi' := by
      rw [hehi] at hsplit
      exact (List.append_inj_left' hsplit rfl).symm
    apply denseAt_eq
    · exact ⟨(e.1.dropLast, e.2), (hm _ _).mpr ⟨e.1, he, hlast, rfl⟩, hhi, hre⟩
    · intro e' he' hhi'' hr'
      obtain ⟨k, hk, hkl, hkd⟩ := (hm e'.1 e'.2).mp he'
      have hkhi : k.drop 1 = hi' ++ [(c : Int)] := by
        rw [drop_one_split k (harity _ hk) c hkl, ← hkd, hhi'']
      rw [hkd, val0_dropLast k (harity _ hk)]
      exact h.exclusive (k, e'.2) hk e he (by rw [hkhi, hehi]) r hr' hre
  · rw [denseAt_of_not_mem i r _ (fun e he h1 h2 => hl ⟨e, he, h1, h2⟩)]
    apply denseAt_of_not_mem
    intro e' he' hhi'' hr'
    obtain ⟨k, hk, hkl, hkd⟩ := (hm e'.1 e'.2).mp he'
    apply hl
    refine ⟨(k, e'.2), hk, ?_, hr'⟩
    rw [drop_one_split k (harity _ hk) c hkl, ← hkd, hhi'']

theorem hiCells_snoc (s : List Nat) (n : Nat) (hi : List Int) :
    hi ∈ hiCells (s ++ [n]) ↔ ∃ (hi' : List Int) (c : Nat), hi = hi' ++ [(c : Int)] ∧ hi' ∈ hiCells s ∧ c < n := by
  induction s generalizing hi with
  | nil =>
    simp only [List.nil_append, hiCells, List.mem_flatMap, List.mem_range, List.mem_map, List.mem_singleton]
    constructor
    · rintro ⟨j, hj, t, rfl, rfl⟩; exact ⟨[], j, rfl, rfl, hj⟩
    · rintro ⟨hi', c, rfl, rfl, hc⟩; exact ⟨c, hc, [], rfl, rfl⟩
  | cons m ms ih =>
    simp only [List.cons_append, hiCells, List.mem_flatMap, List.mem_range, List.mem_map]
    constructor
    · rintro ⟨j, hj, t, ht, rfl⟩
      obtain ⟨hi', c, rfl, h1, h2⟩ := (ih t).mp ht
      exact ⟨(j : Int) :: hi', c, rfl, ⟨j, hj, hi', h1, rfl⟩, h2⟩
    · rintro ⟨hi', c, rfl, ⟨j, hj, t, ht, rfl⟩, hc⟩
      exact ⟨j, hj, t ++ [(c : Int)], (ih _).mpr ⟨t, c, rfl, ht, hc⟩, rfl⟩

end Catii.IIdx

namespace Catii.IIdx
open Catii.Kern

theorem nat_drop_one_split (s : List Nat) (h : 2 ≤ s.length) :
    s.drop 1 = s.dropLast.drop 1 ++ [s.getLastD 0] := by
  cases s with
  | nil => simp at h
  | cons a t =>
    cases t with
    | nil => simp at h
    | cons b t' =>
      have hne : (b :: t') ≠ [] := by simp
      simp only [List.drop_succ_cons, List.drop_zero, List.dropLast]
      have h1 := List.dropLast_concat_getLast hne
      have h2 : (a :: b :: t').getLastD 0 = (b :: t').getLast hne := by
        simp [List.getLastD, List.getLast?_eq_getLast]
      rw [h2]; exact h1.symm

theorem bucket_nrows (i : IIndex) (hnd : 1 < i.ndim) (c : Nat) : (bucket i c).nrows = i.nrows := by
  unfold bucket IIndex.nrows IIndex.ndim at *
  simp only
  cases hs : i.shape with
  | nil => rw [hs] at hnd; simp at hnd
  | cons a t =>
    cases t with
    | nil => rw [hs] at hnd; simp at hnd
    | cons b t' => simp [List.dropLast]

theorem bucket_ndim (i : IIndex) (c : Nat) : (bucket i c).ndim = i.ndim - 1 := by
  simp [bucket, IIndex.ndim]

/-- buckets of a well-formed index are well-formed -/
theorem wf_bucket (i : IIndex) (h : WF i) (hnd : 1 < i.ndim) (c : Nat) : WF (bucket i c) := by
  obtain ⟨hk, hm⟩ := mem_bucket i h hnd c
  have harity : ∀ e ∈ i.entries, 2 ≤ e.1.length := fun e he => by rw [h.arity e he]; exact hnd
  have src : ∀ e' ∈ (bucket i c).entries, ∃ k, (k, e'.2) ∈ i.entries ∧ k.getLastD 0 = (c : Int) ∧ e'.1 = k.dropLast :=
    fun e' he' => (hm e'.1 e'.2).mp he'
  refine ⟨hk, ?_, ?_, ?_, ?_, ?_, ?_, ?_, ?_⟩
  · intro e' he'
    obtain ⟨k, hki, _, hkd⟩ := src e' he'
    rw [hkd, bucket_ndim, List.length_dropLast, h.arity _ hki]
  · rw [bucket_ndim]; omega
  · intro e' he'
    obtain ⟨k, hki, _, hkd⟩ := src e' he'
    rw [hkd, val0_dropLast k (harity _ hki)]
    exact h.noCommon _ hki
  · intro e' he'
    obtain ⟨k, hki, _, _⟩ := src e' he'
    exact h.nonEmpty (k, e'.2) hki
  · intro e' he'
    obtain ⟨k, hki, _, _⟩ := src e' he'
    exact h.sorted (k, e'.2) hki
  · intro e' he' r hr
    obtain ⟨k, hki, _, _⟩ := src e' he'
    rw [bucket_nrows i hnd c]
    exact h.inRange _ hki r hr
  · intro e' he'
    obtain ⟨k, hki, hkl, hkd⟩ := src e' he'
    have hin := h.hiRange _ hki
    simp only at hin
    rw [drop_one_split k (harity _ hki) c hkl, nat_drop_one_split i.shape hnd, hiCells_snoc] at hin
    obtain ⟨hi', c', heq, hmem, _⟩ := hin
    have : k.dropLast.drop 1 = hi' := List.append_inj_left' heq rfl
    show e'.1.drop 1 ∈ hiCells (i.shape.dropLast.drop 1)
    rw [hkd, this]; exact hmem
  · intro e' he' f' hf' hd r hre hrf
    obtain ⟨k1, hk1, hl1, hd1⟩ := src e' he'
    obtain ⟨k2, hk2, hl2, hd2⟩ := src f' hf'
    rw [hd1, hd2, val0_dropLast k1 (harity _ hk1), val0_dropLast k2 (harity _ hk2)]
    apply h.exclusive _ hk1 _ hk2 _ r hre hrf
    show k1.drop 1 = k2.drop 1
    rw [drop_one_split k1 (harity _ hk1) c hl1, drop_one_split k2 (harity _ hk2) c hl2, ← hd1, ← hd2, hd]

/-- **`slices1d`**: every yielded pair is labelled with its higher coordinates in axis order and is the
one-axis column slice at those coordinates; every combination of higher coordinates is yielded -/
theorem slices_spec (fuel : Nat) : ∀ (i : IIndex) (base : List Int), WF i → i.ndim ≤ fuel + 1 →
    (∀ p ∈ slices1d fuel i base, ∃ hi ∈ hiCells (i.shape.drop 1),
      p.1 = hi ++ base ∧ WF p.2 ∧ p.2.shape = [i.nrows] ∧ p.2.common = i.common ∧
      ∀ r, denseAt p.2 r [] = denseAt i r hi) ∧
    (∀ hi ∈ hiCells (i.shape.drop 1), ∃ p ∈ slices1d fuel i base, p.1 = hi ++ base) := by
  induction fuel with
  | zero =>
    intro i base h hf
    have h1 : i.ndim = 1 := by have := h.ndimPos; omega
    have hshape : i.shape = [i.nrows] := by
      unfold IIndex.ndim at h1; unfold IIndex.nrows
      match hs : i.shape with
      | [n] => simp
      | [] => rw [hs] at h1; simp at h1
      | _ :: _ :: _ => rw [hs] at h1; simp at h1
    simp only [slices1d, List.mem_singleton]
    have hdrop : i.shape.drop 1 = [] := by rw [hshape]; rfl
    refine ⟨fun p hp => ?_, fun hi hhi => ?_⟩
    · subst hp
      exact ⟨[], by rw [hdrop]; simp [hiCells], rfl, h, hshape, rfl, fun _ => rfl⟩
    · rw [hdrop] at hhi
      simp [hiCells] at hhi
      exact ⟨(base, i), rfl, by simp [hhi]⟩
  | succ fuel ih =>
    intro i base h hf
    simp only [slices1d]
    by_cases hnd : i.shape.length > 1
    · have hnd' : 1 < i.ndim := hnd
      simp only [hnd, if_true, List.mem_flatMap, List.mem_range]
      constructor
      · rintro p ⟨c, hc, hp⟩
        have hwb := wf_bucket i h hnd' c
        obtain ⟨hsound, _⟩ := ih (bucket i c) ((c : Int) :: base) hwb (by rw [bucket_ndim]; omega)
        obtain ⟨hi', hhi', hlbl, hwf, hsh, hcm, hd⟩ := hsound p hp
        refine ⟨hi' ++ [(c : Int)], ?_, by rw [hlbl]; simp, hwf, by rw [hsh, bucket_nrows i hnd' c], hcm, fun r => ?_⟩
        · rw [nat_drop_one_split i.shape hnd, hiCells_snoc]
          exact ⟨hi', c, rfl, hhi', hc⟩
        · rw [hd r]; exact dense_bucket i h hnd' c r hi'
      · intro hi hhi
        rw [nat_drop_one_split i.shape hnd, hiCells_snoc] at hhi
        obtain ⟨hi', c, rfl, hhi', hc⟩ := hhi
        have hwb := wf_bucket i h hnd' c
        obtain ⟨_, hcomplete⟩ := ih (bucket i c) ((c : Int) :: base) hwb (by rw [bucket_ndim]; omega)
        obtain ⟨p, hp, hlbl⟩ := hcomplete hi' hhi'
        exact ⟨p, ⟨c, hc, hp⟩, by rw [hlbl]; simp⟩
    · have h1 : i.ndim = 1 := by have := h.ndimPos; unfold IIndex.ndim at *; omega
      have hshape : i.shape = [i.nrows] := by
        unfold IIndex.ndim at h1; unfold IIndex.nrows
        match hs : i.shape with
        | [n] => simp
        | [] => rw [hs] at h1; simp at h1
        | _ :: _ :: _ => rw [hs] at h1; simp at h1
      simp only [hnd, if_false, List.mem_singleton]
      have hdrop : i.shape.drop 1 = [] := by rw [hshape]; rfl
      refine ⟨fun p hp => ?_, fun hi hhi => ?_⟩
      · subst hp
        exact ⟨[], by rw [hdrop]; simp [hiCells], rfl, h, hshape, rfl, fun _ => rfl⟩
      · rw [hdrop] at hhi
        simp [hiCells] at hhi
        exact ⟨(base, i), rfl, by simp [hhi]⟩

/-- `slices1d()` without the fuel: every yielded pair is a labelled column, every column is yielded -/
theorem slices_labelled (i : IIndex) (h : WF i) :
    (∀ p ∈ i.slices, ∃ hi ∈ hiCells (i.shape.drop 1),
      p.1 = hi ∧ WF p.2 ∧ p.2.shape = [i.nrows] ∧ p.2.common = i.common ∧
      ∀ r, denseAt p.2 r [] = denseAt i r hi) ∧
    (∀ hi ∈ hiCells (i.shape.drop 1), ∃ p ∈ i.slices, p.1 = hi) := by
  have hf : i.ndim ≤ (i.shape.length - 1) + 1 := by have := h.ndimPos; unfold IIndex.ndim at *; omega
  have := slices_spec (i.shape.length - 1) i [] h hf
  unfold IIndex.slices
  have hfuel : ∀ p, p ∈ slices1d i.shape.length i [] ↔ p ∈ slices1d (i.shape.length - 1) i [] := by
    intro p
    -- one spare unit of fuel is never used: with `ndim` axes the recursion is `ndim - 1` deep
    have hpos := h.ndimPos
    unfold IIndex.ndim at hpos
    have key : ∀ (fuel : Nat) (j : IIndex) (base : List Int), j.shape.length ≤ fuel + 1 → 0 < j.shape.length →
        slices1d (fuel + 1) j base = slices1d fuel j base := by
      intro fuel
      induction fuel with
      | zero =>
        intro j base hj hp
        have : ¬ j.shape.length > 1 := by omega
        simp [slices1d, this]
      | succ n ihn =>
        intro j base hj hp
        by_cases hl : j.shape.length > 1
        · simp only [slices1d, hl, if_true]
          congr 1
          funext c
          apply ihn
          · simp [bucket]; omega
          · simp [bucket]; omega
        · simp [slices1d, hl]
    have := key (i.shape.length - 1) i [] (by omega) hpos
    have hlen : i.shape.length - 1 + 1 = i.shape.length := by omega
    rw [hlen] at this
    rw [this]
  constructor
  · intro p hp
    obtain ⟨hi, hhi, h1, h2, h3, h4, h5⟩ := this.1 p ((hfuel p).mp hp)
    exact ⟨hi, hhi, by simpa using h1, h2, h3, h4, h5⟩
  · intro hi hhi
    obtain ⟨p, hp, h1⟩ := this.2 hi hhi
    exact ⟨p, (hfuel p).mpr hp, by simpa using h1⟩

end Catii.IIdx
