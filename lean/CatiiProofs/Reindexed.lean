import CatiiProofs.IIndexShift
import CatiiProofs.Dict
/-! `reindexed(mapping)` is element-wise value mapping on the dense array and preserves well-formedness
(C06/C07). Core Lean only. -/
namespace Catii.IIdx
open Catii.Kern

/-! ### concatenate, sort, drop repeats -/

theorem eraseDups_strict (n : Nat) (l : List Nat) (hn : l.length ≤ n) (hs : l.Pairwise (· ≤ ·)) :
    l.eraseDups.Pairwise (· < ·) := by
  induction n generalizing l with
  | zero =>
    have : l = [] := List.eq_nil_of_length_eq_zero (by omega)
    subst this; simp
  | succ n ih =>
    cases l with
    | nil => simp
    | cons a as =>
      have hs' := List.pairwise_cons.mp hs
      rw [List.eraseDups_cons]
      apply List.pairwise_cons.mpr
      constructor
      · intro b hb
        have hb' := List.mem_eraseDups.mp hb
        obtain ⟨h1, h2⟩ := List.mem_filter.mp hb'
        have hle := hs'.1 b h1
        have hne : b ≠ a := by simpa using h2
        omega
      · apply ih
        · have := List.length_filter_le (fun b => !b == a) as
          simp only [List.length_cons] at hn
          omega
        · exact hs'.2.sublist List.filter_sublist

theorem mem_sortDedup (ls : List Rows) (r : Nat) : r ∈ sortDedup ls true ↔ ∃ rows ∈ ls, r ∈ rows := by
  unfold sortDedup
  simp only [if_true]
  rw [List.mem_eraseDups, List.mem_mergeSort, List.mem_flatten]

theorem sortDedup_sorted (ls : List Rows) : SSorted (sortDedup ls true) := by
  unfold sortDedup
  simp only [if_true]
  apply eraseDups_strict _ _ (Nat.le_refl _)
  have := List.pairwise_mergeSort (le := fun a b : Nat => decide (a ≤ b))
    (fun a b c h1 h2 => by simp at *; omega) (fun a b => by simp; omega) ls.flatten
  exact this.imp (fun h => by simpa using h)

/-- one gathered group becomes one entry holding the union of its row-id lists -/
theorem mem_mergeGroup (g : Key × List Rows) (r : Nat) :
    r ∈ (mergeGroup false g).2 ↔ ∃ rows ∈ g.2, r ∈ rows := by
  unfold mergeGroup
  match hg : g.2 with
  | [single] => simp
  | [] => simp [mem_sortDedup]
  | a :: b :: rest => simp only [Bool.not_false]; rw [mem_sortDedup]

theorem mergeGroup_key (u : Bool) (g : Key × List Rows) : (mergeGroup u g).1 = g.1 := by
  unfold mergeGroup; split <;> rfl

theorem mergeGroup_sorted (g : Key × List Rows) (hs : ∀ rows ∈ g.2, SSorted rows) :
    SSorted (mergeGroup false g).2 := by
  unfold mergeGroup
  match hg : g.2 with
  | [single] => simp only; exact hs single (by rw [hg]; simp)
  | [] => simp only [Bool.not_false]; exact sortDedup_sorted _
  | a :: b :: rest => simp only [Bool.not_false]; exact sortDedup_sorted _

/-! ### the gathering loop -/

structure GInv (m : List (Int × Int)) (nc : Int) (processed : List (Key × Rows)) (G : List (Key × List Rows)) : Prop where
  keys : G.Pairwise (fun a b => a.1 ≠ b.1)
  sound : ∀ g ∈ G, val0 g.1 ≠ nc ∧ g.2 ≠ [] ∧ ∀ rows ∈ g.2, ∃ e ∈ processed, reKey m e.1 = g.1 ∧ e.2 = rows
  complete : ∀ e ∈ processed, val0 (reKey m e.1) ≠ nc → ∃ g ∈ G, g.1 = reKey m e.1 ∧ e.2 ∈ g.2

theorem gatherStep_inv (m : List (Int × Int)) (nc : Int) (pre : List (Key × Rows)) (acc : List (Key × List Rows) × Bool)
    (e : Key × Rows) (h : GInv m nc pre acc.1) : GInv m nc (pre ++ [e]) (gatherStep m nc acc e).1 := by
  unfold gatherStep
  simp only
  by_cases hc : (val0 (reKey m e.1) == nc) = true
  · simp only [hc, if_true]
    have hc' : val0 (reKey m e.1) = nc := by simpa using hc
    refine ⟨h.keys, fun g hg => ?_, fun e' he' hv => ?_⟩
    · obtain ⟨h1, h2, h3⟩ := h.sound g hg
      refine ⟨h1, h2, fun rows hr => ?_⟩
      obtain ⟨e', he', hk⟩ := h3 rows hr
      exact ⟨e', List.mem_append.mpr (Or.inl he'), hk⟩
    · rcases List.mem_append.mp he' with he' | he'
      · exact h.complete e' he' hv
      · simp at he'; subst he'; exact absurd hc' hv
  · simp only [hc, Bool.false_eq_true, if_false]
    have hc' : val0 (reKey m e.1) ≠ nc := by simpa using hc
    cases hf : acc.1.find? (fun g => g.1 == reKey m e.1) with
    | some g0 =>
      simp only
      have hg0 := List.mem_of_find?_eq_some hf
      have hk0 : g0.1 = reKey m e.1 := by simpa using List.find?_some hf
      refine ⟨?_, fun g' hg' => ?_, fun e' he' hv => ?_⟩
      · rw [List.pairwise_map]
        apply h.keys.imp
        intro a b hab
        by_cases ha : (a.1 == reKey m e.1) = true <;> by_cases hb : (b.1 == reKey m e.1) = true <;>
          simp only [ha, hb, if_true, Bool.false_eq_true, if_false] <;> exact hab
      · obtain ⟨g, hg, rfl⟩ := List.mem_map.mp hg'
        obtain ⟨h1, h2, h3⟩ := h.sound g hg
        by_cases hgk : (g.1 == reKey m e.1) = true
        · simp only [hgk, if_true]
          refine ⟨h1, by simp, fun rows hr => ?_⟩
          rcases List.mem_append.mp hr with hr | hr
          · obtain ⟨e', he', hk⟩ := h3 rows hr
            exact ⟨e', List.mem_append.mpr (Or.inl he'), hk⟩
          · simp at hr; subst hr
            exact ⟨e, by simp, (by simpa using hgk : g.1 = reKey m e.1).symm, rfl⟩
        · simp only [hgk, Bool.false_eq_true, if_false]
          refine ⟨h1, h2, fun rows hr => ?_⟩
          obtain ⟨e', he', hk⟩ := h3 rows hr
          exact ⟨e', List.mem_append.mpr (Or.inl he'), hk⟩
      · rcases List.mem_append.mp he' with he' | he'
        · obtain ⟨g, hg, hk, hin⟩ := h.complete e' he' hv
          refine ⟨_, List.mem_map.mpr ⟨g, hg, rfl⟩, ?_, ?_⟩
          · by_cases hgk : (g.1 == reKey m e.1) = true <;> simp only [hgk, if_true, Bool.false_eq_true, if_false] <;> exact hk
          · by_cases hgk : (g.1 == reKey m e.1) = true
            · simp only [hgk, if_true]; exact List.mem_append.mpr (Or.inl hin)
            · simp only [hgk, Bool.false_eq_true, if_false]; exact hin
        · simp at he'; subst he'
          refine ⟨_, List.mem_map.mpr ⟨g0, hg0, rfl⟩, ?_, ?_⟩
          · have : (g0.1 == reKey m e'.1) = true := by simpa using hk0
            simp only [this, if_true]; exact hk0
          · have : (g0.1 == reKey m e'.1) = true := by simpa using hk0
            simp only [this, if_true]; simp
    | none =>
      simp only
      have hfresh : ∀ g ∈ acc.1, g.1 ≠ reKey m e.1 := by
        intro g hg
        have := List.find?_eq_none.mp hf g hg
        simpa using this
      refine ⟨?_, fun g hg => ?_, fun e' he' hv => ?_⟩
      · rw [List.pairwise_append]
        exact ⟨h.keys, by simp, fun a ha b hb => by simp at hb; subst hb; exact hfresh a ha⟩
      · rcases List.mem_append.mp hg with hg | hg
        · obtain ⟨h1, h2, h3⟩ := h.sound g hg
          refine ⟨h1, h2, fun rows hr => ?_⟩
          obtain ⟨e', he', hk⟩ := h3 rows hr
          exact ⟨e', List.mem_append.mpr (Or.inl he'), hk⟩
        · simp at hg; subst hg
          exact ⟨hc', by simp, fun rows hr => by simp at hr; subst hr; exact ⟨e, by simp, rfl, rfl⟩⟩
      · rcases List.mem_append.mp he' with he' | he'
        · obtain ⟨g, hg, hk, hin⟩ := h.complete e' he' hv
          exact ⟨g, List.mem_append.mpr (Or.inl hg), hk, hin⟩
        · simp at he'; subst he'
          exact ⟨(reKey m e'.1, [e'.2]), by simp, rfl, by simp⟩

theorem gather_inv (m : List (Int × Int)) (nc : Int) (l pre : List (Key × Rows)) (acc : List (Key × List Rows) × Bool)
    (h : GInv m nc pre acc.1) : GInv m nc (pre ++ l) (l.foldl (gatherStep m nc) acc).1 := by
  induction l generalizing pre acc with
  | nil => simpa using h
  | cons e rest ih =>
    simp only [List.foldl_cons]
    have := ih (pre ++ [e]) (gatherStep m nc acc e) (gatherStep_inv m nc pre acc e h)
    simpa using this

/-! ### the result -/

theorem reKey_val0 (m : List (Int × Int)) (k : Key) (hk : 0 < k.length) : val0 (reKey m k) = reVal m (val0 k) := by
  unfold reKey reVal
  cases h : lookup m (val0 k) with
  | none => simp
  | some nv => simp [val0]

theorem reKey_drop (m : List (Int × Int)) (k : Key) (hk : 0 < k.length) : (reKey m k).drop 1 = k.drop 1 := by
  unfold reKey
  cases h : lookup m (val0 k) with
  | none => rfl
  | some nv => simp

theorem reKey_length (m : List (Int × Int)) (k : Key) (hk : 0 < k.length) : (reKey m k).length = k.length := by
  unfold reKey
  cases h : lookup m (val0 k) with
  | none => rfl
  | some nv => simp; omega

/-- what the result lists: every row of every entry, under the entry's new key, unless that key carries the new
common value -/
theorem listed_reindexedPre (i : IIndex) (m : List (Int × Int)) (k : Key) (r : Nat) :
    Listed (reindexedPre i m false).1.entries k r ↔
      val0 k ≠ reVal m i.common ∧ ∃ e ∈ i.entries, reKey m e.1 = k ∧ r ∈ e.2 := by
  have hinv := gather_inv m (reVal m i.common) i.entries [] ([], false)
    ⟨List.Pairwise.nil, fun g hg => by simp at hg, fun e he => by simp at he⟩
  simp only [List.nil_append] at hinv
  unfold reindexedPre Listed
  simp only [List.mem_map]
  constructor
  · rintro ⟨rows, ⟨g, hg, hge⟩, hr⟩
    have hk : g.1 = k := by rw [← mergeGroup_key false g, hge]
    have hrows : (mergeGroup false g).2 = rows := by rw [hge]
    obtain ⟨h1, _, h3⟩ := hinv.sound g hg
    rw [← hrows] at hr
    obtain ⟨lst, hl, hrl⟩ := (mem_mergeGroup g r).mp hr
    obtain ⟨e, he, hek, hel⟩ := h3 lst hl
    exact ⟨by rw [← hk]; exact h1, e, he, by rw [hek, hk], by rw [hel]; exact hrl⟩
  · rintro ⟨hv, e, he, hek, hr⟩
    obtain ⟨g, hg, hgk, hin⟩ := hinv.complete e he (by rw [hek]; exact hv)
    refine ⟨(mergeGroup false g).2, ⟨g, hg, ?_⟩, (mem_mergeGroup g r).mpr ⟨e.2, hin, hr⟩⟩
    apply Prod.ext
    · simp only; rw [mergeGroup_key, hgk, hek]
    · rfl

theorem reindexedPre_keys (i : IIndex) (m : List (Int × Int)) : KeysDistinct (reindexedPre i m false).1.entries := by
  have hinv := gather_inv m (reVal m i.common) i.entries [] ([], false)
    ⟨List.Pairwise.nil, fun g hg => by simp at hg, fun e he => by simp at he⟩
  unfold reindexedPre
  show List.Pairwise (fun a b : Key × Rows => a.1 ≠ b.1) _
  simp only
  rw [List.pairwise_map]
  apply hinv.keys.imp
  intro a b hab
  rw [mergeGroup_key, mergeGroup_key]; exact hab

/-- **before the optional re-normalisation** the result is well-formed and holds the mapped values -/
theorem reindexedPre_refines (i : IIndex) (h : WF i) (m : List (Int × Int)) :
    WF (reindexedPre i m false).1 ∧ (reindexedPre i m false).1.shape = i.shape ∧
      (reindexedPre i m false).1.common = reVal m i.common ∧
      ∀ r hi, denseAt (reindexedPre i m false).1 r hi = reVal m (denseAt i r hi) := by
  have hl := listed_reindexedPre i m
  have hpos : ∀ e ∈ i.entries, 0 < e.1.length := fun e he => by rw [h.arity e he]; exact h.ndimPos
  have hinv := gather_inv m (reVal m i.common) i.entries [] ([], false)
    ⟨List.Pairwise.nil, fun g hg => by simp at hg, fun e he => by simp at he⟩
  simp only [List.nil_append] at hinv
  -- every entry of the result comes from a gathered group
  have hentry : ∀ x ∈ (reindexedPre i m false).1.entries, ∃ g ∈ (i.entries.foldl (gatherStep m (reVal m i.common)) ([], false)).1,
      x.1 = g.1 ∧ x.2 = (mergeGroup false g).2 := by
    intro x hx
    unfold reindexedPre at hx
    simp only [List.mem_map] at hx
    obtain ⟨g, hg, rfl⟩ := hx
    exact ⟨g, hg, mergeGroup_key false g, rfl⟩
  have hwf : WF (reindexedPre i m false).1 := by
    refine ⟨reindexedPre_keys i m, ?_, h.ndimPos, ?_, ?_, ?_, ?_, ?_, ?_⟩
    · intro x hx
      obtain ⟨g, hg, hk, _⟩ := hentry x hx
      obtain ⟨_, hne, h3⟩ := hinv.sound g hg
      obtain ⟨lst, hl'⟩ := List.exists_mem_of_ne_nil g.2 hne
      obtain ⟨e, he, hek, _⟩ := h3 lst hl'
      show x.1.length = i.ndim
      rw [hk, ← hek, reKey_length m e.1 (hpos e he)]; exact h.arity e he
    · intro x hx
      obtain ⟨g, hg, hk, _⟩ := hentry x hx
      show val0 x.1 ≠ reVal m i.common
      rw [hk]; exact (hinv.sound g hg).1
    · intro x hx
      obtain ⟨g, hg, _, hrows⟩ := hentry x hx
      obtain ⟨_, hne, h3⟩ := hinv.sound g hg
      obtain ⟨lst, hl'⟩ := List.exists_mem_of_ne_nil g.2 hne
      obtain ⟨e, he, _, hel⟩ := h3 lst hl'
      obtain ⟨r, hr⟩ := List.exists_mem_of_ne_nil e.2 (h.nonEmpty e he)
      intro hnil
      have : r ∈ (mergeGroup false g).2 := (mem_mergeGroup g r).mpr ⟨lst, hl', by rw [← hel]; exact hr⟩
      rw [← hrows, hnil] at this; simp at this
    · intro x hx
      obtain ⟨g, hg, _, hrows⟩ := hentry x hx
      rw [hrows]
      apply mergeGroup_sorted
      intro rows hr
      obtain ⟨e, he, _, hel⟩ := (hinv.sound g hg).2.2 rows hr
      rw [← hel]; exact h.sorted e he
    · intro x hx r hr
      obtain ⟨_, e, he, _, hre⟩ := (hl x.1 r).mp ⟨x.2, hx, hr⟩
      exact h.inRange e he r hre
    · intro x hx
      obtain ⟨g, hg, hk, _⟩ := hentry x hx
      obtain ⟨_, hne, h3⟩ := hinv.sound g hg
      obtain ⟨lst, hl'⟩ := List.exists_mem_of_ne_nil g.2 hne
      obtain ⟨e, he, hek, _⟩ := h3 lst hl'
      show x.1.drop 1 ∈ hiCells (i.shape.drop 1)
      rw [hk, ← hek, reKey_drop m e.1 (hpos e he)]; exact h.hiRange e he
    · intro x hx y hy hxy r hrx hry
      obtain ⟨_, e, he, hek, hre⟩ := (hl x.1 r).mp ⟨x.2, hx, hrx⟩
      obtain ⟨_, f, hf, hfk, hrf⟩ := (hl y.1 r).mp ⟨y.2, hy, hry⟩
      have hhi : e.1.drop 1 = f.1.drop 1 := by
        rw [← reKey_drop m e.1 (hpos e he), ← reKey_drop m f.1 (hpos f hf), hek, hfk]; exact hxy
      have := h.exclusive e he f hf hhi r hre hrf
      rw [← hek, ← hfk, reKey_val0 m e.1 (hpos e he), reKey_val0 m f.1 (hpos f hf), this]
  refine ⟨hwf, rfl, rfl, fun r hi => ?_⟩
  -- every entry of the result listing this cell carries the mapped value of the cell
  have hall : ∀ x ∈ (reindexedPre i m false).1.entries, x.1.drop 1 = hi → r ∈ x.2 →
      ∃ e ∈ i.entries, e.1.drop 1 = hi ∧ r ∈ e.2 ∧ val0 x.1 = reVal m (val0 e.1) ∧ val0 x.1 ≠ reVal m i.common := by
    intro x hx hx1 hx2
    obtain ⟨hv, e, he, hek, hre⟩ := (hl x.1 r).mp ⟨x.2, hx, hx2⟩
    refine ⟨e, he, ?_, hre, ?_, hv⟩
    · rw [← reKey_drop m e.1 (hpos e he), hek]; exact hx1
    · rw [← hek, reKey_val0 m e.1 (hpos e he)]
  by_cases hex : ∃ e ∈ i.entries, e.1.drop 1 = hi ∧ r ∈ e.2
  · obtain ⟨e, he, h1, h2⟩ := hex
    rw [denseAt_of_mem i h e he r hi h1 h2]
    by_cases hv : reVal m (val0 e.1) = reVal m i.common
    · rw [hv]
      apply denseAt_of_not_mem
      intro x hx hx1 hx2
      obtain ⟨e', he', h1', h2', hxv, hxc⟩ := hall x hx hx1 hx2
      have := h.exclusive e' he' e he (by rw [h1', h1]) r h2' h2
      rw [this, hv] at hxv
      exact hxc hxv
    · obtain ⟨rows, hm, hr'⟩ := (hl (reKey m e.1) r).mpr
        ⟨by rw [reKey_val0 m e.1 (hpos e he)]; exact hv, e, he, rfl, h2⟩
      have := denseAt_of_mem _ hwf (reKey m e.1, rows) hm r hi (by simp only; rw [reKey_drop m e.1 (hpos e he), h1]) hr'
      rw [this]
      exact reKey_val0 m e.1 (hpos e he)
  · have hnot : ∀ e ∈ i.entries, e.1.drop 1 = hi → r ∉ e.2 := fun e he h1 h2 => hex ⟨e, he, h1, h2⟩
    rw [denseAt_of_not_mem i r hi hnot]
    apply denseAt_of_not_mem
    intro x hx hx1 hx2
    obtain ⟨e', he', h1', h2', _, _⟩ := hall x hx hx1 hx2
    exact hnot e' he' h1' h2'

/-- **`reindexed(mapping)` is element-wise value mapping** (`mapping.get(v, v)` applied to every cell; the default
mapping sends the k-th smallest listed value to k) and preserves well-formedness, whether or not it re-normalises -/
theorem reindexed_refines (i : IIndex) (h : WF i) (hnd : i.ndim ≤ 2) (mapping : Option (List (Int × Int)))
    (shift : Bool) (res : IIndex) (hr : reindexed i mapping shift false = .ok res) :
    WF res ∧ res.shape = i.shape ∧
      ∀ r < i.nrows, ∀ hi ∈ hiCells (i.shape.drop 1),
        denseAt res r hi = reVal (reMapping i mapping) (denseAt i r hi) := by
  obtain ⟨hw, hs, _, hd⟩ := reindexedPre_refines i h (reMapping i mapping)
  unfold reindexed at hr
  simp only at hr
  by_cases hc : shift = true ∧ (reindexedPre i (reMapping i mapping) false).2 = true
  · rw [if_pos hc] at hr
    have hnd' : (reindexedPre i (reMapping i mapping) false).1.ndim ≤ 2 := by
      unfold IIndex.ndim; rw [hs]; exact hnd
    obtain ⟨h1, h2, h3⟩ := shiftCommon_refines _ hw hnd' none res hr
    refine ⟨h1, h2.trans hs, fun r hr' hi hhi => ?_⟩
    rw [h3 r (by unfold IIndex.nrows; rw [hs]; exact hr') hi (by rw [hs]; exact hhi)]
    exact hd r hi
  · rw [if_neg hc] at hr
    simp only [pure, Except.pure, Except.ok.injEq] at hr
    subst hr
    exact ⟨hw, hs, fun r _ hi _ => hd r hi⟩

end Catii.IIdx
