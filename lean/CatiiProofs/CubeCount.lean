import CatiiProofs.Marginal
import CatiiProofs.Fill
/-! The count fill establishes the initial invariant; hence the count cube is the brute-force table. -/
open Finset
namespace Catii.Marg
open Catii.Cube Catii.Kern

/-- hypotheses of C02 for one-axis dimensions: well-formed, row-aligned over `N` rows, and the
working extents exceed every listed category and the common one -/
structure CubeOK (dims : List Dim) (exts : List ℕ) (N : ℕ) : Prop where
  len : exts.length = dims.length
  ok : ∀ d ∈ dims, DimOK N d
  keys_lt : ∀ a < dims.length, ∀ e ∈ (dims.getD a default).entries, e.1 < at' exts a
  cm_lt : ∀ a < dims.length, (dims.getD a default).common < at' exts a

theorem at_map_common (dims : List Dim) (a : ℕ) (ha : a < dims.length) :
    at' (dims.map (·.common)) a = (dims.getD a default).common := by
  unfold at'
  rw [List.getD_eq_getElem?_getD, List.getD_eq_getElem?_getD, List.getElem?_map,
    List.getElem?_eq_getElem ha]
  simp

theorem getD_mem (dims : List Dim) (a : ℕ) (ha : a < dims.length) : dims.getD a default ∈ dims := by
  rw [List.getD_eq_getElem?_getD, List.getElem?_eq_getElem ha]; simp

def geoOf (dims : List Dim) (exts : List ℕ) (N : ℕ) (h : CubeOK dims exts N) : Geo where
  d := dims.length
  N := N
  ext := exts
  cm := dims.map (·.common)
  val := fun a r => dense (dims.getD a default) r
  hext := h.len
  hcm := by simp
  cm_lt := fun a ha => by rw [at_map_common dims a ha]; exact h.cm_lt a ha
  val_lt := fun a ha r _ => dense_lt _ (h.keys_lt a ha) (h.cm_lt a ha) r

variable {dims : List Dim} {exts : List ℕ} {N : ℕ} (h : CubeOK dims exts N)
include h

/-- facts about one delivered item -/
theorem item_facts (co : Co) (rows : Rows) (hit : (co, rows) ∈ interactions dims) :
    co.length = dims.length ∧ rows ≠ [] ∧ SSorted rows ∧ (∃ c ∈ co, c ≠ none) ∧
    (∀ r, r ∈ rows ↔ ∀ a < dims.length, ∀ v, co.getD a none = some v → r ∈ rowsOf (dims.getD a default) v) := by
  obtain ⟨cs, hco, hlen, hne, hs, hsome, hiff⟩ :=
    walk_sound dims (fun d hd => (h.ok d hd).wf) [] none (by intro b hb; cases hb) co rows hit
  simp only [List.nil_append] at hco
  subst hco
  refine ⟨hlen, hne, hs, hsome rfl, fun r => ?_⟩
  rw [hiff r, ← sel_iff_idx dims co r hlen]
  simp [InB]

theorem item_keys (co : Co) (rows : Rows) (hit : (co, rows) ∈ interactions dims)
    (a : ℕ) (ha : a < dims.length) (v : ℕ) (hv : co.getD a none = some v) :
    v < at' exts a ∧ v ≠ (dims.getD a default).common := by
  obtain ⟨_, hne, _, _, hiff⟩ := item_facts h co rows hit
  obtain ⟨r0, hr0⟩ := List.exists_mem_of_ne_nil rows hne
  have hr := (hiff r0).mp hr0 a ha v hv
  obtain ⟨e, he, hk, _⟩ := rowsOf_entry _ v r0 hr
  refine ⟨by rw [← hk]; exact h.keys_lt a ha e he, ?_⟩
  intro hcm
  rw [hcm, rowsOf_common (h.ok _ (getD_mem dims a ha))] at hr
  simp at hr

theorem item_cell_at (co : Co) (rows : Rows) (hit : (co, rows) ∈ interactions dims)
    (a : ℕ) (ha : a < dims.length) :
    at' (cellOf exts co) a = (co.getD a none).getD (at' exts a) := by
  obtain ⟨hlen, _⟩ := item_facts h co rows hit
  exact getD_cellOf exts co a (by rw [h.len]; exact ha) (by rw [hlen, h.len])

theorem item_inRange (co : Co) (rows : Rows) (hit : (co, rows) ∈ interactions dims) :
    InRange (geoOf dims exts N h) (cellOf exts co) := by
  obtain ⟨hlen, _⟩ := item_facts h co rows hit
  refine ⟨by simp [geoOf, length_cellOf, hlen, h.len], fun a ha => ?_⟩
  have ha' : a < dims.length := ha
  show at' (cellOf exts co) a ≤ at' exts a
  rw [item_cell_at h co rows hit a ha']
  cases hv : co.getD a none with
  | none => simp
  | some v => simp; exact Nat.le_of_lt (item_keys h co rows hit a ha' v hv).1

omit h in
theorem zip_all_le (exts : List ℕ) (c : Cell) (hl : c.length = exts.length)
    (hle : ∀ a < exts.length, at' c a ≤ at' exts a) :
    ((exts.zip c).all fun (e, v) => decide (v ≤ e)) = true := by
  rw [List.all_eq_true]
  intro x hx
  obtain ⟨i, hi, hxi⟩ := List.mem_iff_getElem.mp hx
  simp only [List.length_zip] at hi
  have hi1 : i < exts.length := by omega
  have hi2 : i < c.length := by omega
  have := hle i hi1
  simp only [at', List.getD_eq_getElem?_getD, List.getElem?_eq_getElem hi1, List.getElem?_eq_getElem hi2,
    Option.getD_some] at this
  rw [← hxi]
  simpa using this

/-- rows of a delivered item = the rows matching its cell -/
theorem item_rows_iff (co : Co) (rows : Rows) (hit : (co, rows) ∈ interactions dims) (r : ℕ) :
    r ∈ rows ↔ r < N ∧ Matches (geoOf dims exts N h) (cellOf exts co) r := by
  obtain ⟨hlen, hne, _, ⟨x, hx, hxn⟩, hiff⟩ := item_facts h co rows hit
  rw [hiff r]
  constructor
  · intro hsel
    constructor
    · -- some coordinate is a category, and its rows are below N
      obtain ⟨i, hi, hxi⟩ := List.mem_iff_getElem.mp hx
      cases x with
      | none => exact absurd rfl hxn
      | some v =>
        have hi' : i < dims.length := by omega
        have hg : co.getD i none = some v := by
          rw [List.getD_eq_getElem?_getD, List.getElem?_eq_getElem hi, hxi]; rfl
        exact mem_rowsOf_lt (h.ok _ (getD_mem dims i hi')) v r (hsel i hi' v hg)
    · intro a ha
      have ha' : a < dims.length := ha
      show at' (cellOf exts co) a = at' exts a ∨ at' (cellOf exts co) a = dense (dims.getD a default) r
      rw [item_cell_at h co rows hit a ha']
      cases hv : co.getD a none with
      | none => left; simp
      | some v =>
        right
        have hk := item_keys h co rows hit a ha' v hv
        simp only [Option.getD_some]
        exact ((mem_rowsOf_iff (h.ok _ (getD_mem dims a ha')) v r hk.2).mp (hsel a ha' v hv)).symm
  · rintro ⟨_, hm⟩ a ha v hv
    have hk := item_keys h co rows hit a ha v hv
    have := hm a ha
    change at' (cellOf exts co) a = at' exts a ∨ at' (cellOf exts co) a = dense (dims.getD a default) r at this
    rw [item_cell_at h co rows hit a ha, hv] at this
    simp only [Option.getD_some] at this
    rcases this with h1 | h1
    · have := hk.1; omega
    · exact (mem_rowsOf_iff (h.ok _ (getD_mem dims a ha)) v r hk.2).mpr h1.symm

omit h in
theorem length_eq_card (rows : Rows) (hs : SSorted rows) (P : ℕ → Prop) [DecidablePred P] (N : ℕ)
    (hiff : ∀ r, r ∈ rows ↔ r < N ∧ P r) : (rows.length : ℤ) = ∑ _r ∈ (range N).filter P, (1 : ℤ) := by
  have hnd : rows.Nodup := hs.imp (fun h => Nat.ne_of_lt h)
  have : rows.toFinset = (range N).filter P := by
    ext r; simp [hiff r]
  rw [← this, sum_const, List.toFinset_card_of_nodup hnd]; simp

end Catii.Marg

namespace Catii.Marg
open Catii.Cube Catii.Kern
variable {dims : List Dim} {exts : List ℕ} {N : ℕ} (h : CubeOK dims exts N)
include h

theorem fill_ok : ∃ R, fillCount exts (interactions dims) (initCount exts N) = .ok R := by
  apply fillCount_ok
  intro it hit
  have hr := item_inRange h it.1 it.2 hit
  exact zip_all_le exts _ (by rw [hr.1]; exact h.len.symm) (fun a ha => hr.2 a (by show a < dims.length; rw [← h.len]; exact ha))

theorem corner_value (c : Cell) : rget (initCount exts N) c = if exts = c then (N : ℤ) else 0 := by
  unfold initCount rput rget
  by_cases hc : exts = c
  · subst hc; simp
  · have : (exts == c) = false := by simpa using hc
    simp [this, hc]

/-- the region after the fill satisfies the initial invariant for `μ ≡ 1` -/
theorem fill_inv0 (R : Region ℤ) (hR : fillCount exts (interactions dims) (initCount exts N) = .ok R) :
    Inv (geoOf dims exts N h) (fun _ => (1 : ℤ)) 0 (rget R) := by
  intro c hc
  have hcl : c.length = exts.length := by rw [hc.1]; exact h.len.symm
  rcases fillCount_cell exts _ _ R hR c with ⟨it, hit, hcell, hval⟩ | ⟨hnone, hval⟩
  · -- some delivered item wrote this cell
    obtain ⟨co, rows⟩ := it
    simp only at hcell hval
    obtain ⟨hlen, hne, hs, _, _⟩ := item_facts h co rows hit
    have hnc : ¬ ∃ a, 0 ≤ a ∧ a < (geoOf dims exts N h).d ∧ at' c a = at' (geoOf dims exts N h).cm a := by
      rintro ⟨a, _, ha, heq⟩
      have ha' : a < dims.length := ha
      change at' c a = at' (dims.map (·.common)) a at heq
      rw [at_map_common dims a ha', ← hcell, item_cell_at h co rows hit a ha'] at heq
      cases hv : co.getD a none with
      | none => rw [hv] at heq; simp only [Option.getD_none] at heq; have := h.cm_lt a ha'; omega
      | some v => rw [hv] at heq; simp only [Option.getD_some] at heq; exact (item_keys h co rows hit a ha' v hv).2 heq
    rw [hval, if_neg hnc]
    unfold meas
    exact length_eq_card rows hs _ N (fun r => by rw [← hcell]; exact item_rows_iff h co rows hit r)
  · rw [hval, corner_value h c]
    by_cases hcorner : exts = c
    · subst hcorner
      have hnc : ¬ ∃ a, 0 ≤ a ∧ a < (geoOf dims exts N h).d ∧ at' exts a = at' (geoOf dims exts N h).cm a := by
        rintro ⟨a, _, ha, heq⟩
        have := (geoOf dims exts N h).cm_lt a ha
        change at' (geoOf dims exts N h).cm a < at' exts a at this
        omega
      rw [if_pos rfl, if_neg hnc]
      unfold meas
      have : (range N).filter (Matches (geoOf dims exts N h) exts) = range N := by
        apply filter_true_of_mem
        intro r _ a _
        exact Or.inl rfl
      change (N : ℤ) = ∑ _r ∈ (range N).filter (Matches (geoOf dims exts N h) exts), (1 : ℤ)
      rw [this]; simp
    · rw [if_neg hcorner]
      by_cases hex : ∃ a, 0 ≤ a ∧ a < (geoOf dims exts N h).d ∧ at' c a = at' (geoOf dims exts N h).cm a
      · rw [if_pos hex]
      · rw [if_neg hex]
        unfold meas
        suffices hempty : (range (geoOf dims exts N h).N).filter (Matches (geoOf dims exts N h) c) = ∅ by
          rw [hempty]; simp
        apply filter_eq_empty_iff.mpr
        intro r _ hm
        exfalso
        -- build the walk coordinates of c and show the walk delivers them
        have hd : 0 < dims.length := by
          obtain ⟨a, ha, _⟩ := exists_ne_of_ne c exts hcl (fun e => hcorner e.symm)
          rw [hcl, h.len] at ha; omega
        have hdne : dims ≠ [] := by intro e; rw [e] at hd; simp at hd
        have hcolen : (coOf exts c).length = dims.length := by rw [length_coOf, hcl, h.len]; simp
        have hsome : ∃ x ∈ coOf exts c, x ≠ none := by
          obtain ⟨a, ha, hne⟩ := exists_ne_of_ne c exts hcl (fun e => hcorner e.symm)
          have ha' : a < exts.length := by rw [← hcl]; exact ha
          have hg := getD_coOf exts c a ha' hcl
          rw [if_neg hne] at hg
          have hai : a < (coOf exts c).length := by rw [hcolen, ← h.len]; exact ha'
          refine ⟨(coOf exts c)[a], List.getElem_mem hai, ?_⟩
          rw [List.getD_eq_getElem?_getD, List.getElem?_eq_getElem hai] at hg
          simp at hg; rw [hg]; simp
        have hsel : Sel dims (coOf exts c) r := by
          rw [sel_iff_idx dims _ r hcolen]
          intro a ha v hv
          have ha' : a < exts.length := by rw [h.len]; exact ha
          rw [getD_coOf exts c a ha' hcl] at hv
          split at hv
          · cases hv
          · rename_i hne
            cases hv
            have hma := hm a ha
            change at' c a = at' exts a ∨ at' c a = dense (dims.getD a default) r at hma
            rcases hma with h1 | h1
            · exact absurd h1 hne
            · have hncm : c.getD a 0 ≠ (dims.getD a default).common := by
                intro e
                apply hex
                refine ⟨a, Nat.zero_le _, ha, ?_⟩
                change at' c a = at' (dims.map (·.common)) a
                rw [at_map_common dims a ha]; exact e
              exact (mem_rowsOf_iff (h.ok _ (getD_mem dims a ha)) _ r hncm).mpr h1.symm
        obtain ⟨rows, hmem⟩ := walk_complete dims (fun d hd => (h.ok d hd).wf) hdne [] none
          (by intro b hb; cases hb) (coOf exts c) hcolen (fun _ => hsome) ⟨r, trivial, hsel⟩
        simp only [List.nil_append] at hmem
        exact hnone (coOf exts c, rows) hmem (cellOf_coOf exts c hcl)

/-- **count cube = brute force**, region level: after the fill and the marginal passes every
working cell holds the number of rows matching it (margin coordinates match everything) -/
theorem count_region_correct (R : Region ℤ)
    (hR : fillCount exts (interactions dims) (initCount exts N) = .ok R) (c : Cell)
    (hc : InRange (geoOf dims exts N h) c) :
    rget (passes exts (dims.map (·.common)) dims.length R) c
      = (((range N).filter (Matches (geoOf dims exts N h) c)).card : ℤ) := by
  have := marginal_diff_correct (geoOf dims exts N h) (fun _ => (1 : ℤ)) R (fill_inv0 h R hR) c hc
  simp only [geoOf] at this ⊢
  rw [this]; unfold meas; simp

end Catii.Marg

namespace Catii.Marg
open Catii.Cube Catii.Kern

theorem zip_all_iff (dims : List Dim) (c : Cell) (r : ℕ) (hl : c.length = dims.length) :
    ((dims.zip c).all fun (d, v) => dense d r == v) = true ↔
      ∀ a < dims.length, dense (dims.getD a default) r = c.getD a 0 := by
  induction dims generalizing c with
  | nil => simp
  | cons d ds ih =>
    cases c with
    | nil => simp at hl
    | cons v vs =>
      rw [List.length_cons, forall_lt_succ]
      simp only [List.zip_cons_cons, List.all_cons, Bool.and_eq_true, beq_iff_eq, List.getD_cons_zero,
        List.getD_cons_succ]
      rw [ih vs (by simpa using hl)]

variable {dims : List Dim} {exts : List ℕ} {N : ℕ} (h : CubeOK dims exts N)
include h

theorem brute_eq_card (c : Cell) (hc : c ∈ allCells exts) :
    (brute dims N c : ℤ) = (((range N).filter (Matches (geoOf dims exts N h) c)).card : ℤ) := by
  obtain ⟨hl, hlt⟩ := (mem_allCells exts c).mp hc
  have hl' : c.length = dims.length := by rw [hl, h.len]
  unfold brute
  congr 1
  have hnd : ((List.range N).filter fun r => (dims.zip c).all fun (d, v) => dense d r == v).Nodup :=
    List.Nodup.filter _ List.nodup_range
  rw [← List.toFinset_card_of_nodup hnd]
  congr 1
  ext r
  simp only [List.mem_toFinset, List.mem_filter, List.mem_range, mem_filter, mem_range]
  rw [zip_all_iff dims c r hl']
  constructor
  · rintro ⟨hr, hm⟩
    exact ⟨hr, fun a ha => Or.inr (hm a ha).symm⟩
  · rintro ⟨hr, hm⟩
    refine ⟨hr, fun a ha => ?_⟩
    rcases hm a ha with h1 | h1
    · have := hlt a (by rw [h.len]; exact ha)
      change at' c a = at' exts a at h1
      omega
    · exact h1.symm

theorem outCell_inRange (c : Cell) (hc : c ∈ allCells exts) : InRange (geoOf dims exts N h) c := by
  obtain ⟨hl, hlt⟩ := (mem_allCells exts c).mp hc
  exact ⟨by rw [hl]; exact h.len, fun a ha => Nat.le_of_lt (hlt a (by rw [h.len]; exact ha))⟩

/-- the whole output of `countCube` with an explicit shape -/
theorem countCube_spec :
    ∃ out, countCube dims N (some exts) = .ok out ∧ out.shape = exts ∧
      out.counts = (allCells exts).map (fun c => (c, (brute dims N c : ℤ))) ∧
      out.missing = (allCells exts).filter (fun c => brute dims N c == 0) := by
  obtain ⟨R, hR⟩ := fill_ok h
  have hcells : ∀ c ∈ allCells exts,
      rget (passes exts (dims.map (·.common)) dims.length R) c = (brute dims N c : ℤ) := by
    intro c hc
    rw [count_region_correct h R hR c (outCell_inRange h c hc), brute_eq_card h c hc]
  have hcounts : (allCells exts).map (fun c => (c, rget (passes exts (dims.map (·.common)) dims.length R) c))
      = (allCells exts).map (fun c => (c, (brute dims N c : ℤ))) :=
    List.map_congr_left (fun c hc => by rw [hcells c hc])
  refine ⟨{ shape := exts,
             counts := (allCells exts).map (fun c => (c, rget (passes exts (dims.map (·.common)) dims.length R) c)),
             missing := (((allCells exts).map (fun c => (c, rget (passes exts (dims.map (·.common)) dims.length R) c))).filter
                (·.2 == 0)).map (·.1) }, ?_, rfl, hcounts, ?_⟩
  · unfold countCube
    simp only [h.len, ne_eq, not_true_eq_false, if_false, hR, bind, Except.bind, pure, Except.pure]
  · simp only
    rw [hcounts, List.filter_map, List.map_map]
    have : (Prod.fst ∘ fun c => (c, (brute dims N c : ℤ))) = id := by funext c; rfl
    rw [this, List.map_id]
    apply List.filter_congr
    intro c _
    simp [Function.comp]

end Catii.Marg
