import CatiiProofs.FromArray
import CatiiProofs.ToArray
/-! `to_array(from_array(a)) = a` (mapped): the two halves of C01 composed. Core Lean only. -/
namespace Catii.IIdx
open Catii.Kern

theorem val0_key (a : Arr) (mv : Int) (c : Nat) : val0 (a.key mv c) = mv := by
  unfold Arr.key val0; split <;> rfl

/-- whatever either construction strategy builds can be scattered -/
theorem built_scatterable (a : Arr) (harr : ArrOK a) (m : Option (List (Int × Int))) (cm : Int)
    (es : List (Key × Rows)) (hb : BuiltFor a m cm (fun _ _ => True) es) :
    Scatterable ⟨es, cm, a.shape⟩ := by
  obtain ⟨_, hl⟩ := hb
  have hkey : ∀ e ∈ es, ∀ r ∈ e.2, ∃ col ∈ a.cols, ∃ mv, mapVal m (a.at r col) = .ok mv ∧ e.1 = a.key mv col := by
    intro e he r hr
    obtain ⟨c, hc, _, _, mv, hmv, _, hk⟩ := (hl e.1 r).mp ⟨e.2, he, hr⟩
    exact ⟨c, hc, mv, hmv, hk⟩
  refine ⟨?_, ?_, ?_, ?_⟩
  · show 0 < a.shape.length
    rcases harr.ndim with h | h <;> omega
  · intro e he hne
    obtain ⟨r, hr⟩ := List.exists_mem_of_ne_nil e.2 hne
    obtain ⟨c, _, mv, _, hk⟩ := hkey e he r hr
    show e.1.length = a.shape.length
    rw [hk]
    unfold Arr.key Arr.twoD
    rcases harr.ndim with h | h <;> simp [h]
  · intro e he hne
    obtain ⟨r, hr⟩ := List.exists_mem_of_ne_nil e.2 hne
    obtain ⟨c, hc, mv, _, hk⟩ := hkey e he r hr
    show e.1.drop 1 ∈ hiCells (a.shape.drop 1)
    rw [hk]
    unfold Arr.key Arr.cols Arr.twoD at *
    rcases harr.ndim with h | h
    · match hs : a.shape, h with
      | [n], _ => simp [hiCells]
    · match hs : a.shape, h with
      | [n, k], _ =>
        rw [hs] at hc
        simp at hc
        simp [hiCells]
        exact ⟨c, hc, rfl⟩
  · intro e he f hf hef r hre hrf
    obtain ⟨c, hc, mv, hmv, hk⟩ := hkey e he r hre
    obtain ⟨c', hc', mv', hmv', hk'⟩ := hkey f hf r hrf
    rw [hk, hk'] at hef
    have := key_hi_inj a mv mv' c c' hc hc' hef
    subst this
    rw [hmv] at hmv'; cases hmv'
    rw [hk, hk']

/-- both strategies of `from_array` establish the same invariant over all cells -/
theorem fromArray_built (a : Arr) (o : FromOpts) (idx : IIndex) (w : Bool) (harr : ArrOK a)
    (h : fromArray a o = .ok (idx, w))
    (hcounts : ∀ c, o.counts = some c → (c.map (·.1)).Nodup ∧ ∀ v ∈ a.data, v ∈ c.map (·.1)) :
    ∃ es, idx = ⟨es, idx.common, a.shape⟩ ∧ BuiltFor a o.mapping idx.common (fun _ _ => True) es := by
  obtain ⟨es, hidx, hbuild⟩ := fromArray_inv a o idx w h
  refine ⟨es, hidx, ?_⟩
  rcases hbuild with ⟨_, hb⟩ | ⟨_, hb⟩
  · have hcn : ((countsOf a o).map (·.1)).Nodup ∧ ∀ v ∈ a.data, v ∈ (countsOf a o).map (·.1) := by
      unfold countsOf
      cases hc : o.counts with
      | some c => exact hcounts c hc
      | none =>
        obtain ⟨h1, h2⟩ := countValues_keys a.data
        exact ⟨h1.imp (fun h => Int.ne_of_lt h), fun v hv => (h2 v).mpr hv⟩
    have hb' := buildWhere_built a o.mapping idx.common _ hcn.1 es hb
    obtain ⟨hk, hl⟩ := hb'
    refine ⟨hk, fun k r' => ?_⟩
    rw [hl k r']
    constructor
    · rintro ⟨c, hc, hrr, _, rest⟩; exact ⟨c, hc, hrr, trivial, rest⟩
    · rintro ⟨c, hc, hrr, _, rest⟩
      refine ⟨c, hc, hrr, ?_, rest⟩
      obtain ⟨x, hx, hxv⟩ := List.mem_map.mp (hcn.2 _ (at_mem_data a harr r' c hrr hc))
      exact ⟨x, hx, hxv⟩
  · exact buildScan_built a o.mapping idx.common (cols_nodup a) es hb

/-- **array → index → array**: whatever options built the index and whichever strategy ran, `to_array()`
(any accepted dtype, no mapping on the way back) returns the (mapped) input, element for element and in shape -/
theorem roundtrip (a : Arr) (o : FromOpts) (idx : IIndex) (w : Bool) (harr : ArrOK a)
    (h : fromArray a o = .ok (idx, w))
    (hcounts : ∀ c, o.counts = some c → (c.map (·.1)).Nodup ∧ ∀ v ∈ a.data, v ∈ c.map (·.1))
    (dt : Option DT) (arr : Arr) (ht : toArray idx none dt = .ok arr) :
    arr.shape = a.shape ∧ ∀ r < a.nrows, ∀ col ∈ a.cols, ∀ mv,
      mapVal o.mapping (a.at r col) = .ok mv → arr.at r col = mv := by
  obtain ⟨es, hidx, hb⟩ := fromArray_built a o idx w harr h hcounts
  have hsc : Scatterable idx := by rw [hidx]; exact built_scatterable a harr _ _ es hb
  have hshape : idx.shape = a.shape := by rw [hidx]
  have hnd : idx.ndim ≤ 2 := by
    unfold IIndex.ndim; rw [hshape]; rcases harr.ndim with h | h <;> omega
  obtain ⟨hs, hd⟩ := scatter_dense idx hsc hnd _ arr ht
  refine ⟨hs.trans hshape, fun r hr col hcol mv hmv => ?_⟩
  have hdense : denseAt idx r ((a.key mv col).drop 1) = mv := by
    rw [hidx]; exact built_dense a o.mapping idx.common es hb a.shape r hr col hcol mv hmv
  have hhi : (a.key mv col).drop 1 ∈ hiCells (idx.shape.drop 1) := by
    rw [hshape]
    unfold Arr.key Arr.cols Arr.twoD at *
    rcases harr.ndim with h | h
    · match hs' : a.shape, h with
      | [n], _ => simp [hiCells]
    · match hs' : a.shape, h with
      | [n, k], _ =>
        rw [hs'] at hcol
        simp at hcol
        simp [hiCells]
        exact ⟨col, hcol, rfl⟩
  have := hd r (by unfold IIndex.nrows; rw [hshape]; exact hr) _ hhi
  rw [hdense] at this
  rw [← this]
  unfold Arr.at Arr.ncols ncolsOf colOf IIndex.ndim
  rw [hs, hshape]
  unfold Arr.key Arr.cols Arr.twoD at *
  rcases harr.ndim with h | h
  · have h1 : ¬ a.shape.length > 1 := by omega
    simp only [h1, decide_false, Bool.false_eq_true, if_false, List.mem_singleton] at hcol ⊢
    subst hcol
    simp
  · have h1 : a.shape.length > 1 := by omega
    simp [h1]

/-- the same with a value mapping on the way back: every cell holds `m2[mapped input]` -/
theorem roundtrip_mapped (a : Arr) (o : FromOpts) (idx : IIndex) (w : Bool) (harr : ArrOK a)
    (h : fromArray a o = .ok (idx, w))
    (hcounts : ∀ c, o.counts = some c → (c.map (·.1)).Nodup ∧ ∀ v ∈ a.data, v ∈ c.map (·.1))
    (m2 : List (Int × Int)) (hm2 : m2 ≠ []) (dt : Option DT) (arr : Arr) (ht : toArray idx (some m2) dt = .ok arr) :
    arr.shape = a.shape ∧ ∀ r < a.nrows, ∀ col ∈ a.cols, ∀ mv,
      mapVal o.mapping (a.at r col) = .ok mv → arr.at r col = (lookup m2 mv).getD 0 := by
  obtain ⟨es, hidx, hb⟩ := fromArray_built a o idx w harr h hcounts
  have hsc : Scatterable idx := by rw [hidx]; exact built_scatterable a harr _ _ es hb
  have hshape : idx.shape = a.shape := by rw [hidx]
  have hnd : idx.ndim ≤ 2 := by
    unfold IIndex.ndim; rw [hshape]; rcases harr.ndim with h | h <;> omega
  obtain ⟨hs, hd⟩ := toArray_mapped idx hsc hnd m2 hm2 dt arr ht
  refine ⟨hs.trans hshape, fun r hr col hcol mv hmv => ?_⟩
  have hdense : denseAt idx r ((a.key mv col).drop 1) = mv := by
    rw [hidx]; exact built_dense a o.mapping idx.common es hb a.shape r hr col hcol mv hmv
  have hhi : (a.key mv col).drop 1 ∈ hiCells (idx.shape.drop 1) := by
    rw [hshape]
    unfold Arr.key Arr.cols Arr.twoD at *
    rcases harr.ndim with h | h
    · match hs' : a.shape, h with
      | [n], _ => simp [hiCells]
    · match hs' : a.shape, h with
      | [n, k], _ =>
        rw [hs'] at hcol
        simp at hcol
        simp [hiCells]
        exact ⟨col, hcol, rfl⟩
  have := hd r (by unfold IIndex.nrows; rw [hshape]; exact hr) _ hhi
  rw [hdense] at this
  rw [← this]
  unfold Arr.at Arr.ncols ncolsOf colOf IIndex.ndim
  rw [hs, hshape]
  unfold Arr.key Arr.cols Arr.twoD at *
  rcases harr.ndim with h | h
  · have h1 : ¬ a.shape.length > 1 := by omega
    simp only [h1, decide_false, Bool.false_eq_true, if_false, List.mem_singleton] at hcol ⊢
    subst hcol
    simp
  · have h1 : a.shape.length > 1 := by omega
    simp [h1]

end Catii.IIdx
