import CatiiModel.Kernels
/-! Loop refinement: each index loop with checked accesses equals `pure` of the structural
merge — `pure` on the right-hand side is the "no out-of-bounds access" statement (C09);
no sortedness hypothesis is needed anywhere in this file. -/
set_option linter.unusedSimpArgs false
namespace Catii.Kern

theorem rd_ok (a : Array Nat) (i : Nat) (h : i < a.size) : rd a i = pure a[i] := by
  simp [rd, h]

theorem wr_ok (out : Array Nat) (cap v : Nat) (h : out.size < cap) :
    wr out cap v = pure (out.push v) := by
  simp [wr, h]

theorem toList_drop (A : Array Nat) (i : Nat) (h : i < A.size) :
    A.toList.drop i = A[i] :: A.toList.drop (i+1) := by
  have : i < A.toList.length := by simpa using h
  rw [List.drop_eq_getElem_cons this]; simp

theorem toList_drop_nil (A : Array Nat) (i : Nat) (h : i ≥ A.size) :
    A.toList.drop i = [] := by
  apply List.drop_eq_nil_of_le; simpa using h

theorem push_append (out : Array Nat) (x : Nat) (ys : List Nat) :
    out.push x ++ ys.toArray = out ++ (x :: ys).toArray := by
  apply Array.toList_inj.mp; simp

@[simp] theorem inter_nil_right (l : List Nat) : inter l [] = [] := by
  cases l <;> simp [inter]
@[simp] theorem uni_nil_right (l : List Nat) : uni l [] = l := by
  cases l <;> simp [uni]
@[simp] theorem dif_nil_right (l : List Nat) : dif l [] = l := by
  cases l <;> simp [dif]

theorem inter_length_le (l r : List Nat) : (inter l r).length ≤ min l.length r.length := by
  fun_induction inter l r <;> simp_all <;> omega
theorem uni_length_le (l r : List Nat) : (uni l r).length ≤ l.length + r.length := by
  fun_induction uni l r <;> simp_all <;> omega
theorem dif_length_le (l r : List Nat) : (dif l r).length ≤ l.length := by
  fun_induction dif l r <;> simp_all <;> omega

/-! ### intersect -/
theorem interLoop_refines (L R : Array Nat) (cap lp rp left right : Nat) (out : Array Nat)
    (hl : lp < L.size) (hr : rp < R.size) (hle : left = L[lp]) (hri : right = R[rp])
    (hcap : out.size + min (L.size - lp) (R.size - rp) ≤ cap) :
    interLoop L R cap lp rp left right out
      = pure (out ++ (inter (L.toList.drop lp) (R.toList.drop rp)).toArray) := by
  fun_induction interLoop L R cap lp rp left right out
  case case1 lp rp left right out _ hgt hge =>
    rw [toList_drop L lp hl, toList_drop R rp hr, toList_drop_nil R (rp+1) hge]
    subst hle hri
    simp [inter, hgt]
  case case2 lp rp left right out _ hgt hlt ih =>
    have hr' : rp + 1 < R.size := by omega
    rw [rd_ok R _ hr']
    simp only [pure_bind]
    rw [ih _ hl hr' hle rfl (by omega)]
    conv => rhs; rw [toList_drop L lp hl, toList_drop R rp hr]
    subst hle hri
    simp only [inter, hgt, if_true]
    rw [← toList_drop L lp hl]
  case case3 lp rp left right out _ hng hgt hge =>
    rw [toList_drop L lp hl, toList_drop R rp hr, toList_drop_nil L (lp+1) hge]
    subst hle hri
    simp [inter, hng, hgt]
  case case4 lp rp left right out _ hng hgt hlt ih =>
    have hl' : lp + 1 < L.size := by omega
    rw [rd_ok L _ hl']
    simp only [pure_bind]
    rw [ih _ hl' hr rfl hri (by omega)]
    conv => rhs; rw [toList_drop L lp hl, toList_drop R rp hr]
    subst hle hri
    simp only [inter, hng, hgt, if_true, if_false]
    rw [← toList_drop R rp hr]
  case case5 lp rp left right out _ hng hng2 ih =>
    -- equal: write, then one of three continuations
    have hw : out.size < cap := by omega
    rw [wr_ok _ _ _ hw]
    simp only [pure_bind]
    have heq : L[lp] = R[rp] := by subst hle hri; omega
    by_cases h1 : lp + 1 ≥ L.size
    · simp only [h1, if_true]
      rw [toList_drop L lp hl, toList_drop R rp hr, toList_drop_nil L (lp+1) h1]
      subst hle
      simp [inter, heq]
    · by_cases h2 : rp + 1 ≥ R.size
      · simp only [h1, h2, if_true, if_false]
        rw [toList_drop L lp hl, toList_drop R rp hr, toList_drop_nil R (rp+1) h2]
        subst hle
        simp [inter, heq]
      · simp only [h1, h2, if_false]
        have hl' : lp + 1 < L.size := by omega
        have hr' : rp + 1 < R.size := by omega
        rw [rd_ok L _ hl', rd_ok R _ hr']
        simp only [pure_bind]
        rw [ih _ h1 h2 _ _ hl' hr' rfl rfl (by simp; omega)]
        conv => rhs; rw [toList_drop L lp hl, toList_drop R rp hr]
        subst hle
        simp [inter, heq]
  case case6 => omega

/-! ### tail copy -/
theorem copyTail_refines (A : Array Nat) (cap p : Nat) (out : Array Nat)
    (hcap : out.size + (A.size - p) ≤ cap) :
    copyTail A cap p out = pure (out ++ (A.toList.drop p).toArray) := by
  fun_induction copyTail A cap p out
  case case1 p out hlt ih =>
    rw [rd_ok A _ hlt]
    simp only [pure_bind]
    rw [wr_ok _ _ _ (by omega)]
    simp only [pure_bind]
    rw [ih _ (by simp; omega), toList_drop A p hlt, push_append]
  case case2 p out hge =>
    rw [toList_drop_nil A p (by omega)]; simp

theorem unionFinish_refines (L R : Array Nat) (cap lp rp : Nat) (out : Array Nat)
    (hcap : out.size + (L.size - lp) + (R.size - rp) ≤ cap) :
    unionFinish L R cap lp rp out
      = pure (out ++ (L.toList.drop lp ++ R.toList.drop rp).toArray) := by
  unfold unionFinish
  rw [copyTail_refines L cap lp out (by omega)]
  simp only [pure_bind]
  rw [copyTail_refines R cap rp _ (by simp; omega)]
  congr 1
  apply Array.toList_inj.mp; simp

/-! ### union -/
theorem unionLoop_refines (L R : Array Nat) (cap lp rp left right : Nat) (out : Array Nat)
    (hl : lp < L.size) (hr : rp < R.size) (hle : left = L[lp]) (hri : right = R[rp])
    (hcap : out.size + (L.size - lp) + (R.size - rp) ≤ cap) :
    unionLoop L R cap lp rp left right out
      = pure (out ++ (uni (L.toList.drop lp) (R.toList.drop rp)).toArray) := by
  fun_induction unionLoop L R cap lp rp left right out
  case case1 lp rp left right out _ hgt ih =>
    rw [wr_ok _ _ _ (by omega)]
    simp only [pure_bind]
    by_cases h2 : rp + 1 ≥ R.size
    · simp only [h2, if_true]
      rw [unionFinish_refines _ _ _ _ _ _ (by simp; omega)]
      rw [toList_drop R rp hr, toList_drop_nil R (rp+1) h2]
      conv => rhs; rw [toList_drop L lp hl]
      subst hle hri
      simp [uni, hgt, push_append]
      rw [← toList_drop L lp hl]
    · simp only [h2, if_false]
      have hr' : rp + 1 < R.size := by omega
      rw [rd_ok R _ hr']
      simp only [pure_bind]
      rw [ih _ h2 _ hl hr' hle rfl (by simp; omega)]
      conv => rhs; rw [toList_drop L lp hl, toList_drop R rp hr]
      subst hle hri
      simp only [uni, hgt, if_true, push_append]
      rw [← toList_drop L lp hl]
  case case2 lp rp left right out _ hng hgt ih =>
    rw [wr_ok _ _ _ (by omega)]
    simp only [pure_bind]
    by_cases h1 : lp + 1 ≥ L.size
    · simp only [h1, if_true]
      rw [unionFinish_refines _ _ _ _ _ _ (by simp; omega)]
      rw [toList_drop L lp hl, toList_drop_nil L (lp+1) h1]
      conv => rhs; rw [toList_drop R rp hr]
      subst hle hri
      simp [uni, hng, hgt, push_append]
      rw [← toList_drop R rp hr]
    · simp only [h1, if_false]
      have hl' : lp + 1 < L.size := by omega
      rw [rd_ok L _ hl']
      simp only [pure_bind]
      rw [ih _ h1 _ hl' hr rfl hri (by simp; omega)]
      conv => rhs; rw [toList_drop L lp hl, toList_drop R rp hr]
      subst hle hri
      simp only [uni, hng, hgt, if_true, if_false, push_append]
      rw [← toList_drop R rp hr]
  case case3 lp rp left right out _ hng hng2 ih =>
    rw [wr_ok _ _ _ (by omega)]
    simp only [pure_bind]
    have heq : L[lp] = R[rp] := by subst hle hri; omega
    by_cases h1 : lp + 1 ≥ L.size
    · simp only [h1, if_true]
      rw [unionFinish_refines _ _ _ _ _ _ (by simp; omega)]
      rw [toList_drop L lp hl, toList_drop R rp hr, toList_drop_nil L (lp+1) h1]
      subst hle
      simp [uni, heq, push_append]
    · by_cases h2 : rp + 1 ≥ R.size
      · simp only [h1, h2, if_true, if_false]
        rw [unionFinish_refines _ _ _ _ _ _ (by simp; omega)]
        rw [toList_drop L lp hl, toList_drop R rp hr, toList_drop_nil R (rp+1) h2]
        subst hle
        simp [uni, heq, push_append]
      · simp only [h1, h2, if_false]
        have hl' : lp + 1 < L.size := by omega
        have hr' : rp + 1 < R.size := by omega
        rw [rd_ok L _ hl', rd_ok R _ hr']
        simp only [pure_bind]
        rw [ih _ h1 h2 _ _ hl' hr' rfl rfl (by simp; omega)]
        conv => rhs; rw [toList_drop L lp hl, toList_drop R rp hr]
        subst hle
        simp [uni, heq, push_append]
  case case4 => omega

/-! ### difference -/
theorem diffLoop_refines (L R : Array Nat) (cap lp rp left right : Nat) (out : Array Nat)
    (hl : lp < L.size) (hr : rp < R.size) (hle : left = L[lp]) (hri : right = R[rp])
    (hcap : out.size + (L.size - lp) ≤ cap) :
    diffLoop L R cap lp rp left right out
      = pure (out ++ (dif (L.toList.drop lp) (R.toList.drop rp)).toArray) := by
  fun_induction diffLoop L R cap lp rp left right out
  case case1 lp rp left right out _ hgt hge =>
    rw [copyTail_refines _ _ _ _ (by omega)]
    rw [toList_drop R rp hr, toList_drop_nil R (rp+1) hge]
    conv => rhs; rw [toList_drop L lp hl]
    subst hle hri
    simp [dif, hgt]
    rw [← toList_drop L lp hl]
  case case2 lp rp left right out _ hgt hlt ih =>
    have hr' : rp + 1 < R.size := by omega
    rw [rd_ok R _ hr']
    simp only [pure_bind]
    rw [ih _ hl hr' hle rfl (by omega)]
    conv => rhs; rw [toList_drop L lp hl, toList_drop R rp hr]
    subst hle hri
    simp only [dif, hgt, if_true]
    rw [← toList_drop L lp hl]
  case case3 lp rp left right out _ hng hgt ih =>
    rw [wr_ok _ _ _ (by omega)]
    simp only [pure_bind]
    by_cases h1 : lp + 1 ≥ L.size
    · simp only [h1, if_true]
      rw [copyTail_refines _ _ _ _ (by simp; omega)]
      rw [toList_drop L lp hl, toList_drop_nil L (lp+1) h1]
      conv => rhs; rw [toList_drop R rp hr]
      subst hle hri
      simp [dif, hng, hgt]
    · simp only [h1, if_false]
      have hl' : lp + 1 < L.size := by omega
      rw [rd_ok L _ hl']
      simp only [pure_bind]
      rw [ih _ h1 _ hl' hr rfl hri (by simp; omega)]
      conv => rhs; rw [toList_drop L lp hl, toList_drop R rp hr]
      subst hle hri
      simp only [dif, hng, hgt, if_true, if_false, push_append]
      rw [← toList_drop R rp hr]
  case case4 lp rp left right out _ hng hng2 hge =>
    have heq : L[lp] = R[rp] := by subst hle hri; omega
    rw [copyTail_refines _ _ _ _ (by omega)]
    rw [toList_drop L lp hl, toList_drop R rp hr, toList_drop_nil L (lp+1) hge]
    simp [dif, heq]
  case case5 lp rp left right out _ hng hng2 hlt hge =>
    have heq : L[lp] = R[rp] := by subst hle hri; omega
    rw [copyTail_refines _ _ _ _ (by omega)]
    conv => rhs; rw [toList_drop L lp hl, toList_drop R rp hr, toList_drop_nil R (rp+1) hge]
    simp [dif, heq]
  case case6 lp rp left right out _ hng hng2 hlt hlt2 ih =>
    have heq : L[lp] = R[rp] := by subst hle hri; omega
    have hl' : lp + 1 < L.size := by omega
    have hr' : rp + 1 < R.size := by omega
    rw [rd_ok L _ hl', rd_ok R _ hr']
    simp only [pure_bind]
    rw [ih _ _ hl' hr' rfl rfl (by omega)]
    conv => rhs; rw [toList_drop L lp hl, toList_drop R rp hr]
    simp [dif, heq]
  case case7 => omega

end Catii.Kern
