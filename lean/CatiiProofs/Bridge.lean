import CatiiProofs.IIndexShift
import CatiiProofs.CubeDense
import CatiiModel.Stack
/-! One-axis `iindex` ↔ cube dimension (`Cube.Dim`): same dense column, well-formedness carries over.
Core Lean only. -/
namespace Catii.IIdx
open Catii.Kern Catii.Cube

structure CubeDimOK (N : Nat) (i : IIndex) : Prop where
  wf : WF i
  oneAxis : i.shape = [N]
  nonneg : 0 ≤ i.common ∧ ∀ e ∈ i.entries, 0 ≤ val0 e.1

theorem drop_one_nil (i : IIndex) (h : CubeDimOK N i) (e : Key × Rows) (he : e ∈ i.entries) : e.1.drop 1 = [] := by
  have := h.wf.arity e he
  simp only [IIndex.ndim, h.oneAxis, List.length_cons, List.length_nil] at this
  apply List.drop_eq_nil_of_le; omega

theorem find?_congr' {α : Type} (l : List α) (p q : α → Bool) (h : ∀ x ∈ l, p x = q x) :
    l.find? p = l.find? q := by
  induction l with
  | nil => rfl
  | cons a as ih =>
    simp only [List.find?_cons, h a List.mem_cons_self]
    rw [ih (fun x hx => h x (List.mem_cons_of_mem _ hx))]

theorem dense_toDim (i : IIndex) (h : CubeDimOK N i) (r : Nat) :
    (dense (toDim i) r : Int) = denseAt i r [] := by
  unfold dense denseAt toDim
  simp only [List.find?_map]
  have hpred : ∀ e ∈ i.entries, ((fun e : Nat × Rows => e.2.contains r) ∘ fun e : Key × Rows => ((val0 e.1).toNat, e.2)) e
      = (e.1.drop 1 == [] && e.2.contains r) := by
    intro e he
    simp [Function.comp, drop_one_nil i h e he]
  rw [find?_congr' _ _ _ hpred]
  cases hf : i.entries.find? (fun e => e.1.drop 1 == [] && e.2.contains r) with
  | none => simp; have := h.nonneg.1; omega
  | some e =>
    have hm := List.mem_of_find?_eq_some hf
    simp; have := h.nonneg.2 e hm; omega

theorem dimOK_toDim (i : IIndex) (h : CubeDimOK N i) : DimOK N (toDim i) := by
  have hkey : ∀ e ∈ i.entries, e.1 = [val0 e.1] := by
    intro e he
    have hl : 0 < e.1.length := by rw [h.wf.arity e he]; exact h.wf.ndimPos
    have := key_eq e.1 hl
    rw [drop_one_nil i h e he] at this; exact this
  refine ⟨?_, ?_, ?_, ?_, ?_⟩
  · intro e he
    simp only [toDim, List.mem_map] at he
    obtain ⟨e0, he0, rfl⟩ := he
    exact h.wf.sorted e0 he0
  · simp only [toDim]
    rw [List.pairwise_map]
    apply h.wf.keys.imp_of_mem
    intro a b ha hb hne heq
    apply hne
    rw [hkey a ha, hkey b hb]
    have := Int.toNat_of_nonneg (h.nonneg.2 a ha)
    have := Int.toNat_of_nonneg (h.nonneg.2 b hb)
    simp only at heq
    congr 1; omega
  · intro e he
    simp only [toDim, List.mem_map] at he
    obtain ⟨e0, he0, rfl⟩ := he
    simp only [toDim]
    intro heq
    apply h.wf.noCommon e0 he0
    have := Int.toNat_of_nonneg (h.nonneg.2 e0 he0)
    have := Int.toNat_of_nonneg h.nonneg.1
    omega
  · intro e he r hr
    simp only [toDim, List.mem_map] at he
    obtain ⟨e0, he0, rfl⟩ := he
    have := h.wf.inRange e0 he0 r hr
    simpa [IIndex.nrows, h.oneAxis] using this
  · intro e1 he1 e2 he2 r hr1 hr2
    simp only [toDim, List.mem_map] at he1 he2
    obtain ⟨a, ha, rfl⟩ := he1
    obtain ⟨b, hb, rfl⟩ := he2
    have := h.wf.exclusive a ha b hb (by rw [drop_one_nil i h a ha, drop_one_nil i h b hb]) r hr1 hr2
    simp only; rw [this]

end Catii.IIdx

namespace Catii.IIdx
open Catii.Kern Catii.Cube

theorem cubeDimOK_shiftTo (i : IIndex) (h : CubeDimOK N i) (v : Int) (hv : 0 ≤ v) : CubeDimOK N (shiftTo i v) := by
  refine ⟨wf_shiftTo i h.wf v, h.oneAxis, hv, ?_⟩
  intro e he
  simp only [shiftTo, List.mem_filter, List.mem_append] at he
  rcases he.1 with h1 | h1
  · exact h.nonneg.2 e h1
  · obtain ⟨hi, _, _, rfl⟩ := (mem_commonEntries i e).mp h1
    exact h.nonneg.1

/-- re-encoding a cube dimension leaves its dense column unchanged -/
theorem dense_toDim_shiftTo (i : IIndex) (h : CubeDimOK N i) (v : Int) (hv : 0 ≤ v) (r : Nat) (hr : r < N) :
    dense (toDim (shiftTo i v)) r = dense (toDim i) r := by
  have h1 := dense_toDim (shiftTo i v) (cubeDimOK_shiftTo i h v hv) r
  have h2 := dense_toDim i h r
  have hnr : i.nrows = N := by simp [IIndex.nrows, h.oneAxis]
  have hd := dense_shiftTo i h.wf v r (by rw [hnr]; exact hr) [] (by simp [h.oneAxis, hiCells])
  rw [hd, ← h2] at h1
  exact_mod_cast h1

end Catii.IIdx
