import CatiiModel.Gen.SlicesGen
/-! `iindex.slices1d` as REGENERATED from the source (`tools/translate_slices.py`) yields what the model's `slices1d` yields. -/
namespace Catii.IIdx

theorem gen_slices1d_eq (fuel : Nat) : ∀ (i : IIndex) (base : List Int), Gen.slices1dGen fuel i base = slices1d fuel i base := by
  induction fuel with
  | zero => intro i base; rfl
  | succ fuel ih =>
    intro i base
    unfold Gen.slices1dGen slices1d
    by_cases h : i.shape.length > 1
    · simp only [h, if_true]
      congr 1; funext coord
      rw [ih]; rfl
    · simp only [h, if_false]

end Catii.IIdx
