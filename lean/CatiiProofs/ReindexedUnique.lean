import CatiiProofs.Reindexed
import Mathlib.Data.List.Nodup
/-! `reindexed(..., assume_unique=True)`: on a well-formed index the promise is always true (no row is listed twice
under one column), so the option changes nothing (C06/C07). -/
namespace Catii.IIdx
open Catii.Kern

/-- the row-id lists gathered under a new key are exactly those of the processed entries that move to it, in order -/
def GExact (m : List (Int × Int)) (processed : List (Key × Rows)) (G : List (Key × List Rows)) : Prop :=
  ∀ g ∈ G, g.2 = (processed.filter (fun e => reKey m e.1 == g.1)).map (·.2)

theorem filter_snoc_pos {α} (p : α → Bool) (l : List α) (e : α) (h : p e = true) :
    (l ++ [e]).filter p = l.filter p ++ [e] := by
  rw [List.filter_append]; simp [h]

theorem filter_snoc_neg {α} (p : α → Bool) (l : List α) (e : α) (h : ¬ p e = true) :
    (l ++ [e]).filter p = l.filter p := by
  rw [List.filter_append]; simp [h]

theorem gatherStep_exact (m : List (Int × Int)) (nc : Int) (pre : List (Key × Rows)) (acc : List (Key × List Rows) × Bool)
    (e : Key × Rows) (h : GInv m nc pre acc.1) (hx : GExact m pre acc.1) :
    GExact m (pre ++ [e]) (gatherStep m nc acc e).1 := by
  unfold gatherStep
  simp only
  by_cases hc : (val0 (reKey m e.1) == nc) = true
  · simp only [hc, if_true]
    have hc' : val0 (reKey m e.1) = nc := by simpa using hc
    intro g hg
    have hne : ¬ (reKey m e.1 == g.1) = true := by
      intro he
      have : reKey m e.1 = g.1 := by simpa using he
      exact (h.sound g hg).1 (by rw [← this]; exact hc')
    rw [filter_snoc_neg (fun e' : Key × Rows => reKey m e'.1 == g.1) pre e hne]
    exact hx g hg
  · simp only [hc, Bool.false_eq_true, if_false]
    have hc' : val0 (reKey m e.1) ≠ nc := by simpa using hc
    cases hf : acc.1.find? (fun g => g.1 == reKey m e.1) with
    | some g0 =>
      simp only
      intro g' hg'
      obtain ⟨g, hg, rfl⟩ := List.mem_map.mp hg'
      by_cases hgk : (g.1 == reKey m e.1) = true
      · simp only [hgk, if_true]
        have hpos : (reKey m e.1 == g.1) = true := by
          have : g.1 = reKey m e.1 := by simpa using hgk
          rw [this]; exact beq_self_eq_true _
        rw [filter_snoc_pos (fun e' : Key × Rows => reKey m e'.1 == g.1) pre e hpos, List.map_append, ← hx g hg]
        rfl
      · simp only [hgk, Bool.false_eq_true, if_false]
        have hneg : ¬ (reKey m e.1 == g.1) = true := by
          intro he
          apply hgk
          have : reKey m e.1 = g.1 := by simpa using he
          rw [this]; exact beq_self_eq_true _
        rw [filter_snoc_neg (fun e' : Key × Rows => reKey m e'.1 == g.1) pre e hneg]
        exact hx g hg
    | none =>
      simp only
      have hfresh : ∀ g ∈ acc.1, g.1 ≠ reKey m e.1 := by
        intro g hg
        have := List.find?_eq_none.mp hf g hg
        simpa using this
      intro g hg
      rcases List.mem_append.mp hg with hg | hg
      · have hneg : ¬ (reKey m e.1 == g.1) = true := by
          intro he
          have : reKey m e.1 = g.1 := by simpa using he
          exact hfresh g hg this.symm
        rw [filter_snoc_neg (fun e' : Key × Rows => reKey m e'.1 == g.1) pre e hneg]
        exact hx g hg
      · rw [List.mem_singleton] at hg
        subst hg
        have hnone : pre.filter (fun e' => reKey m e'.1 == reKey m e.1) = [] := by
          apply List.filter_eq_nil_iff.mpr
          intro e' he' heq
          have hk : reKey m e'.1 = reKey m e.1 := by simpa using heq
          obtain ⟨g, hg, hgk, _⟩ := h.complete e' he' (by rw [hk]; exact hc')
          exact hfresh g hg (hgk.trans hk)
        rw [filter_snoc_pos (fun e' : Key × Rows => reKey m e'.1 == reKey m e.1) pre e (beq_self_eq_true _), hnone]
        rfl

theorem gather_exact (m : List (Int × Int)) (nc : Int) (l pre : List (Key × Rows)) (acc : List (Key × List Rows) × Bool)
    (h : GInv m nc pre acc.1) (hx : GExact m pre acc.1) :
    GExact m (pre ++ l) (l.foldl (gatherStep m nc) acc).1 := by
  induction l generalizing pre acc with
  | nil => simpa using hx
  | cons e rest ih =>
    simp only [List.foldl_cons]
    have := ih (pre ++ [e]) (gatherStep m nc acc e) (gatherStep_inv m nc pre acc e h) (gatherStep_exact m nc pre acc e h hx)
    simpa [List.append_assoc] using this

theorem eraseDups_of_strict (l : List Nat) (hs : l.Pairwise (· < ·)) : l.eraseDups = l := by
  induction l with
  | nil => rfl
  | cons a as ih =>
    obtain ⟨ha, has⟩ := List.pairwise_cons.mp hs
    rw [List.eraseDups_cons]
    have : as.filter (fun b => !b == a) = as := by
      apply List.filter_eq_self.mpr
      intro b hb
      have := ha b hb
      simp only [Bool.not_eq_eq_eq_not, Bool.not_true, beq_eq_false_iff_ne, ne_eq]
      omega
    rw [this, ih has]

/-- sorting a list without repeats leaves nothing for the de-duplication to do -/
theorem sortDedup_irrelevant (ls : List Rows) (hn : ls.flatten.Nodup) : sortDedup ls true = sortDedup ls false := by
  unfold sortDedup
  simp only [if_true, Bool.false_eq_true, if_false]
  apply eraseDups_of_strict
  have hle := List.pairwise_mergeSort (le := fun a b : Nat => decide (a ≤ b))
    (fun a b c h1 h2 => by simp at *; omega) (fun a b => by simp; omega) ls.flatten
  have hnd : (ls.flatten.mergeSort).Nodup := (List.mergeSort_perm _ _).nodup_iff.mpr hn
  have := hle.and hnd
  apply this.imp
  intro a b hab
  obtain ⟨h1, h2⟩ := hab
  have h1' : a ≤ b := by simpa using h1
  omega

/-- the row-id lists of a well-formed index that move to one new key never share a row -/
theorem group_flatten_nodup (i : IIndex) (h : WF i) (m : List (Int × Int)) (k : Key) :
    ((i.entries.filter (fun e => reKey m e.1 == k)).map (·.2)).flatten.Nodup := by
  rw [List.nodup_flatten]
  constructor
  · intro l hl
    obtain ⟨e, he, rfl⟩ := List.mem_map.mp hl
    exact (h.sorted e (List.mem_filter.mp he).1).imp (fun hlt => Nat.ne_of_lt hlt)
  · rw [List.pairwise_map]
    apply List.Pairwise.imp_of_mem _ (h.keys.filter _)
    intro a b ha hb hab
    rw [List.mem_filter] at ha hb
    have hpa : 0 < a.1.length := by rw [h.arity a ha.1]; exact h.ndimPos
    have hpb : 0 < b.1.length := by rw [h.arity b hb.1]; exact h.ndimPos
    have hka : reKey m a.1 = k := by simpa using ha.2
    have hkb : reKey m b.1 = k := by simpa using hb.2
    have hdrop : a.1.drop 1 = b.1.drop 1 := by
      rw [← reKey_drop m a.1 hpa, ← reKey_drop m b.1 hpb, hka, hkb]
    intro r hra hrb
    have hv := h.exclusive a ha.1 b hb.1 hdrop r hra hrb
    apply hab
    rw [key_eq a.1 hpa, key_eq b.1 hpb, hv, hdrop]

/-- **`assume_unique=True` changes nothing on a well-formed index** -/
theorem reindexedPre_assume_unique (i : IIndex) (h : WF i) (m : List (Int × Int)) :
    reindexedPre i m true = reindexedPre i m false := by
  have hinv := gather_inv m (reVal m i.common) i.entries [] ([], false)
    ⟨List.Pairwise.nil, fun g hg => by simp at hg, fun e he => by simp at he⟩
  have hex := gather_exact m (reVal m i.common) i.entries [] ([], false)
    ⟨List.Pairwise.nil, fun g hg => by simp at hg, fun e he => by simp at he⟩ (fun g hg => by simp at hg)
  simp only [List.nil_append] at hinv hex
  unfold reindexedPre
  simp only
  congr 2
  apply List.map_congr_left
  intro g hg
  unfold mergeGroup
  match hg2 : g.2 with
  | [single] => rfl
  | [] => simp [sortDedup]
  | a :: b :: rest =>
    simp only [Bool.not_true, Bool.not_false]
    congr 1
    rw [← hg2]
    apply (sortDedup_irrelevant g.2 _).symm
    rw [hex g hg]
    exact group_flatten_nodup i h m g.1

theorem reindexed_assume_unique (i : IIndex) (h : WF i) (mapping : Option (List (Int × Int))) (shift : Bool) :
    reindexed i mapping shift true = reindexed i mapping shift false := by
  unfold reindexed
  rw [reindexedPre_assume_unique i h]

end Catii.IIdx
