import CatiiProofs.KernManyBounds
import CatiiProofs.KernMany
/-! The index loop of `set_union_merge_many` computes the list merge `unionManyL` (so C08's exactness theorem is about
what the checked loop returns).  Core Lean only. -/
namespace Catii.Kern

theorem unionManyL_none {ls : List (List Nat)} (h : minHead ls = none) : unionManyL ls = [] := by
  rw [unionManyL]
  split
  · rfl
  · rename_i m h'; rw [h] at h'; cases h'

theorem unionManyL_some {ls : List (List Nat)} {m : Nat} (h : minHead ls = some m) :
    unionManyL ls = m :: unionManyL (advance m ls) := by
  rw [unionManyL]
  split
  · rename_i h'; rw [h] at h'; cases h'
  · rename_i m' h'; rw [h] at h'; cases h'; rfl

/-- the unread part of one array -/
def seg (values : Array Nat) (p : Nat × Nat) : List Nat := (values.toList.drop p.1).take (p.2 - p.1)

theorem seg_exhausted (values : Array Nat) (p : Nat × Nat) (h : ¬ p.1 < p.2) : seg values p = [] := by
  unfold seg
  have : p.2 - p.1 = 0 := by omega
  rw [this]; simp

theorem seg_live (values : Array Nat) (p : Nat × Nat) (h : p.1 < p.2) (hlt : p.1 < values.size) :
    seg values p = values[p.1] :: seg values (p.1 + 1, p.2) := by
  unfold seg
  have h1 : p.2 - p.1 = (p.2 - (p.1 + 1)) + 1 := by omega
  have hl : p.1 < values.toList.length := by simpa using hlt
  rw [h1, List.drop_eq_getElem_cons hl, List.take_succ_cons]
  simp

/-- minimum of two optional values -/
def omin : Option Nat → Option Nat → Option Nat
  | none, x => x
  | some a, none => some a
  | some a, some b => some (min a b)

theorem omin_assoc (a b c : Option Nat) : omin (omin a b) c = omin a (omin b c) := by
  cases a <;> cases b <;> cases c <;> simp [omin, Nat.min_assoc]

theorem scanNext_eq (st : Option Nat) (v : Nat) : scanNext st v = omin st (some v) := by
  cases st with
  | none => rfl
  | some m =>
    simp only [scanNext, omin]
    by_cases h : v < m
    · rw [if_pos h]; congr 1; omega
    · rw [if_neg h]; congr 1; omega

theorem minHead_cons_nil (ls : List (List Nat)) : minHead ([] :: ls) = minHead ls := rfl

theorem minHead_cons_cons (a : Nat) (t : List Nat) (ls : List (List Nat)) :
    minHead ((a :: t) :: ls) = omin (some a) (minHead ls) := by
  simp only [minHead]
  cases minHead ls with
  | none => rfl
  | some b =>
    simp only [omin]
    by_cases h : b < a
    · rw [if_pos h]; congr 1; omega
    · rw [if_neg h]; congr 1; omega

/-- the scan computes the minimum of the heads -/
theorem scan_refines (values : Array Nat) (ps : List (Nat × Nat)) (st : Option Nat) (h : PS values ps) :
    ps.foldlM (manyScanStep values) st = .ok (omin st (minHead (ps.map (seg values)))) := by
  induction ps generalizing st with
  | nil => simp only [List.foldlM_nil, List.map_nil, minHead]; cases st <;> rfl
  | cons p rest ih =>
    have hp := h p List.mem_cons_self
    have hrest : PS values rest := fun q hq => h q (List.mem_cons_of_mem _ hq)
    rw [List.foldlM_cons, List.map_cons]
    by_cases hx : p.1 ≥ p.2
    · rw [scanStep_exhausted values st p hx, seg_exhausted values p (by omega), minHead_cons_nil]
      simp only [bind, Except.bind]
      exact ih st hrest
    · have hlt : p.1 < values.size := by omega
      rw [scanStep_live values st p hx hlt, seg_live values p (by omega) hlt, minHead_cons_cons]
      simp only [bind, Except.bind]
      rw [ih _ hrest, scanNext_eq, omin_assoc]

/-- advancing the pointers is advancing the lists -/
theorem adv_refines (values : Array Nat) (mv : Nat) (ps : List (Nat × Nat)) (h : PS values ps) :
    ∃ ps', ps.mapM (manyAdvStep values mv) = .ok ps' ∧ ps'.map (seg values) = advance mv (ps.map (seg values)) := by
  induction ps with
  | nil => exact ⟨[], rfl, rfl⟩
  | cons p rest ih =>
    have hp := h p List.mem_cons_self
    have hrest : PS values rest := fun q hq => h q (List.mem_cons_of_mem _ hq)
    obtain ⟨rest', h1, h2⟩ := ih hrest
    rw [List.mapM_cons]
    by_cases hx : p.1 < p.2
    · have hlt : p.1 < values.size := by omega
      rw [advStep_live values mv p hx hlt]
      simp only [pure, Except.pure, bind, Except.bind, h1]
      refine ⟨_, rfl, ?_⟩
      simp only [List.map_cons, advance] at h2 ⊢
      rw [h2, seg_live values p hx hlt]
      congr 1
      by_cases hv : (values[p.1] == mv) = true
      · rw [if_pos hv]
        have : values[p.1] = mv := beq_iff_eq.mp hv
        simp [adv1, this]
      · rw [if_neg hv]
        have : ¬ values[p.1] = mv := fun e => hv (beq_iff_eq.mpr e)
        rw [seg_live values p hx hlt]
        simp [adv1, this]
    · rw [advStep_exhausted values mv p hx]
      simp only [pure, Except.pure, bind, Except.bind, h1]
      refine ⟨_, rfl, ?_⟩
      simp only [List.map_cons, advance] at h2 ⊢
      rw [h2, seg_exhausted values p hx]
      rfl

/-- the whole loop appends the list merge of the unread parts to what was already written -/
theorem manyLoop_refines (values : Array Nat) (cap : Nat) (fuel : Nat) (ps : List (Nat × Nat)) (out o : Array Nat)
    (h : PS values ps) (ho : manyLoop values cap fuel ps out = .ok o) :
    o.toList = out.toList ++ unionManyL (ps.map (seg values)) := by
  induction fuel generalizing ps out with
  | zero => unfold manyLoop at ho; cases ho
  | succ fuel ih =>
    unfold manyLoop at ho
    rw [scan_refines values ps none h] at ho
    simp only [bind, Except.bind, omin] at ho
    cases hm : minHead (ps.map (seg values)) with
    | none =>
      rw [hm] at ho
      simp only [pure, Except.pure, Except.ok.injEq] at ho
      subst ho
      rw [unionManyL_none hm]; simp
    | some mv =>
      rw [hm] at ho
      simp only at ho
      cases hw : wr out cap mv with
      | error e => rw [hw] at ho; cases ho
      | ok out1 =>
        rw [hw] at ho
        simp only at ho
        have hout1 : out1 = out.push mv := by
          unfold wr at hw
          split at hw
          · simp only [pure, Except.pure, Except.ok.injEq] at hw; exact hw.symm
          · cases hw
        obtain ⟨ps', a1, a2⟩ := adv_refines values mv ps h
        obtain ⟨ps'', b1, b2, _, _⟩ := adv_ok values mv ps h
        rw [a1] at b1; cases b1
        rw [a1] at ho
        simp only at ho
        rw [ih ps' out1 b2 ho, a2, unionManyL_some hm, hout1]
        simp

/-- **the checked index loop returns exactly what the list-level model returns** -/
theorem unionManyChecked_eq (arrays : List (Array Nat)) : unionManyChecked arrays = unionManyK arrays := by
  obtain ⟨o, ho, _⟩ := unionManyChecked_ok arrays
  rw [ho]
  unfold unionManyChecked at ho
  unfold unionManyK
  simp only at ho ⊢
  generalize (arrays.map Array.toList).filter (· ≠ []) = vas at ho ⊢
  split at ho
  · rename_i hv
    simp only [pure, Except.pure, Except.ok.injEq] at ho
    subst ho; subst hv
    simp only [pure, Except.pure, Except.ok.injEq]
    rw [unionManyL_none (by rfl)]
  · obtain ⟨s1, _⟩ := segments_ok 0 (vas.map List.length)
    have hsz : vas.flatten.toArray.size = (vas.map List.length).sum := by simp [List.length_flatten]
    have hps : PS vas.flatten.toArray (segments 0 (vas.map List.length)) := by
      intro p hp; have := s1 p hp; rw [hsz]; omega
    have href := manyLoop_refines _ _ _ _ _ o hps ho
    have hseg : ∀ (start : Nat) (pre : List Nat) (ls : List (List Nat)), pre.length = start →
        (segments start (ls.map List.length)).map (seg (pre ++ ls.flatten).toArray) = ls := by
      intro start pre ls
      induction ls generalizing start pre with
      | nil => intro _; rfl
      | cons l rest ih =>
        intro hpre
        simp only [List.map_cons, segments, List.flatten_cons]
        congr 1
        · unfold seg
          simp only [List.toList_toArray, Nat.add_sub_cancel_left]
          rw [← hpre, List.drop_left']
          · simp
          · rfl
        · have := ih (start + l.length) (pre ++ l) (by simp [hpre])
          simpa [List.append_assoc] using this
    have := hseg 0 [] vas rfl
    simp only [List.nil_append] at this
    rw [this] at href
    simp only [pure, Except.pure, Except.ok.injEq]
    apply Array.ext'
    simpa using href

end Catii.Kern
