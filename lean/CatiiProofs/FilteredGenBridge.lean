import CatiiModel.Gen.FilteredGen
import CatiiProofs.Filtered
/-! `iindex.filtered` up to its final `shift_common()` as REGENERATED from the source (`tools/translate_filtered.py`) is the
model's `filteredPre`, for every index, mask and length. -/
namespace Catii.IIdx

theorem boolIndex_map {α : Type} (l : List α) (f : α → Bool) : boolIndex l (l.map f) = l.filter f := by
  induction l with
  | nil => rfl
  | cons a l ih =>
    simp only [List.map_cons, boolIndex, List.filter_cons]
    by_cases h : f a = true
    · simp only [h, if_true, ih]
    · have h' : f a = false := by simpa using h
      simp only [h', Bool.false_eq_true, if_false, ih]

theorem any_id_map {α : Type} (l : List α) (f : α → Bool) : (l.map f).any id = !(l.filter f).isEmpty := by
  induction l with
  | nil => rfl
  | cons a l ih =>
    simp only [List.map_cons, List.any_cons, List.filter_cons, id]
    by_cases h : f a = true
    · simp [h]
    · have h' : f a = false := by simpa using h
      simp only [h', Bool.false_or, Bool.false_eq_true, if_false, ih]

theorem getD_lt_of_true (mask : List Bool) (r : Nat) (h : mask.getD r false = true) : r < mask.length := by
  by_cases hr : r < mask.length
  · exact hr
  · have : mask.getD r false = false := by
      simp only [List.getD_eq_getElem?_getD]
      rw [List.getElem?_eq_none (by omega)]
      rfl
    rw [this] at h; exact absurd h (by decide)

theorem maskedArange_getD (mask : List Bool) (r : Nat) (h : r < mask.length) : (maskedArange mask).getD r 0 = rankIn mask r := by
  unfold maskedArange
  simp only [List.getD_eq_getElem?_getD]
  rw [List.getElem?_map, List.getElem?_range h]
  rfl

/-- the renumbered kept rows of one entry -/
theorem kept_rows_eq (mask : List Bool) (rows : Rows) :
    (boolIndex rows (rows.map fun r => mask.getD r false)).map (fun r => (maskedArange mask).getD r 0) = filterRows mask rows := by
  unfold filterRows
  rw [boolIndex_map]
  apply List.map_congr_left
  intro r hr
  have := (List.mem_filter.mp hr).2
  exact maskedArange_getD mask r (getD_lt_of_true mask r this)

theorem gen_filteredPre_eq (i : IIndex) (mask : List Bool) (n : Nat) : Gen.filteredPreGen i mask n = filteredPre i mask n := by
  unfold Gen.filteredPreGen filteredPre
  dsimp only
  rw [IIndex.mk.injEq]
  refine ⟨?_, rfl, rfl⟩
  refine congrArg (fun f => List.foldl f [] i.entries) ?_
  funext es x
  obtain ⟨k, rows⟩ := x
  show (if ((rows.map fun r => mask.getD r false).any id) = true then _ else es) = _
  rw [any_id_map, kept_rows_eq]
  unfold filterRows
  cases hf : rows.filter (fun r => mask.getD r false) with
  | nil => simp
  | cons a l => simp

/-- within the operation's precondition (a mask as long as the index, `new_length` = the number of kept rows) the regenerated
construction followed by the library-chosen re-encoding IS the modelled `filtered` -/
theorem filtered_of_gen {i : IIndex} {mask : List Bool} {n' : Nat} (ok : FilterOK i mask n') (res : IIndex)
    (hr : shiftCommon (Gen.filteredPreGen i mask n') none = .ok res) : filtered i mask n' = .ok res := by
  unfold filtered
  have h1 : ¬ (mask.filter id).length ≠ n' := by rw [ok.hn]; simp
  have h2 : (i.entries.any fun e => e.2.any fun r => r ≥ mask.length) = false := by
    rw [List.any_eq_false]
    intro e he
    rw [Bool.not_eq_true, List.any_eq_false]
    intro r hr
    have := ok.wi.inRange e he r hr
    simp only [decide_eq_true_eq]
    rw [ok.hlen]; omega
  simp only [h1, h2, if_false, Bool.false_eq_true, bind, Except.bind, pure, Except.pure]
  rw [← gen_filteredPre_eq]
  exact hr

end Catii.IIdx
