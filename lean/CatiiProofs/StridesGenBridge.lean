import CatiiModel.Gen.StridesGen
import CatiiProofs.AggProofs
/-!
# The strides REGENERATED from `xcube._set_strides` / `strided_dims` are the mixed-radix strides, and never wrap

`StridesGen.multipliers`, `maxmult`, `mintypeBits`, `stridedValue` are rewritten from the current `src/catii/xcubes.py` by
`tools/translate_strides.py`.  Here: the multipliers are `Agg.strides` (the stride of a dimension is the product of the LATER
extents), `maxmult` is the number of cells, and whenever a dtype is chosen every coordinate survives the cast to it and the
strided sum is the flat index of the cell, below `2^bits`.
-/
namespace Catii.Agg
open Catii.StridesGen

def prodL (l : List ℕ) : ℕ := l.foldl (· * ·) 1

theorem prodL_cons (a : ℕ) (l : List ℕ) : prodL (a :: l) = a * prodL l := by
  unfold prodL; simp only [List.foldl_cons]; rw [foldl_mul_eq l (1 * a)]; ring

theorem prodL_append_single (l : List ℕ) (x : ℕ) : prodL (l ++ [x]) = prodL l * x := by
  unfold prodL; simp [List.foldl_append]

theorem prodL_reverse (l : List ℕ) : prodL l.reverse = prodL l := by
  induction l with
  | nil => rfl
  | cons a l ih => rw [List.reverse_cons, prodL_append_single, ih, prodL_cons]; ring

theorem cumprodFrom_append_single (acc : ℕ) (l : List ℕ) (x : ℕ) :
    cumprodFrom acc (l ++ [x]) = cumprodFrom acc l ++ [acc * prodL l * x] := by
  induction l generalizing acc with
  | nil => simp [cumprodFrom, prodL]
  | cons a l ih =>
    simp only [List.cons_append, cumprodFrom, ih (acc * a), prodL_cons]
    congr 2; ring_nf

/-- `(cumprod es.reverse).reverse ++ [1]` lists the product of every suffix of `es`, longest first -/
theorem suffix_products (es : List ℕ) :
    (cumprod es.reverse).reverse ++ [1] = prodL es :: strides es := by
  induction es with
  | nil => simp [cumprod, cumprodFrom, prodL, strides]
  | cons e es ih =>
    unfold cumprod at ih ⊢
    rw [List.reverse_cons, cumprodFrom_append_single, List.reverse_append, List.reverse_singleton, List.singleton_append,
      List.cons_append, ih, prodL_reverse]
    simp only [strides, prodL_cons, one_mul]
    congr 1
    ring

/-- the regenerated multipliers are the mixed-radix strides -/
theorem gen_multipliers_eq (shape : List ℕ) (hne : shape ≠ []) : multipliers shape = strides shape := by
  cases shape with
  | nil => exact absurd rfl hne
  | cons e es =>
    unfold multipliers cumprod
    rw [List.reverse_cons, cumprodFrom_append_single, List.reverse_append, List.reverse_singleton, List.singleton_append,
      List.drop_succ_cons, List.drop_zero]
    have := suffix_products es
    unfold cumprod at this
    rw [this]; rfl

/-- the regenerated `maxmult` is the number of cells -/
theorem gen_maxmult_eq (shape : List ℕ) : maxmult shape = prodL shape := by
  cases shape with
  | nil => simp [maxmult, cumprod, cumprodFrom, prodL]
  | cons e es =>
    unfold maxmult cumprod
    rw [List.reverse_cons, cumprodFrom_append_single]
    simp only [List.length_append, List.length_singleton, ne_eq, Nat.add_eq_zero_iff, one_ne_zero, and_false,
      not_false_eq_true, if_true, List.getLastD_eq_getLast?, List.getLast?_append, List.getLast?_singleton,
      Option.some_or, Option.getD_some]
    rw [prodL_reverse, prodL_cons]; ring

theorem le_prodL (l : List ℕ) (hpos : ∀ x ∈ l, 0 < x) : ∀ x ∈ l, x ≤ prodL l := by
  induction l with
  | nil => intro x hx; simp at hx
  | cons a l ih =>
    intro x hx
    rw [prodL_cons]
    have hp : 0 < prodL l := by
      clear ih hx
      induction l with
      | nil => simp [prodL]
      | cons b l ih2 =>
        rw [prodL_cons]
        exact Nat.mul_pos (hpos b (by simp)) (ih2 (fun y hy => hpos y (by
          rcases List.mem_cons.mp hy with rfl | h
          · simp
          · simp [h])))
    rcases List.mem_cons.mp hx with rfl | hx'
    · exact Nat.le_mul_of_pos_right _ hp
    · have := ih (fun y hy => hpos y (List.mem_cons_of_mem _ hy)) x hx'
      exact le_trans this (Nat.le_mul_of_pos_left _ (hpos a (by simp)))

/-- the flat bin computed the way `strided_dims` + `reduce(add)` do: cast each coordinate to the chosen dtype, multiply -/
def stridedSum (bits : ℕ) (shape c : List ℕ) : ℕ :=
  ((multipliers shape).zip c).foldl (fun acc (p : ℕ × ℕ) => acc + stridedValue bits p.1 p.2) 0

theorem mintypeBits_bound (shape : List ℕ) (bits : ℕ) (h : mintypeBits shape = some bits) : maxmult shape < 2 ^ bits := by
  unfold mintypeBits at h
  -- whatever candidate dtypes the ladder lists, in whatever order: each rung accepts only what its dtype holds
  repeat (split at h; · cases h; omega)
  cases h

/-- **no wrap-around**: whenever `_set_strides` settles on a dtype, every in-range coordinate survives the cast to it, the
strided sum is exactly the mixed-radix flat index of the cell, and that index fits the dtype too -/
theorem gen_strides_never_wrap (shape c : List ℕ) (bits : ℕ) (hne : shape ≠ []) (hb : mintypeBits shape = some bits)
    (hl : c.length = shape.length) (hr : ∀ a < shape.length, c.getD a 0 < shape.getD a 0) :
    (∀ a < shape.length, c.getD a 0 < 2 ^ bits) ∧ stridedSum bits shape c = flatIndex shape c ∧
      flatIndex shape c < 2 ^ bits := by
  have hmax := mintypeBits_bound shape bits hb
  rw [gen_maxmult_eq] at hmax
  have hpos : ∀ x ∈ shape, 0 < x := by
    intro x hx
    obtain ⟨a, ha, rfl⟩ := List.getElem_of_mem hx
    have := hr a ha
    simp only [List.getD_eq_getElem?_getD, List.getElem?_eq_getElem ha, Option.getD_some] at this
    omega
  have hsmall : ∀ a < shape.length, c.getD a 0 < 2 ^ bits := by
    intro a ha
    have h1 := hr a ha
    have h2 : shape.getD a 0 ≤ prodL shape := by
      simp only [List.getD_eq_getElem?_getD, List.getElem?_eq_getElem ha, Option.getD_some]
      exact le_prodL shape hpos _ (List.getElem_mem ha)
    omega
  refine ⟨hsmall, ?_, ?_⟩
  · unfold stridedSum flatIndex
    rw [gen_multipliers_eq shape hne]
    -- the two folds agree term by term because every zipped coordinate is below 2^bits
    have hmem : ∀ p ∈ (strides shape).zip c, p.2 < 2 ^ bits := by
      intro p hp
      obtain ⟨i, hi, rfl⟩ := List.getElem_of_mem hp
      simp only [List.length_zip] at hi
      have hic : i < c.length := by omega
      have := hsmall i (by omega)
      simp only [List.getD_eq_getElem?_getD, List.getElem?_eq_getElem hic, Option.getD_some] at this
      simpa using this
    generalize (strides shape).zip c = zs at hmem
    generalize (0 : ℕ) = acc
    induction zs generalizing acc with
    | nil => rfl
    | cons z zs ih =>
      simp only [List.foldl_cons]
      have hz := hmem z (by simp)
      have : stridedValue bits z.1 z.2 = z.1 * z.2 := by
        unfold stridedValue
        rw [Nat.mod_eq_of_lt hz]
        by_cases h1 : z.1 = 1 <;> simp [h1, Nat.mul_comm]
      rw [this]
      exact ih (fun p hp => hmem p (List.mem_cons_of_mem _ hp)) _
  · rw [flatIndex_eq_flat shape c hl]
    rcases flat_lt shape c hl hr with h | h
    · unfold prodL at hmax; omega
    · exact absurd h hne

end Catii.Agg
