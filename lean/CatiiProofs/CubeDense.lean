import CatiiProofs.Walk
/-! Well-formed one-axis dimensions: `rowsOf` (what the walk sees) versus `dense` (the
specification side). Core Lean only. -/
namespace Catii.Cube
open Catii.Kern

/-- the well-formedness of C07 for a one-axis dimension over `N` rows -/
structure DimOK (N : Nat) (d : Dim) : Prop where
  sorted : ∀ e ∈ d.entries, SSorted e.2
  keys : d.entries.Pairwise (fun a b => a.1 ≠ b.1)
  noCommon : ∀ e ∈ d.entries, e.1 ≠ d.common
  inRange : ∀ e ∈ d.entries, ∀ r ∈ e.2, r < N
  exclusive : ∀ e₁ ∈ d.entries, ∀ e₂ ∈ d.entries, ∀ r, r ∈ e₁.2 → r ∈ e₂.2 → e₁.1 = e₂.1

theorem DimOK.wf {N : Nat} {d : Dim} (h : DimOK N d) : DimWF d := ⟨h.sorted, h.keys⟩

theorem dense_of_mem {N : Nat} {d : Dim} (h : DimOK N d) (e : Nat × Rows) (he : e ∈ d.entries)
    (r : Nat) (hr : r ∈ e.2) : dense d r = e.1 := by
  unfold dense
  cases hf : d.entries.find? (fun e => e.2.contains r) with
  | none =>
    have := List.find?_eq_none.mp hf e he
    simp [hr] at this
  | some e' =>
    have hm := List.mem_of_find?_eq_some hf
    have hp := List.find?_some hf
    simp at hp
    exact h.exclusive e' hm e he r hp hr

theorem dense_cases (d : Dim) (r : Nat) :
    dense d r = d.common ∨ ∃ e ∈ d.entries, r ∈ e.2 ∧ dense d r = e.1 := by
  unfold dense
  cases hf : d.entries.find? (fun e => e.2.contains r) with
  | none => exact Or.inl rfl
  | some e' =>
    have hm := List.mem_of_find?_eq_some hf
    have hp := List.find?_some hf
    simp at hp
    exact Or.inr ⟨e', hm, hp, rfl⟩

/-- for a category other than the common one: listed under it ⇔ the row has that category -/
theorem mem_rowsOf_iff {N : Nat} {d : Dim} (h : DimOK N d) (c r : Nat) (hc : c ≠ d.common) :
    r ∈ rowsOf d c ↔ dense d r = c := by
  constructor
  · intro hr
    obtain ⟨e, he, hk, heq⟩ := rowsOf_entry d c r hr
    rw [← heq] at hr
    rw [dense_of_mem h e he r hr, hk]
  · intro hd
    rcases dense_cases d r with hcm | ⟨e, he, hr, hk⟩
    · rw [hcm] at hd; exact absurd hd.symm hc
    · rw [hk] at hd
      rw [← hd, rowsOf_mem d h.wf e he]; exact hr

theorem mem_rowsOf_lt {N : Nat} {d : Dim} (h : DimOK N d) (c r : Nat) (hr : r ∈ rowsOf d c) : r < N := by
  obtain ⟨e, he, _, heq⟩ := rowsOf_entry d c r hr
  rw [← heq] at hr
  exact h.inRange e he r hr

theorem rowsOf_common {N : Nat} {d : Dim} (h : DimOK N d) : rowsOf d d.common = [] := by
  cases hr : rowsOf d d.common with
  | nil => rfl
  | cons r rs =>
    have hm : r ∈ rowsOf d d.common := by rw [hr]; exact List.mem_cons_self
    obtain ⟨e, he, hk, _⟩ := rowsOf_entry d d.common r hm
    exact absurd hk (h.noCommon e he)

/-- every category of a row is a listed key or the common one, hence below any extent above those -/
theorem dense_lt {d : Dim} (ext : Nat) (hk : ∀ e ∈ d.entries, e.1 < ext) (hc : d.common < ext) (r : Nat) :
    dense d r < ext := by
  rcases dense_cases d r with h | ⟨e, he, _, h⟩
  · rw [h]; exact hc
  · rw [h]; exact hk e he

theorem inferExtent_gt (d : Dim) : (∀ e ∈ d.entries, e.1 < inferExtent d) ∧ d.common < inferExtent d := by
  unfold inferExtent
  have key : ∀ (xs : List Nat) (i : Nat), i ≤ xs.foldl max i ∧ ∀ x ∈ xs, x ≤ xs.foldl max i := by
    intro xs
    induction xs with
    | nil => intro i; simp
    | cons a as ih =>
      intro i
      simp only [List.foldl_cons]
      obtain ⟨h1, h2⟩ := ih (max i a)
      refine ⟨by omega, fun x hx => ?_⟩
      rcases List.mem_cons.mp hx with rfl | hx
      · omega
      · exact h2 x hx
  obtain ⟨h1, h2⟩ := key (d.entries.map (·.1)) d.common
  refine ⟨fun e he => ?_, by omega⟩
  have := h2 e.1 (List.mem_map.mpr ⟨e, he, rfl⟩)
  omega

end Catii.Cube
