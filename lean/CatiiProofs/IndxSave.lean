import CatiiProofs.Indx
/-! The writer: exactly when it succeeds, and what it writes. -/
namespace Catii.Indx

/-- the inputs `IndxIO.save` accepts (uint32 row ids): the quantifier of C10/C11 -/
structure InScope (es : List Entry) (common : Nat) : Prop where
  count : es.length < 2^32
  uniform : ∀ e ∈ es, e.coords.length = arityOf es
  arity_pos : es ≠ [] → 0 < arityOf es
  arity_le : arityOf es ≤ 255
  common_lt : common < 2^63
  coords_lt : ∀ e ∈ es, ∀ x ∈ e.coords, x < 2^63
  len_lt : ∀ e ∈ es, e.rowids.length < 2^32
  ids_lt : ∀ e ∈ es, ∀ x ∈ e.rowids, x < 2^32
  size_lt : bufferSize es.length (arityOf es) (indexWordSize es common) 4
              (es.map (·.rowids.length)).sum < 2^64

theorem magic_length : Gen.indxMagic.length = 4 := by decide
theorem version_length : Gen.indxVersion.length = 4 := by decide

theorem save_of_scope (es : List Entry) (c : Nat) (h : InScope es c) :
    save es c = .ok (encodeWith es c (indexWordSize es c) 4) := by
  have hpl := payload_length es c (arityOf es) (indexWordSize es c) 4 h.uniform
  unfold save
  simp only [encodeWith, bind, Except.bind, pure, Except.pure, throw, throwThe, MonadExceptOf.throw,
    Bool.false_eq_true, if_false]
  have g1 : ¬ es.length > 2^32 := by have := h.count; omega
  have g2 : ¬ (es.any fun e => e.coords.length != arityOf es) = true := by
    simp only [List.any_eq_true, not_exists, not_and]
    intro e he; simp [h.uniform e he]
  have g3 : ¬ (es ≠ [] ∧ arityOf es = 0) := by
    rintro ⟨h1, h2⟩; have := h.arity_pos h1; omega
  have g4 : ¬ (c ≥ 2^63 ∨ (es.any fun e => e.coords.any fun x => decide (x ≥ 2^63)) = true) := by
    rintro (h1 | h1)
    · have := h.common_lt; omega
    · simp only [List.any_eq_true, decide_eq_true_eq] at h1
      obtain ⟨e, he, x, hx, hge⟩ := h1
      have := h.coords_lt e he x hx; omega
  have g5 : ¬ (es.any fun e => decide (e.rowids.length ≥ 256^4)) = true := by
    simp only [List.any_eq_true, decide_eq_true_eq, not_exists, not_and]
    intro e he; have := h.len_lt e he; omega
  have g6 : ¬ (es.any fun e => e.rowids.any fun x => decide (x ≥ 256^4)) = true := by
    simp only [List.any_eq_true, decide_eq_true_eq, not_exists, not_and]
    intro e he x hx; have := h.ids_lt e he x hx; omega
  have g7 : ¬ arityOf es > 255 := by have := h.arity_le; omega
  have g8 : ¬ es.length ≥ 2^32 := by have := h.count; omega
  have g9 : ¬ bufferSize es.length (arityOf es) (indexWordSize es c) 4
      (List.map (fun x => x.rowids.length) es).sum ≥ 2^64 := by have := h.size_lt; omega
  rw [if_neg g1, if_neg g2, if_neg g3, if_neg g4, if_neg g5, if_neg g6, if_neg g7, if_neg g8, if_neg g9]
  rw [hpl]
  have glen : ¬ (Gen.indxMagic ++ Gen.indxVersion ++ encLE 8 (bufferSize es.length (arityOf es) (indexWordSize es c) 4
        (List.map (fun x => x.rowids.length) es).sum) ++ payload es c (arityOf es) (indexWordSize es c) 4).length
      ≠ 16 + bufferSize es.length (arityOf es) (indexWordSize es c) 4 (List.map (fun x => x.rowids.length) es).sum := by
    simp only [List.length_append, encLE_length, magic_length, version_length, hpl]; omega
  rw [if_neg glen]

theorem scope_of_save (es : List Entry) (c : Nat) (b : Bytes) (h : save es c = .ok b) :
    InScope es c ∧ b = encodeWith es c (indexWordSize es c) 4 := by
  unfold save at h
  simp only [bind, Except.bind, pure, Except.pure, throw, throwThe, MonadExceptOf.throw,
    Bool.false_eq_true, if_false] at h
  repeat (split at h; · cases h)
  rename_i g1 g2 g3 g4 g5 g6 g7 g8 g9 glen
  have huni : ∀ e ∈ es, e.coords.length = arityOf es := by
    intro e he
    simp only [List.any_eq_true, not_exists, not_and] at g2
    have := g2 e he; simpa using this
  have hsc : InScope es c := by
    refine ⟨by omega, huni, ?_, by omega, ?_, ?_, ?_, ?_, by omega⟩
    · intro hne
      by_cases h0 : arityOf es = 0
      · exact absurd ⟨hne, h0⟩ g3
      · omega
    · by_cases hc : c ≥ 2^63
      · exact absurd (Or.inl hc) g4
      · omega
    · intro e he x hx
      by_cases hge : x ≥ 2^63
      · exact absurd (Or.inr (by simp only [List.any_eq_true, decide_eq_true_eq]; exact ⟨e, he, x, hx, hge⟩)) g4
      · omega
    · intro e he
      simp only [List.any_eq_true, decide_eq_true_eq, not_exists, not_and] at g5
      have := g5 e he; omega
    · intro e he x hx
      simp only [List.any_eq_true, decide_eq_true_eq, not_exists, not_and] at g6
      have := g6 e he x hx; omega
  refine ⟨hsc, ?_⟩
  have hpl := payload_length es c (arityOf es) (indexWordSize es c) 4 huni
  cases h
  simp only [encodeWith, hpl]

end Catii.Indx
