import CatiiModel.Gen.ShiftGen
import CatiiProofs.MaskGenBridge
import CatiiProofs.IIndexShift
/-! The re-encoding half of `iindex.shift_common` as REGENERATED from the source (`tools/translate_shift.py`) is the model's
`shiftCommon i (some v)`, for indexes of at most two axes whose keys have as many coordinates as the index has axes. -/
namespace Catii.IIdx

theorem flatMap_single {α β : Type} (l : List α) (f : α → β) : l.flatMap (fun a => [f a]) = l.map f := by
  induction l with
  | nil => rfl
  | cons a l ih => simp [List.flatMap_cons, ih]

theorem hiCells_single (m : Nat) : hiCells [m] = (List.range m).map (fun (j : Nat) => [(j : Int)]) := by
  show (List.range m).flatMap (fun (j : Nat) => (hiCells []).map ((j : Int) :: ·)) = _
  have : (fun (j : Nat) => (hiCells []).map ((j : Int) :: ·)) = fun (j : Nat) => [[(j : Int)]] := by
    funext j; simp [hiCells]
  rw [this]
  exact flatMap_single _ _

theorem getD0_eq_val0 (k : Key) : k.getD 0 0 = val0 k := by
  cases k <;> rfl

/-- the deletion loop over a snapshot of the keys is one filter -/
theorem foldl_ddel (nc : Int) (ks : List Key) (es : List (Key × Rows)) :
    ks.foldl (fun es k => if (val0 k == nc) = true then ddel es k else es) es
      = es.filter (fun e => ks.all fun k => !((val0 k == nc) && (e.1 == k))) := by
  induction ks generalizing es with
  | nil => exact (List.filter_eq_self.2 (fun _ _ => rfl)).symm
  | cons k ks ih =>
    simp only [List.foldl_cons, List.all_cons]
    rw [ih]
    by_cases hk : (val0 k == nc) = true
    · simp only [hk, if_true, ddel, List.filter_filter, Bool.true_and]
      apply List.filter_congr
      intro e _
      rw [Bool.and_comm]
    · have hk' : (val0 k == nc) = false := by simpa using hk
      rw [if_neg hk]
      apply List.filter_congr
      intro e _
      simp only [hk', Bool.false_and, Bool.not_false, Bool.true_and]

theorem delete_loop (nc : Int) (es : List (Key × Rows)) :
    (es.map (·.1)).foldl (fun es k => if (k.getD 0 0 == nc) = true then ddel es k else es) es
      = es.filter (fun e => !(val0 e.1 == nc)) := by
  have hf : (fun (es : List (Key × Rows)) (k : Key) => if (k.getD 0 0 == nc) = true then ddel es k else es)
      = (fun es k => if (val0 k == nc) = true then ddel es k else es) := by
    funext es k; rw [getD0_eq_val0]
  rw [hf, foldl_ddel]
  apply List.filter_congr
  intro e he
  by_cases hv : (val0 e.1 == nc) = true
  · have : (es.map (·.1)).all (fun k => !((val0 k == nc) && (e.1 == k))) = false := by
      rw [List.all_eq_false]
      refine ⟨e.1, List.mem_map.mpr ⟨e, he, rfl⟩, ?_⟩
      simp only [hv, Bool.true_and, beq_self_eq_true, Bool.not_true]
      exact Bool.false_ne_true
    rw [this, hv]; rfl
  · have hv' : (val0 e.1 == nc) = false := by simpa using hv
    have : (es.map (·.1)).all (fun k => !((val0 k == nc) && (e.1 == k))) = true := by
      rw [List.all_eq_true]
      intro k _
      by_cases hek : e.1 = k
      · subst hek; simp only [hv', Bool.false_and, Bool.not_false]
      · have : (e.1 == k) = false := by simpa using hek
        simp only [this, Bool.and_false, Bool.not_false]
    rw [this, hv']; rfl

theorem ite_isEmpty {α β : Type} (l : List α) (a b : β) :
    (if l.isEmpty = true then a else b) = (if (l.length != 0) = true then b else a) := by
  cases l <;> simp

/-- the regenerated re-encoding is the modelled one -/
theorem gen_shiftTo_eq (i : IIndex) (v : Int) (hk : ∀ e ∈ i.entries, e.1.length = i.ndim) (h2 : i.ndim ≤ 2) :
    shiftCommon i (some v) = .ok (Gen.shiftToGen i v) := by
  unfold shiftCommon Gen.shiftToGen
  simp only [pure, Except.pure, bind, Except.bind]
  by_cases hv : v = i.common
  · simp [hv]
  · have h1 : (v == i.common) = false := by simpa using hv
    have h1' : (v != i.common) = true := by simpa using hv
    have h3 : ¬ i.ndim > 2 := by omega
    simp only [h1, h1', Bool.false_eq_true, if_false, if_true, h3]
    congr 1
    rw [delete_loop]
    congr 2
    by_cases hn : i.shape.length > 1
    · -- two axes: column by column
      have hnd : i.ndim = 2 := by have : i.ndim > 1 := hn; omega
      simp only [hn, if_true]
      obtain ⟨n, m, hs⟩ : ∃ n m, i.shape = [n, m] := by
        have : i.shape.length = 2 := hnd
        match hsh : i.shape, this with
        | [a, b], _ => exact ⟨a, b, rfl⟩
      have hd : i.shape.drop 1 = [m] := by rw [hs]; rfl
      have hg : i.shape.getD 1 0 = m := by rw [hs]; rfl
      rw [hd, hg, hiCells_single, List.foldl_map]
      congr 1
      funext es col
      have hc : commonRowidsHi i [(col : Int)] = (List.range i.nrows).filter fun r =>
          !(i.entries.any fun x => match x with | (coords, rowids) => (coords.getD 1 0 == (col : Int)) && rowids.contains r) := by
        unfold commonRowidsHi
        apply List.filter_congr
        intro r _
        congr 1
        apply any_congr_mem
        intro e he
        obtain ⟨k, w⟩ := e
        have := hk (k, w) he
        show (k.drop 1 == [(col : Int)] && w.contains r) = ((k.getD 1 0 == (col : Int)) && w.contains r)
        rw [drop1_eq_singleton k col (by simpa [hnd] using this)]
        simp
      simp only [← hc]
      exact ite_isEmpty _ _ _
    · -- one axis (or none): one step
      have hnd : ¬ i.ndim > 1 := hn
      simp only [hn, if_false]
      have hd : i.shape.drop 1 = [] := by
        have : i.shape.length ≤ 1 := by omega
        match hsh : i.shape, this with
        | [], _ => rfl
        | [a], _ => rfl
      rw [hd]
      have hg : Gen.commonRowidsGen i none = commonRowidsHi i [] := by
        rw [gen_commonRowids_eq i none hk h2 (fun h => absurd h hnd)]
        unfold commonRowids
        simp [hnd]
      simp only [hiCells, List.foldl_cons, List.foldl_nil, hg]
      exact ite_isEmpty _ _ _

/-- ... and therefore the index `shiftTo i v` the cube theorems of C05 speak about -/
theorem gen_shiftTo_is_shiftTo (i : IIndex) (h : WF i) (h2 : i.ndim ≤ 2) (v : Int) (hv : v ≠ i.common) :
    Gen.shiftToGen i v = shiftTo i v := by
  have a := gen_shiftTo_eq i v h.arity h2
  rw [shiftCommon_some i h h2 v, if_neg hv] at a
  exact (Except.ok.inj a).symm

end Catii.IIdx
