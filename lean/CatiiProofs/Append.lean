import CatiiProofs.IIndexShift
import CatiiProofs.Dict
/-! `append(other)` refines concatenation of the dense arrays and preserves well-formedness
(C06/C07), for every pair of well-formed operands with the same higher shape whose combined row
count fits the row-id word.  Core Lean only. -/
namespace Catii.IIdx
open Catii.Kern

/-! ### dictionary algebra of `addRows` -/

theorem dget_dset (es : List (Key × Rows)) (k : Key) (v : Rows) (k' : Key) :
    dget (dset es k v) k' = if k' = k then some v else dget es k' := by
  induction es with
  | nil =>
    by_cases h : k' = k
    · subst h; simp [dset, dget]
    · have : (k == k') = false := by simpa using fun heq => h heq.symm
      simp [dset, dget, h, this]
  | cons x xs ih =>
    simp only [dset]
    by_cases hx : x.1 = k
    · have hx' : (x.1 == k) = true := by simpa using hx
      simp only [hx', if_true]
      by_cases h : k' = k
      · subst h; simp [dget]
      · have h1 : (k == k') = false := by simpa using fun heq => h heq.symm
        have h2 : (x.1 == k') = false := by rw [hx]; exact h1
        simp [dget, List.find?_cons, h, h1, h2]
    · have hx' : (x.1 == k) = false := by simpa using hx
      simp only [hx', Bool.false_eq_true, if_false]
      by_cases hxk : x.1 = k'
      · have : (x.1 == k') = true := by simpa using hxk
        have hne : k' ≠ k := by rw [← hxk]; exact hx
        simp [dget, List.find?_cons, this, hne]
      · have : (x.1 == k') = false := by simpa using hxk
        have ih' := ih
        unfold dget at ih' ⊢
        simp only [List.find?_cons, this]
        exact ih'

theorem dget_addRows (es : List (Key × Rows)) (k : Key) (rows : Rows) (k' : Key) :
    dget (addRows es k rows) k' = if k' = k then some ((dget es k).getD [] ++ rows) else dget es k' := by
  unfold addRows
  cases h : dget es k with
  | none => simp [dget_dset]
  | some old => simp [dget_dset]

theorem addRows_keysDistinct (es : List (Key × Rows)) (hk : KeysDistinct es) (k : Key) (rows : Rows) :
    KeysDistinct (addRows es k rows) := by
  unfold addRows; split <;> exact dset_keysDistinct es hk _ _

/-- a batch of additions, one `addRows` per element -/
def addAll (es adds : List (Key × Rows)) : List (Key × Rows) :=
  adds.foldl (fun es a => addRows es a.1 a.2) es

theorem addAll_keysDistinct (es adds : List (Key × Rows)) (hk : KeysDistinct es) : KeysDistinct (addAll es adds) := by
  unfold addAll
  induction adds generalizing es with
  | nil => exact hk
  | cons a rest ih => exact ih _ (addRows_keysDistinct es hk _ _)

theorem dget_addAll (es adds : List (Key × Rows)) (hd : KeysDistinct adds) (k : Key) :
    dget (addAll es adds) k =
      match dget adds k with
      | none => dget es k
      | some new => some ((dget es k).getD [] ++ new) := by
  unfold addAll
  induction adds generalizing es with
  | nil => simp [dget]
  | cons a rest ih =>
    have hd' := List.pairwise_cons.mp hd
    simp only [List.foldl_cons]
    rw [ih _ hd'.2]
    by_cases hk : k = a.1
    · subst hk
      have hnone : dget rest a.1 = none := (dget_none_iff rest a.1).mpr (fun e he heq => hd'.1 e he heq.symm)
      have hsome : dget (a :: rest) a.1 = some a.2 := by simp [dget]
      rw [hnone, hsome]
      simp [dget_addRows]
    · have h1 : dget (a :: rest) k = dget rest k := by
        have : (a.1 == k) = false := by simpa using fun heq => hk heq.symm
        simp [dget, List.find?_cons, this]
      rw [h1]
      simp only [dget_addRows, hk, if_false]

theorem mem_iff_dget (es : List (Key × Rows)) (hk : KeysDistinct es) (e : Key × Rows) :
    e ∈ es ↔ dget es e.1 = some e.2 :=
  ⟨dget_of_mem es hk e, fun h => dget_some_mem es e.1 e.2 h⟩

theorem addAll_append (es a b : List (Key × Rows)) : addAll es (a ++ b) = addAll (addAll es a) b := by
  simp [addAll, List.foldl_append]

/-! ### `appendPre` as one batch of additions -/

def adds1 (i other : IIndex) : List (Key × Rows) :=
  (other.entries.filter (fun e => val0 e.1 != i.common)).map (fun e => (e.1, shiftRows i.nrows e.2))

def adds2 (i other : IIndex) : List (Key × Rows) :=
  (hiCells (i.shape.drop 1)).filterMap fun hi =>
    let cr := shiftRows i.nrows (commonRowidsHi other hi)
    if cr.isEmpty then none else some (other.common :: hi, cr)

def appendAdds (i other : IIndex) : List (Key × Rows) :=
  adds1 i other ++ (if other.common != i.common then adds2 i other else [])

theorem fold_adds1 (i : IIndex) (n : Nat) (l acc : List (Key × Rows)) :
    l.foldl (fun es (e : Key × Rows) =>
      if val0 e.1 != i.common then addRows es e.1 (shiftRows n e.2) else es) acc
    = addAll acc ((l.filter (fun e => val0 e.1 != i.common)).map (fun e => (e.1, shiftRows n e.2))) := by
  induction l generalizing acc with
  | nil => simp [addAll]
  | cons e rest ih =>
    simp only [List.foldl_cons, List.filter_cons]
    by_cases h : (val0 e.1 != i.common) = true
    · simp only [h, if_true, List.map_cons]
      rw [ih]; rfl
    · simp only [h, Bool.false_eq_true, if_false]
      rw [ih]

theorem fold_adds2 (other : IIndex) (n : Nat) (his : List (List Int)) (acc : List (Key × Rows)) :
    his.foldl (fun es hi =>
      let cr := shiftRows n (commonRowidsHi other hi)
      if cr.isEmpty then es else addRows es (other.common :: hi) cr) acc
    = addAll acc (his.filterMap fun hi =>
        let cr := shiftRows n (commonRowidsHi other hi)
        if cr.isEmpty then none else some (other.common :: hi, cr)) := by
  induction his generalizing acc with
  | nil => simp [addAll]
  | cons hi rest ih =>
    simp only [List.foldl_cons, List.filterMap_cons]
    by_cases h : (shiftRows n (commonRowidsHi other hi)).isEmpty = true
    · simp only [h, if_true]
      rw [ih]
    · simp only [h, Bool.false_eq_true, if_false]
      rw [ih]; rfl

theorem appendPre_entries (i other : IIndex) :
    (appendPre i other).entries = addAll i.entries (appendAdds i other) := by
  unfold appendPre appendAdds
  simp only
  rw [fold_adds1]
  by_cases h : (other.common != i.common) = true
  · simp only [h, if_true]
    rw [fold_adds2, addAll_append]; rfl
  · simp only [h, Bool.false_eq_true, if_false, List.append_nil]; rfl

theorem shiftRows_eq (n m : Nat) (rows : Rows) (h : ∀ r ∈ rows, r < m) (hfit : n + m ≤ 2^32) :
    shiftRows n rows = rows.map (· + n) := by
  unfold shiftRows
  apply List.map_congr_left
  intro r hr
  have := h r hr
  exact Nat.mod_eq_of_lt (by omega)

theorem mem_adds1 (i other : IIndex) (k : Key) (new : Rows) :
    (k, new) ∈ adds1 i other ↔
      ∃ rows, (k, rows) ∈ other.entries ∧ val0 k ≠ i.common ∧ new = shiftRows i.nrows rows := by
  unfold adds1
  simp only [List.mem_map, List.mem_filter, bne_iff_ne, ne_eq, Prod.mk.injEq]
  constructor
  · rintro ⟨e, ⟨he, hv⟩, rfl, rfl⟩
    exact ⟨e.2, he, hv, rfl⟩
  · rintro ⟨rows, he, hv, rfl⟩
    exact ⟨(k, rows), ⟨he, hv⟩, rfl, rfl⟩

theorem mem_adds2 (i other : IIndex) (k : Key) (new : Rows) :
    (k, new) ∈ adds2 i other ↔
      ∃ hi ∈ hiCells (i.shape.drop 1), k = other.common :: hi ∧
        new = shiftRows i.nrows (commonRowidsHi other hi) ∧ new ≠ [] := by
  unfold adds2
  simp only [List.mem_filterMap]
  constructor
  · rintro ⟨hi, hhi, h⟩
    by_cases hc : (shiftRows i.nrows (commonRowidsHi other hi)).isEmpty = true
    · simp [hc] at h
    · simp only [hc, Bool.false_eq_true, if_false, Option.some.injEq, Prod.mk.injEq] at h
      refine ⟨hi, hhi, h.1.symm, h.2.symm, ?_⟩
      rw [← h.2]; simpa using hc
  · rintro ⟨hi, hhi, rfl, rfl, hne⟩
    refine ⟨hi, hhi, ?_⟩
    have : (shiftRows i.nrows (commonRowidsHi other hi)).isEmpty = false := by simpa using hne
    simp [this]

theorem adds_keysDistinct (i other : IIndex) (wo : WF other) : KeysDistinct (appendAdds i other) := by
  unfold appendAdds
  have h1 : KeysDistinct (adds1 i other) := by
    unfold adds1
    show List.Pairwise (fun a b : Key × Rows => a.1 ≠ b.1) _
    rw [List.pairwise_map]
    exact (List.Pairwise.filter _ wo.keys)
  have h2 : KeysDistinct (adds2 i other) := by
    unfold adds2
    show List.Pairwise (fun a b : Key × Rows => a.1 ≠ b.1) _
    rw [List.pairwise_filterMap]
    apply (hiCells_nodup (i.shape.drop 1)).imp
    intro a b hab x hx y hy
    by_cases ha : (shiftRows i.nrows (commonRowidsHi other a)).isEmpty = true
    · simp [ha] at hx
    · by_cases hb : (shiftRows i.nrows (commonRowidsHi other b)).isEmpty = true
      · simp [hb] at hy
      · simp only [ha, hb, Bool.false_eq_true, if_false, Option.mem_def, Option.some.injEq] at hx hy
        subst hx hy
        simp only [ne_eq, List.cons.injEq, true_and]
        exact hab
  by_cases h : (other.common != i.common) = true
  · simp only [h, if_true]
    show List.Pairwise (fun a b : Key × Rows => a.1 ≠ b.1) _
    rw [List.pairwise_append]
    refine ⟨h1, h2, ?_⟩
    intro a ha b hb heq
    obtain ⟨rows, hm, _, _⟩ := (mem_adds1 i other a.1 a.2).mp ha
    obtain ⟨hi, _, hk, _, _⟩ := (mem_adds2 i other b.1 b.2).mp hb
    have := wo.noCommon _ hm
    apply this
    show val0 a.1 = other.common
    rw [heq, hk]; rfl
  · simp only [h, Bool.false_eq_true, if_false, List.append_nil]
    exact h1

/-- what `append` needs of its operands: both well-formed, same higher shape, combined rows fit `uint32` -/
structure AppendOK (i other : IIndex) : Prop where
  wi : WF i
  wo : WF other
  hshape : other.shape.drop 1 = i.shape.drop 1
  hfit : i.nrows + other.nrows ≤ 2^32

theorem ndim_eq_of_drop {i other : IIndex} (ok : AppendOK i other) : other.ndim = i.ndim := by
  have h1 := ok.wi.ndimPos
  have h2 := ok.wo.ndimPos
  have := congrArg List.length ok.hshape
  simp only [List.length_drop, IIndex.ndim] at *
  omega

theorem mem_appendAdds (i other : IIndex) (k : Key) (new : Rows) :
    (k, new) ∈ appendAdds i other ↔
      (k, new) ∈ adds1 i other ∨ (other.common ≠ i.common ∧ (k, new) ∈ adds2 i other) := by
  unfold appendAdds
  by_cases h : (other.common != i.common) = true
  · have h' : other.common ≠ i.common := by simpa using h
    simp [h, h']
  · have h' : other.common = i.common := by simpa using h
    simp [h']

/-- every added block: non-empty, strictly increasing, inside the appended row range, under a
well-formed key that is not the common value -/
theorem adds_desc {i other : IIndex} (ok : AppendOK i other) (k : Key) (new : Rows)
    (h : (k, new) ∈ appendAdds i other) :
    new ≠ [] ∧ SSorted new ∧ (∀ r ∈ new, i.nrows ≤ r ∧ r < i.nrows + other.nrows) ∧
      k.length = i.ndim ∧ val0 k ≠ i.common ∧ k.drop 1 ∈ hiCells (i.shape.drop 1) := by
  rcases (mem_appendAdds i other k new).mp h with h1 | ⟨hc, h2⟩
  · obtain ⟨rows, hm, hv, rfl⟩ := (mem_adds1 i other k new).mp h1
    have hin := ok.wo.inRange _ hm
    rw [shiftRows_eq i.nrows other.nrows rows hin ok.hfit]
    refine ⟨?_, ?_, ?_, ?_, hv, ?_⟩
    · have := ok.wo.nonEmpty _ hm
      simpa using this
    · show List.Pairwise (· < ·) _
      rw [List.pairwise_map]
      exact (ok.wo.sorted _ hm).imp (fun h => by omega)
    · intro r hr
      obtain ⟨r', hr', rfl⟩ := List.mem_map.mp hr
      have := hin r' hr'
      omega
    · rw [← ndim_eq_of_drop ok]; exact ok.wo.arity _ hm
    · have := ok.wo.hiRange _ hm
      rw [ok.hshape] at this; exact this
  · obtain ⟨hi, hhi, rfl, rfl, hne⟩ := (mem_adds2 i other k new).mp h2
    have hin : ∀ r ∈ commonRowidsHi other hi, r < other.nrows := fun r hr => ((mem_commonRowidsHi other hi r).mp hr).1
    rw [shiftRows_eq i.nrows other.nrows _ hin ok.hfit] at hne ⊢
    refine ⟨hne, ?_, ?_, ?_, hc, ?_⟩
    · show List.Pairwise (· < ·) _
      rw [List.pairwise_map]
      exact (commonRowidsHi_sorted other hi).imp (fun h => by omega)
    · intro r hr
      obtain ⟨r', hr', rfl⟩ := List.mem_map.mp hr
      have := hin r' hr'
      omega
    · have := hiCells_length _ hi hhi
      have hp := ok.wi.ndimPos
      simp only [List.length_cons, this, List.length_drop, IIndex.ndim] at *
      omega
    · simpa using hhi

/-- every entry of the result is an old block followed by an added block (either may be absent) -/
theorem entry_split {i other : IIndex} (ok : AppendOK i other) (e : Key × Rows)
    (he : e ∈ (appendPre i other).entries) :
    ∃ old new, e.2 = old ++ new ∧ (old = [] ∨ (e.1, old) ∈ i.entries) ∧
      (new = [] ∨ (e.1, new) ∈ appendAdds i other) ∧ (old ≠ [] ∨ new ≠ []) := by
  rw [appendPre_entries] at he
  have hd := addAll_keysDistinct i.entries (appendAdds i other) ok.wi.keys
  have hg := (mem_iff_dget _ hd e).mp he
  rw [dget_addAll _ _ (adds_keysDistinct i other ok.wo)] at hg
  cases hnew : dget (appendAdds i other) e.1 with
  | none =>
    simp only [hnew] at hg
    have hm := dget_some_mem _ _ _ hg
    exact ⟨e.2, [], by simp, Or.inr hm, Or.inl rfl, Or.inl (ok.wi.nonEmpty _ hm)⟩
  | some new =>
    simp only [hnew, Option.some.injEq] at hg
    have hmn := dget_some_mem _ _ _ hnew
    have hne := (adds_desc ok _ _ hmn).1
    cases hold : dget i.entries e.1 with
    | none =>
      simp only [hold, Option.getD_none, List.nil_append] at hg
      exact ⟨[], new, by simp [hg], Or.inl rfl, Or.inr hmn, Or.inr hne⟩
    | some old =>
      simp only [hold, Option.getD_some] at hg
      exact ⟨old, new, hg.symm, Or.inr (dget_some_mem _ _ _ hold), Or.inr hmn, Or.inr hne⟩

theorem entry_of_old {i other : IIndex} (ok : AppendOK i other) (k : Key) (old : Rows)
    (h : (k, old) ∈ i.entries) :
    ∃ new, (k, old ++ new) ∈ (appendPre i other).entries ∧ (new = [] ∨ (k, new) ∈ appendAdds i other) := by
  rw [appendPre_entries]
  have hd := addAll_keysDistinct i.entries (appendAdds i other) ok.wi.keys
  have hold := dget_of_mem _ ok.wi.keys _ h
  cases hnew : dget (appendAdds i other) k with
  | none =>
    refine ⟨[], ?_, Or.inl rfl⟩
    apply (mem_iff_dget _ hd _).mpr
    rw [dget_addAll _ _ (adds_keysDistinct i other ok.wo)]
    simp only [hnew, List.append_nil]; exact hold
  | some new =>
    refine ⟨new, ?_, Or.inr (dget_some_mem _ _ _ hnew)⟩
    apply (mem_iff_dget _ hd _).mpr
    rw [dget_addAll _ _ (adds_keysDistinct i other ok.wo)]
    simp only [hnew]
    simp only at hold
    rw [hold]; rfl

theorem entry_of_new {i other : IIndex} (ok : AppendOK i other) (k : Key) (new : Rows)
    (h : (k, new) ∈ appendAdds i other) :
    ∃ old, (k, old ++ new) ∈ (appendPre i other).entries ∧ (old = [] ∨ (k, old) ∈ i.entries) := by
  rw [appendPre_entries]
  have hd := addAll_keysDistinct i.entries (appendAdds i other) ok.wi.keys
  have hnew := dget_of_mem _ (adds_keysDistinct i other ok.wo) _ h
  simp only at hnew
  cases hold : dget i.entries k with
  | none =>
    refine ⟨[], ?_, Or.inl rfl⟩
    apply (mem_iff_dget _ hd _).mpr
    rw [dget_addAll _ _ (adds_keysDistinct i other ok.wo)]
    simp [hnew, hold]
  | some old =>
    refine ⟨old, ?_, Or.inr (dget_some_mem _ _ _ hold)⟩
    apply (mem_iff_dget _ hd _).mpr
    rw [dget_addAll _ _ (adds_keysDistinct i other ok.wo)]
    simp [hnew, hold]

/-- a row below the old row count sits in the old block, a row at or above it in the added block -/
theorem split_lt {i other : IIndex} (ok : AppendOK i other) (k : Key) (old new : Rows) (r : Nat)
    (ho : old = [] ∨ (k, old) ∈ i.entries) (hn : new = [] ∨ (k, new) ∈ appendAdds i other)
    (hr : r ∈ old ++ new) :
    (r < i.nrows ∧ r ∈ old ∧ (k, old) ∈ i.entries) ∨
    (i.nrows ≤ r ∧ r ∈ new ∧ (k, new) ∈ appendAdds i other) := by
  rcases List.mem_append.mp hr with h | h
  · rcases ho with rfl | ho
    · simp at h
    · exact Or.inl ⟨ok.wi.inRange _ ho r h, h, ho⟩
  · rcases hn with rfl | hn
    · simp at h
    · exact Or.inr ⟨((adds_desc ok _ _ hn).2.2.1 r h).1, h, hn⟩

/-- a row of an added block is a row of `other`, shifted, holding the key's value there -/
theorem adds_row {i other : IIndex} (ok : AppendOK i other) (k : Key) (new : Rows)
    (h : (k, new) ∈ appendAdds i other) (r : Nat) (hr : r ∈ new) :
    ∃ r', r = r' + i.nrows ∧ r' < other.nrows ∧ denseAt other r' (k.drop 1) = val0 k := by
  rcases (mem_appendAdds i other k new).mp h with h1 | ⟨_, h2⟩
  · obtain ⟨rows, hm, _, rfl⟩ := (mem_adds1 i other k new).mp h1
    have hin := ok.wo.inRange _ hm
    rw [shiftRows_eq i.nrows other.nrows rows hin ok.hfit] at hr
    obtain ⟨r', hr', rfl⟩ := List.mem_map.mp hr
    exact ⟨r', rfl, hin r' hr', denseAt_of_mem other ok.wo (k, rows) hm r' _ rfl hr'⟩
  · obtain ⟨hi, _, rfl, rfl, _⟩ := (mem_adds2 i other k new).mp h2
    have hin : ∀ r ∈ commonRowidsHi other hi, r < other.nrows := fun r hr => ((mem_commonRowidsHi other hi r).mp hr).1
    rw [shiftRows_eq i.nrows other.nrows _ hin ok.hfit] at hr
    obtain ⟨r', hr', rfl⟩ := List.mem_map.mp hr
    have := (mem_commonRowidsHi other hi r').mp hr'
    refine ⟨r', rfl, this.1, ?_⟩
    show denseAt other r' hi = other.common
    exact denseAt_of_not_mem other r' hi this.2

/-- every cell of `other` that does not hold the receiver's common value is covered by an added block -/
theorem adds_cover {i other : IIndex} (ok : AppendOK i other) (r' : Nat) (hr' : r' < other.nrows)
    (hi : List Int) (hhi : hi ∈ hiCells (i.shape.drop 1)) (hne : denseAt other r' hi ≠ i.common) :
    ∃ k new, (k, new) ∈ appendAdds i other ∧ k.drop 1 = hi ∧ val0 k = denseAt other r' hi ∧
      r' + i.nrows ∈ new := by
  by_cases hex : ∃ e ∈ other.entries, e.1.drop 1 = hi ∧ r' ∈ e.2
  · obtain ⟨e, he, h1, h2⟩ := hex
    have hv := denseAt_of_mem other ok.wo e he r' hi h1 h2
    refine ⟨e.1, shiftRows i.nrows e.2, ?_, h1, hv.symm, ?_⟩
    · apply (mem_appendAdds i other _ _).mpr
      exact Or.inl ((mem_adds1 i other _ _).mpr ⟨e.2, he, by rw [← hv]; exact hne, rfl⟩)
    · rw [shiftRows_eq i.nrows other.nrows e.2 (ok.wo.inRange _ he) ok.hfit]
      exact List.mem_map.mpr ⟨r', h2, rfl⟩
  · have hnot : ∀ e ∈ other.entries, e.1.drop 1 = hi → r' ∉ e.2 := fun e he h1 h2 => hex ⟨e, he, h1, h2⟩
    have hv := denseAt_of_not_mem other r' hi hnot
    have hc : other.common ≠ i.common := by rw [← hv]; exact hne
    have hmem : r' ∈ commonRowidsHi other hi := (mem_commonRowidsHi other hi r').mpr ⟨hr', hnot⟩
    have hin : ∀ r ∈ commonRowidsHi other hi, r < other.nrows := fun r hr => ((mem_commonRowidsHi other hi r).mp hr).1
    have hsh := shiftRows_eq i.nrows other.nrows _ hin ok.hfit
    have hin2 : r' + i.nrows ∈ shiftRows i.nrows (commonRowidsHi other hi) := by
      rw [hsh]; exact List.mem_map.mpr ⟨r', hmem, rfl⟩
    refine ⟨other.common :: hi, shiftRows i.nrows (commonRowidsHi other hi), ?_, by simp, ?_, hin2⟩
    · apply (mem_appendAdds i other _ _).mpr
      refine Or.inr ⟨hc, (mem_adds2 i other _ _).mpr ⟨hi, hhi, rfl, rfl, ?_⟩⟩
      intro hnil; rw [hnil] at hin2; simp at hin2
    · rw [hv]; rfl

theorem appendPre_common (i other : IIndex) : (appendPre i other).common = i.common := rfl
theorem appendPre_shape (i other : IIndex) :
    (appendPre i other).shape = (i.nrows + other.nrows) :: i.shape.drop 1 := rfl

/-- rows of the receiver keep their content -/
theorem dense_appendPre_old {i other : IIndex} (ok : AppendOK i other) (r : Nat) (hr : r < i.nrows)
    (hi : List Int) : denseAt (appendPre i other) r hi = denseAt i r hi := by
  by_cases hex : ∃ e ∈ i.entries, e.1.drop 1 = hi ∧ r ∈ e.2
  · obtain ⟨e, he, h1, h2⟩ := hex
    rw [denseAt_of_mem i ok.wi e he r hi h1 h2]
    obtain ⟨new, hm, _⟩ := entry_of_old ok e.1 e.2 he
    apply denseAt_eq
    · exact ⟨_, hm, h1, List.mem_append.mpr (Or.inl h2)⟩
    · intro f hf hf1 hf2
      obtain ⟨old, new', hsplit, ho, hn, _⟩ := entry_split ok f hf
      rw [hsplit] at hf2
      rcases split_lt ok f.1 old new' r ho hn hf2 with ⟨_, hro, hmo⟩ | ⟨hge, _, _⟩
      · exact ok.wi.exclusive _ hmo e he (by rw [hf1, h1]) r hro h2
      · omega
  · have hnot : ∀ e ∈ i.entries, e.1.drop 1 = hi → r ∉ e.2 := fun e he h1 h2 => hex ⟨e, he, h1, h2⟩
    rw [denseAt_of_not_mem i r hi hnot]
    apply denseAt_of_not_mem
    intro f hf hf1 hf2
    obtain ⟨old, new', hsplit, ho, hn, _⟩ := entry_split ok f hf
    rw [hsplit] at hf2
    rcases split_lt ok f.1 old new' r ho hn hf2 with ⟨_, hro, hmo⟩ | ⟨hge, _, _⟩
    · exact hnot _ hmo hf1 hro
    · omega

/-- the appended rows hold the content of `other` -/
theorem dense_appendPre_new {i other : IIndex} (ok : AppendOK i other) (r' : Nat) (hr' : r' < other.nrows)
    (hi : List Int) (hhi : hi ∈ hiCells (i.shape.drop 1)) :
    denseAt (appendPre i other) (r' + i.nrows) hi = denseAt other r' hi := by
  have hall : ∀ f ∈ (appendPre i other).entries, f.1.drop 1 = hi → r' + i.nrows ∈ f.2 →
      val0 f.1 = denseAt other r' hi ∧ val0 f.1 ≠ i.common := by
    intro f hf hf1 hf2
    obtain ⟨old, new', hsplit, ho, hn, _⟩ := entry_split ok f hf
    rw [hsplit] at hf2
    rcases split_lt ok f.1 old new' _ ho hn hf2 with ⟨hlt, _, _⟩ | ⟨_, hrn, hmn⟩
    · omega
    · obtain ⟨r'', h1, _, h3⟩ := adds_row ok _ _ hmn _ hrn
      have : r'' = r' := by omega
      subst this
      rw [hf1] at h3
      exact ⟨h3.symm, (adds_desc ok _ _ hmn).2.2.2.2.1⟩
  by_cases hne : denseAt other r' hi = i.common
  · rw [hne]
    apply denseAt_of_not_mem
    intro f hf hf1 hf2
    have := hall f hf hf1 hf2
    exact this.2 (by rw [this.1, hne])
  · obtain ⟨k, new, hm, hk1, hk2, hk3⟩ := adds_cover ok r' hr' hi hhi hne
    obtain ⟨old, hmo, _⟩ := entry_of_new ok k new hm
    apply denseAt_eq
    · exact ⟨_, hmo, hk1, List.mem_append.mpr (Or.inr hk3)⟩
    · intro f hf hf1 hf2
      exact (hall f hf hf1 hf2).1

theorem appendPre_ndim {i other : IIndex} (ok : AppendOK i other) : (appendPre i other).ndim = i.ndim := by
  have := ok.wi.ndimPos
  simp only [IIndex.ndim, appendPre_shape, List.length_cons, List.length_drop] at *
  omega

theorem appendPre_nrows (i other : IIndex) : (appendPre i other).nrows = i.nrows + other.nrows := rfl

/-- the receiver is well-formed before the final re-normalisation -/
theorem wf_appendPre {i other : IIndex} (ok : AppendOK i other) : WF (appendPre i other) := by
  have hsplit := entry_split ok
  refine ⟨?_, ?_, ?_, ?_, ?_, ?_, ?_, ?_, ?_⟩
  · rw [appendPre_entries]; exact addAll_keysDistinct _ _ ok.wi.keys
  · intro e he
    rw [appendPre_ndim ok]
    obtain ⟨old, new, _, ho, hn, hne⟩ := hsplit e he
    rcases ho with rfl | ho
    · rcases hn with rfl | hn
      · simp at hne
      · exact (adds_desc ok _ _ hn).2.2.2.1
    · exact ok.wi.arity (e.1, old) ho
  · rw [appendPre_ndim ok]; exact ok.wi.ndimPos
  · intro e he
    rw [appendPre_common]
    obtain ⟨old, new, _, ho, hn, hne⟩ := hsplit e he
    rcases ho with rfl | ho
    · rcases hn with rfl | hn
      · simp at hne
      · exact (adds_desc ok _ _ hn).2.2.2.2.1
    · exact ok.wi.noCommon (e.1, old) ho
  · intro e he
    obtain ⟨old, new, hs, _, _, hne⟩ := hsplit e he
    rw [hs]
    rcases hne with h | h
    · simp [h]
    · simp [h]
  · intro e he
    obtain ⟨old, new, hs, ho, hn, _⟩ := hsplit e he
    rw [hs]
    show List.Pairwise (· < ·) _
    rw [List.pairwise_append]
    refine ⟨?_, ?_, ?_⟩
    · rcases ho with rfl | ho
      · simp
      · exact ok.wi.sorted _ ho
    · rcases hn with rfl | hn
      · simp
      · exact (adds_desc ok _ _ hn).2.1
    · intro a ha b hb
      rcases ho with rfl | ho
      · simp at ha
      · rcases hn with rfl | hn
        · simp at hb
        · have h1 := ok.wi.inRange _ ho a ha
          have h2 := ((adds_desc ok _ _ hn).2.2.1 b hb).1
          omega
  · intro e he r hr
    rw [appendPre_nrows]
    obtain ⟨old, new, hs, ho, hn, _⟩ := hsplit e he
    rw [hs] at hr
    rcases split_lt ok e.1 old new r ho hn hr with ⟨hlt, _, _⟩ | ⟨_, hrn, hmn⟩
    · omega
    · exact ((adds_desc ok _ _ hmn).2.2.1 r hrn).2
  · intro e he
    rw [appendPre_shape]
    simp only [List.drop_succ_cons, List.drop_zero]
    obtain ⟨old, new, _, ho, hn, hne⟩ := hsplit e he
    rcases ho with rfl | ho
    · rcases hn with rfl | hn
      · simp at hne
      · exact (adds_desc ok _ _ hn).2.2.2.2.2
    · exact ok.wi.hiRange (e.1, old) ho
  · intro e he f hf hef r hre hrf
    obtain ⟨olde, newe, hse, hoe, hne, _⟩ := hsplit e he
    obtain ⟨oldf, newf, hsf, hof, hnf, _⟩ := hsplit f hf
    rw [hse] at hre
    rw [hsf] at hrf
    rcases split_lt ok e.1 olde newe r hoe hne hre with ⟨hlt, hro, hmo⟩ | ⟨hge, hrn, hmn⟩
    · rcases split_lt ok f.1 oldf newf r hof hnf hrf with ⟨_, hro', hmo'⟩ | ⟨hge', _, _⟩
      · exact ok.wi.exclusive (e.1, olde) hmo (f.1, oldf) hmo' hef r hro hro'
      · omega
    · rcases split_lt ok f.1 oldf newf r hof hnf hrf with ⟨hlt', _, _⟩ | ⟨_, hrn', hmn'⟩
      · omega
      · obtain ⟨r1, h1, _, h1v⟩ := adds_row ok _ _ hmn _ hrn
        obtain ⟨r2, h2, _, h2v⟩ := adds_row ok _ _ hmn' _ hrn'
        have : r1 = r2 := by omega
        subst this
        rw [← h1v, ← h2v, hef]

/-- **`append(other)` is concatenation of the dense arrays** and preserves well-formedness: the result has
the rows of the receiver followed by the rows of `other`, whatever the two common values are and whichever
value the final re-normalisation picks. -/
theorem append_refines {i other : IIndex} (ok : AppendOK i other) (hnd : i.ndim ≤ 2) (r : IIndex)
    (hr : append i other = .ok r) :
    WF r ∧ r.shape = (i.nrows + other.nrows) :: i.shape.drop 1 ∧
      (∀ row < i.nrows, ∀ hi ∈ hiCells (i.shape.drop 1), denseAt r row hi = denseAt i row hi) ∧
      (∀ row' < other.nrows, ∀ hi ∈ hiCells (i.shape.drop 1),
        denseAt r (row' + i.nrows) hi = denseAt other row' hi) := by
  unfold append at hr
  have hnd' : ¬ i.ndim > 2 := by omega
  simp only [hnd', if_false] at hr
  have hwf := wf_appendPre ok
  have hnd2 : (appendPre i other).ndim ≤ 2 := by rw [appendPre_ndim ok]; exact hnd
  obtain ⟨hw, hs, hd⟩ := shiftCommon_refines (appendPre i other) hwf hnd2 none r hr
  rw [appendPre_shape] at hs
  have hdrop : (appendPre i other).shape.drop 1 = i.shape.drop 1 := by
    rw [appendPre_shape]; simp
  refine ⟨hw, hs, ?_, ?_⟩
  · intro row hrow hi hhi
    rw [hd row (by rw [appendPre_nrows]; omega) hi (by rw [hdrop]; exact hhi)]
    exact dense_appendPre_old ok row hrow hi
  · intro row' hrow' hi hhi
    rw [hd (row' + i.nrows) (by rw [appendPre_nrows]; omega) hi (by rw [hdrop]; exact hhi)]
    exact dense_appendPre_new ok row' hrow' hi hhi

end Catii.IIdx
