import CatiiProofs.Sliced
import CatiiProofs.ColumnStack
import CatiiProofs.CollapsedDense
/-! Lemmas for histories that change the higher shape (C06): where `unslice` lands, the width of a column stack,
`collapsed` with the fallback written as `getLast?.getD`. Core Lean only. -/
namespace Catii.IIdx
open Catii.Kern

/-- the orders name existing columns: an int or every member of a list is a coordinate of its axis -/
def OrdersInRange : List Order → List Nat → Prop
  | [], _ => True
  | _ :: _, [] => False
  | .all :: os, _ :: ext => OrdersInRange os ext
  | .one k :: os, e :: ext => (0 ≤ k ∧ k < (e : Int)) ∧ OrdersInRange os ext
  | .list ks :: os, e :: ext => (∀ k ∈ ks, 0 ≤ k ∧ k < (e : Int)) ∧ OrdersInRange os ext

/-- a coordinate tuple of the sliced index comes from a coordinate tuple of the original -/
theorem unslice_mem (os : List Order) (ext : List Nat) (hext : ext.length = os.length) (hr : OrdersInRange os ext)
    (hi' : List Int) (h : hi' ∈ hiCells (sliceTail os ext)) : unslice os hi' ∈ hiCells ext := by
  induction os generalizing ext hi' with
  | nil =>
    have : ext = [] := List.eq_nil_of_length_eq_zero (by simpa using hext)
    subst this
    simp [unslice, hiCells]
  | cons o rest ih =>
    match ext, hext with
    | n :: ns, hext =>
      have hns : ns.length = rest.length := by simpa using hext
      cases o with
      | all =>
        simp only [sliceTail, List.headD_cons, List.tail_cons] at h
        obtain ⟨j, hj, t, ht, rfl⟩ := (mem_hiCells_cons n _ hi').mp h
        simp only [unslice]
        exact (mem_hiCells_cons n ns _).mpr ⟨j, hj, _, ih ns hns hr t ht, rfl⟩
      | one v =>
        simp only [sliceTail, List.tail_cons] at h
        obtain ⟨⟨h0, h1⟩, hr'⟩ := hr
        simp only [unslice]
        refine (mem_hiCells_cons n ns _).mpr ⟨v.toNat, by omega, _, ih ns hns hr' hi' h, ?_⟩
        rw [Int.toNat_of_nonneg h0]
      | list ks =>
        simp only [sliceTail, List.tail_cons] at h
        obtain ⟨hk, hr'⟩ := hr
        obtain ⟨p, hp, t, ht, rfl⟩ := (mem_hiCells_cons ks.length _ hi').mp h
        simp only [unslice, Int.toNat_natCast]
        have hmem : ks.getD p 0 ∈ ks := by
          rw [List.getD_eq_getElem?_getD, List.getElem?_eq_getElem hp, Option.getD_some]
          exact List.getElem_mem hp
        obtain ⟨h0, h1⟩ := hk _ hmem
        refine (mem_hiCells_cons n ns _).mpr ⟨(ks.getD p 0).toNat, by omega, _, ih ns hns hr' t ht, ?_⟩
        rw [Int.toNat_of_nonneg h0]

/-- the running width of the stack is the sum of the widths of the inputs -/
theorem stackFold_width (nc : Int) (n : Nat) (rest : List IIndex)
    (hall : ∀ x ∈ rest, WF x ∧ x.ndim ≤ 2 ∧ x.nrows = n) (acc res : List (Key × Rows) × Nat)
    (hP : WF (partialStack nc n acc)) (h : rest.foldlM (stackStep nc) acc = .ok res) :
    res.2 = acc.2 + (rest.map stackWidth).sum := by
  induction rest generalizing acc with
  | nil =>
    simp only [List.foldlM_nil, pure, Except.pure] at h
    cases h; simp
  | cons x rest ih =>
    rw [List.foldlM_cons] at h
    cases hs : stackStep nc acc x with
    | error e => simp only [hs, bind, Except.bind] at h; cases h
    | ok acc1 =>
      simp only [hs, bind, Except.bind] at h
      obtain ⟨hxw, hxn, hxr⟩ := hall x List.mem_cons_self
      obtain ⟨hP1, hoff, _⟩ := stackStep_spec nc n acc acc1 x hP hxw hxn hxr hs
      rw [ih (fun y hy => hall y (List.mem_cons_of_mem _ hy)) acc1 hP1 h, hoff, List.map_cons, List.sum_cons]
      omega

/-- `collapsed_refines` with the fallback value written as a function of the precedence list -/
theorem collapsed_refines_getD (i : IIndex) (h : WF i) (hnd : i.ndim = 2) (prec : List Int)
    (mapping : Option (List (Int × Int))) (res : IIndex) (hr : collapsed i prec mapping = .ok res) :
    WF res ∧ res.shape = [i.nrows] ∧ ∀ r < i.nrows,
      denseAt res r [] = (prec.find? (rowHas i (mapGet mapping) r)).getD (prec.getLast?.getD 0) := by
  obtain ⟨hw, hs, hd⟩ := collapsed_refines i h hnd prec mapping res hr
  refine ⟨hw, hs, fun r hrow => ?_⟩
  cases hl : prec.getLast? with
  | some d => exact hd d hl r hrow
  | none =>
    exfalso
    unfold IIndex.ndim at hnd
    match hsh : i.shape, hnd with
    | [n, m], _ =>
      have hnr : i.nrows = n := by unfold IIndex.nrows; rw [hsh]; rfl
      unfold collapsed at hr
      rw [hsh] at hr
      simp only [List.length_cons, List.length_nil] at hr
      rw [if_neg (by omega)] at hr
      simp only [List.getD_cons_zero] at hr
      rw [if_neg (by omega), hl] at hr
      cases hr

/-- `columnStack_refines` with the number of columns of the result spelt out -/
theorem columnStack_full (first : IIndex) (tl : List IIndex) (newCommon : Option Int) (r : IIndex) (n : Nat)
    (hall : ∀ x ∈ first :: tl, WF x ∧ x.ndim ≤ 2 ∧ x.nrows = n)
    (h : columnStack (first :: tl) newCommon = .ok r) :
    WF r ∧ r.shape = [n, ((first :: tl).map stackWidth).sum] ∧
      ∀ row < n, ∀ col < ((first :: tl).map stackWidth).sum,
        denseAt r row [(col : Int)] = stackAt (first :: tl) row col r.common := by
  obtain ⟨hw, total, hs, hd⟩ := columnStack_refines first tl newCommon r n hall h
  obtain ⟨nc, res, hfold, hr⟩ := columnStack_inv first tl newCommon r h
  have hP0 : WF (partialStack nc n ([], 0)) := by
    refine ⟨List.Pairwise.nil, ?_, by simp [partialStack, IIndex.ndim], ?_, ?_, ?_, ?_, ?_, ?_⟩ <;>
      intro e he <;> simp [partialStack] at he
  have hwid := stackFold_width nc n (first :: tl) hall ([], 0) res hP0 hfold
  have htot : total = ((first :: tl).map stackWidth).sum := by
    rw [hr] at hs
    simp only [List.cons.injEq, and_true] at hs
    rw [← hs.2, hwid]; simp
  subst htot
  exact ⟨hw, hs, hd⟩

end Catii.IIdx
