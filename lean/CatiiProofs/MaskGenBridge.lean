import CatiiModel.Gen.MaskGen
/-! `iindex.common_rowids` as REGENERATED from the source (`tools/translate_mask.py`, a boolean-mask program) is the model's
`commonRowids`, for indexes whose keys have as many coordinates as the index has axes (part of well-formedness). -/
namespace Catii.IIdx

theorem drop1_eq_singleton (k : Key) (c : Int) (h : k.length = 2) : (k.drop 1 == [c]) = (some (k.getD 1 0) == some c) := by
  match k, h with
  | [a, b], _ => simp

theorem drop1_eq_nil (k : Key) (h : k.length = 1) : (k.drop 1 == []) = true := by
  match k, h with
  | [a], _ => simp

theorem any_congr_mem {α : Type} (l : List α) (f g : α → Bool) (h : ∀ e ∈ l, f e = g e) : l.any f = l.any g := by
  induction l with
  | nil => rfl
  | cons a l ih =>
    simp only [List.any_cons]
    rw [h a (by simp), ih (fun e he => h e (List.mem_cons_of_mem _ he))]

theorem gen_commonRowids_eq (i : IIndex) (col : Option Int) (hk : ∀ e ∈ i.entries, e.1.length = i.ndim)
    (h2 : i.ndim ≤ 2) (hcol : i.ndim > 1 → col ≠ none) :
    Gen.commonRowidsGen i col = commonRowids i col := by
  unfold Gen.commonRowidsGen commonRowids
  by_cases hn : i.shape.length > 1
  · have hnd : i.ndim > 1 := hn
    have hn2 : i.ndim = 2 := by omega
    simp only [hn, hnd, if_true]
    cases col with
    | none => exact absurd rfl (hcol hnd)
    | some c =>
      simp only [commonRowidsHi]
      apply List.filter_congr
      intro r _
      congr 1
      apply any_congr_mem
      intro e he
      obtain ⟨k, v⟩ := e
      have := hk (k, v) he
      show (some (k.getD 1 0) == some c && v.contains r) = (k.drop 1 == [c] && v.contains r)
      rw [drop1_eq_singleton k c (by simpa [hn2] using this)]
  · have hnd : ¬ i.ndim > 1 := hn
    simp only [hn, hnd, if_false, commonRowidsHi]
    apply List.filter_congr
    intro r _
    congr 1
    apply any_congr_mem
    intro e he
    obtain ⟨k, v⟩ := e
    show v.contains r = (k.drop 1 == [] && v.contains r)
    by_cases h0 : i.ndim = 0
    · have := hk (k, v) he
      have hk0 : k = [] := List.length_eq_zero_iff.mp (by simpa [h0] using this)
      subst hk0; simp
    · have := hk (k, v) he
      have h1 : i.ndim = 1 := by omega
      rw [drop1_eq_nil k (by simpa [h1] using this)]; simp

end Catii.IIdx
