import CatiiModel.Gen.AppendGen
import CatiiProofs.ShiftGenBridge
/-! `iindex.append` up to its final `shift_common()` as REGENERATED from the source (`tools/translate_append.py`) is the
model's `appendPre`, for receivers of at most two axes and operands with as many axes whose keys have that arity. -/
namespace Catii.IIdx

/-- the compiled "get, then assign or append" is the model's `addRows` -/
theorem upsert_is_addRows (es : List (Key × Rows)) (k : Key) (rows : Rows) :
    (if (dget es k).isNone = true then dset es k rows else dset es k ((dget es k).getD [] ++ rows)) = addRows es k rows := by
  unfold addRows
  cases dget es k <;> simp

theorem shiftRows_length (n : Nat) (rows : Rows) : (shiftRows n rows).length = rows.length := by
  simp [shiftRows]

theorem gen_appendPre_eq (i other : IIndex) (h2 : i.ndim ≤ 2) (hsame : other.shape.length = i.shape.length)
    (hk : ∀ e ∈ other.entries, e.1.length = other.ndim) :
    Gen.appendPreGen i other = appendPre i other := by
  unfold Gen.appendPreGen appendPre
  have hentries : ∀ es0 : List (Key × Rows),
      other.entries.foldl (fun es (x : Key × Rows) => match x with
        | (coords, new_rowids) =>
          if (coords.getD 0 0 != i.common) = true then
            if (dget es coords).isNone = true then dset es coords (shiftRows i.nrows new_rowids)
            else dset es coords ((dget es coords).getD [] ++ shiftRows i.nrows new_rowids)
          else es) es0
      = other.entries.foldl (fun es (e : Key × Rows) =>
          if (val0 e.1 != i.common) = true then addRows es e.1 (shiftRows i.nrows e.2) else es) es0 := by
    intro es0
    congr 1
    funext es x
    obtain ⟨k, r⟩ := x
    show (if (k.getD 0 0 != i.common) = true then _ else es) = _
    rw [getD0_eq_val0, upsert_is_addRows]
  have ho2 : other.ndim ≤ 2 := by unfold IIndex.ndim at *; omega
  dsimp only
  rw [IIndex.mk.injEq]
  refine ⟨?_, rfl, rfl⟩
  by_cases hn : i.shape.length > 1
  · have hnd : i.ndim = 2 := by have : i.ndim > 1 := hn; omega
    have hond : other.ndim > 1 := by unfold IIndex.ndim at *; omega
    simp only [hn, if_true]
    rw [hentries]
    by_cases hc : (other.common != i.common) = true
    · simp only [hc, if_true]
      obtain ⟨n, m, hs⟩ : ∃ n m, i.shape = [n, m] := by
        have : i.shape.length = 2 := hnd
        match hsh : i.shape, this with
        | [a, b], _ => exact ⟨a, b, rfl⟩
      have hd : i.shape.drop 1 = [m] := by rw [hs]; rfl
      have hg : i.shape.getD 1 0 = m := by rw [hs]; rfl
      rw [hd, hg, hiCells_single, List.foldl_map]
      refine congrArg (fun f => List.foldl f _ (List.range m)) ?_
      funext es col
      rw [gen_commonRowids_eq other (some (col : Int)) hk ho2 (fun _ => by simp)]
      unfold commonRowids
      simp only [hond, if_true]
      rw [upsert_is_addRows]
      cases hcr : shiftRows i.nrows (commonRowidsHi other [(col : Int)]) with
      | nil => simp
      | cons a l => simp
    · simp only [hc, if_false]; simp
  · have hnd : ¬ i.ndim > 1 := hn
    have hond : ¬ other.ndim > 1 := by unfold IIndex.ndim at *; omega
    simp only [hn, if_false]
    rw [hentries]
    by_cases hc : (other.common != i.common) = true
    · simp only [hc, if_true]
      have hd : i.shape.drop 1 = [] := by
        have : i.shape.length ≤ 1 := by omega
        match hsh : i.shape, this with
        | [], _ => rfl
        | [a], _ => rfl
      rw [hd]
      simp only [hiCells, List.foldl_cons, List.foldl_nil]
      rw [gen_commonRowids_eq other none hk ho2 (fun h => absurd h hond)]
      unfold commonRowids
      simp only [hond, if_false]
      rw [upsert_is_addRows]
      cases hcr : shiftRows i.nrows (commonRowidsHi other []) with
      | nil => simp
      | cons a l => simp
    · simp only [hc, if_false]; simp

end Catii.IIdx
