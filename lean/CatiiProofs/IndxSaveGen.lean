import CatiiModel.Gen.IndxSaveGen
import CatiiProofs.IndxSave
import CatiiProofs.IndxTop
/-!
# The writer program REGENERATED from `IndxIO.save` writes exactly what the model `save` writes

`Gen.saveProgram` lists every write of the current `IndxIO.save` in source order (struct format width and field),
`Gen.bufferSizeGen` is the payload-size formula it computes beforehand (`tools/translate_indx.py`).
-/
namespace Catii.Indx

theorem bufferSizeGen_eq : Gen.bufferSizeGen = bufferSize := rfl

/-- the bytes of the regenerated writer program: magic, version, size, then the documented payload -/
theorem saveProgram_bytes (es : List Entry) (common arity wi wr size : Nat)
    (hfw : Gen.formatWidth wi = wi) (ha : arity < 256) (hwi : wi < 256) (hwr : wr < 256) :
    runW ⟨es, common, arity, wi, wr, size⟩ Gen.saveProgram
      = Gen.indxMagic ++ Gen.indxVersion ++ encLE 8 size ++ payload es common arity wi wr := by
  have e1 : ∀ n, n < 256 → encLE 1 n = [n] := by
    intro n hn; simp [encLE, Nat.mod_eq_of_lt hn]
  simp only [runW, Gen.saveProgram, List.flatMap_cons, List.flatMap_nil, interpW, WCtx.field, payload, hfw,
    e1 arity ha, e1 wi hwi, e1 wr hwr, Gen.indxMagic, Gen.indxVersion, List.append_nil, List.append_assoc]

theorem formatWidth_legal (w : Nat) (h : LegalW w) : Gen.formatWidth w = w ∧ w < 256 := by
  rcases h with rfl | rfl | rfl | rfl <;> simp [Gen.formatWidth]

/-- on every input the writer accepts, the model `save` returns exactly the bytes the REGENERATED writer program emits,
with the payload size the regenerated formula computes -/
theorem generated_writer_is_save (es : List Entry) (c : Nat) (h : InScope es c) :
    save es c = .ok (runW ⟨es, c, arityOf es, indexWordSize es c, 4,
      Gen.bufferSizeGen es.length (arityOf es) (indexWordSize es c) 4 (es.map (·.rowids.length)).sum⟩ Gen.saveProgram) := by
  rw [save_of_scope es c h]
  have hf := fits_of_scope es c h
  obtain ⟨hfw, hwi⟩ := formatWidth_legal _ hf.wi_legal
  rw [saveProgram_bytes es c (arityOf es) (indexWordSize es c) 4 _ hfw (by have := h.arity_le; omega) hwi (by omega)]
  rw [bufferSizeGen_eq, ← payload_length es c (arityOf es) (indexWordSize es c) 4 h.uniform]
  rfl

end Catii.Indx
