import CatiiModel.Sched
/-! Disjoint footprints make every interleaving equal to the serial run; interrupt semantics. -/
namespace Catii.Sched

variable {L V : Type}

theorem runS_cons (s : TStep L V) (sch : List (TStep L V)) (σ : L → V) :
    runS (s :: sch) σ = runS sch (s.act σ) := rfl

/-- locations outside every footprint are never written -/
theorem outside_untouched (F : Nat → L → Prop) (sch : List (TStep L V)) (hd : ∀ s ∈ sch, Disciplined F s)
    (σ : L → V) (l : L) (hl : ∀ i, ¬ F i l) : runS sch σ l = σ l := by
  induction sch generalizing σ with
  | nil => rfl
  | cons s rest ih =>
    rw [runS_cons, ih (fun x hx => hd x (List.mem_cons_of_mem _ hx))]
    exact (hd s List.mem_cons_self).frame σ l (hl s.tid)

/-- on a task's footprint, a schedule behaves like that task's own steps run alone -/
theorem per_task (F : Nat → L → Prop) (hdisj : ∀ i j, i ≠ j → ∀ l, ¬ (F i l ∧ F j l))
    (sch : List (TStep L V)) (hd : ∀ s ∈ sch, Disciplined F s) (i : Nat) :
    ∀ (σ σ' : L → V), (∀ l, F i l → σ l = σ' l) →
      ∀ l, F i l → runS sch σ l = runS (sch.filter (fun s => s.tid == i)) σ' l := by
  induction sch with
  | nil => intro σ σ' h l hl; exact h l hl
  | cons s rest ih =>
    intro σ σ' h l hl
    have hs := hd s List.mem_cons_self
    have ih' := ih (fun x hx => hd x (List.mem_cons_of_mem _ hx))
    rw [runS_cons]
    by_cases hi : s.tid = i
    · have : (s.tid == i) = true := by simpa using hi
      simp only [List.filter_cons, this, if_true, runS_cons]
      apply ih' _ _ _ l hl
      intro l' hl'
      subst hi
      exact hs.loc σ σ' h l' hl'
    · have : (s.tid == i) = false := by simpa using hi
      simp only [List.filter_cons, this, Bool.false_eq_true, if_false]
      apply ih' _ _ _ l hl
      intro l' hl'
      rw [hs.frame σ l' (fun hF => hdisj s.tid i hi l' ⟨hF, hl'⟩)]
      exact h l' hl'

/-- **schedule independence**: two schedules made of the same per-task step sequences — in
particular any interleaving and the serial order — produce the same store -/
theorem schedule_independent (F : Nat → L → Prop) (hdisj : ∀ i j, i ≠ j → ∀ l, ¬ (F i l ∧ F j l))
    (sch sch' : List (TStep L V)) (hd : ∀ s ∈ sch, Disciplined F s) (hd' : ∀ s ∈ sch', Disciplined F s)
    (hsame : ∀ i, sch.filter (fun s => s.tid == i) = sch'.filter (fun s => s.tid == i)) (σ : L → V) :
    runS sch σ = runS sch' σ := by
  funext l
  by_cases hl : ∃ i, F i l
  · obtain ⟨i, hi⟩ := hl
    rw [per_task F hdisj sch hd i σ σ (fun _ _ => rfl) l hi,
      per_task F hdisj sch' hd' i σ σ (fun _ _ => rfl) l hi, hsame i]
  · have hno : ∀ i, ¬ F i l := fun i h => hl ⟨i, h⟩
    rw [outside_untouched F sch hd σ l hno, outside_untouched F sch' hd' σ l hno]

/-- the views handed to distinct sub-cubes are disjoint: cells `js ++ c` and `js' ++ c'` with
different flattened sub-cube coordinates of the same length never coincide -/
theorem footprints_disjoint (js js' c c' : List Nat) (hlen : js.length = js'.length) (hne : js ≠ js') :
    js ++ c ≠ js' ++ c' := by
  intro h
  exact hne (List.append_inj_left h hlen)

/-! ### interrupts -/
theorem calcSerial_go_none {E S R : Type} (tasks : List (S → S)) (raises : Nat → Option E) (reduce : S → R)
    (i : Nat) (σ : S) (h : ∀ j, i ≤ j → j < i + tasks.length → raises j = none) :
    calcSerial.go raises reduce tasks i σ =
      { result := .ok (reduce (tasks.foldl (fun σ t => t σ) σ)), calls := i + tasks.length } := by
  induction tasks generalizing i σ with
  | nil => simp [calcSerial.go]
  | cons t rest ih =>
    simp only [calcSerial.go, h i (Nat.le_refl _) (by simp), List.foldl_cons, List.length_cons]
    rw [ih (i + 1) (t σ) (fun j h1 h2 => h j (by omega) (by simp; omega))]
    congr 1; omega

/-- no invocation raises ⇒ the callback is consulted exactly once per sub-cube and the result is the
uninterrupted one -/
theorem serial_no_interrupt {E S R : Type} (tasks : List (S → S)) (raises : Nat → Option E) (init : S)
    (reduce : S → R) (h : ∀ j < tasks.length, raises j = none) :
    calcSerial tasks raises init reduce =
      { result := .ok (reduce (tasks.foldl (fun σ t => t σ) init)), calls := tasks.length } := by
  unfold calcSerial
  rw [calcSerial_go_none tasks raises reduce 0 init (fun j _ h2 => h j (by omega))]
  simp

theorem calcSerial_go_first {E S R : Type} (tasks : List (S → S)) (raises : Nat → Option E) (reduce : S → R)
    (i : Nat) (σ : S) (k : Nat) (e : E) (hk : i ≤ k) (hkl : k < i + tasks.length) (hr : raises k = some e)
    (hbefore : ∀ j, i ≤ j → j < k → raises j = none) :
    calcSerial.go raises reduce tasks i σ = { result := .error e, calls := k + 1 } := by
  induction tasks generalizing i σ with
  | nil => simp at hkl; omega
  | cons t rest ih =>
    by_cases hik : i = k
    · subst hik; simp [calcSerial.go, hr]
    · simp only [calcSerial.go, hbefore i (Nat.le_refl _) (by omega)]
      exact ih (i + 1) (t σ) (by omega) (by simp at hkl; omega) (fun j h1 h2 => hbefore j (by omega) h2)

/-- the first raising invocation stops the serial evaluation: its exception is propagated and the
callback was consulted exactly up to that sub-cube -/
theorem serial_interrupt {E S R : Type} (tasks : List (S → S)) (raises : Nat → Option E) (init : S)
    (reduce : S → R) (k : Nat) (e : E) (hk : k < tasks.length) (hr : raises k = some e)
    (hbefore : ∀ j < k, raises j = none) :
    calcSerial tasks raises init reduce = { result := .error e, calls := k + 1 } := by
  unfold calcSerial
  exact calcSerial_go_first tasks raises reduce 0 init k e (Nat.zero_le _) (by omega) hr (fun j _ h => hbefore j h)

/-- pooled: an exception is propagated iff some invocation raised, it is one of the raised ones, and
every sub-cube's callback was consulted -/
theorem pooled_interrupt {E S R : Type} (tasks : List (S → S)) (raises : Nat → Option E) (init : S)
    (reduce : S → R) (pick : List Nat → Nat) :
    (calcPooled tasks raises init reduce pick).calls = tasks.length ∧
    ((∀ j < tasks.length, raises j = none) → ∃ r, (calcPooled tasks raises init reduce pick).result = .ok r) ∧
    ((∃ j < tasks.length, (raises j).isSome) →
      ∃ j < tasks.length, ∃ e, raises j = some e ∧ (calcPooled tasks raises init reduce pick).result = .error e) := by
  unfold calcPooled
  simp only
  cases hraising : (List.range tasks.length).filter (fun i => (raises i).isSome) with
  | nil =>
    refine ⟨rfl, fun _ => ⟨_, rfl⟩, ?_⟩
    rintro ⟨j, hj, hs⟩
    have : j ∈ (List.range tasks.length).filter (fun i => (raises i).isSome) := by
      simp [hj, hs]
    rw [hraising] at this; simp at this
  | cons r rs =>
    simp only
    have hmem : ∀ x ∈ r :: rs, x < tasks.length ∧ (raises x).isSome = true := by
      intro x hx
      rw [← hraising] at hx
      simpa using hx
    have hkmem0 : (if pick (r :: rs) ∈ r :: rs then pick (r :: rs) else r) ∈ r :: rs := by
      split
      · assumption
      · exact List.mem_cons_self
    generalize (if pick (r :: rs) ∈ r :: rs then pick (r :: rs) else r) = k at hkmem0 ⊢
    have hkmem := hkmem0
    obtain ⟨hklt, hksome⟩ := hmem k hkmem
    cases hrk : raises k with
    | none => rw [hrk] at hksome; simp at hksome
    | some e =>
      refine ⟨rfl, ?_, fun _ => ⟨k, hklt, e, hrk, rfl⟩⟩
      intro hnone
      rw [hnone k hklt] at hrk; cases hrk

end Catii.Sched
