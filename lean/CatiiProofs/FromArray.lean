import CatiiProofs.IIndexBasic
import CatiiProofs.Dict
/-! `from_array`: whichever construction strategy runs, every cell of the resulting index holds
the (mapped) input value. Core Lean only. -/
namespace Catii.IIdx
open Catii.Kern

theorem mem_whereEq (l : List Int) (v : Int) (r : Nat) :
    r ∈ whereEq l v ↔ r < l.length ∧ l.getD r 0 = v := by
  simp [whereEq]

theorem col_length (a : Arr) (c : Nat) : (a.col c).length = a.nrows := by simp [Arr.col]

theorem col_getD (a : Arr) (c r : Nat) (hr : r < a.nrows) : (a.col c).getD r 0 = a.at r c := by
  simp [Arr.col, List.getD_eq_getElem?_getD, hr]

/-- the cells listed by an entries list built for array `a` under mapping `m` with common `cm`:
exactly the processed cells whose mapped value is not the common one, each under its mapped value -/
def BuiltFor (a : Arr) (m : Option (List (Int × Int))) (cm : Int) (done : Nat → Nat → Prop)
    (es : List (Key × Rows)) : Prop :=
  KeysDistinct es ∧ ∀ k r, Listed es k r ↔
    ∃ col ∈ a.cols, r < a.nrows ∧ done r col ∧ ∃ mv, mapVal m (a.at r col) = .ok mv ∧ mv ≠ cm ∧ k = a.key mv col

/-! ### the per-value `where` path -/
theorem where_inner (a : Arr) (m : Option (List (Int × Int))) (cm : Int) (c mv : Int)
    (hmv : mapVal m c = .ok mv) (hne : mv ≠ cm) (done : Nat → Nat → Prop)
    (cols : List Nat) (pre : List Nat) (hcols : a.cols = pre ++ cols)
    (hfresh : ∀ r col, done r col → a.at r col ≠ c) (es : List (Key × Rows))
    (h : BuiltFor a m cm (fun r col => done r col ∨ (col ∈ pre ∧ a.at r col = c)) es) :
    BuiltFor a m cm (fun r col => done r col ∨ (col ∈ a.cols ∧ a.at r col = c))
      (cols.foldl (fun es col =>
        let rows := whereEq (a.col col) c
        if rows.isEmpty then es else dunion es (a.key mv col) rows) es) := by
  induction cols generalizing pre es with
  | nil =>
    simp only [List.foldl_nil]
    rw [List.append_nil] at hcols
    rw [hcols]; exact h
  | cons col rest ih =>
    simp only [List.foldl_cons]
    apply ih (pre ++ [col]) (by rw [hcols]; simp)
    obtain ⟨hk, hl⟩ := h
    have hcolmem : col ∈ a.cols := by rw [hcols]; simp
    by_cases hemp : (whereEq (a.col col) c).isEmpty
    · simp only [hemp, if_true]
      refine ⟨hk, fun k r => ?_⟩
      rw [hl k r]
      constructor
      · rintro ⟨col', hc', hr, hd, rest'⟩
        refine ⟨col', hc', hr, ?_, rest'⟩
        rcases hd with hd | ⟨hp, hv⟩
        · exact Or.inl hd
        · exact Or.inr ⟨List.mem_append.mpr (Or.inl hp), hv⟩
      · rintro ⟨col', hc', hr, hd, rest'⟩
        refine ⟨col', hc', hr, ?_, rest'⟩
        rcases hd with hd | ⟨hp, hv⟩
        · exact Or.inl hd
        · rcases List.mem_append.mp hp with hp | hp
          · exact Or.inr ⟨hp, hv⟩
          · simp at hp; subst hp
            have : r ∈ whereEq (a.col col') c := (mem_whereEq _ _ _).mpr ⟨by rw [col_length]; exact hr, by rw [col_getD a _ r hr]; exact hv⟩
            have hnil : whereEq (a.col col') c = [] := by simpa using hemp
            rw [hnil] at this; simp at this
    · simp only [hemp, Bool.false_eq_true, if_false]
      refine ⟨dunion_keysDistinct es hk _ _, fun k r => ?_⟩
      rw [listed_dunion es hk, hl k r]
      constructor
      · rintro (⟨col', hc', hr, hd, rest'⟩ | ⟨hkk, hrw⟩)
        · refine ⟨col', hc', hr, ?_, rest'⟩
          rcases hd with hd | ⟨hp, hv⟩
          · exact Or.inl hd
          · exact Or.inr ⟨List.mem_append.mpr (Or.inl hp), hv⟩
        · obtain ⟨hr1, hr2⟩ := (mem_whereEq _ _ _).mp hrw
          rw [col_length] at hr1
          rw [col_getD a _ r hr1] at hr2
          exact ⟨col, hcolmem, hr1, Or.inr ⟨List.mem_append.mpr (Or.inr (by simp)), hr2⟩, mv, by rw [hr2]; exact hmv, hne, hkk⟩
      · rintro ⟨col', hc', hr, hd, mv', hmv', hne', hkk⟩
        rcases hd with hd | ⟨hp, hv⟩
        · exact Or.inl ⟨col', hc', hr, Or.inl hd, mv', hmv', hne', hkk⟩
        · rcases List.mem_append.mp hp with hp | hp
          · exact Or.inl ⟨col', hc', hr, Or.inr ⟨hp, hv⟩, mv', hmv', hne', hkk⟩
          · simp at hp; subst hp
            rw [hv, hmv] at hmv'; cases hmv'
            exact Or.inr ⟨hkk, (mem_whereEq _ _ _).mpr ⟨by rw [col_length]; exact hr, by rw [col_getD a _ r hr]; exact hv⟩⟩

theorem buildWhere_built (a : Arr) (m : Option (List (Int × Int))) (cm : Int)
    (counts : List (Int × Int)) (hnd : (counts.map (·.1)).Nodup) (res : List (Key × Rows))
    (h : buildWhere a m cm counts = .ok res) :
    BuiltFor a m cm (fun r col => ∃ c ∈ counts, c.1 = a.at r col) res := by
  unfold buildWhere at h
  have gen : ∀ (rest pre : List (Int × Int)) (es : List (Key × Rows)),
      ((pre ++ rest).map (·.1)).Nodup →
      BuiltFor a m cm (fun r col => ∃ c ∈ pre, c.1 = a.at r col) es →
      rest.foldlM (whereStep a m cm) es = .ok res →
      BuiltFor a m cm (fun r col => ∃ c ∈ pre ++ rest, c.1 = a.at r col) res := by
    intro rest
    induction rest with
    | nil =>
      intro pre es _ hb hres
      simp only [List.foldlM_nil, pure, Except.pure] at hres
      cases hres
      simpa using hb
    | cons c rest ih =>
      intro pre es hnd hb hres
      rw [List.foldlM_cons] at hres
      cases hmv : mapVal m c.1 with
      | error e => simp only [whereStep, hmv, bind, Except.bind] at hres; cases hres
      | ok mv =>
        simp only [whereStep, hmv, bind, Except.bind] at hres
        have hnd' : ((pre ++ [c] ++ rest).map (·.1)).Nodup := by simpa using hnd
        have hfreshc : ∀ c' ∈ pre, c'.1 ≠ c.1 := by
          intro c' hc' heq
          have := hnd
          simp only [List.map_append, List.map_cons] at this
          rw [List.nodup_append] at this
          exact this.2.2 _ (List.mem_map.mpr ⟨c', hc', rfl⟩) _ List.mem_cons_self heq
        have step : BuiltFor a m cm (fun r col => ∃ c' ∈ pre ++ [c], c'.1 = a.at r col)
            (if (mv == cm) = true then es else a.cols.foldl (fun es col =>
              let rows := whereEq (a.col col) c.1
              if rows.isEmpty then es else dunion es (a.key mv col) rows) es) := by
          by_cases hcm : mv = cm
          · simp only [hcm, beq_self_eq_true, if_true]
            obtain ⟨hk, hl⟩ := hb
            refine ⟨hk, fun k r => ?_⟩
            rw [hl k r]
            constructor
            · rintro ⟨col, hc, hr, ⟨c', hc', hv⟩, rest'⟩
              exact ⟨col, hc, hr, ⟨c', List.mem_append.mpr (Or.inl hc'), hv⟩, rest'⟩
            · rintro ⟨col, hc, hr, ⟨c', hc', hv⟩, mv', hmv', hne', hkk⟩
              rcases List.mem_append.mp hc' with hc' | hc'
              · exact ⟨col, hc, hr, ⟨c', hc', hv⟩, mv', hmv', hne', hkk⟩
              · simp at hc'; subst hc'
                rw [← hv, hmv] at hmv'; cases hmv'
                exact absurd hcm hne'
          · have : (mv == cm) = false := by simpa using hcm
            simp only [this, Bool.false_eq_true, if_false]
            have hin := where_inner a m cm c.1 mv hmv hcm (fun r col => ∃ c' ∈ pre, c'.1 = a.at r col)
              a.cols [] (by simp) (by
                rintro r col ⟨c', hc', hv⟩ heq
                exact hfreshc c' hc' (by rw [hv, heq])) es (by
                obtain ⟨hk, hl⟩ := hb
                refine ⟨hk, fun k r => ?_⟩
                rw [hl k r]
                constructor
                · rintro ⟨col, hc, hr, hd, rest'⟩; exact ⟨col, hc, hr, Or.inl hd, rest'⟩
                · rintro ⟨col, hc, hr, hd, rest'⟩
                  rcases hd with hd | ⟨hp, _⟩
                  · exact ⟨col, hc, hr, hd, rest'⟩
                  · simp at hp)
            obtain ⟨hk, hl⟩ := hin
            refine ⟨hk, fun k r => ?_⟩
            rw [hl k r]
            constructor
            · rintro ⟨col, hc, hr, hd, rest'⟩
              refine ⟨col, hc, hr, ?_, rest'⟩
              rcases hd with ⟨c', hc', hv⟩ | ⟨_, hv⟩
              · exact ⟨c', List.mem_append.mpr (Or.inl hc'), hv⟩
              · exact ⟨c, List.mem_append.mpr (Or.inr (by simp)), hv.symm⟩
            · rintro ⟨col, hc, hr, ⟨c', hc', hv⟩, rest'⟩
              refine ⟨col, hc, hr, ?_, rest'⟩
              rcases List.mem_append.mp hc' with hc' | hc'
              · exact Or.inl ⟨c', hc', hv⟩
              · simp at hc'; subst hc'; exact Or.inr ⟨hc, hv.symm⟩
        have := ih (pre ++ [c]) _ hnd' step hres
        simpa using this
  have := gen counts [] [] (by simpa using hnd) ⟨List.Pairwise.nil, fun k r => by simp [Listed]⟩ h
  simpa using this

/-! ### the per-row scan path -/
theorem scan_rows (a : Arr) (m : Option (List (Int × Int))) (cm : Int) (col : Nat) (hcol : col ∈ a.cols)
    (done : Nat → Nat → Prop) (hdone : ∀ r, ¬ done r col)
    (rs pre : List Nat) (hr : ∀ r ∈ pre ++ rs, r < a.nrows) (es res : List (Key × Rows))
    (hb : BuiltFor a m cm (fun r c => done r c ∨ (c = col ∧ r ∈ pre)) es)
    (h : rs.foldlM (scanStep a m cm col) es = .ok res) :
    BuiltFor a m cm (fun r c => done r c ∨ (c = col ∧ r ∈ pre ++ rs)) res := by
  induction rs generalizing pre es with
  | nil =>
    simp only [List.foldlM_nil, pure, Except.pure] at h
    cases h; simpa using hb
  | cons r0 rest ih =>
    rw [List.foldlM_cons] at h
    cases hmv : mapVal m (a.at r0 col) with
    | error e => simp only [scanStep, hmv, bind, Except.bind] at h; cases h
    | ok mv =>
      simp only [scanStep, hmv, bind, Except.bind] at h
      have hr0 : r0 < a.nrows := hr r0 (by simp)
      have step : BuiltFor a m cm (fun r c => done r c ∨ (c = col ∧ r ∈ pre ++ [r0]))
          (if (mv == cm) = true then es else dappend es (a.key mv col) r0) := by
        obtain ⟨hk, hl⟩ := hb
        by_cases hcm : mv = cm
        · simp only [hcm, beq_self_eq_true, if_true]
          refine ⟨hk, fun k r => ?_⟩
          rw [hl k r]
          constructor
          · rintro ⟨c, hc, hrr, hd, rest'⟩
            refine ⟨c, hc, hrr, ?_, rest'⟩
            rcases hd with hd | ⟨h1, h2⟩
            · exact Or.inl hd
            · exact Or.inr ⟨h1, List.mem_append.mpr (Or.inl h2)⟩
          · rintro ⟨c, hc, hrr, hd, mv', hmv', hne', hkk⟩
            rcases hd with hd | ⟨h1, h2⟩
            · exact ⟨c, hc, hrr, Or.inl hd, mv', hmv', hne', hkk⟩
            · rcases List.mem_append.mp h2 with h2 | h2
              · exact ⟨c, hc, hrr, Or.inr ⟨h1, h2⟩, mv', hmv', hne', hkk⟩
              · simp at h2; subst h1 h2
                rw [hmv] at hmv'; cases hmv'
                exact absurd hcm hne'
        · have : (mv == cm) = false := by simpa using hcm
          simp only [this, Bool.false_eq_true, if_false]
          refine ⟨dappend_keysDistinct es hk _ _, fun k r => ?_⟩
          rw [listed_dappend es hk, hl k r]
          constructor
          · rintro (⟨c, hc, hrr, hd, rest'⟩ | ⟨hkk, rfl⟩)
            · refine ⟨c, hc, hrr, ?_, rest'⟩
              rcases hd with hd | ⟨h1, h2⟩
              · exact Or.inl hd
              · exact Or.inr ⟨h1, List.mem_append.mpr (Or.inl h2)⟩
            · exact ⟨col, hcol, hr0, Or.inr ⟨rfl, by simp⟩, mv, hmv, hcm, hkk⟩
          · rintro ⟨c, hc, hrr, hd, mv', hmv', hne', hkk⟩
            rcases hd with hd | ⟨h1, h2⟩
            · exact Or.inl ⟨c, hc, hrr, Or.inl hd, mv', hmv', hne', hkk⟩
            · rcases List.mem_append.mp h2 with h2 | h2
              · exact Or.inl ⟨c, hc, hrr, Or.inr ⟨h1, h2⟩, mv', hmv', hne', hkk⟩
              · simp at h2; subst h1 h2
                rw [hmv] at hmv'; cases hmv'
                exact Or.inr ⟨hkk, rfl⟩
      have := ih (pre ++ [r0]) (by simpa using hr) _ step h
      simpa using this

theorem buildScan_built (a : Arr) (m : Option (List (Int × Int))) (cm : Int) (hcn : a.cols.Nodup)
    (res : List (Key × Rows)) (h : buildScan a m cm = .ok res) :
    BuiltFor a m cm (fun _ _ => True) res := by
  unfold buildScan at h
  have gen : ∀ (rest pre : List Nat) (es : List (Key × Rows)),
      a.cols = pre ++ rest →
      BuiltFor a m cm (fun _ c => c ∈ pre) es →
      rest.foldlM (fun es col => (List.range a.nrows).foldlM (scanStep a m cm col) es) es = .ok res →
      BuiltFor a m cm (fun _ c => c ∈ pre ++ rest) res := by
    intro rest
    induction rest with
    | nil =>
      intro pre es _ hb hres
      simp only [List.foldlM_nil, pure, Except.pure] at hres
      cases hres; simpa using hb
    | cons col rest ih =>
      intro pre es hcols hb hres
      rw [List.foldlM_cons] at hres
      cases hin : (List.range a.nrows).foldlM (scanStep a m cm col) es with
      | error e => simp only [hin, bind, Except.bind] at hres; cases hres
      | ok es' =>
        simp only [hin, bind, Except.bind] at hres
        have hcolmem : col ∈ a.cols := by rw [hcols]; simp
        have hnotpre : col ∉ pre := by
          rw [hcols] at hcn
          intro hp
          have := (List.nodup_append.mp hcn).2.2 col hp col (by simp)
          exact this rfl
        have hb' : BuiltFor a m cm (fun r c => c ∈ pre ∨ (c = col ∧ r ∈ ([] : List Nat))) es := by
          obtain ⟨hk, hl⟩ := hb
          refine ⟨hk, fun k r => ?_⟩
          rw [hl k r]
          constructor
          · rintro ⟨c, hc, hrr, hd, rest'⟩; exact ⟨c, hc, hrr, Or.inl hd, rest'⟩
          · rintro ⟨c, hc, hrr, hd, rest'⟩
            rcases hd with hd | ⟨_, h2⟩
            · exact ⟨c, hc, hrr, hd, rest'⟩
            · simp at h2
        have hrows := scan_rows a m cm col hcolmem (fun _ c => c ∈ pre) (fun _ => hnotpre)
          (List.range a.nrows) [] (by simp) es es' hb' hin
        have step : BuiltFor a m cm (fun _ c => c ∈ pre ++ [col]) es' := by
          obtain ⟨hk, hl⟩ := hrows
          refine ⟨hk, fun k r => ?_⟩
          rw [hl k r]
          constructor
          · rintro ⟨c, hc, hrr, hd, rest'⟩
            refine ⟨c, hc, hrr, ?_, rest'⟩
            rcases hd with hd | ⟨h1, _⟩
            · exact List.mem_append.mpr (Or.inl hd)
            · exact List.mem_append.mpr (Or.inr (by simp [h1]))
          · rintro ⟨c, hc, hrr, hd, rest'⟩
            refine ⟨c, hc, hrr, ?_, rest'⟩
            rcases List.mem_append.mp hd with hd | hd
            · exact Or.inl hd
            · simp at hd; exact Or.inr ⟨hd, by simpa using hrr⟩
        have := ih (pre ++ [col]) es' (by rw [hcols]; simp) step hres
        simpa using this
  have := gen a.cols [] [] (by simp) ⟨List.Pairwise.nil, fun k r => by simp [Listed]⟩ h
  obtain ⟨hk, hl⟩ := this
  refine ⟨hk, fun k r => ?_⟩
  rw [hl k r]
  constructor
  · rintro ⟨c, hc, hrr, _, rest'⟩; exact ⟨c, hc, hrr, trivial, rest'⟩
  · rintro ⟨c, hc, hrr, _, rest'⟩; exact ⟨c, hc, hrr, by simpa using hc, rest'⟩

/-! ### counting -/
theorem insertSorted_keys (v : Int) (cs : List (Int × Int)) (hs : (cs.map (·.1)).Pairwise (· < ·)) :
    ((insertSorted v cs).map (·.1)).Pairwise (· < ·) ∧
    ∀ x, x ∈ (insertSorted v cs).map (·.1) ↔ x = v ∨ x ∈ cs.map (·.1) := by
  induction cs with
  | nil => simp [insertSorted]
  | cons c cs ih =>
    have hs' := List.pairwise_cons.mp hs
    simp only [insertSorted]
    by_cases h1 : v < c.1
    · simp only [h1, if_true, List.map_cons]
      refine ⟨List.pairwise_cons.mpr ⟨?_, hs⟩, fun x => by simp⟩
      intro x hx
      simp only [List.map_cons, List.mem_cons] at hx
      rcases hx with rfl | hx
      · exact h1
      · have : c.1 < x := hs'.1 x hx
        omega
    · by_cases h2 : v = c.1
      · have : (v == c.1) = true := by simpa using h2
        simp only [h1, if_false, this, if_true, List.map_cons]
        exact ⟨hs, fun x => by simp [h2]⟩
      · have : (v == c.1) = false := by simpa using h2
        simp only [h1, if_false, this, Bool.false_eq_true, List.map_cons]
        obtain ⟨ih1, ih2⟩ := ih hs'.2
        refine ⟨List.pairwise_cons.mpr ⟨?_, ih1⟩, fun x => ?_⟩
        · intro x hx
          rcases (ih2 x).mp hx with rfl | hx
          · omega
          · have : c.1 < x := hs'.1 x hx
            exact this
        · simp only [List.mem_cons, ih2 x]
          constructor
          · rintro (h | h | h)
            · exact Or.inr (Or.inl h)
            · exact Or.inl h
            · exact Or.inr (Or.inr h)
          · rintro (h | h | h)
            · exact Or.inr (Or.inl h)
            · exact Or.inl h
            · exact Or.inr (Or.inr h)

theorem countValues_keys (l : List Int) :
    ((countValues l).map (·.1)).Pairwise (· < ·) ∧ ∀ x, x ∈ (countValues l).map (·.1) ↔ x ∈ l := by
  unfold countValues
  have gen : ∀ (l : List Int) (cs : List (Int × Int)), (cs.map (·.1)).Pairwise (· < ·) →
      ((l.foldl (fun cs v => insertSorted v cs) cs).map (·.1)).Pairwise (· < ·) ∧
      ∀ x, x ∈ (l.foldl (fun cs v => insertSorted v cs) cs).map (·.1) ↔ x ∈ l ∨ x ∈ cs.map (·.1) := by
    intro l
    induction l with
    | nil => intro cs hs; exact ⟨hs, fun x => by simp⟩
    | cons v vs ih =>
      intro cs hs
      simp only [List.foldl_cons]
      obtain ⟨h1, h2⟩ := insertSorted_keys v cs hs
      obtain ⟨g1, g2⟩ := ih _ h1
      refine ⟨g1, fun x => ?_⟩
      rw [g2 x, h2 x]
      simp only [List.mem_cons]
      constructor
      · rintro (h | h | h)
        · exact Or.inl (Or.inr h)
        · exact Or.inl (Or.inl h)
        · exact Or.inr h
      · rintro ((h | h) | h)
        · exact Or.inr (Or.inl h)
        · exact Or.inl h
        · exact Or.inr (Or.inr h)
  have := gen l [] List.Pairwise.nil
  exact ⟨this.1, fun x => by simpa using this.2 x⟩

/-! ### from the built entries to the dense content -/
theorem key_hi_inj (a : Arr) (mv mv' : Int) (c c' : Nat) (hc : c ∈ a.cols) (hc' : c' ∈ a.cols)
    (h : (a.key mv c).drop 1 = (a.key mv' c').drop 1) : c = c' := by
  unfold Arr.key Arr.cols at *
  by_cases h2 : a.twoD
  · simp [h2] at h; exact_mod_cast h
  · simp [h2] at hc hc'; rw [hc, hc']

theorem built_dense (a : Arr) (m : Option (List (Int × Int))) (cm : Int) (es : List (Key × Rows))
    (hb : BuiltFor a m cm (fun _ _ => True) es) (shape : List Nat)
    (r : Nat) (hr : r < a.nrows) (col : Nat) (hcol : col ∈ a.cols) (mv : Int)
    (hmv : mapVal m (a.at r col) = .ok mv) :
    denseAt ⟨es, cm, shape⟩ r ((a.key mv col).drop 1) = mv := by
  obtain ⟨_, hl⟩ := hb
  have hall : ∀ e ∈ es, e.1.drop 1 = (a.key mv col).drop 1 → r ∈ e.2 → val0 e.1 = mv := by
    intro e he hhi hre
    obtain ⟨c', hc', _, _, mv', hmv', _, hk⟩ := (hl e.1 r).mp ⟨e.2, he, hre⟩
    rw [hk] at hhi
    have := key_hi_inj a mv' mv c' col hc' hcol hhi
    subst this
    rw [hmv] at hmv'; cases hmv'
    rw [hk]; unfold Arr.key val0; split <;> rfl
  by_cases hcm : mv = cm
  · rw [denseAt_of_not_mem]
    · exact hcm.symm
    · intro e he hhi hre
      obtain ⟨c', hc', _, _, mv', hmv', hne', hk⟩ := (hl e.1 r).mp ⟨e.2, he, hre⟩
      rw [hk] at hhi
      have := key_hi_inj a mv' mv c' col hc' hcol hhi
      subst this
      rw [hmv] at hmv'; cases hmv'
      exact hne' hcm
  · apply denseAt_eq
    · obtain ⟨rows, hm, hrr⟩ := (hl (a.key mv col) r).mpr ⟨col, hcol, hr, trivial, mv, hmv, hcm, rfl⟩
      exact ⟨(a.key mv col, rows), hm, rfl, hrr⟩
    · exact hall

/-- a rectangular 1-D or 2-D array -/
structure ArrOK (a : Arr) : Prop where
  ndim : a.shape.length = 1 ∨ a.shape.length = 2
  size : a.data.length = prod a.shape

theorem at_mem_data (a : Arr) (h : ArrOK a) (r col : Nat) (hr : r < a.nrows) (hc : col ∈ a.cols) :
    a.at r col ∈ a.data := by
  unfold Arr.at
  have hidx : r * a.ncols + col < a.data.length := by
    rw [h.size]
    unfold Arr.ncols Arr.cols Arr.twoD Arr.nrows at *
    rcases h.ndim with h1 | h2
    · match hs : a.shape with
      | [n] =>
        simp [hs] at hr hc ⊢
        subst hc; simp [prod]; exact hr
      | [] => simp [hs] at h1
      | _ :: _ :: _ => simp [hs] at h1
    · match hs : a.shape with
      | [n, c] =>
        simp [hs] at hr hc ⊢
        simp [prod]
        calc r * c + col < r * c + c := by omega
          _ = (r + 1) * c := by rw [Nat.add_mul]; simp
          _ ≤ n * c := Nat.mul_le_mul_right c hr
      | [] => simp [hs] at h2
      | [_] => simp [hs] at h2
      | _ :: _ :: _ :: _ => simp [hs] at h2
  rw [List.getD_eq_getElem?_getD, List.getElem?_eq_getElem hidx]
  simp

theorem cols_nodup (a : Arr) : a.cols.Nodup := by
  unfold Arr.cols; split
  · exact List.nodup_range
  · simp

end Catii.IIdx

namespace Catii.IIdx
open Catii.Kern

def countsOf (a : Arr) (o : FromOpts) : List (Int × Int) :=
  match o.counts with
  | some c => c
  | none => countValues a.data

/-- what a successful `from_array` did: chose a common value and ran one of the two builders -/
theorem fromArray_inv (a : Arr) (o : FromOpts) (idx : IIndex) (w : Bool)
    (h : fromArray a o = .ok (idx, w)) :
    ∃ es, idx = ⟨es, idx.common, a.shape⟩ ∧
      ((w = true ∧ buildWhere a o.mapping idx.common (countsOf a o) = .ok es) ∨
       (w = false ∧ buildScan a o.mapping idx.common = .ok es)) := by
  unfold fromArray at h
  simp only [bind, Except.bind, pure, Except.pure] at h
  split at h
  · cases h
  · split at h
    · cases h
    · rename_i fc _
      split at h
      · cases h
      · rename_i cm _
        split at h
        · cases h
        · rename_i w' _
          cases w' with
          | true =>
            simp only [if_true] at h
            split at h
            · cases h
            · rename_i es hes
              cases h
              exact ⟨es, rfl, Or.inl ⟨rfl, hes⟩⟩
          | false =>
            simp only [Bool.false_eq_true, if_false] at h
            split at h
            · cases h
            · rename_i es hes
              cases h
              exact ⟨es, rfl, Or.inr ⟨rfl, hes⟩⟩

end Catii.IIdx
