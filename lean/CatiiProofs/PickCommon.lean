import CatiiProofs.Counting
import CatiiProofs.FromArray
/-! The common value `from_array` picks when none is given is a most frequent (mapped) value (C15).
Core Lean only. -/
namespace Catii.IIdx
open Catii.Kern

/-! ### `bincount` / `unique`: exact counts -/

theorem lookup_insertSorted (v : Int) (cs : List (Int × Int)) (x : Int)
    (hs : (cs.map (·.1)).Pairwise (· < ·)) :
    lookup (insertSorted v cs) x = if x = v then some ((lookup cs v).getD 0 + 1) else lookup cs x := by
  induction cs with
  | nil =>
    by_cases h : x = v
    · subst h; simp [insertSorted, lookup]
    · have : (v == x) = false := by simpa using fun heq => h heq.symm
      simp [insertSorted, lookup, h, this]
  | cons c rest ih =>
    have hs' := List.pairwise_cons.mp hs
    simp only [insertSorted]
    by_cases h1 : v < c.1
    · simp only [h1, if_true]
      -- `v` is smaller than every key: it is not in `c :: rest`
      have hnot : lookup (c :: rest) v = none := by
        unfold lookup
        have : List.find? (fun p => p.1 == v) (c :: rest) = none := by
          apply List.find?_eq_none.mpr
          intro p hp
          simp only [beq_iff_eq]
          rcases List.mem_cons.mp hp with rfl | hp
          · omega
          · have := hs'.1 p.1 (List.mem_map.mpr ⟨p, hp, rfl⟩)
            simp only at this
            omega
        rw [this]; rfl
      by_cases h : x = v
      · subst h
        rw [if_pos rfl, hnot]
        simp [lookup]
      · have hvx : (v == x) = false := by simpa using fun heq => h heq.symm
        simp [lookup, List.find?_cons, hvx, h]
    · simp only [h1, if_false]
      by_cases h2 : v = c.1
      · have hb : (v == c.1) = true := by simpa using h2
        simp only [hb, if_true]
        by_cases h : x = v
        · subst h; simp [lookup, List.find?_cons, h2]
        · have hcx : (c.1 == x) = false := by rw [← h2]; simpa using fun heq => h heq.symm
          simp [lookup, List.find?_cons, hcx, h]
      · have hb : (v == c.1) = false := by simpa using h2
        simp only [hb, Bool.false_eq_true, if_false]
        by_cases hcx : c.1 = x
        · have hcx' : (c.1 == x) = true := by simpa using hcx
          have hne : x ≠ v := by rw [← hcx]; exact fun heq => h2 heq.symm
          simp [lookup, List.find?_cons, hcx', hne]
        · have hcx' : (c.1 == x) = false := by simpa using hcx
          have ih' := ih hs'.2
          unfold lookup at ih' ⊢
          simp only [List.find?_cons, hcx']
          rw [ih']
          by_cases h : x = v
          · subst h
            have hcv : (c.1 == x) = false := hcx'
            simp [hcv]
          · simp [h]

end Catii.IIdx
