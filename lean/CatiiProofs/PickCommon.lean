import CatiiProofs.Counting
import CatiiProofs.FromArray
/-! The common value `from_array` picks when none is given is a most frequent (mapped) value (C15).
Core Lean only. -/
namespace Catii.IIdx
open Catii.Kern

/-! ### `bincount` / `unique`: exact counts -/

theorem lookup_insertSorted (v : Int) (cs : List (Int × Int)) (x : Int)
    (hs : (cs.map (·.1)).Pairwise (· < ·)) :
    lookup (insertSorted v cs) x = if x = v then some ((lookup cs v).getD 0 + 1) else lookup cs x := by
  induction cs with
  | nil =>
    by_cases h : x = v
    · subst h; simp [insertSorted, lookup]
    · have : (v == x) = false := by simpa using fun heq => h heq.symm
      simp [insertSorted, lookup, h, this]
  | cons c rest ih =>
    have hs' := List.pairwise_cons.mp hs
    simp only [insertSorted]
    by_cases h1 : v < c.1
    · simp only [h1, if_true]
      -- `v` is smaller than every key: it is not in `c :: rest`
      have hnot : lookup (c :: rest) v = none := by
        unfold lookup
        have : List.find? (fun p => p.1 == v) (c :: rest) = none := by
          apply List.find?_eq_none.mpr
          intro p hp
          simp only [beq_iff_eq]
          rcases List.mem_cons.mp hp with rfl | hp
          · omega
          · have := hs'.1 p.1 (List.mem_map.mpr ⟨p, hp, rfl⟩)
            simp only at this
            omega
        rw [this]; rfl
      by_cases h : x = v
      · subst h
        rw [if_pos rfl, hnot]
        simp [lookup]
      · have hvx : (v == x) = false := by simpa using fun heq => h heq.symm
        simp [lookup, List.find?_cons, hvx, h]
    · simp only [h1, if_false]
      by_cases h2 : v = c.1
      · have hb : (v == c.1) = true := by simpa using h2
        simp only [hb, if_true]
        by_cases h : x = v
        · subst h; simp [lookup, List.find?_cons, h2]
        · have hcx : (c.1 == x) = false := by rw [← h2]; simpa using fun heq => h heq.symm
          simp [lookup, List.find?_cons, hcx, h]
      · have hb : (v == c.1) = false := by simpa using h2
        simp only [hb, Bool.false_eq_true, if_false]
        by_cases hcx : c.1 = x
        · have hcx' : (c.1 == x) = true := by simpa using hcx
          have hne : x ≠ v := by rw [← hcx]; exact fun heq => h2 heq.symm
          simp [lookup, List.find?_cons, hcx', hne]
        · have hcx' : (c.1 == x) = false := by simpa using hcx
          have ih' := ih hs'.2
          unfold lookup at ih' ⊢
          simp only [List.find?_cons, hcx']
          rw [ih']
          by_cases h : x = v
          · subst h
            have hcv : (c.1 == x) = false := hcx'
            simp [hcv]
          · simp [h]

theorem insertSorted_keys' (v : Int) (cs : List (Int × Int)) (hs : (cs.map (·.1)).Pairwise (· < ·)) :
    ((insertSorted v cs).map (·.1)).Pairwise (· < ·) := (insertSorted_keys v cs hs).1

/-- `countValues` holds the exact number of occurrences of every value -/
theorem lookup_countValues (l : List Int) (x : Int) : (lookup (countValues l) x).getD 0 = (l.count x : Int) := by
  unfold countValues
  have gen : ∀ (l : List Int) (acc : List (Int × Int)), (acc.map (·.1)).Pairwise (· < ·) →
      (lookup (l.foldl (fun cs v => insertSorted v cs) acc) x).getD 0 = (lookup acc x).getD 0 + (l.count x : Int) := by
    intro l
    induction l with
    | nil => intro acc _; simp
    | cons v vs ih =>
      intro acc hs
      simp only [List.foldl_cons]
      rw [ih _ (insertSorted_keys' v acc hs), lookup_insertSorted v acc x hs]
      by_cases h : x = v
      · subst h; simp [List.count_cons]; omega
      · have : ¬ v = x := fun heq => h heq.symm
        simp [h, List.count_cons, this]
  have := gen l [] (by simp)
  simpa [lookup] using this

/-! ### counts of mapped values -/

/-- generic counter fold: key `k a`, weight `w a` -/
theorem fold_cadd_gen {α} (k : α → Int) (w : α → Int) (l : List α) (acc : List (Int × Int)) (hk : CKeys acc) :
    CKeys (l.foldl (fun cs a => cadd cs (k a) (w a)) acc) ∧
    (∀ v, (lookup (l.foldl (fun cs a => cadd cs (k a) (w a)) acc) v).getD 0 =
      (lookup acc v).getD 0 + ((l.filter fun a => k a == v).map w).sum) ∧
    (∀ v, lookup (l.foldl (fun cs a => cadd cs (k a) (w a)) acc) v = none →
      lookup acc v = none ∧ ∀ a ∈ l, k a ≠ v) := by
  induction l generalizing acc with
  | nil => simp [hk]
  | cons a rest ih =>
    simp only [List.foldl_cons]
    obtain ⟨g1, g3, g4⟩ := ih (cadd acc (k a) (w a)) (cadd_keys acc hk _ _)
    refine ⟨g1, ?_, ?_⟩
    · intro v
      rw [g3 v, lookup_cadd]
      by_cases hv : v = k a
      · subst hv; simp [List.filter_cons]; omega
      · have : ¬ k a = v := fun h => hv h.symm
        simp [hv, this, List.filter_cons]
    · intro v hnone
      obtain ⟨h1, h2⟩ := g4 v hnone
      rw [lookup_cadd] at h1
      by_cases hv : v = k a
      · simp [hv] at h1
      · simp only [hv, if_false] at h1
        refine ⟨h1, fun a' ha' => ?_⟩
        rcases List.mem_cons.mp ha' with rfl | ha'
        · exact fun h => hv h.symm
        · exact h2 a' ha'

/-- summing the counts of the distinct values that map to `mv` counts the mapped data -/
theorem sum_counts_mapped (f : Int → Int) (mv : Int) (data : List Int) (keys : List Int) (hnd : keys.Nodup)
    (hcover : ∀ v ∈ data, v ∈ keys) :
    ((keys.filter fun v => f v == mv).map fun v => (data.count v : Int)).sum = ((data.map f).count mv : Int) := by
  induction data with
  | nil =>
    simp only [List.count_nil, List.map_nil]
    have : ∀ (l : List Int), (l.map fun _ => ((0 : Nat) : Int)).sum = ((0 : Nat) : Int) := by
      intro l
      induction l with
      | nil => rfl
      | cons a as ih => simp only [List.map_cons, List.sum_cons, ih]; rfl
    exact this _
  | cons d ds ih =>
    have ih' := ih (fun v hv => hcover v (List.mem_cons_of_mem _ hv))
    have hd : d ∈ keys := hcover d List.mem_cons_self
    -- the counts of `d :: ds` differ from those of `ds` only at the key `d`
    have key : ∀ (ks : List Int), ks.Nodup →
        ((ks.filter fun v => f v == mv).map fun v => ((d :: ds).count v : Int)).sum =
        ((ks.filter fun v => f v == mv).map fun v => (ds.count v : Int)).sum +
          (if d ∈ ks ∧ f d = mv then 1 else 0) := by
      intro ks
      induction ks with
      | nil => intro _; simp
      | cons a as iha =>
        intro hnd'
        have hnd'' := List.nodup_cons.mp hnd'
        simp only [List.filter_cons]
        by_cases hfa : (f a == mv) = true
        · simp only [hfa, if_true, List.map_cons, List.sum_cons]
          rw [iha hnd''.2]
          have hfa' : f a = mv := by simpa using hfa
          by_cases hda : d = a
          · subst hda
            have : ¬ d ∈ as := hnd''.1
            simp [List.count_cons, this, hfa']
            omega
          · have h1 : ¬ a = d := fun h => hda h.symm
            simp [List.count_cons, hda, h1]
            by_cases hdin : d ∈ as ∧ f d = mv
            · simp [hdin]; omega
            · have : ¬ ((d = a ∨ d ∈ as) ∧ f d = mv) := by
                rintro ⟨h | h, h'⟩
                · exact hda h
                · exact hdin ⟨h, h'⟩
              simp [hdin, hda]
        · simp only [hfa, Bool.false_eq_true, if_false]
          rw [iha hnd''.2]
          have hfa' : ¬ f a = mv := by simpa using hfa
          by_cases hda : d = a
          · subst hda
            have : ¬ d ∈ as := hnd''.1
            simp [this, hfa']
          · simp [hda]
    rw [key keys hnd, ih']
    simp only [List.map_cons, List.count_cons]
    by_cases hfd : f d = mv
    · simp [hd, hfd]
    · simp [hfd]

/-- the mapping applied to a raw value (the value itself when there is no mapping) -/
def mapD (mapping : Option (List (Int × Int))) (v : Int) : Int :=
  match mapVal mapping v with
  | .ok x => x
  | .error _ => v

theorem finalFold_ok (mapping : Option (List (Int × Int))) (counts acc fc : List (Int × Int))
    (h : counts.foldlM (finalStep mapping) acc = .ok fc) :
    fc = counts.foldl (fun fc c => cadd fc (mapD mapping c.1) c.2) acc := by
  induction counts generalizing acc with
  | nil => simp only [List.foldlM_nil, pure, Except.pure, Except.ok.injEq] at h; rw [← h]; rfl
  | cons c rest ih =>
    rw [List.foldlM_cons] at h
    unfold finalStep at h
    cases hm : mapVal mapping c.1 with
    | error e => simp [hm, bind, Except.bind] at h
    | ok x =>
      simp only [hm, bind, Except.bind, pure, Except.pure] at h
      have := ih _ h
      rw [this]
      simp only [List.foldl_cons, mapD, hm]

/-- what a successful `from_array` did to choose its common value -/
theorem fromArray_common_inv (a : Arr) (o : FromOpts) (idx : IIndex) (w : Bool)
    (h : fromArray a o = .ok (idx, w)) :
    ∃ fc, finalCountsOf o.mapping (countsOf a o) = .ok fc ∧ pickCommon o fc = .ok idx.common := by
  unfold fromArray at h
  simp only [bind, Except.bind, pure, Except.pure] at h
  split at h
  · cases h
  · split at h
    · cases h
    · rename_i fc hfc
      split at h
      · cases h
      · rename_i cm hcm
        split at h
        · cases h
        · rename_i w' _
          refine ⟨fc, hfc, ?_⟩
          cases w' with
          | true =>
            simp only [if_true] at h
            split at h
            · cases h
            · cases h; exact hcm
          | false =>
            simp only [Bool.false_eq_true, if_false] at h
            split at h
            · cases h
            · cases h; exact hcm

/-- the first strict maximum of a counter carries a maximal count -/
theorem firstMax_is_max (c : Int × Int) (rest : List (Int × Int)) :
    let r := rest.foldl (fun (best : Int × Int) x => if x.2 > best.2 then x else best) c
    r ∈ c :: rest ∧ ∀ x ∈ c :: rest, x.2 ≤ r.2 := by
  induction rest generalizing c with
  | nil => simp
  | cons y ys ih =>
    simp only [List.foldl_cons]
    by_cases hy : y.2 > c.2
    · simp only [hy, if_true]
      obtain ⟨h1, h2⟩ := ih y
      refine ⟨List.mem_cons_of_mem _ h1, fun x hx => ?_⟩
      rcases List.mem_cons.mp hx with rfl | hx
      · have := h2 y List.mem_cons_self; omega
      · exact h2 x hx
    · simp only [hy, if_false]
      obtain ⟨h1, h2⟩ := ih c
      refine ⟨?_, fun x hx => ?_⟩
      · rcases List.mem_cons.mp h1 with h1 | h1
        · rw [h1]; exact List.mem_cons_self
        · exact List.mem_cons_of_mem _ (List.mem_cons_of_mem _ h1)
      · rcases List.mem_cons.mp hx with rfl | hx
        · exact h2 x List.mem_cons_self
        · rcases List.mem_cons.mp hx with rfl | hx
          · have := h2 c List.mem_cons_self; omega
          · exact h2 x (List.mem_cons_of_mem _ hx)

theorem mapD_none (v : Int) : mapD none v = v := by simp [mapD, mapVal, pure, Except.pure]

/-- exact counts of the raw values: what `countsOf` returns -/
structure ExactCounts (data : List Int) (counts : List (Int × Int)) : Prop where
  nodup : (counts.map (·.1)).Nodup
  cover : ∀ v ∈ data, v ∈ counts.map (·.1)
  exact : ∀ p ∈ counts, p.2 = (data.count p.1 : Int)

theorem countValues_exact (data : List Int) : ExactCounts data (countValues data) := by
  obtain ⟨h1, h2⟩ := countValues_keys data
  have hk : CKeys (countValues data) := by
    have := h1.imp (fun {a b : Int} (h : a < b) => Int.ne_of_lt h)
    exact (List.pairwise_map.mp this)
  refine ⟨h1.imp (fun h => Int.ne_of_lt h), fun v hv => (h2 v).mpr hv, fun p hp => ?_⟩
  have := lookup_of_mem (countValues data) hk p hp
  have h3 := lookup_countValues data p.1
  rw [this] at h3
  simpa using h3

theorem ckeys_of_nodup (counts : List (Int × Int)) (h : (counts.map (·.1)).Nodup) : CKeys counts :=
  List.pairwise_map.mp h

theorem sum_pairs_eq (f : Int → Int) (mv : Int) (data : List Int) (counts : List (Int × Int))
    (hex : ∀ p ∈ counts, p.2 = (data.count p.1 : Int)) :
    ((counts.filter fun c => f c.1 == mv).map (·.2)).sum =
      (((counts.map (·.1)).filter fun v => f v == mv).map fun v => (data.count v : Int)).sum := by
  induction counts with
  | nil => rfl
  | cons c rest ih =>
    have ih' := ih (fun p hp => hex p (List.mem_cons_of_mem _ hp))
    simp only [List.filter_cons, List.map_cons]
    by_cases h : (f c.1 == mv) = true
    · simp only [h, if_true, List.map_cons, List.sum_cons, ih', hex c List.mem_cons_self]
    · simp only [h, Bool.false_eq_true, if_false, ih']

/-- the counter of mapped values `from_array` builds is exact -/
theorem finalCounts_exact (mapping : Option (List (Int × Int))) (data : List Int) (counts fc : List (Int × Int))
    (hx : ExactCounts data counts) (h : finalCountsOf mapping counts = .ok fc) :
    CKeys fc ∧ (∀ p ∈ fc, p.2 = ((data.map (mapD mapping)).count p.1 : Int)) ∧
      (∀ x, (∀ p ∈ fc, p.1 ≠ x) → (data.map (mapD mapping)).count x = 0) ∧ (data ≠ [] → fc ≠ []) := by
  have hgen : CKeys (counts.foldl (fun fc c => cadd fc (mapD mapping c.1) c.2) []) ∧
      (∀ v, (lookup (counts.foldl (fun fc c => cadd fc (mapD mapping c.1) c.2) []) v).getD 0 =
        ((data.map (mapD mapping)).count v : Int)) ∧
      (∀ v, lookup (counts.foldl (fun fc c => cadd fc (mapD mapping c.1) c.2) []) v = none →
        ∀ c ∈ counts, mapD mapping c.1 ≠ v) := by
    obtain ⟨g1, g2, g3⟩ := fold_cadd_gen (fun c : Int × Int => mapD mapping c.1) (fun c => c.2) counts [] List.Pairwise.nil
    refine ⟨g1, fun v => ?_, fun v hv => (g3 v hv).2⟩
    rw [g2 v, sum_pairs_eq (mapD mapping) v data counts hx.exact,
      sum_counts_mapped (mapD mapping) v data (counts.map (·.1)) hx.nodup hx.cover]
    simp [lookup]
  -- the counter the code builds equals that fold (with no mapping the fold re-inserts the exact counts)
  have hfc : fc = counts.foldl (fun fc c => cadd fc (mapD mapping c.1) c.2) [] ∨
      (mapping = none ∧ fc = counts) := by
    unfold finalCountsOf at h
    cases mapping with
    | none => simp only [pure, Except.pure, Except.ok.injEq] at h; exact Or.inr ⟨rfl, h.symm⟩
    | some m => exact Or.inl (finalFold_ok (some m) counts [] fc h)
  rcases hfc with hfc | ⟨hm, hfc⟩
  · obtain ⟨g1, g2, g3⟩ := hgen
    rw [hfc]
    refine ⟨g1, fun p hp => ?_, fun x hx' => ?_, fun hne => ?_⟩
    · have := lookup_of_mem _ g1 p hp
      have h2 := g2 p.1
      rw [this] at h2
      simpa using h2
    · cases hl : lookup (counts.foldl (fun fc c => cadd fc (mapD mapping c.1) c.2) []) x with
      | some n => exact absurd rfl (hx' _ (mem_of_lookup _ x n hl))
      | none =>
        have := g2 x
        rw [hl] at this
        simp at this
        omega
    · obtain ⟨d, hd⟩ := List.exists_mem_of_ne_nil data hne
      intro hnil
      have := g2 (mapD mapping d)
      rw [hnil] at this
      have hpos : 0 < (data.map (mapD mapping)).count (mapD mapping d) :=
        List.count_pos_iff.mpr (List.mem_map.mpr ⟨d, hd, rfl⟩)
      simp [lookup] at this
      omega
  · subst hm
    rw [hfc]
    have hmap : data.map (mapD none) = data := by
      rw [List.map_congr_left (fun v _ => mapD_none v)]; simp
    rw [hmap]
    refine ⟨ckeys_of_nodup counts hx.nodup, hx.exact, fun x hx' => ?_, fun hne => ?_⟩
    · apply List.count_eq_zero.mpr
      intro hin
      obtain ⟨p, hp, hpx⟩ := List.mem_map.mp (hx.cover x hin)
      exact hx' p hp hpx
    · obtain ⟨d, hd⟩ := List.exists_mem_of_ne_nil data hne
      intro hnil
      have := hx.cover d hd
      rw [hnil] at this; simp at this

/-- **the common value `from_array` picks when none is given occurs, among the (mapped) values of the array, at least
as often as every other value** — counts computed by the library or supplied exactly by the caller -/
theorem fromArray_common_most_frequent (a : Arr) (o : FromOpts) (idx : IIndex) (w : Bool)
    (h : fromArray a o = .ok (idx, w)) (hc : o.common = none) (hne : a.data ≠ [])
    (hcounts : ∀ c, o.counts = some c → ExactCounts a.data c) (u : Int) :
    (a.data.map (mapD o.mapping)).count u ≤ (a.data.map (mapD o.mapping)).count idx.common := by
  obtain ⟨fc, hfc, hpick⟩ := fromArray_common_inv a o idx w h
  have hx : ExactCounts a.data (countsOf a o) := by
    unfold countsOf
    cases hco : o.counts with
    | some c => exact hcounts c hco
    | none => exact countValues_exact a.data
  obtain ⟨hk, hex, hzero, hnonempty⟩ := finalCounts_exact o.mapping a.data (countsOf a o) fc hx hfc
  unfold pickCommon at hpick
  rw [hc] at hpick
  match fc, hnonempty hne with
  | c :: rest, _ =>
    simp only [pure, Except.pure, Except.ok.injEq] at hpick
    obtain ⟨hmem, hmax⟩ := firstMax_is_max c rest
    have hcn := hex _ hmem
    rw [hpick] at hcn
    by_cases hu : ∃ p ∈ c :: rest, p.1 = u
    · obtain ⟨p, hp, hpu⟩ := hu
      have h1 := hex p hp
      have h2 := hmax p hp
      rw [hpu] at h1
      omega
    · have := hzero u (fun p hp hpu => hu ⟨p, hp, hpu⟩)
      omega

end Catii.IIdx
