import CatiiModel.Cube
import CatiiProofs.KernSets
/-! `ccube._walk`: soundness, completeness and exactly-once delivery (C14; first link of C02). -/
namespace Catii.Cube
open Catii.Kern

/-- row r is selected by coordinate suffix cs over dims -/
def Sel : List Dim → Co → Nat → Prop
  | [], [], _ => True
  | _ :: ds, none :: cs, r => Sel ds cs r
  | d :: ds, some c :: cs, r => r ∈ rowsOf d c ∧ Sel ds cs r
  | _, _, _ => False

def InB : Option Rows → Nat → Prop
  | none, _ => True
  | some b, r => r ∈ b

structure DimWF (d : Dim) : Prop where
  sorted : ∀ e ∈ d.entries, SSorted e.2
  keys   : d.entries.Pairwise (fun a b => a.1 ≠ b.1)

theorem rowsOf_mem (d : Dim) (h : DimWF d) (e : Nat × Rows) (he : e ∈ d.entries) :
    rowsOf d e.1 = e.2 := by
  unfold rowsOf
  have hk := h.keys
  generalize d.entries = es at he hk
  induction es with
  | nil => simp at he
  | cons a as ih =>
    simp only [List.find?_cons]
    rcases List.mem_cons.mp he with rfl | he'
    · simp
    · have hne : a.1 ≠ e.1 := (List.pairwise_cons.mp hk).1 e he'
      have : (a.1 == e.1) = false := by simpa using hne
      simp only [this]
      exact ih he' (List.pairwise_cons.mp hk).2

/-- the statement proved about each emitted item -/
def Good (dims : List Dim) (base : Co) (B : Option Rows) (co : Co) (rows : Rows) : Prop :=
  ∃ cs, co = base ++ cs ∧ cs.length = dims.length ∧ rows ≠ [] ∧ SSorted rows ∧
    (B = none → ∃ c ∈ cs, c ≠ none) ∧
    ∀ r, r ∈ rows ↔ InB B r ∧ Sel dims cs r

theorem walk_sound (dims : List Dim) (hwf : ∀ d ∈ dims, DimWF d) :
    ∀ (base : Co) (B : Option Rows), (∀ b, B = some b → SSorted b) →
    ∀ co rows, (co, rows) ∈ walk dims base B → Good dims base B co rows := by
  induction dims with
  | nil => intro base B _ co rows h; simp [walk] at h
  | cons d ds ih =>
    have hd : DimWF d := hwf d (List.mem_cons_self)
    have hds : ∀ d' ∈ ds, DimWF d' := fun d' h => hwf d' (List.mem_cons_of_mem _ h)
    intro base B hB co rows h
    cases ds with
    | nil =>
      cases B with
      | none =>
        simp only [walk, List.mem_filterMap] at h
        obtain ⟨e, he, hopt⟩ := h
        split at hopt
        · rename_i hne
          simp at hopt
          obtain ⟨rfl, rfl⟩ := hopt
          refine ⟨[some e.1], rfl, rfl, hne, hd.sorted e he, fun _ => ⟨some e.1, by simp, by simp⟩, ?_⟩
          intro r
          simp [InB, Sel, rowsOf_mem d hd e he]
        · simp at hopt
      | some b =>
        have hb : SSorted b := hB b rfl
        simp only [walk, List.mem_append, List.mem_filterMap] at h
        rcases h with ⟨e, he, hopt⟩ | h
        · split at hopt
          · rename_i hne
            simp at hopt
            obtain ⟨rfl, rfl⟩ := hopt
            refine ⟨[some e.1], rfl, rfl, hne, inter_sorted _ _ hb, fun h => by simp at h, ?_⟩
            intro r
            simp [InB, Sel, rowsOf_mem d hd e he, mem_inter b e.2 hb (hd.sorted e he)]
          · simp at hopt
        · split at h
          · rename_i hne
            simp at h
            obtain ⟨rfl, rfl⟩ := h
            refine ⟨[none], rfl, rfl, hne, hb, fun h => by simp at h, ?_⟩
            intro r; simp [InB, Sel]
          · simp at h
    | cons d' ds' =>
      have ih' := ih hds
      cases B with
      | none =>
        simp only [walk, List.mem_append, List.mem_flatMap] at h
        rcases h with ⟨e, he, h⟩ | h
        · obtain ⟨cs, rfl, hlen, hne, hs, _, hiff⟩ :=
            ih' (base ++ [some e.1]) (some e.2) (by intro b hb; cases hb; exact hd.sorted e he) co rows h
          refine ⟨some e.1 :: cs, by simp, by simp [hlen], hne, hs,
            fun _ => ⟨some e.1, by simp, by simp⟩, ?_⟩
          intro r
          rw [hiff r]
          simp [InB, Sel, rowsOf_mem d hd e he]
        · obtain ⟨cs, rfl, hlen, hne, hs, hsome, hiff⟩ :=
            ih' (base ++ [none]) none (by intro b hb; cases hb) co rows h
          obtain ⟨c, hc, hcn⟩ := hsome rfl
          refine ⟨none :: cs, by simp, by simp [hlen], hne, hs,
            fun _ => ⟨c, List.mem_cons_of_mem _ hc, hcn⟩, ?_⟩
          intro r
          rw [hiff r]
          simp [InB, Sel]
      | some b =>
        have hb : SSorted b := hB b rfl
        simp only [walk, List.mem_append, List.mem_flatMap] at h
        rcases h with ⟨e, he, h⟩ | h
        · split at h
          · obtain ⟨cs, rfl, hlen, hne, hs, _, hiff⟩ :=
              ih' (base ++ [some e.1]) (some (inter b e.2))
                (by intro b' hb'; cases hb'; exact inter_sorted _ _ hb) co rows h
            refine ⟨some e.1 :: cs, by simp, by simp [hlen], hne, hs, fun h => by simp at h, ?_⟩
            intro r
            rw [hiff r]
            simp only [InB, Sel, rowsOf_mem d hd e he, mem_inter b e.2 hb (hd.sorted e he)]
            constructor
            · rintro ⟨⟨h1, h2⟩, h3⟩; exact ⟨h1, h2, h3⟩
            · rintro ⟨h1, h2, h3⟩; exact ⟨⟨h1, h2⟩, h3⟩
          · simp at h
        · obtain ⟨cs, rfl, hlen, hne, hs, _, hiff⟩ :=
            ih' (base ++ [none]) (some b) (by intro b' hb'; cases hb'; exact hb) co rows h
          refine ⟨none :: cs, by simp, by simp [hlen], hne, hs, fun h => by simp at h, ?_⟩
          intro r
          rw [hiff r]
          simp [InB, Sel]


theorem rowsOf_entry (d : Dim) (c r : Nat) (h : r ∈ rowsOf d c) :
    ∃ e ∈ d.entries, e.1 = c ∧ e.2 = rowsOf d c := by
  unfold rowsOf at h ⊢
  cases hf : d.entries.find? (fun e => e.1 == c) with
  | none => simp [hf] at h
  | some e =>
    refine ⟨e, List.mem_of_find?_eq_some hf, ?_, rfl⟩
    have := List.find?_some hf
    simpa using this

theorem append_cons (base : Co) (x : Option Nat) (cs : Co) :
    (base ++ [x]) ++ cs = base ++ (x :: cs) := by simp

/-- completeness: every non-empty, not-all-margin combination is emitted
    (dims ≠ []: `_walk` is never entered with an empty dims list and a running set). -/
theorem walk_complete (dims : List Dim) (hwf : ∀ d ∈ dims, DimWF d) (hne : dims ≠ []) :
    ∀ (base : Co) (B : Option Rows), (∀ b, B = some b → SSorted b) →
    ∀ cs, cs.length = dims.length → (B = none → ∃ c ∈ cs, c ≠ none) →
      (∃ r, InB B r ∧ Sel dims cs r) → ∃ rows, (base ++ cs, rows) ∈ walk dims base B := by
  induction dims with
  | nil => exact absurd rfl hne
  | cons d ds ih =>
    have hd : DimWF d := hwf d (List.mem_cons_self)
    have hds : ∀ d' ∈ ds, DimWF d' := fun d' h => hwf d' (List.mem_cons_of_mem _ h)
    intro base B hB cs hlen hnn ⟨r, hrB, hrS⟩
    cases cs with
    | nil => simp at hlen
    | cons x cs' =>
      have hlen' : cs'.length = ds.length := by simpa using hlen
      cases ds with
      | nil =>
        have : cs' = [] := List.length_eq_zero_iff.mp hlen'
        subst this
        cases x with
        | none =>
          cases B with
          | none => obtain ⟨c, hc, hcn⟩ := hnn rfl; simp at hc; exact absurd hc hcn
          | some b =>
            refine ⟨b, ?_⟩
            have hbne : b ≠ [] := List.ne_nil_of_mem hrB
            simp [walk, hbne]
        | some c =>
          obtain ⟨hrc, _⟩ := hrS
          obtain ⟨e, he, rfl, heq⟩ := rowsOf_entry d c r hrc
          rw [← heq] at hrc
          cases B with
          | none =>
            refine ⟨e.2, ?_⟩
            simp only [walk, List.mem_filterMap]
            exact ⟨e, he, by simp [List.ne_nil_of_mem hrc]⟩
          | some b =>
            have hb : SSorted b := hB b rfl
            have hmem : r ∈ inter b e.2 := (mem_inter b e.2 hb (hd.sorted e he) r).mpr ⟨hrB, hrc⟩
            refine ⟨inter b e.2, ?_⟩
            simp only [walk, List.mem_append, List.mem_filterMap]
            exact Or.inl ⟨e, he, by simp [List.ne_nil_of_mem hmem]⟩
      | cons d' ds' =>
        have ih' := ih hds (by simp)
        cases x with
        | none =>
          have hS : Sel (d' :: ds') cs' r := hrS
          have hnn' : B = none → ∃ c ∈ cs', c ≠ none := by
            intro hBn
            obtain ⟨c, hc, hcn⟩ := hnn hBn
            rcases List.mem_cons.mp hc with rfl | hc
            · exact absurd rfl hcn
            · exact ⟨c, hc, hcn⟩
          obtain ⟨rows, hmem⟩ := ih' (base ++ [none]) B hB cs' hlen' hnn' ⟨r, hrB, hS⟩
          rw [append_cons] at hmem
          refine ⟨rows, ?_⟩
          cases B with
          | none => simp only [walk, List.mem_append]; exact Or.inr hmem
          | some b => simp only [walk, List.mem_append]; exact Or.inr hmem
        | some c =>
          obtain ⟨hrc, hS⟩ := hrS
          obtain ⟨e, he, rfl, heq⟩ := rowsOf_entry d c r hrc
          rw [← heq] at hrc
          cases B with
          | none =>
            obtain ⟨rows, hmem⟩ := ih' (base ++ [some e.1]) (some e.2)
              (by intro b hb; cases hb; exact hd.sorted e he) cs' hlen' (by intro h; cases h)
              ⟨r, hrc, hS⟩
            rw [append_cons] at hmem
            refine ⟨rows, ?_⟩
            simp only [walk, List.mem_append, List.mem_flatMap]
            exact Or.inl ⟨e, he, hmem⟩
          | some b =>
            have hb : SSorted b := hB b rfl
            have hmemx : r ∈ inter b e.2 := (mem_inter b e.2 hb (hd.sorted e he) r).mpr ⟨hrB, hrc⟩
            obtain ⟨rows, hmem⟩ := ih' (base ++ [some e.1]) (some (inter b e.2))
              (by intro b' hb'; cases hb'; exact inter_sorted _ _ hb) cs' hlen' (by intro h; cases h)
              ⟨r, hmemx, hS⟩
            rw [append_cons] at hmem
            refine ⟨rows, ?_⟩
            simp only [walk, List.mem_append, List.mem_flatMap]
            refine Or.inl ⟨e, he, ?_⟩
            simp [List.ne_nil_of_mem hmemx, hmem]


/-! ### exactly once -/

theorem walk_shape (dims : List Dim) :
    ∀ (base : Co) (B : Option Rows), ∀ it ∈ walk dims base B,
      ∃ cs, it.1 = base ++ cs ∧ cs.length = dims.length := by
  induction dims with
  | nil => intro base B it h; simp [walk] at h
  | cons d ds ih =>
    intro base B it h
    cases ds with
    | nil =>
      cases B with
      | none =>
        simp only [walk, List.mem_filterMap] at h
        obtain ⟨e, _, hopt⟩ := h
        split at hopt
        · simp at hopt; subst hopt; exact ⟨[some e.1], rfl, rfl⟩
        · simp at hopt
      | some b =>
        simp only [walk, List.mem_append, List.mem_filterMap] at h
        rcases h with ⟨e, _, hopt⟩ | h
        · split at hopt
          · simp at hopt; subst hopt; exact ⟨[some e.1], rfl, rfl⟩
          · simp at hopt
        · split at h
          · simp at h; subst h; exact ⟨[none], rfl, rfl⟩
          · simp at h
    | cons d' ds' =>
      cases B with
      | none =>
        simp only [walk, List.mem_append, List.mem_flatMap] at h
        rcases h with ⟨e, _, h⟩ | h
        · obtain ⟨cs, h1, h2⟩ := ih _ _ it h
          exact ⟨some e.1 :: cs, by rw [h1]; simp, by simp [h2]⟩
        · obtain ⟨cs, h1, h2⟩ := ih _ _ it h
          exact ⟨none :: cs, by rw [h1]; simp, by simp [h2]⟩
      | some b =>
        simp only [walk, List.mem_append, List.mem_flatMap] at h
        rcases h with ⟨e, _, h⟩ | h
        · split at h
          · obtain ⟨cs, h1, h2⟩ := ih _ _ it h
            exact ⟨some e.1 :: cs, by rw [h1]; simp, by simp [h2]⟩
          · simp at h
        · obtain ⟨cs, h1, h2⟩ := ih _ _ it h
          exact ⟨none :: cs, by rw [h1]; simp, by simp [h2]⟩

theorem coord_after (dims : List Dim) (base : Co) (x : Option Nat) (B : Option Rows)
    (it : Co × Rows) (h : it ∈ walk dims (base ++ [x]) B) : it.1[base.length]? = some x := by
  obtain ⟨cs, h1, _⟩ := walk_shape dims _ _ it h
  rw [h1]; simp

/-- no two emitted items share coordinates -/
theorem walk_distinct (dims : List Dim)
    (hk : ∀ d ∈ dims, d.entries.Pairwise (fun a b => a.1 ≠ b.1)) :
    ∀ (base : Co) (B : Option Rows), (walk dims base B).Pairwise (fun a b => a.1 ≠ b.1) := by
  induction dims with
  | nil => intro base B; simp [walk]
  | cons d ds ih =>
    have hd := hk d List.mem_cons_self
    have ih' := ih (fun d' h => hk d' (List.mem_cons_of_mem _ h))
    intro base B
    cases ds with
    | nil =>
      cases B with
      | none =>
        simp only [walk]
        rw [List.pairwise_filterMap]
        refine hd.imp ?_
        intro a a' hne b hb b' hb'
        split at hb <;> simp at hb
        split at hb' <;> simp at hb'
        subst hb hb'
        simp; exact hne
      | some b =>
        simp only [walk]
        rw [List.pairwise_append]
        refine ⟨?_, ?_, ?_⟩
        · rw [List.pairwise_filterMap]
          refine hd.imp ?_
          intro a a' hne x hx x' hx'
          split at hx <;> simp at hx
          split at hx' <;> simp at hx'
          subst hx hx'
          simp; exact hne
        · split <;> simp
        · intro x hx y hy
          simp only [List.mem_filterMap] at hx
          obtain ⟨e, _, hopt⟩ := hx
          split at hopt <;> simp at hopt
          subst hopt
          split at hy <;> simp at hy
          subst hy
          simp
    | cons d' ds' =>
      cases B with
      | none =>
        simp only [walk]
        rw [List.pairwise_append]
        refine ⟨?_, ih' _ _, ?_⟩
        · rw [List.pairwise_flatMap]
          refine ⟨fun e _ => ih' _ _, hd.imp ?_⟩
          intro a a' hne x hx y hy heq
          have h1 := coord_after _ base (some a.1) _ x hx
          have h2 := coord_after _ base (some a'.1) _ y hy
          rw [heq, h2] at h1
          simp at h1; exact hne h1.symm
        · intro x hx y hy heq
          simp only [List.mem_flatMap] at hx
          obtain ⟨e, _, hx⟩ := hx
          have h1 := coord_after _ base (some e.1) _ x hx
          have h2 := coord_after _ base none _ y hy
          rw [heq, h2] at h1
          simp at h1
      | some b =>
        simp only [walk]
        rw [List.pairwise_append]
        refine ⟨?_, ih' _ _, ?_⟩
        · rw [List.pairwise_flatMap]
          refine ⟨fun e _ => by split; exact ih' _ _; exact List.Pairwise.nil, hd.imp ?_⟩
          intro a a' hne x hx y hy heq
          split at hx
          · split at hy
            · have h1 := coord_after _ base (some a.1) _ x hx
              have h2 := coord_after _ base (some a'.1) _ y hy
              rw [heq, h2] at h1
              simp at h1; exact hne h1.symm
            · simp at hy
          · simp at hx
        · intro x hx y hy heq
          simp only [List.mem_flatMap] at hx
          obtain ⟨e, _, hx⟩ := hx
          split at hx
          · have h1 := coord_after _ base (some e.1) _ x hx
            have h2 := coord_after _ base none _ y hy
            rw [heq, h2] at h1
            simp at h1
          · simp at hx

end Catii.Cube
