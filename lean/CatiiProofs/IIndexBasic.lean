import CatiiModel.IIndex
import CatiiProofs.KernSets
/-! Well-formedness (as a proposition) and the dense abstraction of an `iindex`; refinement and
preservation lemmas for `shift_common`. Core Lean only. -/
namespace Catii.IIdx
open Catii.Kern

/-- the C07 predicate -/
structure WF (i : IIndex) : Prop where
  keys : i.entries.Pairwise (fun a b => a.1 ≠ b.1)
  arity : ∀ e ∈ i.entries, e.1.length = i.ndim
  ndimPos : 0 < i.ndim
  noCommon : ∀ e ∈ i.entries, val0 e.1 ≠ i.common
  nonEmpty : ∀ e ∈ i.entries, e.2 ≠ []
  sorted : ∀ e ∈ i.entries, SSorted e.2
  inRange : ∀ e ∈ i.entries, ∀ r ∈ e.2, r < i.nrows
  hiRange : ∀ e ∈ i.entries, e.1.drop 1 ∈ hiCells (i.shape.drop 1)
  exclusive : ∀ e ∈ i.entries, ∀ f ∈ i.entries, e.1.drop 1 = f.1.drop 1 →
    ∀ r, r ∈ e.2 → r ∈ f.2 → val0 e.1 = val0 f.1

/-- a key is its first coordinate followed by its higher coordinates -/
theorem key_eq (k : Key) (h : 0 < k.length) : k = val0 k :: k.drop 1 := by
  cases k with
  | nil => simp at h
  | cons a as => simp [val0]

theorem denseAt_of_mem (i : IIndex) (h : WF i) (e : Key × Rows) (he : e ∈ i.entries)
    (r : Nat) (hi : List Int) (hhi : e.1.drop 1 = hi) (hr : r ∈ e.2) : denseAt i r hi = val0 e.1 := by
  unfold denseAt
  cases hf : i.entries.find? (fun e => e.1.drop 1 == hi && e.2.contains r) with
  | none =>
    have := List.find?_eq_none.mp hf e he
    simp [hhi, hr] at this
  | some e' =>
    have hm := List.mem_of_find?_eq_some hf
    have hp := List.find?_some hf
    simp at hp
    have hp1 : e'.1.drop 1 = hi := by rw [List.drop_one]; exact hp.1
    exact h.exclusive e' hm e he (by rw [hp1, hhi]) r hp.2 hr

theorem denseAt_of_not_mem (i : IIndex) (r : Nat) (hi : List Int)
    (hr : ∀ e ∈ i.entries, e.1.drop 1 = hi → r ∉ e.2) : denseAt i r hi = i.common := by
  unfold denseAt
  have : i.entries.find? (fun e => e.1.drop 1 == hi && e.2.contains r) = none := by
    apply List.find?_eq_none.mpr
    intro e he
    simp only [Bool.and_eq_true, beq_iff_eq, List.contains_iff_mem, not_and]
    exact hr e he
  rw [this]

theorem denseAt_eq (i : IIndex) (r : Nat) (hi : List Int) (x : Int)
    (hex : ∃ e ∈ i.entries, e.1.drop 1 = hi ∧ r ∈ e.2)
    (hall : ∀ e ∈ i.entries, e.1.drop 1 = hi → r ∈ e.2 → val0 e.1 = x) : denseAt i r hi = x := by
  unfold denseAt
  cases hf : i.entries.find? (fun e => e.1.drop 1 == hi && e.2.contains r) with
  | none =>
    obtain ⟨e, he, h1, h2⟩ := hex
    have := List.find?_eq_none.mp hf e he
    simp [h1, h2] at this
  | some e' =>
    have hm := List.mem_of_find?_eq_some hf
    have hp := List.find?_some hf
    simp at hp
    exact hall e' hm (by rw [List.drop_one]; exact hp.1) hp.2

theorem mem_commonRowidsHi (i : IIndex) (hi : List Int) (r : Nat) :
    r ∈ commonRowidsHi i hi ↔ r < i.nrows ∧ ∀ e ∈ i.entries, e.1.drop 1 = hi → r ∉ e.2 := by
  unfold commonRowidsHi
  simp only [List.mem_filter, List.mem_range, Bool.not_eq_true', List.any_eq_false, Bool.and_eq_true,
    beq_iff_eq, List.contains_iff_mem, not_and]

theorem commonRowidsHi_sorted (i : IIndex) (hi : List Int) : SSorted (commonRowidsHi i hi) := by
  unfold commonRowidsHi
  exact List.Pairwise.filter _ (List.pairwise_lt_range)

/-! ### dict primitives -/
theorem dset_fresh (es : List (Key × Rows)) (k : Key) (v : Rows) (h : ∀ e ∈ es, e.1 ≠ k) :
    dset es k v = es ++ [(k, v)] := by
  induction es with
  | nil => rfl
  | cons e es ih =>
    have hne : (e.1 == k) = false := by simpa using h e List.mem_cons_self
    simp only [dset, hne, Bool.false_eq_true, if_false, List.cons_append]
    rw [ih (fun x hx => h x (List.mem_cons_of_mem _ hx))]

/-- the materialised common rows: one fresh entry per column that has any -/
def commonEntries (i : IIndex) : List (Key × Rows) :=
  (hiCells (i.shape.drop 1)).filterMap fun hi =>
    let cr := commonRowidsHi i hi
    if cr.isEmpty then none else some (i.common :: hi, cr)

theorem hiCells_nodup (shape : List Nat) : (hiCells shape).Pairwise (· ≠ ·) := by
  induction shape with
  | nil => simp [hiCells]
  | cons n ns ih =>
    simp only [hiCells]
    rw [List.pairwise_flatMap]
    refine ⟨fun j _ => ?_, ?_⟩
    · rw [List.pairwise_map]
      exact ih.imp (fun h heq => h (List.cons.inj heq).2)
    · apply List.Pairwise.imp _ List.pairwise_lt_range
      intro a b hab x hx y hy heq
      simp only [List.mem_map] at hx hy
      obtain ⟨_, _, rfl⟩ := hx
      obtain ⟨_, _, rfl⟩ := hy
      have := (List.cons.inj heq).1
      have : a = b := by exact_mod_cast this
      omega

theorem fold_materialise (i : IIndex) (h : WF i) :
    (hiCells (i.shape.drop 1)).foldl (fun es hi =>
      let cr := commonRowidsHi i hi
      if cr.isEmpty then es else dset es (i.common :: hi) cr) i.entries
    = i.entries ++ commonEntries i := by
  unfold commonEntries
  have gen : ∀ (his : List (List Int)) (acc : List (Key × Rows)),
      his.Pairwise (· ≠ ·) →
      (∀ e ∈ acc, val0 e.1 = i.common → ∀ hi ∈ his, e.1 ≠ i.common :: hi) →
      his.foldl (fun es hi =>
        let cr := commonRowidsHi i hi
        if cr.isEmpty then es else dset es (i.common :: hi) cr) acc
      = acc ++ his.filterMap (fun hi =>
        let cr := commonRowidsHi i hi
        if cr.isEmpty then none else some (i.common :: hi, cr)) := by
    intro his
    induction his with
    | nil => intro acc _ _; simp
    | cons hi rest ih =>
      intro acc hnd hfresh
      have hnd' := (List.pairwise_cons.mp hnd)
      simp only [List.foldl_cons, List.filterMap_cons]
      by_cases hc : (commonRowidsHi i hi).isEmpty
      · simp only [hc, if_true]
        exact ih acc hnd'.2 (fun e he hv hi' hhi' => hfresh e he hv hi' (List.mem_cons_of_mem _ hhi'))
      · simp only [hc, Bool.false_eq_true, if_false]
        have hfr : ∀ e ∈ acc, e.1 ≠ i.common :: hi := by
          intro e he heq
          exact hfresh e he (by rw [heq]; rfl) hi List.mem_cons_self heq
        rw [dset_fresh acc _ _ hfr]
        rw [ih _ hnd'.2]
        · simp
        · intro e he hv hi' hhi'
          rcases List.mem_append.mp he with he | he
          · exact hfresh e he hv hi' (List.mem_cons_of_mem _ hhi')
          · simp at he; subst he
            intro heq
            exact hnd'.1 hi' hhi' (List.cons.inj heq).2
  apply gen _ _ (hiCells_nodup _)
  intro e he hv
  exact absurd hv (h.noCommon e he)

end Catii.IIdx
