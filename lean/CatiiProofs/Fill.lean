import CatiiProofs.CubeDense
/-! What `fillCount` leaves in the region, and index-level views of `Sel`, `cellOf`, `coOf`.
Core Lean only. -/
namespace Catii.Cube
open Catii.Kern

/-- inverse of `cellOf`: the index `extent` is the margin marker -/
def coOf (exts : List Nat) (c : Cell) : Co := List.zipWith (fun e v => if v = e then none else some v) exts c

theorem length_cellOf (exts : List Nat) (co : Co) : (cellOf exts co).length = min exts.length co.length := by
  simp [cellOf]

theorem length_coOf (exts : List Nat) (c : Cell) : (coOf exts c).length = min exts.length c.length := by
  simp [coOf]

theorem getD_cellOf (exts : List Nat) (co : Co) (a : Nat) (ha : a < exts.length) (hl : co.length = exts.length) :
    (cellOf exts co).getD a 0 = (co.getD a none).getD (exts.getD a 0) := by
  have ha' : a < co.length := by omega
  simp only [cellOf, List.getD_eq_getElem?_getD, List.getElem?_zipWith]
  rw [List.getElem?_eq_getElem ha, List.getElem?_eq_getElem ha']
  simp

theorem getD_coOf (exts : List Nat) (c : Cell) (a : Nat) (ha : a < exts.length) (hl : c.length = exts.length) :
    (coOf exts c).getD a none = if c.getD a 0 = exts.getD a 0 then none else some (c.getD a 0) := by
  have ha' : a < c.length := by omega
  simp only [coOf, List.getD_eq_getElem?_getD, List.getElem?_zipWith]
  rw [List.getElem?_eq_getElem ha, List.getElem?_eq_getElem ha']
  simp

theorem forall_lt_succ (n : Nat) (P : Nat → Prop) : (∀ a < n + 1, P a) ↔ P 0 ∧ ∀ a < n, P (a + 1) := by
  constructor
  · intro h; exact ⟨h 0 (by omega), fun a ha => h (a + 1) (by omega)⟩
  · rintro ⟨h0, hs⟩ a ha
    cases a with
    | zero => exact h0
    | succ a => exact hs a (by omega)

/-- `Sel`, index by index -/
theorem sel_iff_idx (dims : List Dim) (co : Co) (r : Nat) (hl : co.length = dims.length) :
    Sel dims co r ↔ ∀ a < dims.length, ∀ v, co.getD a none = some v → r ∈ rowsOf (dims.getD a default) v := by
  induction dims generalizing co with
  | nil =>
    have : co = [] := List.length_eq_zero_iff.mp hl
    subst this
    simp [Sel]
  | cons d ds ih =>
    cases co with
    | nil => simp at hl
    | cons x xs =>
      have hl' : xs.length = ds.length := by simpa using hl
      rw [List.length_cons, forall_lt_succ]
      cases x with
      | none =>
        simp only [Sel, List.getD_cons_zero, List.getD_cons_succ]
        rw [ih xs hl']
        constructor
        · intro h; exact ⟨(by intro v hv; cases hv), h⟩
        · intro h; exact h.2
      | some c =>
        simp only [Sel, List.getD_cons_zero, List.getD_cons_succ]
        rw [ih xs hl']
        constructor
        · rintro ⟨h1, h2⟩; exact ⟨(by intro v hv; cases hv; exact h1), h2⟩
        · rintro ⟨h1, h2⟩; exact ⟨h1 c rfl, h2⟩

/-- the fill, cell by cell: either some delivered item wrote the cell (and the cell holds that
item's row count), or nobody wrote it and it keeps its initial value -/
theorem fillCount_cell (exts : List Nat) (items : List (Co × Rows)) (R0 R : Region Int)
    (h : fillCount exts items R0 = .ok R) (c : Cell) :
    (∃ it ∈ items, cellOf exts it.1 = c ∧ rget R c = (it.2.length : Int)) ∨
    ((∀ it ∈ items, cellOf exts it.1 ≠ c) ∧ rget R c = rget R0 c) := by
  induction items generalizing R0 with
  | nil =>
    simp only [fillCount, pure, Except.pure] at h
    cases h
    exact Or.inr ⟨by simp, rfl⟩
  | cons it rest ih =>
    simp only [fillCount] at h
    split at h
    · rcases ih _ h with ⟨it', hit', hc, hv⟩ | ⟨hnone, hv⟩
      · exact Or.inl ⟨it', List.mem_cons_of_mem _ hit', hc, hv⟩
      · by_cases hcell : cellOf exts it.1 = c
        · refine Or.inl ⟨it, List.mem_cons_self, hcell, ?_⟩
          rw [hv]; simp [rget, rput, hcell]
        · refine Or.inr ⟨?_, ?_⟩
          · intro it' hit'
            rcases List.mem_cons.mp hit' with rfl | h'
            · exact hcell
            · exact hnone it' h'
          · rw [hv]
            have : (cellOf exts it.1 == c) = false := by simpa using hcell
            simp [rget, rput, this]
    · cases h

/-- the fill succeeds when every delivered coordinate lands inside the working array -/
theorem fillCount_ok (exts : List Nat) (items : List (Co × Rows)) (R0 : Region Int)
    (h : ∀ it ∈ items, ((exts.zip (cellOf exts it.1)).all fun (e, v) => decide (v ≤ e)) = true) :
    ∃ R, fillCount exts items R0 = .ok R := by
  induction items generalizing R0 with
  | nil => exact ⟨R0, rfl⟩
  | cons it rest ih =>
    simp only [fillCount]
    rw [if_pos (h it List.mem_cons_self)]
    exact ih _ (fun it' h' => h it' (List.mem_cons_of_mem _ h'))

end Catii.Cube

namespace Catii.Cube
theorem cellOf_coOf (exts : List Nat) (c : Cell) (hl : c.length = exts.length) :
    cellOf exts (coOf exts c) = c := by
  induction exts generalizing c with
  | nil =>
    have : c = [] := List.length_eq_zero_iff.mp hl
    subst this; simp [cellOf, coOf]
  | cons e es ih =>
    cases c with
    | nil => simp at hl
    | cons v vs =>
      have := ih vs (by simpa using hl)
      simp only [cellOf, coOf, List.zipWith_cons_cons] at this ⊢
      rw [this]
      by_cases hv : v = e <;> simp [hv]

theorem exists_ne_of_ne (c1 c2 : List Nat) (hl : c1.length = c2.length) (hne : c1 ≠ c2) :
    ∃ a, a < c1.length ∧ c1.getD a 0 ≠ c2.getD a 0 := by
  induction c1 generalizing c2 with
  | nil =>
    have : c2 = [] := List.length_eq_zero_iff.mp hl.symm
    exact absurd this.symm hne
  | cons x xs ih =>
    cases c2 with
    | nil => simp at hl
    | cons y ys =>
      by_cases hxy : x = y
      · subst hxy
        have hne' : xs ≠ ys := fun h => hne (by rw [h])
        obtain ⟨a, ha, hd⟩ := ih ys (by simpa using hl) hne'
        exact ⟨a + 1, by simp; omega, by simpa using hd⟩
      · exact ⟨0, by simp, by simpa using hxy⟩
end Catii.Cube

namespace Catii.Cube
theorem fillWith_cell {α : Type} [Zero α] [Add α] (exts : List Nat) (μ : Nat → α) (items : List (Co × Rows))
    (R0 R : Region α) (h : fillWith exts μ items R0 = .ok R) (c : Cell) :
    (∃ it ∈ items, cellOf exts it.1 = c ∧ rget R c = (it.2.map μ).sum) ∨
    ((∀ it ∈ items, cellOf exts it.1 ≠ c) ∧ rget R c = rget R0 c) := by
  induction items generalizing R0 with
  | nil =>
    simp only [fillWith, pure, Except.pure] at h
    cases h
    exact Or.inr ⟨by simp, rfl⟩
  | cons it rest ih =>
    simp only [fillWith] at h
    split at h
    · rcases ih _ h with ⟨it', hit', hc, hv⟩ | ⟨hnone, hv⟩
      · exact Or.inl ⟨it', List.mem_cons_of_mem _ hit', hc, hv⟩
      · by_cases hcell : cellOf exts it.1 = c
        · refine Or.inl ⟨it, List.mem_cons_self, hcell, ?_⟩
          rw [hv]; simp [rget, rput, hcell]
        · refine Or.inr ⟨?_, ?_⟩
          · intro it' hit'
            rcases List.mem_cons.mp hit' with rfl | h'
            · exact hcell
            · exact hnone it' h'
          · rw [hv]
            have : (cellOf exts it.1 == c) = false := by simpa using hcell
            simp [rget, rput, this]
    · cases h

theorem fillWith_ok {α : Type} [Zero α] [Add α] (exts : List Nat) (μ : Nat → α) (items : List (Co × Rows))
    (R0 : Region α)
    (h : ∀ it ∈ items, ((exts.zip (cellOf exts it.1)).all fun (e, v) => decide (v ≤ e)) = true) :
    ∃ R, fillWith exts μ items R0 = .ok R := by
  induction items generalizing R0 with
  | nil => exact ⟨R0, rfl⟩
  | cons it rest ih =>
    simp only [fillWith]
    rw [if_pos (h it List.mem_cons_self)]
    exact ih _ (fun it' h' => h it' (List.mem_cons_of_mem _ h'))
end Catii.Cube
