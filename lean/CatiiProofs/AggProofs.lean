import Mathlib.Algebra.Order.BigOperators.Group.Finset
import Mathlib.Algebra.Order.Field.Rat
import Mathlib.Tactic.Ring
import Mathlib.Tactic.Linarith
import CatiiProofs.CubeMeasure
import CatiiModel.Agg
/-! The three ways of obtaining a measure agree, hence the aggregates agree (C03); the missing rule
in terms of the rows of a cell (C04); dependence on the dense content only (C05). -/
open Finset
namespace Catii.Agg
open Catii.Cube Catii.Marg Catii.Kern

/-! ### ccube measures are direct measures -/
theorem ccubeAgg_spec (s : Spec) {dims : List Dim} {exts : List ℕ} {N : ℕ} (h : CubeOK dims exts N) :
    ∃ f, ccubeAgg s dims exts N = .ok f ∧ ∀ c ∈ allCells exts,
      f c = aggFrom s (fun μ c => directMeasure dims N μ c) c := by
  obtain ⟨ra, ha, hra⟩ := measureCube_correct (G := ℚ) h (rowVal s)
  obtain ⟨rv, hv, hrv⟩ := measureCube_correct (G := ℚ) h (fun r => ind (rowOk s r))
  obtain ⟨rm, hm, hrm⟩ := measureCube_correct (G := ℚ) h (fun r => ind (!rowOk s r))
  obtain ⟨rd, hd, hrd⟩ := measureCube_correct (G := ℚ) h (rowDen s)
  refine ⟨fun c => reduceCell s (rget ra c) (rget rv c) (rget rm c) (rget rd c), ?_, fun c hc => ?_⟩
  · unfold ccubeAgg
    rw [ha, hv, hm, hd]; rfl
  · simp only [aggFrom]
    rw [hra c hc, hrv c hc, hrm c hc, hrd c hc]

/-! ### mixed radix: the flat bin of a coordinate tuple determines the tuple -/
def flat : List ℕ → List ℕ → ℕ
  | e :: es, v :: vs => v * (es.foldl (· * ·) 1) + flat es vs
  | _, _ => 0

theorem foldl_mul_eq (es : List ℕ) (a : ℕ) : es.foldl (· * ·) a = a * es.foldl (· * ·) 1 := by
  induction es generalizing a with
  | nil => simp
  | cons e es ih => simp only [List.foldl_cons]; rw [ih (a * e), ih (1 * e)]; ring

theorem flatIndex_eq_flat (exts c : List ℕ) (hl : c.length = exts.length) : flatIndex exts c = flat exts c := by
  unfold flatIndex
  have gen : ∀ (exts c : List ℕ) (acc : ℕ), c.length = exts.length →
      ((strides exts).zip c).foldl (fun acc (p : ℕ × ℕ) => acc + p.1 * p.2) acc = acc + flat exts c := by
    intro exts
    induction exts with
    | nil => intro c acc hl; have : c = [] := List.length_eq_zero_iff.mp hl; subst this; simp [strides, flat]
    | cons e es ih =>
      intro c acc hl
      cases c with
      | nil => simp at hl
      | cons v vs =>
        simp only [strides, List.zip_cons_cons, List.foldl_cons, flat]
        rw [ih vs _ (by simpa using hl)]
        ring
  rw [gen exts c 0 hl]; simp

theorem flat_lt (exts c : List ℕ) (hl : c.length = exts.length)
    (hr : ∀ a < exts.length, c.getD a 0 < exts.getD a 0) : flat exts c < exts.foldl (· * ·) 1 ∨ exts = [] := by
  induction exts generalizing c with
  | nil => exact Or.inr rfl
  | cons e es ih =>
    left
    cases c with
    | nil => simp at hl
    | cons v vs =>
      simp only [flat, List.foldl_cons]
      rw [foldl_mul_eq es (1 * e)]
      have hv : v < e := by simpa using hr 0 (by simp)
      have htail := ih vs (by simpa using hl) (fun a ha => by simpa using hr (a + 1) (by simp; omega))
      rcases htail with ht | ht
      · calc v * es.foldl (· * ·) 1 + flat es vs < v * es.foldl (· * ·) 1 + es.foldl (· * ·) 1 := by omega
          _ = (v + 1) * es.foldl (· * ·) 1 := by ring
          _ ≤ 1 * e * es.foldl (· * ·) 1 := by
            apply Nat.mul_le_mul_right; omega
      · subst ht
        have : vs = [] := List.length_eq_zero_iff.mp (by simpa using hl)
        subst this
        simp [flat]; omega

theorem flat_inj (exts c c' : List ℕ) (hl : c.length = exts.length) (hl' : c'.length = exts.length)
    (hr : ∀ a < exts.length, c.getD a 0 < exts.getD a 0) (hr' : ∀ a < exts.length, c'.getD a 0 < exts.getD a 0)
    (h : flat exts c = flat exts c') : c = c' := by
  induction exts generalizing c c' with
  | nil =>
    rw [List.length_eq_zero_iff.mp hl, List.length_eq_zero_iff.mp hl']
  | cons e es ih =>
    cases c with
    | nil => simp at hl
    | cons v vs =>
      cases c' with
      | nil => simp at hl'
      | cons v' vs' =>
        simp only [flat] at h
        have t1 := flat_lt es vs (by simpa using hl) (fun a ha => by simpa using hr (a + 1) (by simp; omega))
        have t2 := flat_lt es vs' (by simpa using hl') (fun a ha => by simpa using hr' (a + 1) (by simp; omega))
        have hvv : v = v' ∧ flat es vs = flat es vs' := by
          rcases t1 with t1 | t1
          · rcases t2 with t2 | t2
            · set P := es.foldl (· * ·) 1 with hP
              have hPpos : 0 < P := by omega
              have h1 : (v * P + flat es vs) / P = v := by
                rw [Nat.add_comm, Nat.add_mul_div_right _ _ hPpos, Nat.div_eq_of_lt t1]; simp
              have h2 : (v' * P + flat es vs') / P = v' := by
                rw [Nat.add_comm, Nat.add_mul_div_right _ _ hPpos, Nat.div_eq_of_lt t2]; simp
              have : v = v' := by rw [← h1, ← h2, h]
              subst this
              exact ⟨rfl, by omega⟩
            · subst t2
              have e1 : vs = [] := List.length_eq_zero_iff.mp (by simpa using hl)
              have e2 : vs' = [] := List.length_eq_zero_iff.mp (by simpa using hl')
              subst e1 e2
              simp [flat] at h ⊢; exact h
          · subst t1
            have e1 : vs = [] := List.length_eq_zero_iff.mp (by simpa using hl)
            have e2 : vs' = [] := List.length_eq_zero_iff.mp (by simpa using hl')
            subst e1 e2
            simp [flat] at h ⊢; exact h
        obtain ⟨rfl, hf⟩ := hvv
        rw [ih vs vs' (by simpa using hl) (by simpa using hl')
          (fun a ha => by simpa using hr (a + 1) (by simp; omega))
          (fun a ha => by simpa using hr' (a + 1) (by simp; omega)) hf]

end Catii.Agg

namespace Catii.Agg
open Catii.Cube Catii.Marg Catii.Kern

theorem map_eq_iff_zip_all (dims : List Dim) (c : Cell) (r : ℕ) (hl : c.length = dims.length) :
    dims.map (fun d => dense d r) = c ↔ ((dims.zip c).all fun (d, v) => dense d r == v) = true := by
  induction dims generalizing c with
  | nil => have : c = [] := List.length_eq_zero_iff.mp hl; subst this; simp
  | cons d ds ih =>
    cases c with
    | nil => simp at hl
    | cons v vs =>
      simp only [List.map_cons, List.cons.injEq, List.zip_cons_cons, List.all_cons, Bool.and_eq_true, beq_iff_eq]
      rw [ih vs (by simpa using hl)]

theorem getD_map_dense (dims : List Dim) (r a : ℕ) (ha : a < dims.length) :
    (dims.map (fun d => dense d r)).getD a 0 = dense (dims.getD a default) r := by
  rw [List.getD_eq_getElem?_getD, List.getD_eq_getElem?_getD, List.getElem?_map, List.getElem?_eq_getElem ha]
  simp

/-- `bincount` over strided coordinates is the per-cell sum (xcube = direct) -/
theorem xMeasure_eq_direct {dims : List Dim} {exts : List ℕ} {N : ℕ} (h : CubeOK dims exts N)
    (μ : ℕ → ℚ) (c : Cell) (hc : c ∈ allCells exts) :
    xMeasure (dims.map fun d => fun r => dense d r) exts N μ c = directMeasure dims N μ c := by
  obtain ⟨hl, hlt⟩ := (mem_allCells exts c).mp hc
  unfold xMeasure directMeasure
  congr 2
  apply List.filter_congr
  intro r _
  have hmap : ((dims.map fun d => fun r => dense d r).map (· r)) = dims.map (fun d => dense d r) := by
    simp [List.map_map, Function.comp]
  rw [hmap]
  have hlm : (dims.map (fun d => dense d r)).length = exts.length := by simp [h.len]
  rw [flatIndex_eq_flat exts _ hlm, flatIndex_eq_flat exts c hl]
  have hrange : ∀ a < exts.length, (dims.map (fun d => dense d r)).getD a 0 < exts.getD a 0 := by
    intro a ha
    have ha' : a < dims.length := by rw [← h.len]; exact ha
    rw [getD_map_dense dims r a ha']
    exact dense_lt _ (h.keys_lt a ha') (h.cm_lt a ha') r
  have hl' : c.length = dims.length := by rw [hl, h.len]
  by_cases heq : dims.map (fun d => dense d r) = c
  · have hz := (map_eq_iff_zip_all dims c r hl').mp heq
    rw [hz, heq]; simp
  · have h1 : (flat exts (dims.map (fun d => dense d r)) == flat exts c) = false := by
      simp only [beq_eq_false_iff_ne, ne_eq]
      intro hf
      exact heq (flat_inj exts _ c hlm hl hrange hlt hf)
    rw [h1]
    symm
    rw [Bool.eq_false_iff]
    intro hz
    exact heq ((map_eq_iff_zip_all dims c r hl').mpr hz)

theorem isClose0_zero (x : ℚ) : isClose0 0 x = decide (x = 0) := by
  unfold isClose0 rabs
  by_cases hx : x = 0
  · subst hx; simp
  · simp only [hx, decide_false, decide_eq_false_iff_not, not_le]
    split
    · linarith
    · rcases lt_or_gt_of_ne hx with h1 | h1
      · linarith
      · exact h1

theorem reduceCell_tol (s : Spec) (a v m den : ℚ)
    (h1 : isClose0 s.zeroTol a = decide (a = 0)) (h2 : isClose0 s.zeroTol den = decide (den = 0)) :
    reduceCell s a v m den = reduceCell { s with zeroTol := 0 } a v m den := by
  obtain ⟨func, fact, weights, ign, ret, tol⟩ := s
  simp only at h1 h2
  cases func <;> simp only [reduceCell, h1, h2, isClose0_zero]

/-- **C03**: on every output cell the index cube, the array cube built from the equivalent dense
arrays, and the direct per-cell computation agree — in exact arithmetic, for every aggregate,
weight form, fact form and missing-value policy — provided the ccube's near-zero tolerance does
not bite (`hTol`: the quantities it is applied to are exactly 0 or farther than the tolerance) -/
theorem three_way_agreement (s : Spec) {dims : List Dim} {exts : List ℕ} {N : ℕ} (h : CubeOK dims exts N)
    (hTol : ∀ c ∈ allCells exts,
      isClose0 s.zeroTol (directMeasure dims N (rowVal s) c) = decide (directMeasure dims N (rowVal s) c = 0) ∧
      isClose0 s.zeroTol (directMeasure dims N (rowDen s) c) = decide (directMeasure dims N (rowDen s) c = 0)) :
    ∃ f, ccubeAgg s dims exts N = .ok f ∧ ∀ c ∈ allCells exts,
      f c = directAgg s dims N c ∧
      xcubeAgg s (dims.map fun d => fun r => dense d r) exts N c = directAgg s dims N c := by
  obtain ⟨f, hf, hspec⟩ := ccubeAgg_spec s h
  refine ⟨f, hf, fun c hc => ⟨?_, ?_⟩⟩
  · rw [hspec c hc]
    obtain ⟨t1, t2⟩ := hTol c hc
    unfold directAgg aggFrom
    exact reduceCell_tol s _ _ _ _ t1 t2
  · unfold xcubeAgg directAgg aggFrom
    simp only [xMeasure_eq_direct h _ c hc]

end Catii.Agg

namespace Catii.Agg
open Catii.Cube Catii.Marg Catii.Kern

/-- row `r` falls in cell `c` -/
def inCell (dims : List Dim) (c : Cell) (r : ℕ) : Bool := (dims.zip c).all fun (d, v) => dense d r == v

theorem list_sum_nonneg (l : List ℕ) (f : ℕ → ℚ) (h : ∀ x, 0 ≤ f x) : 0 ≤ (l.map f).sum := by
  induction l with
  | nil => simp
  | cons a as ih => simp only [List.map_cons, List.sum_cons]; linarith [h a]

theorem list_sum_eq_zero_iff (l : List ℕ) (f : ℕ → ℚ) (h : ∀ x, 0 ≤ f x) :
    (l.map f).sum = 0 ↔ ∀ x ∈ l, f x = 0 := by
  induction l with
  | nil => simp
  | cons a as ih =>
    simp only [List.map_cons, List.sum_cons, List.mem_cons, forall_eq_or_imp]
    have h1 := h a
    have h2 := list_sum_nonneg as f h
    constructor
    · intro hs
      have ha : f a = 0 := by linarith
      exact ⟨ha, ih.mp (by linarith)⟩
    · rintro ⟨ha, hr⟩
      rw [ha, ih.mpr hr]; simp

theorem ind_nonneg (b : Bool) : 0 ≤ ind b := by unfold ind; split <;> simp

/-- the counter of rows satisfying `p` in a cell is zero iff no row of the cell satisfies `p` -/
theorem counter_zero_iff (dims : List Dim) (N : ℕ) (p : ℕ → Bool) (c : Cell) :
    directMeasure dims N (fun r => ind (p r)) c = 0 ↔ ∀ r < N, inCell dims c r = true → p r = false := by
  unfold directMeasure
  rw [list_sum_eq_zero_iff _ _ (fun x => ind_nonneg _)]
  simp only [List.mem_filter, List.mem_range, inCell]
  constructor
  · intro hh r hr hin
    have := hh r ⟨hr, hin⟩
    unfold ind at this
    cases hp : p r with
    | false => rfl
    | true => rw [hp] at this; simp at this
  · rintro hh r ⟨hr, hin⟩
    rw [hh r hr hin]; rfl

theorem reduceCell_missing_iff (s : Spec) (a v m den : ℚ)
    (hw : s.func = .count → s.weights ≠ .none)
    (hex : ¬ (s.func = .validCount ∧ s.ret.isPlainZero = true))
    (hvd : v = 0 → den = 0) :
    (reduceCell { s with zeroTol := 0 } a v m den).missing = true ↔
      v = 0 ∨ (s.ignoreMissing = false ∧ m ≠ 0) ∨ (s.func = .mean ∧ den = 0) := by
  obtain ⟨func, fact, weights, ign, ret, tol⟩ := s
  simp only at hw hex ⊢
  unfold reduceCell
  cases func with
  | count =>
    cases weights with
    | none => exact absurd rfl (hw rfl)
    | scalar x ok => cases ign <;> by_cases hv : v = 0 <;> by_cases hm : m = 0 <;> simp [hv, hm]
    | rows col => cases ign <;> by_cases hv : v = 0 <;> by_cases hm : m = 0 <;> simp [hv, hm]
  | validCount =>
    have : ret.isPlainZero = false := by
      cases hr : ret.isPlainZero with
      | false => rfl
      | true => exact absurd ⟨rfl, hr⟩ hex
    simp only [this]
    cases ign <;> by_cases hv : v = 0 <;> by_cases hm : m = 0 <;> simp [hv, hm]
  | sum => cases ign <;> by_cases hv : v = 0 <;> by_cases hm : m = 0 <;> simp [hv, hm]
  | mean =>
    simp only [isClose0_zero]
    by_cases hd : den = 0
    · cases ign <;> by_cases hv : v = 0 <;> by_cases hm : m = 0 <;> simp [hv, hm, hd]
    · have hv : v ≠ 0 := fun h => hd (hvd h)
      cases ign <;> by_cases hm : m = 0 <;> simp [hv, hm, hd]

/-- **C04, the rule**: for every aggregate over a fact and/or weights, a cell is missing exactly when
no valid row falls in it (which covers "no row at all"), or — unless missing values are ignored — some
row of the cell is missing, or (mean) the valid weights sum to zero -/
theorem missing_rule (s : Spec) (dims : List Dim) (N : ℕ) (c : Cell)
    (hw : s.func = .count → s.weights ≠ .none)
    (hex : ¬ (s.func = .validCount ∧ s.ret.isPlainZero = true)) :
    (directAgg s dims N c).missing = true ↔
      (∀ r < N, inCell dims c r = true → rowOk s r = false) ∨
      (s.ignoreMissing = false ∧ ∃ r < N, inCell dims c r = true ∧ rowOk s r = false) ∨
      (s.func = .mean ∧ directMeasure dims N (rowDen s) c = 0) := by
  have hv := counter_zero_iff dims N (fun r => rowOk s r) c
  have hm : directMeasure dims N (fun r => ind (!rowOk s r)) c ≠ 0 ↔
      ∃ r < N, inCell dims c r = true ∧ rowOk s r = false := by
    rw [Ne, counter_zero_iff dims N (fun r => !rowOk s r) c]
    constructor
    · intro h
      by_contra hne
      apply h
      intro r hr hin
      by_contra hb
      apply hne
      refine ⟨r, hr, hin, ?_⟩
      cases hrk : rowOk s r with
      | false => rfl
      | true => rw [hrk] at hb; simp at hb
    · rintro ⟨r, hr, hin, hb⟩ h
      have := h r hr hin
      rw [hb] at this; simp at this
  have hvd : directMeasure dims N (fun r => ind (rowOk s r)) c = 0 → directMeasure dims N (rowDen s) c = 0 := by
    intro h0
    have hall := hv.mp h0
    unfold directMeasure
    apply List.sum_eq_zero
    intro x hx
    obtain ⟨r, hr, rfl⟩ := List.mem_map.mp hx
    simp only [List.mem_filter, List.mem_range] at hr
    have := hall r hr.1 hr.2
    simp [rowDen, this]
  unfold directAgg aggFrom
  have key := reduceCell_missing_iff s (directMeasure dims N (rowVal s) c)
    (directMeasure dims N (fun r => ind (rowOk s r)) c) (directMeasure dims N (fun r => ind (!rowOk s r)) c)
    (directMeasure dims N (rowDen s) c) hw hex hvd
  rw [← hv, ← hm]
  exact key

/-- **C04, the formats**: the three report formats describe the same missing cells and identical values
everywhere else -/
theorem formats_agree (s : Spec) (c : CellOut) (sentinel v : ℚ) :
    ((render { s with ret := .nan } c).1 = none ↔ c.missing = true) ∧
    ((render { s with ret := .pair sentinel } c).2 = !c.missing) ∧
    (c.missing = false →
      (render { s with ret := .nan } c).1 = some c.value ∧
      (render { s with ret := .pair sentinel } c).1 = some c.value ∧
      (render { s with ret := .plain v } c).1 = some c.value) := by
  unfold render
  cases hm : c.missing <;> simp

end Catii.Agg

namespace Catii.Agg
open Catii.Cube Catii.Marg Catii.Kern

/-- two dimension lists stand for the same dense columns over rows `0..N-1` -/
abbrev SameDense (N : ℕ) (dims dims' : List Dim) : Prop :=
  List.Forall₂ (fun d d' => ∀ r < N, dense d r = dense d' r) dims dims'

theorem directMeasure_congr {dims dims' : List Dim} {N : ℕ} (hd : SameDense N dims dims') (μ : ℕ → ℚ) (c : Cell) :
    directMeasure dims N μ c = directMeasure dims' N μ c := by
  unfold directMeasure
  congr 2
  apply List.filter_congr
  intro r hr
  have hrN : r < N := List.mem_range.mp hr
  induction hd generalizing c with
  | nil => rfl
  | cons h _ ih =>
    cases c with
    | nil => rfl
    | cons v vs => simp only [List.zip_cons_cons, List.all_cons, h r hrN, ih vs]

/-- **C05 (core)**: every aggregate of the index cube is a function of the dense content of its
dimensions only — any two encodings (different stored common values) of the same columns give the
same cells -/
theorem ccube_depends_on_dense_only (s : Spec) {dims dims' : List Dim} {exts : List ℕ} {N : ℕ}
    (h : CubeOK dims exts N) (h' : CubeOK dims' exts N) (hd : SameDense N dims dims') :
    ∃ f f', ccubeAgg s dims exts N = .ok f ∧ ccubeAgg s dims' exts N = .ok f' ∧
      ∀ c ∈ allCells exts, f c = f' c := by
  obtain ⟨f, hf, hs⟩ := ccubeAgg_spec s h
  obtain ⟨f', hf', hs'⟩ := ccubeAgg_spec s h'
  refine ⟨f, f', hf, hf', fun c hc => ?_⟩
  rw [hs c hc, hs' c hc]
  unfold aggFrom
  simp only [directMeasure_congr hd]

end Catii.Agg
