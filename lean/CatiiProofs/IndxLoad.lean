import CatiiProofs.IndxSave
/-! The reader recovers exactly the data of any file laid out per the documentation. -/
namespace Catii.Indx

def LegalW (w : Nat) : Prop := w = 1 ∨ w = 2 ∨ w = 4 ∨ w = 8

/-- the data fits the chosen word sizes -/
structure Fits (es : List Entry) (common wi wr : Nat) : Prop where
  wi_legal : LegalW wi
  wr_legal : LegalW wr
  count : es.length < 2^32
  uniform : ∀ e ∈ es, e.coords.length = arityOf es
  arity_le : arityOf es ≤ 255
  common_lt : common < 256^wi
  coords_lt : ∀ e ∈ es, ∀ x ∈ e.coords, x < 256^wi
  len_lt : ∀ e ∈ es, e.rowids.length < 256^wr
  ids_lt : ∀ e ∈ es, ∀ x ∈ e.rowids, x < 256^wr
  ids_u32 : ∀ e ∈ es, ∀ x ∈ e.rowids, x < 2^32

theorem legal_tables (w : Nat) (h : LegalW w) :
    Gen.formatWidth w = w ∧ (Gen.wordDtype w).itemsize = w ∧ 0 < w := by
  rcases h with rfl | rfl | rfl | rfl <;> decide

theorem enc1 (a : Nat) (h : a < 256) : [a] = encLE 1 a := by
  simp [encLE]; omega

theorem map_mod_id (l : List Nat) (h : ∀ x ∈ l, x < 2^32) : l.map (· % 2^32) = l := by
  induction l with
  | nil => rfl
  | cons a as ih =>
    simp only [List.map_cons]
    rw [Nat.mod_eq_of_lt (h a List.mem_cons_self), ih (fun x hx => h x (List.mem_cons_of_mem _ hx))]

theorem parsePayload_payload (es : List Entry) (c wi wr : Nat) (h : Fits es c wi wr) :
    parsePayload (payload es c (arityOf es) wi wr) = .ok (es, c, wr) := by
  obtain ⟨hf1, hf2, hwi0⟩ := legal_tables wi h.wi_legal
  obtain ⟨_, hr2, hwr0⟩ := legal_tables wr h.wr_legal
  have hwi256 : wi < 256 := by rcases h.wi_legal with rfl | rfl | rfl | rfl <;> omega
  have hwr256 : wr < 256 := by rcases h.wr_legal with rfl | rfl | rfl | rfl <;> omega
  have hcoords : ∀ v ∈ es.flatMap (·.coords), v < 256 ^ wi := by
    intro v hv
    obtain ⟨e, he, hx⟩ := List.mem_flatMap.mp hv
    exact h.coords_lt e he v hx
  have hlens : ∀ v ∈ es.map (·.rowids.length), v < 256 ^ wr := by
    intro v hv
    obtain ⟨e, he, rfl⟩ := List.mem_map.mp hv
    exact h.len_lt e he
  have hids : ∀ v ∈ es.flatMap (·.rowids), v < 256 ^ wr := by
    intro v hv
    obtain ⟨e, he, hx⟩ := List.mem_flatMap.mp hv
    exact h.ids_lt e he v hx
  have hids32 : ∀ v ∈ es.flatMap (·.rowids), v < 2 ^ 32 := by
    intro v hv
    obtain ⟨e, he, hx⟩ := List.mem_flatMap.mp hv
    exact h.ids_u32 e he v hx
  have hncoords : (es.flatMap (·.coords)).length = es.length * arityOf es := by
    exact flatMap_length_const es (·.coords) (arityOf es) h.uniform
  have hcount : es.length < 256 ^ 4 := by have := h.count; omega
  unfold parsePayload payload
  rw [enc1 (arityOf es) (by have := h.arity_le; omega), enc1 wi hwi256, enc1 wr hwr256]
  simp only [List.append_assoc]
  rw [rdWord_enc 1 (arityOf es) _ (by have := h.arity_le; omega)]
  simp only [M_bind_ok]
  rw [rdWord_enc 4 es.length _ hcount]
  simp only [M_bind_ok]
  rw [rdWord_enc 1 wi _ (by omega)]
  simp only [M_bind_ok, hf1, hf2, hr2]
  have t1 := takeN_append (encLE wi c)
  simp only [encLE_length] at t1
  rw [t1]
  simp only [M_bind_ok, dec_enc wi c h.common_lt]
  rw [flatMap_flatMap_enc wi es (·.coords), ← hncoords]
  rw [rdWords_flat wi _ _ hcoords]
  simp only [M_bind_ok]
  rw [rdWord_enc 1 wr _ (by omega)]
  simp only [M_bind_ok, hr2]
  rw [flatMap_single_enc wr es (·.rowids.length)]
  have hl : es.length = (es.map (·.rowids.length)).length := by simp
  conv => lhs; arg 1; rw [hl]
  rw [rdWords_flat wr _ _ hlens]
  simp only [M_bind_ok]
  have t2 := takeN_append ((es.map (·.rowids.length)).flatMap (encLE wr))
  simp only [flatMap_enc_length, List.length_map] at t2
  rw [t2]
  simp only [M_bind_ok]
  rw [flatMap_flatMap_enc wr es (·.rowids)]
  have hdiv : ((es.flatMap (·.rowids)).flatMap (encLE wr)).length / wr = (es.flatMap (·.rowids)).length := by
    rw [flatMap_enc_length]; exact Nat.mul_div_cancel _ hwr0
  rw [hdiv]
  have t3 := rdWords_flat wr (es.flatMap (·.rowids)) [] hids
  simp only [List.append_nil] at t3
  rw [t3]
  simp only [M_bind_ok, M_pure]
  have hrows : sliceBy (es.map (·.rowids.length))
      (if wr = 4 then es.flatMap (·.rowids) else (es.flatMap (·.rowids)).map (· % 2^32)) = es.map (·.rowids) := by
    split
    · exact sliceBy_flat es
    · rw [map_mod_id _ hids32]; exact sliceBy_flat es
  rw [hrows, toRows_flat (arityOf es) es h.uniform]
  exact congrArg (fun l => (Except.ok (l, c, wr) : M _)) (zip_rebuild es)

theorem load_encodeWith (es : List Entry) (c wi wr : Nat) (h : Fits es c wi wr)
    (hsize : (payload es c (arityOf es) wi wr).length < 2^64) :
    load (encodeWith es c wi wr) = .ok (es, c, wr) := by
  unfold load encodeWith
  simp only [List.append_assoc]
  have hm : Gen.indxMagic.length = 4 := by decide
  have hv : Gen.indxVersion.length = 4 := by decide
  generalize hp : payload es c (arityOf es) wi wr = p at hsize
  have h1 : (Gen.indxMagic ++ (Gen.indxVersion ++ (encLE 8 p.length ++ p))).take 4 = Gen.indxMagic :=
    List.take_left' hm
  have h2 : ((Gen.indxMagic ++ (Gen.indxVersion ++ (encLE 8 p.length ++ p))).drop 4).take 4 = Gen.indxVersion := by
    rw [List.drop_left' hm]; exact List.take_left' hv
  have h3 : ((Gen.indxMagic ++ (Gen.indxVersion ++ (encLE 8 p.length ++ p))).drop 8).take 8 = encLE 8 p.length := by
    have : (Gen.indxMagic ++ (Gen.indxVersion ++ (encLE 8 p.length ++ p))).drop 8 = encLE 8 p.length ++ p := by
      rw [← List.append_assoc]
      exact List.drop_left' (by simp [hm, hv])
    rw [this]; exact List.take_left' (encLE_length _ _)
  have hlen : (Gen.indxMagic ++ (Gen.indxVersion ++ (encLE 8 p.length ++ p))).length = 16 + p.length := by
    simp [hm, hv]; omega
  have h5 : ((Gen.indxMagic ++ (Gen.indxVersion ++ (encLE 8 p.length ++ p))).take (16 + p.length)).drop 16 = p := by
    rw [List.take_of_length_le (by omega)]
    rw [← List.append_assoc, ← List.append_assoc]
    exact List.drop_left' (by simp [hm, hv])
  simp only [h1, h2, h3, ne_eq, not_true_eq_false, if_false, encLE_length, Nat.lt_irrefl,
    dec_enc 8 p.length (by omega), hlen, h5, bind, Except.bind, pure, Except.pure]
  rw [← hp]
  exact parsePayload_payload es c wi wr h

end Catii.Indx
