import CatiiProofs.KernSets
/-! k-way union: strictly increasing union of all inputs. -/
namespace Catii.Kern

def AllSorted (ls : List (List Nat)) : Prop := ∀ l ∈ ls, SSorted l

theorem minHead_le {ls : List (List Nat)} {m : Nat} (h : minHead ls = some m) :
    ∀ l ∈ ls, ∀ a t, l = a :: t → m ≤ a := by
  induction ls generalizing m with
  | nil => intro l hl; simp at hl
  | cons x xs ih =>
    cases x with
    | nil =>
      simp only [minHead] at h
      intro l hl a t hlt
      rcases List.mem_cons.mp hl with rfl | hl'
      · cases hlt
      · exact ih h l hl' a t hlt
    | cons b bs =>
      simp only [minHead] at h
      intro l hl a t hlt
      cases hm : minHead xs with
      | none =>
        rw [hm] at h; simp at h; subst h
        rcases List.mem_cons.mp hl with rfl | hl'
        · cases hlt; exact Nat.le_refl _
        · -- minHead xs = none means every list in xs is empty
          exfalso
          have : ∀ ys : List (List Nat), minHead ys = none → ∀ l ∈ ys, l = [] := by
            intro ys
            induction ys with
            | nil => intro _ l hl; simp at hl
            | cons y ys ihy =>
              intro hn l hl
              cases y with
              | nil =>
                simp only [minHead] at hn
                rcases List.mem_cons.mp hl with rfl | hl''
                · rfl
                · exact ihy hn l hl''
              | cons c cs =>
                simp only [minHead] at hn
                cases hq : minHead ys with
                | none => rw [hq] at hn; simp at hn
                | some q => rw [hq] at hn; by_cases hc : q < c <;> simp [hc] at hn
          have := this xs hm l hl'
          rw [this] at hlt; cases hlt
      | some q =>
        rw [hm] at h
        by_cases hlt' : q < b
        · simp [hlt'] at h; subst h
          rcases List.mem_cons.mp hl with rfl | hl'
          · cases hlt; omega
          · exact ih hm l hl' a t hlt
        · simp [hlt'] at h; subst h
          rcases List.mem_cons.mp hl with rfl | hl'
          · cases hlt; exact Nat.le_refl _
          · have := ih hm l hl' a t hlt; omega

theorem minHead_none {ls : List (List Nat)} (h : minHead ls = none) : ∀ l ∈ ls, l = [] := by
  induction ls with
  | nil => intro l hl; simp at hl
  | cons y ys ihy =>
    intro l hl
    cases y with
    | nil =>
      simp only [minHead] at h
      rcases List.mem_cons.mp hl with rfl | hl''
      · rfl
      · exact ihy h l hl''
    | cons c cs =>
      simp only [minHead] at h
      cases hq : minHead ys with
      | none => rw [hq] at h; simp at h
      | some q => rw [hq] at h; by_cases hc : q < c <;> simp [hc] at h

theorem adv1_sublist (m : Nat) (l : List Nat) : (adv1 m l).Sublist l := by
  cases l with
  | nil => simp [adv1]
  | cons a as => by_cases ha : a = m <;> simp [adv1, ha]

theorem advance_sorted (m : Nat) {ls : List (List Nat)} (h : AllSorted ls) : AllSorted (advance m ls) := by
  intro l hl
  simp only [advance, List.mem_map] at hl
  obtain ⟨l0, hl0, rfl⟩ := hl
  exact (h l0 hl0).sublist (adv1_sublist m l0)

theorem advance_gt {ls : List (List Nat)} {m : Nat} (hs : AllSorted ls) (h : minHead ls = some m) :
    ∀ l ∈ advance m ls, ∀ x ∈ l, m < x := by
  intro l hl x hx
  simp only [advance, List.mem_map] at hl
  obtain ⟨l0, hl0, rfl⟩ := hl
  cases l0 with
  | nil => simp [adv1] at hx
  | cons a as =>
    have hle := minHead_le h _ hl0 a as rfl
    have hsa := List.pairwise_cons.mp (hs _ hl0)
    by_cases ha : a = m
    · simp [adv1, ha] at hx
      have := hsa.1 x hx; omega
    · simp [adv1, ha] at hx
      rcases hx with rfl | hx
      · omega
      · have := hsa.1 x hx; omega

theorem mem_advance {ls : List (List Nat)} {m : Nat} (h : minHead ls = some m) (x : Nat) :
    (∃ l ∈ ls, x ∈ l) ↔ x = m ∨ ∃ l ∈ advance m ls, x ∈ l := by
  constructor
  · rintro ⟨l, hl, hx⟩
    cases l with
    | nil => simp at hx
    | cons a as =>
      by_cases ha : a = m
      · rcases List.mem_cons.mp hx with rfl | hx'
        · exact Or.inl ha
        · exact Or.inr ⟨as, by simp only [advance, List.mem_map]; exact ⟨a :: as, hl, by simp [adv1, ha]⟩, hx'⟩
      · exact Or.inr ⟨a :: as, by simp only [advance, List.mem_map]; exact ⟨a :: as, hl, by simp [adv1, ha]⟩, hx⟩
  · rintro (rfl | ⟨l, hl, hx⟩)
    · obtain ⟨l, hl, t, rfl⟩ := minHead_mem h
      exact ⟨_, hl, List.mem_cons_self⟩
    · simp only [advance, List.mem_map] at hl
      obtain ⟨l0, hl0, rfl⟩ := hl
      exact ⟨l0, hl0, (adv1_sublist m l0).subset hx⟩

theorem unionManyL_spec (ls : List (List Nat)) (hs : AllSorted ls) :
    SSorted (unionManyL ls) ∧ ∀ x, x ∈ unionManyL ls ↔ ∃ l ∈ ls, x ∈ l := by
  fun_induction unionManyL ls
  case case1 ls h =>
    refine ⟨List.Pairwise.nil, fun x => ?_⟩
    simp only [List.not_mem_nil, false_iff]
    rintro ⟨l, hl, hx⟩
    rw [minHead_none h l hl] at hx; simp at hx
  case case2 ls m h ih =>
    obtain ⟨ihs, ihm⟩ := ih (advance_sorted m hs)
    refine ⟨List.pairwise_cons.mpr ⟨fun x hx => ?_, ihs⟩, fun x => ?_⟩
    · obtain ⟨l, hl, hxl⟩ := (ihm x).mp hx
      exact advance_gt hs h l hl x hxl
    · rw [mem_advance h x, List.mem_cons, ihm x]

end Catii.Kern
