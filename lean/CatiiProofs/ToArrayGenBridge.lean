import CatiiModel.Gen.ToArrayGen
import CatiiProofs.ShiftGenBridge
/-! The `not mapping` branch of `iindex.to_array` as REGENERATED from the source (`tools/translate_toarray.py`) is the model's
`toArray i none dt`, for every index and every requested dtype. -/
namespace Catii.IIdx

theorem foldl_max_assoc (l : List Int) (a b : Int) : l.foldl max (max a b) = max a (l.foldl max b) := by
  induction l generalizing b with
  | nil => rfl
  | cons x l ih =>
    simp only [List.foldl_cons]
    rw [show max (max a b) x = max a (max b x) by omega, ih]

theorem foldl_min_assoc (l : List Int) (a b : Int) : l.foldl min (min a b) = min a (l.foldl min b) := by
  induction l generalizing b with
  | nil => rfl
  | cons x l ih =>
    simp only [List.foldl_cons]
    rw [show min (min a b) x = min a (min b x) by omega, ih]

theorem foldl_max_ge (l : List Int) (a : Int) : a ≤ l.foldl max a := by
  induction l generalizing a with
  | nil => exact Int.le_refl _
  | cons x l ih => simp only [List.foldl_cons]; have := ih (max a x); omega

theorem foldl_min_le (l : List Int) (a : Int) : l.foldl min a ≤ a := by
  induction l generalizing a with
  | nil => exact Int.le_refl _
  | cons x l ih => simp only [List.foldl_cons]; have := ih (min a x); omega

/-- Python's `max` of a list that ends with `c` is the fold the model uses (started from `c`) -/
theorem pyMax_append (l : List Int) (c : Int) : pyMax (l ++ [c]) = listMax (l ++ [c]) c := by
  unfold listMax
  cases l with
  | nil => simp [pyMax]
  | cons x l =>
    simp only [pyMax, List.cons_append, List.foldl_cons, List.foldl_append, List.foldl_nil]
    rw [show max c x = max c x from rfl, foldl_max_assoc l c x]
    have := foldl_max_ge l x
    omega

theorem pyMin_append (l : List Int) (c : Int) : pyMin (l ++ [c]) = listMin (l ++ [c]) c := by
  unfold listMin
  cases l with
  | nil => simp [pyMin]
  | cons x l =>
    simp only [pyMin, List.cons_append, List.foldl_cons, List.foldl_append, List.foldl_nil]
    rw [foldl_min_assoc l c x]
    have := foldl_min_le l x
    omega

/-- one fancy-index assignment of the regenerated loop is one step of the model's scatter -/
theorem assign_is_scatStep (i : IIndex) (dt : DT) (out : Array Int) (k : Key) (rows : Rows) :
    (if i.shape.length > 1 then npAssignRows i.shape dt out rows (some (k.getD 1 0)) (k.getD 0 0)
     else npAssignRows i.shape dt out rows none (k.getD 0 0))
      = scatStep i.ndim (dtFits (some dt)) i.nrows (if i.ndim > 1 then i.shape.getD 1 0 else 1) out (k, rows, val0 k) := by
  unfold npAssignRows scatStep
  simp only [getD0_eq_val0, dtFits, IIndex.ndim, IIndex.nrows]
  by_cases hn : i.shape.length > 1
  · simp only [hn, if_true]
    by_cases he : rows.isEmpty
    · simp [he]
    · simp only [he, Bool.false_eq_true, if_false]
      by_cases hf : dtRange dt (val0 k)
      · simp [hf]
      · simp [hf]
  · simp only [hn, if_false]
    by_cases he : rows.isEmpty
    · simp [he]
    · simp only [he, Bool.false_eq_true, if_false]
      by_cases hf : dtRange dt (val0 k)
      · simp [hf]
      · simp [hf]

theorem default_dtype_eq (i : IIndex) :
    fitDtype (pyMax ((i.entries.map fun x => match x with | (coords, _) => coords.getD 0 0) ++ [i.common]))
        (min (pyMin ((i.entries.map fun x => match x with | (coords, _) => coords.getD 0 0) ++ [i.common])) (0 : Int))
      = fitDtype (listMax (i.entries.map (fun e => val0 e.1) ++ [i.common]) i.common)
          (min (listMin (i.entries.map (fun e => val0 e.1) ++ [i.common]) i.common) 0) := by
  have : (fun (x : Key × Rows) => match x with | (coords, _) => coords.getD 0 0) = (fun e => val0 e.1) := by
    funext x; obtain ⟨k, r⟩ := x; exact getD0_eq_val0 k
  rw [this, pyMax_append, pyMin_append]

/-- allocation + scatter loops of the regenerated method, for a FIXED dtype, are the model's `scatter` -/
theorem plain_core (i : IIndex) (d : DT) :
    (do
      let output ← npFull i.shape i.common d
      let output ← if i.shape.length > 1 then
          i.entries.foldlM (fun output (x : Key × Rows) => npAssignRows i.shape d output x.2 (some (x.1.getD 1 0)) (x.1.getD 0 0)) output
        else
          i.entries.foldlM (fun output (x : Key × Rows) => npAssignRows i.shape d output x.2 none (x.1.getD 0 0)) output
      pure ({ shape := i.shape, data := output.toList } : Arr) : M Arr)
      = scatter i i.common (some d) (i.entries.map fun e => (e.1, e.2, val0 e.1)) := by
  unfold scatter npFull
  simp only [bind, Except.bind, pure, Except.pure, IIndex.ndim, dtFits, IIndex.nrows]
  by_cases h3 : i.shape.length > 2
  · simp [h3, throw, throwThe, MonadExceptOf.throw]
  · simp only [h3, if_false]
    by_cases hf : dtRange d i.common
    · simp only [hf, Bool.not_true, Bool.false_eq_true, if_false]
      rw [List.foldlM_map]
      by_cases hn : i.shape.length > 1
      · simp only [hn, if_true]
        congr 2
        funext out e
        have := assign_is_scatStep i d out e.1 e.2
        simpa only [IIndex.ndim, IIndex.nrows, dtFits, hn, if_true] using this
      · simp only [hn, if_false]
        congr 2
        funext out e
        have := assign_is_scatStep i d out e.1 e.2
        simpa only [IIndex.ndim, IIndex.nrows, dtFits, hn, if_false] using this
    · simp [hf, throw, throwThe, MonadExceptOf.throw]

/-- the regenerated `to_array` (no mapping) is the modelled one: same array, same error, for every index and dtype -/
theorem gen_toArray_eq (i : IIndex) (dt : Option DT) : Gen.toArrayPlainGen i dt = toArray i none dt := by
  unfold Gen.toArrayPlainGen toArray
  cases dt with
  | some d => exact plain_core i d
  | none =>
    simp only [default_dtype_eq]
    exact plain_core i _

end Catii.IIdx
