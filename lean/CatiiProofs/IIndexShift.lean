import CatiiProofs.IIndexBasic
/-! `shift_common`: what it returns, that the dense content is unchanged, and that
well-formedness is preserved. Core Lean only. -/
namespace Catii.IIdx
open Catii.Kern

/-- the result of re-encoding with common value `nc ≠ common` -/
def shiftTo (i : IIndex) (nc : Int) : IIndex :=
  { entries := (i.entries ++ commonEntries i).filter (fun e => !(val0 e.1 == nc)), common := nc, shape := i.shape }

theorem shiftCommon_some (i : IIndex) (h : WF i) (hnd : i.ndim ≤ 2) (v : Int) :
    shiftCommon i (some v) = .ok (if v = i.common then i else shiftTo i v) := by
  unfold shiftCommon
  simp only [pure, Except.pure, bind, Except.bind]
  by_cases hv : v = i.common
  · simp [hv]
  · have : (v == i.common) = false := by simpa using hv
    simp only [this, Bool.false_eq_true, if_false, hv]
    have : ¬ i.ndim > 2 := by omega
    simp only [this, if_false]
    rw [fold_materialise i h]
    rfl

theorem mem_commonEntries (i : IIndex) (e : Key × Rows) :
    e ∈ commonEntries i ↔ ∃ hi ∈ hiCells (i.shape.drop 1), commonRowidsHi i hi ≠ [] ∧
      e = (i.common :: hi, commonRowidsHi i hi) := by
  unfold commonEntries
  simp only [List.mem_filterMap]
  constructor
  · rintro ⟨hi, hhi, hopt⟩
    by_cases hc : (commonRowidsHi i hi).isEmpty
    · simp [hc] at hopt
    · simp only [hc, Bool.false_eq_true, if_false, Option.some.injEq] at hopt
      exact ⟨hi, hhi, by simpa using hc, hopt.symm⟩
  · rintro ⟨hi, hhi, hne, rfl⟩
    refine ⟨hi, hhi, ?_⟩
    have : (commonRowidsHi i hi).isEmpty = false := by simpa using hne
    simp [this]

/-- re-encoding changes no cell -/
theorem dense_shiftTo (i : IIndex) (h : WF i) (v : Int) (r : Nat) (hr : r < i.nrows) (hi : List Int)
    (hhi : hi ∈ hiCells (i.shape.drop 1)) : denseAt (shiftTo i v) r hi = denseAt i r hi := by
  by_cases hl : ∃ e ∈ i.entries, e.1.drop 1 = hi ∧ r ∈ e.2
  · obtain ⟨e, he, hehi, hre⟩ := hl
    rw [denseAt_of_mem i h e he r hi hehi hre]
    by_cases hev : val0 e.1 = v
    · -- the entry is dropped; the cell becomes (new) common
      rw [denseAt_of_not_mem]
      · simp [shiftTo, hev]
      · intro e' he' hhi' hr'
        simp only [shiftTo, List.mem_filter, List.mem_append] at he'
        obtain ⟨hm, hne⟩ := he'
        have hne' : val0 e'.1 ≠ v := by simpa using hne
        rcases hm with hm | hm
        · exact hne' ((h.exclusive e' hm e he (by rw [hhi', hehi]) r hr' hre).trans hev)
        · obtain ⟨hi', _, _, rfl⟩ := (mem_commonEntries i e').mp hm
          simp at hhi'
          subst hhi'
          exact ((mem_commonRowidsHi i hi' r).mp hr').2 e he hehi hre
    · apply denseAt_eq
      · refine ⟨e, ?_, hehi, hre⟩
        simp only [shiftTo, List.mem_filter, List.mem_append]
        exact ⟨Or.inl he, by simpa using hev⟩
      · intro e' he' hhi' hr'
        simp only [shiftTo, List.mem_filter, List.mem_append] at he'
        obtain ⟨hm, _⟩ := he'
        rcases hm with hm | hm
        · exact h.exclusive e' hm e he (by rw [hhi', hehi]) r hr' hre
        · obtain ⟨hi', _, _, rfl⟩ := (mem_commonEntries i e').mp hm
          simp at hhi'
          subst hhi'
          exact absurd hre (((mem_commonRowidsHi i hi' r).mp hr').2 e he hehi)
  · have hnl : ∀ e ∈ i.entries, e.1.drop 1 = hi → r ∉ e.2 := fun e he h1 h2 => hl ⟨e, he, h1, h2⟩
    rw [denseAt_of_not_mem i r hi hnl]
    have hcr : r ∈ commonRowidsHi i hi := (mem_commonRowidsHi i hi r).mpr ⟨hr, hnl⟩
    have hne : commonRowidsHi i hi ≠ [] := List.ne_nil_of_mem hcr
    by_cases hcv : i.common = v
    · -- shifting to the same value: nothing listed, common unchanged
      rw [denseAt_of_not_mem]
      · simp [shiftTo, hcv]
      · intro e' he' hhi' hr'
        simp only [shiftTo, List.mem_filter, List.mem_append] at he'
        obtain ⟨hm, hne'⟩ := he'
        rcases hm with hm | hm
        · exact hnl e' hm hhi' hr'
        · obtain ⟨hi', _, _, rfl⟩ := (mem_commonEntries i e').mp hm
          simp [val0, hcv] at hne'
    · apply denseAt_eq
      · refine ⟨(i.common :: hi, commonRowidsHi i hi), ?_, by simp, hcr⟩
        simp only [shiftTo, List.mem_filter, List.mem_append]
        exact ⟨Or.inr ((mem_commonEntries i _).mpr ⟨hi, hhi, hne, rfl⟩), by simpa [val0] using hcv⟩
      · intro e' he' hhi' hr'
        simp only [shiftTo, List.mem_filter, List.mem_append] at he'
        obtain ⟨hm, _⟩ := he'
        rcases hm with hm | hm
        · exact absurd hr' (hnl e' hm hhi')
        · obtain ⟨hi', _, _, rfl⟩ := (mem_commonEntries i e').mp hm
          rfl

end Catii.IIdx

namespace Catii.IIdx
open Catii.Kern

theorem hiCells_length (shape : List Nat) : ∀ hi ∈ hiCells shape, hi.length = shape.length := by
  induction shape with
  | nil => intro hi h; simp [hiCells] at h; subst h; rfl
  | cons n ns ih =>
    intro hi h
    simp only [hiCells, List.mem_flatMap, List.mem_map] at h
    obtain ⟨j, _, t, ht, rfl⟩ := h
    simp [ih t ht]

theorem pairwise_filter_of {α} {R : α → α → Prop} {l : List α} (p : α → Bool) (h : l.Pairwise R) :
    (l.filter p).Pairwise R := h.sublist List.filter_sublist

/-- re-encoding preserves well-formedness -/
theorem wf_shiftTo (i : IIndex) (h : WF i) (v : Int) : WF (shiftTo i v) := by
  have hmem : ∀ e, e ∈ (shiftTo i v).entries →
      (e ∈ i.entries ∨ e ∈ commonEntries i) ∧ val0 e.1 ≠ v := by
    intro e he
    simp only [shiftTo, List.mem_filter, List.mem_append] at he
    exact ⟨he.1, by simpa using he.2⟩
  have hcommonKeys : (commonEntries i).Pairwise (fun a b => a.1 ≠ b.1) := by
    unfold commonEntries
    rw [List.pairwise_filterMap]
    apply (hiCells_nodup _).imp
    intro a b hab x hx y hy
    by_cases ha : (commonRowidsHi i a).isEmpty <;> simp [ha] at hx
    by_cases hb : (commonRowidsHi i b).isEmpty <;> simp [hb] at hy
    subst hx hy
    simp; exact hab
  refine ⟨?_, ?_, h.ndimPos, ?_, ?_, ?_, ?_, ?_, ?_⟩
  · -- keys
    apply pairwise_filter_of
    rw [List.pairwise_append]
    refine ⟨h.keys, hcommonKeys, ?_⟩
    intro a ha b hb heq
    obtain ⟨hi, _, _, rfl⟩ := (mem_commonEntries i b).mp hb
    exact h.noCommon a ha (by rw [heq]; rfl)
  · intro e he
    rcases (hmem e he).1 with h1 | h1
    · exact h.arity e h1
    · obtain ⟨hi, hhi, _, rfl⟩ := (mem_commonEntries i e).mp h1
      have := hiCells_length _ hi hhi
      have hp := h.ndimPos
      simp only [IIndex.ndim, shiftTo, List.length_cons, this, List.length_drop] at hp ⊢
      omega
  · intro e he; exact (hmem e he).2
  · intro e he
    rcases (hmem e he).1 with h1 | h1
    · exact h.nonEmpty e h1
    · obtain ⟨hi, _, hne, rfl⟩ := (mem_commonEntries i e).mp h1; exact hne
  · intro e he
    rcases (hmem e he).1 with h1 | h1
    · exact h.sorted e h1
    · obtain ⟨hi, _, _, rfl⟩ := (mem_commonEntries i e).mp h1; exact commonRowidsHi_sorted i hi
  · intro e he r hr
    rcases (hmem e he).1 with h1 | h1
    · exact h.inRange e h1 r hr
    · obtain ⟨hi, _, _, rfl⟩ := (mem_commonEntries i e).mp h1
      exact ((mem_commonRowidsHi i hi r).mp hr).1
  · intro e he
    rcases (hmem e he).1 with h1 | h1
    · exact h.hiRange e h1
    · obtain ⟨hi, hhi, _, rfl⟩ := (mem_commonEntries i e).mp h1
      exact hhi
  · intro e he f hf hd r hre hrf
    rcases (hmem e he).1 with h1 | h1 <;> rcases (hmem f hf).1 with h2 | h2
    · exact h.exclusive e h1 f h2 hd r hre hrf
    · obtain ⟨hi, _, _, rfl⟩ := (mem_commonEntries i f).mp h2
      have hd' : e.1.drop 1 = hi := hd
      exact absurd hre (((mem_commonRowidsHi i hi r).mp hrf).2 e h1 hd')
    · obtain ⟨hi, _, _, rfl⟩ := (mem_commonEntries i e).mp h1
      have hd' : f.1.drop 1 = hi := hd.symm
      exact absurd hrf (((mem_commonRowidsHi i hi r).mp hre).2 f h2 hd')
    · obtain ⟨hi, _, _, rfl⟩ := (mem_commonEntries i e).mp h1
      obtain ⟨hi', _, _, rfl⟩ := (mem_commonEntries i f).mp h2
      rfl

/-- `shift_common()` (library-chosen value) is `shift_common(v)` for the value it picks -/
theorem shiftCommon_none (i : IIndex) (r : IIndex) (h : shiftCommon i none = .ok r) :
    ∃ v, chooseCommon i = some v ∧ shiftCommon i (some v) = .ok r := by
  unfold shiftCommon at h ⊢
  cases hc : chooseCommon i with
  | none => simp [hc, bind, Except.bind, throw, throwThe, MonadExceptOf.throw] at h
  | some v => exact ⟨v, rfl, by simpa [hc] using h⟩

/-- whatever value `shift_common` is given or picks: same dense content, still well-formed -/
theorem shiftCommon_refines (i : IIndex) (h : WF i) (hnd : i.ndim ≤ 2) (new : Option Int) (r : IIndex)
    (hr : shiftCommon i new = .ok r) :
    WF r ∧ r.shape = i.shape ∧
      ∀ row < i.nrows, ∀ hi ∈ hiCells (i.shape.drop 1), denseAt r row hi = denseAt i row hi := by
  have key : ∀ v, shiftCommon i (some v) = .ok r →
      (WF r ∧ r.shape = i.shape ∧
        ∀ row < i.nrows, ∀ hi ∈ hiCells (i.shape.drop 1), denseAt r row hi = denseAt i row hi) := by
    intro v hv
    rw [shiftCommon_some i h hnd v] at hv
    by_cases hvc : v = i.common
    · simp only [hvc, if_true] at hv
      cases hv
      exact ⟨h, rfl, fun _ _ _ _ => rfl⟩
    · simp only [hvc, if_false] at hv
      cases hv
      exact ⟨wf_shiftTo i h v, rfl, fun row hrow hi hhi => dense_shiftTo i h v row hrow hi hhi⟩
  cases new with
  | some v => exact key v hr
  | none =>
    obtain ⟨v, _, hv⟩ := shiftCommon_none i r hr
    exact key v hv

end Catii.IIdx
