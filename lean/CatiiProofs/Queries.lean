import CatiiProofs.IIndexShift
import CatiiProofs.Dict
/-! The forced queries — `get(key, force=True)`, `common_rowids`, `items(force=True)` — return
`numpy.where(column == value)` of the dense array (C06). Core Lean only. -/
namespace Catii.IIdx
open Catii.Kern

/-- a row is among the common rows of a column iff the dense array holds the common value there -/
theorem mem_commonRowidsHi_dense (i : IIndex) (h : WF i) (hi : List Int) (r : Nat) :
    r ∈ commonRowidsHi i hi ↔ r < i.nrows ∧ denseAt i r hi = i.common := by
  rw [mem_commonRowidsHi]
  constructor
  · rintro ⟨hr, hnot⟩
    exact ⟨hr, denseAt_of_not_mem i r hi hnot⟩
  · rintro ⟨hr, hd⟩
    refine ⟨hr, fun e he h1 h2 => ?_⟩
    have := denseAt_of_mem i h e he r hi h1 h2
    exact h.noCommon e he (by rw [← this, hd])

/-- rows listed under a key are exactly the rows where the dense array holds the key's value -/
theorem listed_iff_dense (i : IIndex) (h : WF i) (k : Key) (hk : 0 < k.length) (hv : val0 k ≠ i.common) (r : Nat) :
    Listed i.entries k r ↔ r < i.nrows ∧ (∃ e ∈ i.entries, e.1.drop 1 = k.drop 1 ∧ r ∈ e.2) ∧
      denseAt i r (k.drop 1) = val0 k := by
  constructor
  · rintro ⟨rows, hm, hr⟩
    exact ⟨h.inRange _ hm r hr, ⟨_, hm, rfl, hr⟩, denseAt_of_mem i h _ hm r _ rfl hr⟩
  · rintro ⟨_, ⟨e, he, h1, h2⟩, hd⟩
    have hval : val0 e.1 = val0 k := by rw [← denseAt_of_mem i h e he r _ h1 h2]; exact hd
    have hkey : e.1 = k := by
      have hpos : 0 < e.1.length := by rw [h.arity e he]; exact h.ndimPos
      rw [key_eq e.1 hpos, key_eq k hk, hval, h1]
    exact ⟨e.2, by rw [← hkey]; exact he, h2⟩

/-- **`get(key, force=True)`**: the rows where the column `key[1:]` of the dense array equals `key[0]`
(also for the common value), `None` when there is none -/
theorem getKey_force (i : IIndex) (h : WF i) (hnd : i.ndim ≤ 2) (k : Key) (hk : k.length = i.ndim)
    (hhi : k.drop 1 ∈ hiCells (i.shape.drop 1)) (r : Nat) :
    r ∈ (getKey i k true).getD [] ↔ r < i.nrows ∧ denseAt i r (k.drop 1) = val0 k := by
  have hpos : 0 < k.length := by rw [hk]; exact h.ndimPos
  unfold getKey
  by_cases hv : val0 k = i.common
  · have hb : (true && val0 k == i.common) = true := by simp [hv]
    simp only [hb, if_true]
    have hcr : commonRowids i (if i.ndim > 1 then some (k.getD 1 0) else none) = commonRowidsHi i (k.drop 1) := by
      unfold commonRowids
      by_cases h2 : i.ndim > 1
      · simp only [h2, if_true]
        have : k.length = 2 := by omega
        match k, this with
        | [a, b], _ => simp
      · simp only [h2, if_false]
        have : k.length = 1 := by have := h.ndimPos; omega
        match k, this with
        | [a], _ => simp
    rw [hcr]
    by_cases hemp : (commonRowidsHi i (k.drop 1)).isEmpty = true
    · simp only [hemp, if_true, Option.getD_none, List.not_mem_nil, false_iff]
      intro hh
      have := (mem_commonRowidsHi_dense i h (k.drop 1) r).mpr ⟨hh.1, by rw [hh.2, hv]⟩
      have hnil : commonRowidsHi i (k.drop 1) = [] := by simpa using hemp
      rw [hnil] at this; simp at this
    · simp only [hemp, Bool.false_eq_true, if_false, Option.getD_some]
      rw [mem_commonRowidsHi_dense i h, hv]
  · have hb : (true && val0 k == i.common) = false := by simp [hv]
    simp only [hb, Bool.false_eq_true, if_false]
    have hl := listed_iff_dense i h k hpos hv r
    constructor
    · intro hr
      cases hg : dget i.entries k with
      | none => rw [hg] at hr; simp at hr
      | some rows =>
        rw [hg] at hr
        have := hl.mp ⟨rows, dget_some_mem _ _ _ hg, by simpa using hr⟩
        exact ⟨this.1, this.2.2⟩
    · rintro ⟨hr, hd⟩
      have hex : ∃ e ∈ i.entries, e.1.drop 1 = k.drop 1 ∧ r ∈ e.2 := by
        by_cases hex : ∃ e ∈ i.entries, e.1.drop 1 = k.drop 1 ∧ r ∈ e.2
        · exact hex
        · have := denseAt_of_not_mem i r (k.drop 1) (fun e he h1 h2 => hex ⟨e, he, h1, h2⟩)
          rw [this] at hd
          exact absurd hd.symm hv
      obtain ⟨rows, hm, hrr⟩ := hl.mpr ⟨hr, hex, hd⟩
      have := dget_of_mem i.entries h.keys _ hm
      simp only at this
      rw [this]
      simpa using hrr

/-- **`common_rowids(col)`** is `numpy.where(column == common)` -/
theorem commonRowids_spec (i : IIndex) (h : WF i) (hi : List Int) (r : Nat) :
    r ∈ commonRowidsHi i hi ↔ r < i.nrows ∧ denseAt i r hi = i.common :=
  mem_commonRowidsHi_dense i h hi r

/-- **`items(force=True)` / `to_dict(force=True)`**: every item `(key, rows)` lists exactly the rows where the
dense array holds `key[0]` in column `key[1:]` — the explicit entries and the materialised common rows alike -/
theorem itemsForce_spec (i : IIndex) (h : WF i) (hnd : i.ndim ≤ 2) (x : Key × Rows) (hx : x ∈ itemsForce i) (r : Nat) :
    r ∈ x.2 ↔ r < i.nrows ∧ denseAt i r (x.1.drop 1) = val0 x.1 := by
  unfold itemsForce at hx
  have hentry : ∀ e ∈ i.entries, (r ∈ e.2 ↔ r < i.nrows ∧ denseAt i r (e.1.drop 1) = val0 e.1) := by
    intro e he
    have hpos : 0 < e.1.length := by rw [h.arity e he]; exact h.ndimPos
    have := listed_iff_dense i h e.1 hpos (h.noCommon e he) r
    constructor
    · intro hr
      have := this.mp ⟨e.2, he, hr⟩
      exact ⟨this.1, this.2.2⟩
    · rintro ⟨hr, hd⟩
      by_cases hex : ∃ e' ∈ i.entries, e'.1.drop 1 = e.1.drop 1 ∧ r ∈ e'.2
      · obtain ⟨rows, hm, hrr⟩ := this.mpr ⟨hr, hex, hd⟩
        have h1 := dget_of_mem i.entries h.keys _ hm
        have h2 := dget_of_mem i.entries h.keys _ he
        simp only at h1 h2
        rw [h1] at h2; cases h2; exact hrr
      · have := denseAt_of_not_mem i r (e.1.drop 1) (fun e' he' h1 h2 => hex ⟨e', he', h1, h2⟩)
        rw [this] at hd
        exact absurd hd.symm (h.noCommon e he)
  by_cases h1 : i.ndim = 1
  · simp only [h1, if_true, List.mem_append, List.mem_singleton] at hx
    rcases hx with hx | rfl
    · exact hentry x hx
    · have : commonRowids i none = commonRowidsHi i [] := by unfold commonRowids; simp [h1]
      simp only [this, List.drop_succ_cons, List.drop_zero, List.drop_nil]
      rw [mem_commonRowidsHi_dense i h]; rfl
  · simp only [h1, if_false, List.mem_append, List.mem_map, List.mem_range] at hx
    rcases hx with hx | ⟨c, _, rfl⟩
    · exact hentry x hx
    · have h2 : i.ndim > 1 := by have := h.ndimPos; omega
      have : commonRowids i (some (c : Int)) = commonRowidsHi i [(c : Int)] := by unfold commonRowids; simp [h2]
      simp only [this, List.drop_succ_cons, List.drop_zero]
      rw [mem_commonRowidsHi_dense i h]; rfl

end Catii.IIdx
