import CatiiModel.Gen.KernelsGen
import CatiiProofs.KernLoops
import CatiiProofs.KernGenBridge
/-!
# The k-way union REGENERATED from `set_union_merge_many` and the hand-written checked loop

The generated kernel keeps the source's arrays (`pointers`, `limits` as `long[:]` arrays indexed by `arrnum`, the `-1`
sentinel of `min_arrnum` in Z); the hand-written `manyLoop` folds over a list of (pointer, limit) pairs with an `Option`.
-/
set_option linter.unusedSimpArgs false
set_option linter.unusedVariables false
namespace Catii.Kern
open Catii.KernGen

/-- the (pointer, limit) pairs the two arrays stand for -/
def pairsOf (par lim : Array Nat) : List (Nat × Nat) := par.toList.zip lim.toList

/-- `min_arrnum == -1` means "no minimum yet" -/
def decMin (ma : Int) (mv : Nat) : Option Nat := if ma = -1 then none else some mv

theorem pairsOf_drop (par lim : Array Nat) (k : Nat) (h1 : k < par.size) (h2 : k < lim.size) :
    (pairsOf par lim).drop k = (par[k], lim[k]) :: (pairsOf par lim).drop (k + 1) := by
  unfold pairsOf
  have hk : k < (par.toList.zip lim.toList).length := by simp; omega
  rw [List.drop_eq_getElem_cons hk]
  simp

theorem pairsOf_drop_end (par lim : Array Nat) (k : Nat) (h : par.size ≤ k) : (pairsOf par lim).drop k = [] := by
  unfold pairsOf
  apply List.drop_eq_nil_of_le
  simp; omega

/-- the scan for the minimum: the generated `for arrnum in range(num_arrays)` loop is the fold of `manyScanStep` -/
theorem scan_bridge (V lim par : Array Nat) (n : Nat) (hp : par.size = n) (hl : lim.size = n)
    (ptr mv : Nat) (ma : Int) (k : Nat) :
    (set_union_merge_many.loop2 n V lim par ptr mv ma k >>= fun r => (pure (decMin r.2.2.1 r.2.1) : M (Option Nat)))
      = ((pairsOf par lim).drop k).foldlM (manyScanStep V) (decMin ma mv) := by
  fun_induction set_union_merge_many.loop2 n V lim par ptr mv ma k
  case case1 ptr mv ma k hk ih1 ih2 ih3 =>
    rw [pairsOf_drop par lim k (by omega) (by omega), List.foldlM_cons]
    rw [rd_ok par k (by omega), rd_ok lim k (by omega)]
    simp only [pure_bind]
    by_cases hge : par[k] ≥ lim[k]
    · simp only [hge, if_true]
      rw [ih1 par[k] lim[k]]
      simp [manyScanStep, hge]
    · simp only [hge, if_false, bind_assoc]
      simp only [manyScanStep, hge, if_false, bind_assoc, pure_bind]
      congr 1; funext v
      by_cases hc : ma = -1 ∨ v < mv
      · simp only [hc, if_true]
        rw [ih2 par[k] lim[k] v]
        congr 1
        unfold decMin
        rcases hc with h | h
        · simp [h]
        · by_cases hm : ma = -1
          · simp [hm]
          · simp [hm, h]
      · simp only [hc, if_false]
        rw [ih3 par[k] lim[k] v]
        congr 1
        unfold decMin
        have hm : ¬ ma = -1 := fun h => hc (Or.inl h)
        have hv : ¬ v < mv := fun h => hc (Or.inr h)
        simp [hm, hv]
  case case2 ptr mv ma k hk =>
    rw [pairsOf_drop_end par lim k (by omega)]
    simp

theorem zip_set_left (l : List Nat) (m : List Nat) (k x : Nat) (hk : k < m.length) :
    (l.set k x).zip m = (l.zip m).set k (x, m[k]) := by
  induction l generalizing m k with
  | nil => simp
  | cons a l ih =>
    cases m with
    | nil => simp at hk
    | cons b m =>
      cases k with
      | zero => simp
      | succ k => simp [ih m k (by simpa using hk)]

theorem take_succ_set {α : Type} (l : List α) (k : Nat) (p : α) (h : k < l.length) :
    (l.set k p).take (k + 1) = l.take k ++ [p] := by
  induction l generalizing k with
  | nil => simp at h
  | cons a l ih =>
    cases k with
    | zero => simp
    | succ k => simp [ih k (by simpa using h)]

theorem drop_succ_set {α : Type} (l : List α) (k : Nat) (p : α) : (l.set k p).drop (k + 1) = l.drop (k + 1) := by
  induction l generalizing k with
  | nil => simp
  | cons a l ih =>
    cases k with
    | zero => simp
    | succ k => simp [ih k]

theorem pairsOf_set (par lim : Array Nat) (k x : Nat) (hl : k < lim.size) :
    pairsOf (par.setIfInBounds k x) lim = (pairsOf par lim).set k (x, lim[k]) := by
  unfold pairsOf
  rw [Array.toList_setIfInBounds, zip_set_left _ _ _ _ (by simpa using hl)]
  simp

theorem pairsOf_getElem (par lim : Array Nat) (k : Nat) (h : k < (pairsOf par lim).length) (h1 : k < par.size)
    (h2 : k < lim.size) : (pairsOf par lim)[k] = (par[k], lim[k]) := by
  unfold pairsOf at h ⊢
  simp [List.getElem_zip]

/-- the advance step: the generated loop over `arrnum` that rewrites `pointers[arrnum]` is the `mapM` of `manyAdvStep`
over the pairs not yet visited, the pairs already visited staying as they are -/
theorem adv_bridge (V lim : Array Nat) (n : Nat) (hl : lim.size = n) (mv : Nat) (par : Array Nat) (ptr k : Nat) :
    par.size = n →
    (set_union_merge_many.loop3 n V lim par ptr mv k >>= fun r => (pure (pairsOf r.1 lim, r.1.size) : M (List (Nat × Nat) × Nat)))
      = (((pairsOf par lim).drop k).mapM (manyAdvStep V mv) >>= fun t => pure ((pairsOf par lim).take k ++ t, n)) := by
  fun_induction set_union_merge_many.loop3 n V lim par ptr mv k
  case case1 par ptr k hk ih2 ih1 =>
    intro hp
    rw [pairsOf_drop par lim k (by omega) (by omega), List.mapM_cons]
    rw [rd_ok par k (by omega), rd_ok lim k (by omega)]
    simp only [pure_bind, bind_assoc]
    have htake : (pairsOf par lim).take (k + 1) = (pairsOf par lim).take k ++ [(par[k], lim[k])] := by
      have hk' : k < (pairsOf par lim).length := by unfold pairsOf; simp; omega
      rw [List.take_succ_eq_append_getElem hk', pairsOf_getElem par lim k hk' (by omega) (by omega)]
    by_cases hlt : par[k] < lim[k]
    · simp only [hlt, if_true, bind_assoc]
      simp only [manyAdvStep, hlt, if_true, bind_assoc, pure_bind]
      congr 1; funext v
      by_cases hv : v = mv
      · simp only [hv, if_true, beq_self_eq_true]
        have hw : wrAt par k (par[k] + 1) = pure (par.setIfInBounds k (par[k] + 1)) := by
          have : k < par.size := by omega
          simp [wrAt, this]
        rw [hw]; simp only [pure_bind]
        rw [ih2 par[k] lim[k] _ (by rw [Array.size_setIfInBounds]; exact hp)]
        rw [pairsOf_set par lim k _ (by omega)]
        rw [drop_succ_set]
        rw [take_succ_set _ _ _ (by unfold pairsOf; simp; omega)]
        simp [List.append_assoc]
      · have hb : (v == mv) = false := by simpa using hv
        simp only [hv, if_false, hb, Bool.false_eq_true]
        rw [ih1 par[k] lim[k] hp, htake]
        simp [List.append_assoc]
    · simp only [hlt, if_false]
      simp only [manyAdvStep, hlt, if_false, pure_bind]
      rw [ih1 par[k] lim[k] hp, htake]
      simp [List.append_assoc]
  case case2 par ptr k hk =>
    intro hp
    rw [pairsOf_drop_end par lim k (by omega)]
    simp only [List.mapM_nil, pure_bind, List.append_nil]
    rw [List.take_of_length_le (by unfold pairsOf; simp; omega), hp]

theorem M_bind_pure_ok {α β : Type} (m : M α) (f : α → β) (b : β) (h : (m >>= fun a => (pure (f a) : M β)) = .ok b) :
    ∃ a, m = .ok a ∧ f a = b := by
  cases m with
  | error e => cases h
  | ok a => exact ⟨a, rfl, by injection h⟩

theorem M_bind_pure_err {α β : Type} (m : M α) (f : α → β) (e : Err) (h : (m >>= fun a => (pure (f a) : M β)) = .error e) :
    m = .error e := by
  cases m with
  | error e' => injection h with h'; rw [h']
  | ok a => cases h

/-- the whole `while 1:` loop: with the same fuel the generated loop (arrays, sentinel) and the hand-written one (pairs,
`Option`) do the same, including running out of fuel and every out-of-bounds outcome -/
theorem many_loop_bridge (V lim : Array Nat) (n : Nat) (hl : lim.size = n) (fuel : Nat) :
    ∀ (par res : Array Nat) (rn : Nat) (out : Array Nat) (ptr mv : Nat), par.size = n → Pref res rn out →
      (set_union_merge_many.loop1 fuel n V lim par res rn ptr mv >>= fin2)
        = manyLoop V res.size fuel (pairsOf par lim) out := by
  induction fuel with
  | zero => intro par res rn out ptr mv hp hpref; rfl
  | succ fuel ih =>
    intro par res rn out ptr mv hp hpref
    rw [set_union_merge_many.loop1, manyLoop]
    -- what follows the scan, as a function of "the minimum, if any"
    let K : Option Nat → M (Array Nat) := fun m =>
      match m with
      | none => pure out
      | some mv' => do
        let out' ← wr out res.size mv'
        let ps' ← (pairsOf par lim).mapM (manyAdvStep V mv')
        manyLoop V res.size fuel ps' out'
    have hscan := scan_bridge V lim par n hp hl ptr mv (-1) 0
    simp only [List.drop_zero] at hscan
    have hdec0 : decMin (-1) mv = none := by simp [decMin]
    rw [hdec0] at hscan
    have hK : ∀ r : Nat × Nat × Int × Nat,
        ((if r.2.2.1 = (-1 : Int) then (pure (res, rn) : M (Array Nat × Nat)) else
            wrAt res rn r.2.1 >>= fun res5 =>
              set_union_merge_many.loop3 n V lim par r.1 r.2.1 0 >>= fun r10 =>
                set_union_merge_many.loop1 fuel n V lim r10.1 res5 (rn + 1) r10.2 r.2.1) >>= fin2)
          = K (decMin r.2.2.1 r.2.1) := by
      intro r
      by_cases hm : r.2.2.1 = (-1 : Int)
      · simp only [hm, if_true, decMin, K, pure_bind, fin2, hpref.extract]
      · simp only [hm, if_false, decMin, K, bind_assoc]
        rcases wr_bridge hpref r.2.1 with ⟨_, h1, h2, hp'⟩ | ⟨h1, h2⟩
        · rw [h1, h2]; simp only [pure_bind]
          have hadv := adv_bridge V lim n hl r.2.1 par r.1 0 hp
          simp only [List.drop_zero, List.take_zero, List.nil_append] at hadv
          cases h3 : set_union_merge_many.loop3 n V lim par r.1 r.2.1 0 with
          | error e =>
            rw [h3] at hadv
            have := M_bind_pure_err _ _ e hadv.symm
            rw [this]; rfl
          | ok r10 =>
            rw [h3] at hadv
            obtain ⟨t, ht, hte⟩ := M_bind_pure_ok _ _ _ hadv.symm
            rw [ht]
            simp only [Prod.mk.injEq] at hte
            have hsz : r10.1.size = n := hte.2.symm ▸ rfl
            show (set_union_merge_many.loop1 fuel n V lim r10.1 (res.setIfInBounds rn r.2.1) (rn + 1) r10.2 r.2.1 >>= fin2) = _
            rw [ih r10.1 _ _ _ r10.2 r.2.1 hsz hp', hte.1]
            simp only [Array.size_setIfInBounds]
            rfl
        · rw [h1, h2]; rfl
    calc (set_union_merge_many.loop2 n V lim par ptr mv (-1) 0 >>= fun r_4 =>
            if r_4.2.2.1 = (-1 : Int) then (pure (res, rn) : M (Array Nat × Nat)) else
              wrAt res rn r_4.2.1 >>= fun result_5 =>
                set_union_merge_many.loop3 n V lim par r_4.1 r_4.2.1 0 >>= fun r_10 =>
                  set_union_merge_many.loop1 fuel n V lim r_10.1 result_5 (rn + 1) r_10.2 r_4.2.1) >>= fin2
        = (set_union_merge_many.loop2 n V lim par ptr mv (-1) 0 >>= fun r => K (decMin r.2.2.1 r.2.1)) := by
          rw [bind_assoc]; congr 1; funext r; exact hK r
      _ = ((set_union_merge_many.loop2 n V lim par ptr mv (-1) 0 >>= fun r => (pure (decMin r.2.2.1 r.2.1) : M (Option Nat))) >>= K) := by
          rw [bind_assoc]; simp only [pure_bind]
      _ = ((pairsOf par lim).foldlM (manyScanStep V) none >>= K) := by rw [hscan]
      _ = _ := by
          first | rfl | (congr 1; funext m; cases m <;> rfl)

/-! ### the NumPy prelude of the kernel -/

theorem filter_map_toList (arrays : List (Array Nat)) :
    (arrays.map Array.toList).filter (· ≠ []) = (arrays.filter fun a => a.size ≠ 0).map Array.toList := by
  induction arrays with
  | nil => rfl
  | cons a as ih =>
    simp only [List.map_cons, List.filter_cons]
    by_cases h : a.size = 0
    · have h1 : a.toList = [] := by simpa using h
      have e1 : decide (a.toList ≠ []) = false := by simp [h1]
      have e2 : decide (a.size ≠ 0) = false := by simp [h]
      rw [e1, e2]; simpa using ih
    · have h1 : a.toList ≠ [] := by simpa using h
      have e1 : decide (a.toList ≠ []) = true := by simp [h1]
      have e2 : decide (a.size ≠ 0) = true := by simp [h]
      rw [e1, e2]; simp only [if_true, List.map_cons]; rw [ih]

theorem foldl_append_toList (l : List (Array Nat)) (acc : Array Nat) :
    (l.foldl (· ++ ·) acc).toList = acc.toList ++ (l.map Array.toList).flatten := by
  induction l generalizing acc with
  | nil => simp
  | cons a l ih => simp [ih, List.append_assoc]

theorem concatAll_eq (l : List (Array Nat)) : concatAll l = (l.map Array.toList).flatten.toArray := by
  apply Array.toList_inj.mp
  simp [concatAll, foldl_append_toList]

theorem segments_eq (acc : Nat) (ls : List Nat) :
    (List.zipWith (· - ·) (cumsumFrom acc ls) ls).zip (cumsumFrom acc ls) = segments acc ls := by
  induction ls generalizing acc with
  | nil => rfl
  | cons x xs ih => simp [cumsumFrom, segments, ih]

theorem cumsumFrom_length (acc : Nat) (ls : List Nat) : (cumsumFrom acc ls).length = ls.length := by
  induction ls generalizing acc with
  | nil => rfl
  | cons x xs ih => simp [cumsumFrom, ih]

/-- **the regenerated `set_union_merge_many` is the hand-written checked loop**, for every list of arrays (sorted or not,
empty ones included) and whatever the freshly allocated result buffer held, when given `len(values) + 1` rounds of fuel -
which `union_many_in_bounds` shows is never exhausted -/
theorem gen_union_many_eq (junk : Nat → Nat) (arrays : List (Array Nat)) :
    set_union_merge_many junk ((concatAll (arrays.filter fun a => a.size ≠ 0)).size + 1) arrays = unionManyChecked arrays := by
  unfold set_union_merge_many unionManyChecked
  rw [filter_map_toList]
  generalize hv : (arrays.filter fun a => a.size ≠ 0) = vas
  by_cases h0 : vas.length = 0
  · have : vas = [] := List.length_eq_zero_iff.mp h0
    subst this
    simp
  · have hne : ¬ vas.map Array.toList = [] := by
      intro h; apply h0; simpa using congrArg List.length h
    simp only [h0, if_false, hne]
    have hlen : (cumsumArr (vas.map fun a => a.size).toArray).size = vas.length := by
      simp [cumsumArr, cumsumFrom_length]
    have hplen : (zipSub (cumsumArr (vas.map fun a => a.size).toArray) (vas.map fun a => a.size).toArray).size = vas.length := by
      simp [zipSub, cumsumArr, cumsumFrom_length]
    have hloop := many_loop_bridge (concatAll vas) (cumsumArr (vas.map fun a => a.size).toArray) vas.length hlen
      ((concatAll vas).size + 1) (zipSub (cumsumArr (vas.map fun a => a.size).toArray) (vas.map fun a => a.size).toArray)
      (numpyEmpty (concatAll vas).size junk) 0 #[] 0 0 hplen (Pref.empty _)
    have hpairs : pairsOf (zipSub (cumsumArr (vas.map fun a => a.size).toArray) (vas.map fun a => a.size).toArray)
        (cumsumArr (vas.map fun a => a.size).toArray) = segments 0 ((vas.map Array.toList).map List.length) := by
      unfold pairsOf zipSub cumsumArr
      simp only [List.toList_toArray]
      rw [segments_eq]
      congr 1
      simp [List.map_map]
    rw [hpairs] at hloop
    simp only [numpyEmpty_size] at hloop
    rw [concatAll_eq] at hloop ⊢
    exact hloop

end Catii.Kern
