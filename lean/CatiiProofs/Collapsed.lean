import CatiiProofs.FromArrayWf
/-! `collapsed(precedence, mapping)` returns a well-formed index (C07): its result is built by `from_array` from a
per-row output array. Core Lean only. -/
namespace Catii.IIdx
open Catii.Kern

theorem colSetRows_size (n : Nat) (a a' : Array Int) (rows : Rows) (v : Int)
    (h : colSetRows n a rows v = .ok a') : a'.size = a.size := by
  unfold colSetRows at h
  induction rows generalizing a with
  | nil => simp only [List.foldlM_nil, pure, Except.pure] at h; cases h; rfl
  | cons r rest ih =>
    simp only [List.foldlM_cons] at h
    by_cases hr : r ≥ n
    · simp [hr, bind, Except.bind, throw, throwThe, MonadExceptOf.throw] at h
    · simp only [hr, if_false, bind, Except.bind, pure, Except.pure] at h
      rw [ih _ h, Array.set!_eq_setIfInBounds, Array.size_setIfInBounds]

theorem colInner_size (n : Nat) (coord : Int) (st st' : Array Int × Array Int × Bool) (rows : Rows)
    (h : colInner n coord st rows = .ok st') : st'.1.size = st.1.size := by
  unfold colInner at h
  simp only [bind, Except.bind] at h
  cases hs : colSetRows n st.1 rows coord with
  | error e => rw [hs] at h; cases h
  | ok out' =>
    rw [hs] at h
    simp only at h
    have hsz := colSetRows_size n st.1 out' rows coord hs
    by_cases hw : (!st.2.2) = true
    · simp only [hw, if_true] at h
      cases hd : colDec n st.2.1 rows with
      | error e => rw [hd] at h; cases h
      | ok cc' =>
        rw [hd] at h
        simp only [pure, Except.pure, Except.ok.injEq] at h
        rw [← h]; exact hsz
    · simp only [hw, Bool.false_eq_true, if_false, pure, Except.pure, Except.ok.injEq] at h
      rw [← h]; exact hsz

theorem colStep_size (n : Nat) (dt : DT) (nc : Int) (gget : Int → List Rows)
    (st st' : Array Int × Array Int × Bool) (coord : Int)
    (h : colStep n dt nc gget st coord = .ok st') : st'.1.size = st.1.size := by
  unfold colStep at h
  by_cases hc : (coord == nc) = true
  · simp only [hc, if_true, pure, Except.pure, Except.ok.injEq] at h
    subst h
    simp only
    generalize List.range n = l
    generalize hst1 : st.1 = out
    clear hst1
    induction l generalizing out with
    | nil => rfl
    | cons r rest ih =>
      simp only [List.foldl_cons]
      rw [ih]
      split
      · rw [Array.set!_eq_setIfInBounds, Array.size_setIfInBounds]
      · rfl
  · simp only [hc, Bool.false_eq_true, if_false] at h
    by_cases hd : (!dt.contains coord) = true
    · simp [hd, throw, throwThe, MonadExceptOf.throw] at h
    · simp only [hd, Bool.false_eq_true, if_false] at h
      generalize gget coord = ls at h
      induction ls generalizing st with
      | nil => simp only [List.foldlM_nil, pure, Except.pure] at h; cases h; rfl
      | cons rows rest ih =>
        rw [List.foldlM_cons] at h
        cases hs : colInner n coord st rows with
        | error e => simp only [hs, bind, Except.bind] at h; cases h
        | ok st1 =>
          simp only [hs, bind, Except.bind] at h
          rw [ih st1 h, colInner_size n coord st st1 rows hs]

theorem colFold_size (n : Nat) (dt : DT) (nc : Int) (gget : Int → List Rows) (prec : List Int)
    (st st' : Array Int × Array Int × Bool) (h : prec.foldlM (colStep n dt nc gget) st = .ok st') :
    st'.1.size = st.1.size := by
  induction prec generalizing st with
  | nil => simp only [List.foldlM_nil, pure, Except.pure] at h; cases h; rfl
  | cons c rest ih =>
    rw [List.foldlM_cons] at h
    cases hs : colStep n dt nc gget st c with
    | error e => simp only [hs, bind, Except.bind] at h; cases h
    | ok st1 =>
      simp only [hs, bind, Except.bind] at h
      rw [ih st1 h, colStep_size n dt nc gget st st1 c hs]

theorem collapseCore_size (numrows numcols : Nat) (dt : DT) (nc : Int) (gathered : List (Int × List Rows))
    (prec head : List Int) (default : Int) (out : Array Int)
    (h : collapseCore numrows numcols dt nc gathered prec head default = .ok out) : out.size = numrows := by
  unfold collapseCore at h
  simp only [bind, Except.bind] at h
  split at h
  · cases h
  · rename_i cc _
    split at h
    · cases h
    · rename_i st hst
      simp only [pure, Except.pure, Except.ok.injEq] at h
      rw [← h, colFold_size _ _ _ _ _ _ _ hst]
      simp

/-- **`collapsed` returns a well-formed index** — for every receiver, precedence list and mapping: the result
is `from_array` of a one-column output array -/
theorem collapsed_wf (i : IIndex) (prec : List Int) (mapping : Option (List (Int × Int))) (res : IIndex)
    (h : collapsed i prec mapping = .ok res) : WF res := by
  unfold collapsed at h
  split at h
  · cases h
  · simp only at h
    split at h
    · simp only [pure, Except.pure, Except.ok.injEq] at h
      subst h
      refine ⟨List.Pairwise.nil, ?_, by simp [IIndex.ndim], ?_, ?_, ?_, ?_, ?_, ?_⟩ <;> intro e he <;> simp at he
    · split at h
      · cases h
      · split at h
        · cases h
        · simp only [bind, Except.bind] at h
          split at h
          · cases h
          · rename_i out hout
            split at h
            · cases h
            · rename_i r hr
              simp only [pure, Except.pure, Except.ok.injEq] at h
              subst h
              have hsz := collapseCore_size _ _ _ _ _ _ _ _ _ hout
              have harr : ArrOK { shape := [i.shape.getD 0 0], data := out.toList } :=
                ⟨Or.inl rfl, by simp [prod, hsz]⟩
              exact fromArray_wf { shape := [i.shape.getD 0 0], data := out.toList } {} r.1 r.2 harr
                (by rw [hr]) (fun c hc => by simp at hc)

end Catii.IIdx
