import CatiiModel.Gen.ValidateGen
/-! `iindex.validate(True)` as REGENERATED from the source (`tools/translate_validate.py`) accepts exactly what the model's
`validates` accepts: "as many row ids as distinct ones, and equal to the sorted distinct ones" is "strictly increasing". -/
namespace Catii.IIdx

theorem sortedStrict_cons2 (a b : Nat) (l : List Nat) :
    sortedStrict (a :: b :: l) = (decide (a < b) && sortedStrict (b :: l)) := rfl

theorem insertUniq_head (a : Nat) (l : List Nat) (h : sortedStrict l = true) :
    sortedStrict (insertUniq a l) = true ∧ ∀ x, (insertUniq a l).head? = some x → x = a ∨ l.head? = some x := by
  induction l with
  | nil => simp [insertUniq, sortedStrict]
  | cons b bs ih =>
    unfold insertUniq
    by_cases h1 : a < b
    · simp only [h1, if_true]
      refine ⟨by rw [sortedStrict_cons2]; simp [h1, h], fun x hx => by simp at hx; exact Or.inl hx.symm⟩
    · by_cases h2 : a = b
      · subst h2
        simp only [Nat.lt_irrefl, if_false, if_true]
        exact ⟨h, fun x hx => Or.inr hx⟩
      · simp only [h1, h2, if_false]
        have hbs : sortedStrict bs = true := by
          cases bs with
          | nil => rfl
          | cons c cs => rw [sortedStrict_cons2] at h; simp at h; exact h.2
        obtain ⟨hs, hh⟩ := ih hbs
        refine ⟨?_, fun x hx => by simp at hx; exact Or.inr (by simp [hx])⟩
        cases hins : insertUniq a bs with
        | nil => rfl
        | cons c cs =>
          rw [sortedStrict_cons2, ← hins, hs]
          have := hh c (by rw [hins]; rfl)
          rcases this with rfl | hc
          · simp; omega
          · cases bs with
            | nil => simp at hc
            | cons d ds =>
              simp at hc; subst hc
              rw [sortedStrict_cons2] at h; simp at h; simp [h.1]

theorem npUnique_sorted (l : List Nat) : sortedStrict (npUnique l) = true := by
  induction l with
  | nil => rfl
  | cons a l ih => exact (insertUniq_head a _ ih).1

theorem npUnique_of_sorted (l : List Nat) (h : sortedStrict l = true) : npUnique l = l := by
  induction l with
  | nil => rfl
  | cons a l ih =>
    have hl : sortedStrict l = true := by
      cases l with
      | nil => rfl
      | cons c cs => rw [sortedStrict_cons2] at h; simp at h; exact h.2
    show insertUniq a (npUnique l) = a :: l
    rw [ih hl]
    cases l with
    | nil => rfl
    | cons c cs =>
      rw [sortedStrict_cons2] at h; simp at h
      simp [insertUniq, h.1]

/-- the two NumPy tests of `validate` together are "strictly increasing" -/
theorem unique_tests (l : List Nat) :
    ((l.length == (npUnique l).length) && (l == npUnique l)) = sortedStrict l := by
  cases hs : sortedStrict l with
  | true => simp [npUnique_of_sorted l hs]
  | false =>
    have : (l == npUnique l) = false := by
      cases he : (l == npUnique l) with
      | false => rfl
      | true =>
        have : l = npUnique l := by simpa using he
        rw [this, npUnique_sorted] at hs; cases hs
    simp [this]

theorem gen_validate_eq (i : IIndex) : Gen.validateGen i = validates i := by
  unfold Gen.validateGen validates
  congr 1
  · apply List.all_congr rfl
    intro e
    obtain ⟨k, v⟩ := e
    show (!(val0 k == i.common) && (v.length == (npUnique v).length) && (v == npUnique v)) = (val0 k != i.common && sortedStrict v)
    rw [Bool.and_assoc, unique_tests]; rfl
  · apply List.all_congr rfl
    intro e
    obtain ⟨k, v⟩ := e
    apply List.all_congr rfl
    intro f
    obtain ⟨k', v'⟩ := f
    show (!((val0 k != val0 k') && (k.drop 1 == k'.drop 1)) || (v.filter fun r => v'.contains r).isEmpty)
      = (!(val0 k != val0 k' && k.drop 1 == k'.drop 1) || v.all (fun r => !v'.contains r))
    congr 1
    rw [Bool.eq_iff_iff]
    simp [List.isEmpty_iff, List.filter_eq_nil_iff]

end Catii.IIdx
